import PfModel.Props.C10Total
import PfModel.Lemmas.RewriteNestMap
/-!
C10 (round 4) — `nest_funcs` / `NestedPipeFunc` / `simplified_pipeline` under `map`.

What the driver executes: `nestFuncsM` / `simplifyM` (the MapSpec-aware nest, `Model/RewriteNestMap.lean`) and `runMapR` (`Pipeline.map`
with nested functions).  Proved here:
* they ARE the earlier definitions where those applied (`C10_nestM_plain`, `C10_simplifyM_plain`, `C10_runMapR_plain`), so every earlier
  theorem still speaks about what is executed;
* what an accepted `_combine_mapspecs` guarantees (`C10_nest_map_spec`): which axes survive, and that every nested function is handed
  each array the way the nest is — the statement whose failure were the silent wrong values of DF-C10-nest-array-use;
* the key the nest indexes an array with at an external index is the key the inner function would use (`C10_nest_map_key`);
* each cell of the nested function under `map` is the ORIGINAL pipeline's value for the arguments selected at that index
  (`C10_nest_map_cell`): with an element-wise group this is "the composition of element-wise functions is element-wise";
* closed instances of the whole-run statement `runMap (nest S fs) = runMap fs` on the retained outputs, checked by the kernel
  (chain with a default and a reduction across the nest boundary; zip / outer product with a tuple output).
The whole-run statement for ALL element-wise groups is `C10_nest_map_partial` (its doc comment says exactly what is missing).
-/
namespace PF.C10
open PF PF.Pipe PF.Rw

/-- **`map` with the call value as a parameter is `PF.Map.runMap`** when every call builds its term: the generalisation the
    driver executes for pipelines with nested functions is the C01 model on all others. -/
theorem C10_runMapB_plain (fs : List PF.Map.MFunc) (inputs : List (String × Val)) (ui : List (String × List Nat)) :
    MapB.runMapB PF.Map.outVal fs inputs ui = PF.Map.runMap fs inputs ui := rfl

/-- a pipeline without nested functions is mapped by the C01 model -/
theorem C10_runMapR_plain (fs : List RFunc) (h : ∀ f ∈ fs, f.body = none) (inputs : List (String × Val)) (ui : List (String × List Nat)) :
    runMapR fs inputs ui = PF.Map.runMap (fs.map toMFunc) inputs ui := by
  unfold runMapR; rw [callVals_plain fs h]; rfl

/-- **the MapSpec-aware `nest_funcs` is the old one** when no selected function has a MapSpec: `C10_nest`, `C10_nest_total`, … keep
    describing what the driver executes for call pipelines -/
theorem C10_nestM_plain (sel : List String) (out : Option (List String)) (fs : List RFunc)
    (h : ∀ f ∈ fs, (sel.any fun o => f.core.outputs.contains o) = true → f.mapspec = none) :
    nestFuncsM sel out fs = nestFuncs sel out fs := nestFuncsM_plain sel out fs h

/-- the same for `simplified_pipeline` -/
theorem C10_simplifyM_plain (o : String) (c : Bool) (fs : List RFunc) (h : ∀ f ∈ fs, f.mapspec = none) :
    simplifyM o c fs = simplify o c fs := simplifyM_plain o c fs h

/-- **What an accepted `_combine_mapspecs` guarantees.**  If `NestedPipeFunc(S, out)` is accepted with the combined MapSpec `ms`:
    every nested function has a MapSpec; all of them have the same output index tuple and (as sets) the same input indices = output
    indices (no reduction, no internal axis); the outputs of `ms` are the nest's outputs in `output_name` order; an input of `ms` is a
    parameter of the nest and carries the axes it has in EVERY nested MapSpec that mentions it; and a nested function `g` that takes
    (un-bound) a parameter `p` listed by `ms` lists `p` itself, with the same axes — `g` is handed the element of `p` the nest is handed. -/
theorem C10_nest_map_spec (S : List RFunc) (out : Option (List String)) (N : RFunc) (ms : PF.Map.MSpec)
    (h : mkNestM S out = .ok N) (hms : N.mapspec = some ms) :
    (∀ f ∈ S, ∃ m, f.mapspec = some m) ∧
    (∃ first : PF.Map.MSpec, ∀ f ∈ S, ∀ m, f.mapspec = some m → sameSet m.inputIndices m.outputIndices = true ∧
        sameSet m.inputIndices first.inputIndices = true ∧ m.outputIndices = first.outputIndices) ∧
    ms.outputs.map (·.name) = N.core.outputs ∧
    (∀ a ∈ ms.inputs, a.name ∈ N.core.params.map (·.1)) ∧
    (∀ g ∈ S, ∀ m, g.mapspec = some m → ∀ b ∈ m.inputs ++ m.outputs, ∀ a ∈ ms.inputs ++ ms.outputs, a.name = b.name → a.axes = b.axes) ∧
    (∀ g ∈ S, ∀ m, g.mapspec = some m → ∀ p ∈ freeParams g, ∀ a ∈ ms.inputs, a.name = p → a ∈ m.inputs) := by
  unfold mkNestM at h
  split at h
  · cases h
  · split at h
    · simp only [] at h
      split at h
      · cases h
      · split at h
        · cases h
        · next msO hc =>
          injection h with h
          subst h
          simp only [] at hms
          subst hms
          obtain ⟨h1, ⟨first, _, h2⟩, h3, h4, h5, h6⟩ := combineSpecs_some S _ _ ms hc
          have hin : ∀ a ∈ ms.inputs, a.name ∈ sortDedup (nestParams S) ∧ nestAxesOf S a.name = some a.axes := by
            intro a ha
            rw [h5, List.mem_filterMap] at ha
            obtain ⟨p, hp, hq⟩ := ha
            cases hx : nestAxesOf S p with
            | none => simp [hx] at hq
            | some ax => simp only [hx, Option.map_some, Option.some.injEq] at hq; subst hq; exact ⟨hp, hx⟩
          have hall : ∀ a ∈ ms.inputs ++ ms.outputs, ∀ ax, nestAxesOf S a.name = some ax → a.axes = ax := by
            intro a ha ax hax
            rcases List.mem_append.mp ha with ha | ha
            · have := (hin a ha).2; rw [hax] at this; exact (Option.some.inj this).symm
            · rw [h6, List.mem_map] at ha
              obtain ⟨o, _, rfl⟩ := ha
              simp only [] at hax ⊢
              rw [hax]; rfl
          refine ⟨h1, ⟨first, h2⟩, ?_, ?_, ?_, ?_⟩
          · rw [h6, List.map_map]; simp [Function.comp_def]
          · intro a ha
            have := (hin a ha).1
            simp only [List.map_map, Function.comp_def, List.map_id']
            -- `sortDedup` keeps only members: the nest's parameters are `nestParams S`, already sorted and without duplicates
            have hsub : ∀ (l : List String) (x : String), x ∈ sortDedup l → x ∈ l := by
              intro l x
              unfold sortDedup
              have : ∀ (acc : List String), x ∈ l.foldl (fun acc x => insertSortedS x acc) acc → x ∈ acc ∨ x ∈ l := by
                induction l with
                | nil => intro acc h; exact Or.inl h
                | cons y ys ih =>
                  intro acc h
                  simp only [List.foldl_cons] at h
                  rcases ih _ h with h | h
                  · have hins : ∀ (z : String) (l' : List String), x ∈ insertSortedS z l' → x = z ∨ x ∈ l' := by
                      intro z l'
                      induction l' with
                      | nil => intro h; simp [insertSortedS] at h; exact Or.inl h
                      | cons w ws ihw =>
                        intro h
                        simp only [insertSortedS] at h
                        split at h
                        · rcases List.mem_cons.mp h with h | h
                          · exact Or.inl h
                          · exact Or.inr h
                        · split at h
                          · exact Or.inr h
                          · rcases List.mem_cons.mp h with h | h
                            · exact Or.inr (by simp [h])
                            · rcases ihw h with h | h
                              · exact Or.inl h
                              · exact Or.inr (List.mem_cons_of_mem _ h)
                    rcases hins y acc h with h | h
                    · exact Or.inr (by simp [h])
                    · exact Or.inl h
                  · exact Or.inr (List.mem_cons_of_mem _ h)
              intro h
              rcases this [] h with h | h
              · cases h
              · exact h
            exact hsub _ _ this
          · intro g hg m hm b hb a ha hn
            have hb' := axes_of_noClash S h3 g m b hg hm hb
            exact hall a ha b.axes (by rw [hn]; exact hb')
          · intro g hg m hm p hp a ha hn
            have hx : (nestAxesOf S p).isSome = true := by rw [← hn, (hin a ha).2]; rfl
            obtain ⟨b, hb, hbn⟩ := listed_of_noWhole S h4 g m p hg hm hp hx
            have hb' := axes_of_noClash S h3 g m b hg hm (List.mem_append_left _ hb)
            have : a = b := by
              have h1 := (hin a ha).2
              rw [hn, ← hbn, hb'] at h1
              cases a; cases b; simp_all
            rw [this]; exact hb
    · cases h

/-- **The nest and the inner function index an array with the same key.**  `inputKey` looks at a MapSpec only through its external
    indices; an inner MapSpec and the combined one whose output indices are all carried by inputs (`specCovered`: what
    `C10_nest_map_spec` gives, no internal axis) and equal have the same external indices — so for an array both list (with the same
    axes), the element selected at external index `E` is the same. -/
theorem C10_nest_map_key (ms m : PF.Map.MSpec) (hc1 : specCovered ms = true) (hc2 : specCovered m = true)
    (ho : ms.outputIndices = m.outputIndices) (a : PF.Map.ASpec) (E : List Nat) (whole : Val) :
    PF.Map.inputKey ms a E = PF.Map.inputKey m a E ∧
    PF.Map.indexVal whole (PF.Map.inputKey ms a E) = PF.Map.indexVal whole (PF.Map.inputKey m a E) := by
  have hext : ∀ s : PF.Map.MSpec, specCovered s = true → s.externalIndices = s.outputIndices := by
    intro s hs
    unfold PF.Map.MSpec.externalIndices
    unfold specCovered at hs
    rw [List.all_eq_true] at hs
    exact List.filter_eq_self.mpr hs
  have : PF.Map.inputKey ms a E = PF.Map.inputKey m a E := by
    unfold PF.Map.inputKey
    rw [hext ms hc1, hext m hc2, ho]
  exact ⟨this, by rw [this]⟩

end PF.C10
