import PfModel.Core.Enum
/-!
L7 — storage arrays (`pipefunc/map/_storage_array/{_base,_dict,_file}.py`).

Three executable layers over one geometry `Geom = (shape, internal_shape, shape_mask)`:

* the shared front end: `normalizeKey` (`_base.py:136-177`, as repaired for DF-11), Python's `slice.indices` + `range`
  (`sliceRange`), `itertools.product` (`product`), `_key_to_file` (`keyToFile`);
* two operational back ends: `dStep` (a `dict` keyed by external index: `DictArray`, `SharedMemoryDictArray`) and
  `fStep` (a folder of files keyed by linear index: `FileArray`);
* the specification `aStep`: a masked n-d object array as a function from external keys to optional elements.

An element is the flat row-major list of the atoms of one stored value (`prod internal` atoms; a single atom when
there is no internal shape).  NumPy itself is trusted for: `a[I]` of an element = position `ravel internal I` of its
flat list, `x.flat` / `reshape` = row-major order, assignment through a tuple index.
-/
namespace PF.St

/-! ### association lists: a Python `dict`, a directory of files -/

def alook {K V} [DecidableEq K] : List (K × V) → K → Option V
  | [], _ => none
  | (k, v) :: r, x => if k = x then some v else alook r x

/-- `d[k] = v` / overwrite a file: replaces in place, else appends (insertion order of a `dict`) -/
def ains {K V} [DecidableEq K] : List (K × V) → K → V → List (K × V)
  | [], x, v => [(x, v)]
  | (k, w) :: r, x, v => if k = x then (k, v) :: r else (k, w) :: ains r x v

/-! ### geometry -/

/-- `shape`, `internal_shape`, `shape_mask` (`_base.py:48-50`) -/
structure Geom where
  shape : List Nat
  internal : List Nat
  mask : List Bool
deriving DecidableEq, Repr

/-- `full_shape` (`_base.py:100-103`) -/
def Geom.full (g : Geom) : List Nat := selectByMask g.mask g.shape g.internal
/-- `size` (`_base.py:90-93`) -/
def Geom.size (g : Geom) : Nat := prod g.shape

/-- what the constructors assume: one `True` per external axis, one `False` per internal axis -/
def Geom.WF (g : Geom) : Prop := g.shape.length = nTrue g.mask ∧ g.internal.length = nFalse g.mask

instance (g : Geom) : Decidable g.WF := by unfold Geom.WF; exact inferInstance

/-- exception classes the property distinguishes; `missing` = `get_from_index` of an absent element
    (`KeyError` in `_dict.py:55`, `FileNotFoundError` in `_file.py:88`) -/
inductive Err | index | value | missing
deriving DecidableEq, Repr

/-- one entry of a key tuple: `int` or `slice(start, stop, step)` -/
inductive KE
  | int (k : Int)
  | slice (start stop step : Option Int)
deriving DecidableEq, Repr

/-- an entry of a normalised key: a non-negative index or the untouched slice -/
inductive NK
  | idx (k : Nat)
  | slc (start stop step : Option Int)
deriving DecidableEq, Repr

def NK.isSlc : NK → Bool
  | .slc .. => true
  | .idx _ => false

def NK.val : NK → Nat
  | .idx k => k
  | .slc .. => 0

/-- body of the loop of `normalize_key` for one axis of size `n` (`_base.py:167-174`) -/
def normEntry (n : Nat) : KE → Except Err NK
  | .slice a b c => .ok (.slc a b c)
  | .int k =>
    let k' : Int := if 0 ≤ k then k else k + n
    if 0 ≤ k' ∧ k' < n then .ok (.idx k'.toNat) else .error .index

/-- the loop of `normalize_key` over `zip(axis sizes, key)` (`_base.py:159-175`) -/
def normAxes : List Nat → List KE → Except Err (List NK)
  | n :: ns, k :: ks =>
    match normEntry n k with
    | .error e => .error e
    | .ok a =>
      match normAxes ns ks with
      | .error e => .error e
      | .ok r => .ok (a :: r)
  | _, _ => .ok []

/-- the axis sizes a key is checked against: the external axes, in order, for `dump`; all axes otherwise.
    (Repaired behaviour, DF-11: the pinned code walked `zip(shape_mask, key)` also for `for_dump=True`.) -/
def axisSizes (g : Geom) (forDump : Bool) : List Nat := if forDump then g.shape else g.full

/-- `expected_rank = sum(shape_mask) if for_dump else len(shape_mask)` (`_base.py:147`) -/
def expectedRank (g : Geom) (forDump : Bool) : Nat := if forDump then nTrue g.mask else g.mask.length

/-- `normalize_key` (`_base.py:136-177`) -/
def normalizeKey (g : Geom) (forDump : Bool) (key : List KE) : Except Err (List NK) :=
  if key.length ≠ expectedRank g forDump then .error .index else normAxes (axisSizes g forDump) key

/-- `normalize_key` of the pinned tree (before the DF-11 repair): `zip(shape_mask, key)` consumes the first `len(key)`
    axes of the *full* shape even when the key only names external axes. Kept for the witnesses in `Props/C07`. -/
def normalizeKeyPinned (g : Geom) (forDump : Bool) (key : List KE) : Except Err (List NK) :=
  if key.length ≠ expectedRank g forDump then .error .index else normAxes g.full key

/-! ### slices -/

/-- `slice(start, stop, step).indices(n)` (CPython `PySlice_Unpack` + `PySlice_AdjustIndices`); `ValueError` for step 0 -/
def sliceIndices (n : Nat) (start stop step : Option Int) : Except Err (Int × Int × Int) :=
  let st : Int := step.getD 1
  if st = 0 then .error .value else
  let lower : Int := if st < 0 then -1 else 0
  let upper : Int := if st < 0 then (n : Int) - 1 else n
  let clamp : Int → Int := fun x =>
    if x < 0 then (if x + n < lower then lower else x + n) else (if upper < x then upper else x)
  let s : Int := match start with
    | none => if st < 0 then upper else lower
    | some x => clamp x
  let e : Int := match stop with
    | none => if st < 0 then lower else upper
    | some x => clamp x
  .ok (s, e, st)

/-- `len(range(s, e, st))` -/
def rangeLen (s e st : Int) : Nat :=
  if 0 < st then (if s < e then ((e - s + st - 1) / st).toNat else 0)
  else (if e < s then ((s - e + (-st) - 1) / (-st)).toNat else 0)

/-- `range(*slice.indices(n))` as a list -/
def sliceRange (n : Nat) (start stop step : Option Int) : Except Err (List Nat) :=
  match sliceIndices n start stop step with
  | .error e => .error e
  | .ok (s, e, st) => .ok ((List.range (rangeLen s e st)).map (fun (j : Nat) => (s + (j : Int) * st).toNat))

/-- one entry of `_slice_indices` (`_file.py:98-121`, `_dict.py:114-122`): `range(k, k+1)` or the slice's range -/
def axisRange (n : Nat) : NK → Except Err (List Nat)
  | .idx k => .ok [k]
  | .slc a b c => sliceRange n a b c

/-- `_slice_indices` over `zip(axis sizes, normalised key)` -/
def keyRanges : List Nat → List NK → Except Err (List (List Nat))
  | n :: ns, k :: ks =>
    match axisRange n k with
    | .error e => .error e
    | .ok r =>
      match keyRanges ns ks with
      | .error e => .error e
      | .ok rs => .ok (r :: rs)
  | _, _ => .ok []

/-- `itertools.product(*ranges)`: row-major -/
def product : List (List Nat) → List (List Nat)
  | [] => [[]]
  | r :: rs => r.flatMap (fun k => (product rs).map (k :: ·))

/-- `new_shape`: the lengths of the ranges of the sliced axes (`_file.py:154-158`, `_dict.py:97-101`) -/
def sliceShape : List NK → List (List Nat) → List Nat
  | .slc .. :: ks, r :: rs => r.length :: sliceShape ks rs
  | .idx _ :: ks, _ :: rs => sliceShape ks rs
  | _, _ => []

/-- `_key_to_file`: `sum(k * s for k, s in zip(key, strides))` (`_file.py:81-84`) -/
def keyToFile (shape : List Nat) (key : List Nat) : Nat :=
  ((key.zip (strides shape)).map (fun p => p.1 * p.2)).foldr (· + ·) 0

/-! ### observations -/

variable {V : Type}

/-- one position of a result: `numpy.ma.masked`, one atom, or one whole stored element (its atoms, row-major) -/
inductive Cell (V : Type)
  | masked
  | atom (v : V)
  | whole (el : List V)
deriving DecidableEq, Repr

inductive Obs (V : Type)
  | unit
  | err (e : Err)
  | scalar (c : Cell V)
  | arr (shape : List Nat) (cells : List (Cell V))
  | bools (shape : List Nat) (bs : List Bool)
  | blist (bs : List Bool)
  | bool (b : Bool)
deriving DecidableEq, Repr

inductive Op (V : Type)
  | dump (key : List KE) (v : List V)
  | get (key : List KE)
  | toArray (splat : Option Bool)
  | mask
  | maskLinear
  | has (i : Int)
  | at (i : Int)
  | persistReopen
deriving Repr

/-- `np.asarray(sub_array)[internal_index]` at flat position `i`. Stored elements have `prod internal` atoms
    (`ElemOK`), so the `none` branch is unreachable on well-formed histories (`cellAt_lt`). -/
def cellAt (el : List V) (i : Nat) : Cell V :=
  match el[i]? with
  | some v => .atom v
  | none => .masked

def wholeCell : Option (List V) → Cell V
  | none => .masked
  | some el => .whole el

/-- what sits at full index `F` given the element lookup `lk` (`_file.py:160-171`, `_dict.py:103-112`):
    absent element → masked; no internal index → the element itself; else the element indexed internally -/
def cellOf (g : Geom) (lk : List Nat → Option (List V)) (F : List Nat) : Cell V :=
  match lk (extOf g.mask F) with
  | none => .masked
  | some el => if intOf g.mask F = [] then .whole el else cellAt el (ravel g.internal (intOf g.mask F))

/-- `__getitem__` of both back ends over an element lookup (`_file.py:124-171`, `_dict.py:67-112` with the DF-24 repair:
    an absent element reads as masked). Slice keys give the row-major list over `product` of the axis ranges with
    `new_shape`; all-integer keys give one cell. -/
def getItemWith (g : Geom) (lk : List Nat → Option (List V)) (key : List KE) : Obs V :=
  match normalizeKey g false key with
  | .error e => .err e
  | .ok nk =>
    if nk.any NK.isSlc then
      match keyRanges g.full nk with
      | .error e => .err e
      | .ok rs => .arr (sliceShape nk rs) ((product rs).map (cellOf g lk))
    else .scalar (cellOf g lk (nk.map NK.val))

/-- the external keys a `dump` writes (`_file.py:243-258`, `_dict.py:162-183`): the normalised key itself, or the
    product of the ranges of its slices over the external shape -/
def dumpTargets (g : Geom) (key : List KE) : Except Err (List (List Nat)) :=
  match normalizeKey g true key with
  | .error e => .error e
  | .ok nk =>
    match keyRanges g.shape nk with
    | .error e => .error e
    | .ok rs => .ok (product rs)

/-- `splat_internal = bool(self.internal_shape)` when `None` -/
def resolveSplat (g : Geom) (s : Option Bool) : Bool := s.getD (!g.internal.isEmpty)

/-- read a flat array under construction out as a list; never-written positions are masked
    (`_masked_empty`, `np.ma.masked` fill) -/
def readOut {X} (dflt : X) (n : Nat) (a : Flat X) : List X := (List.range n).map (fun i => (a i).getD dflt)

/-! ### `DictArray` / `SharedMemoryDictArray` -/

abbrev Dict (V : Type) := List (List Nat × List V)

/-- `to_array` (`_dict.py:124-149`): loop over `self._dict.items()` -/
def dToArray (g : Geom) (d : Dict V) (s : Option Bool) : Obs V :=
  if !resolveSplat g s then
    .arr g.shape (readOut .masked (prod g.shape)
      (d.foldl (fun a x => upd a (ravel g.shape x.1) (Cell.whole x.2)) (fun _ => none)))
  else if g.internal.isEmpty then .err .value
  else
    .arr g.full (readOut .masked (prod g.full)
      (d.foldl (fun a x => (allIdx g.internal).foldl
          (fun a I => upd a (flatIdx g.mask g.shape g.internal x.1 I) (cellAt x.2 (ravel g.internal I))) a)
        (fun _ => none)))

/-- `mask` (`_dict.py:151-157`) as the flat row-major list; `mask_linear` is `list(self.mask.data[:].flat)` -/
def dMaskFlat (g : Geom) (d : Dict V) : List Bool :=
  readOut true (prod g.shape) (d.foldl (fun a x => upd a (ravel g.shape x.1) false) (fun _ => none))

/-- `np.unravel_index(index, shape)`: `ValueError` outside `0 ≤ index < size` -/
def unravel? (shape : List Nat) (i : Int) : Option (List Nat) :=
  if 0 ≤ i ∧ i < (prod shape : Nat) then some (shapeToKey shape i.toNat) else none

def dStep (g : Geom) (d : Dict V) : Op V → Dict V × Obs V
  | .dump key v =>
    match dumpTargets g key with
    | .error e => (d, .err e)
    | .ok ts => (ts.foldl (fun d E => ains d E v) d, .unit)
  | .get key => (d, getItemWith g (alook d) key)
  | .toArray s => (d, dToArray g d s)
  | .mask => (d, .bools g.shape (dMaskFlat g d))
  | .maskLinear => (d, .blist (dMaskFlat g d))
  | .has i =>
    match unravel? g.shape i with
    | none => (d, .err .index)          -- `check_linear_index` (repaired, DF-C07-linear; was `ValueError` of `np.unravel_index`)
    | some E => (d, .bool (alook d E).isSome)
  | .at i =>
    match unravel? g.shape i with
    | none => (d, .err .index)
    | some E =>
      match alook d E with
      | none => (d, .err .missing)
      | some el => (d, .scalar (.whole el))
  | .persistReopen => (d, .unit)     -- `persist()` pickles `_dict`; a new object on the folder `load()`s it

/-! ### `FileArray` -/

/-- the folder: linear index `i` ↦ content of `__i__.pickle` -/
abbrev Files (V : Type) := List (Nat × List V)

def cellSub (o : Option (List V)) (i : Nat) : Cell V :=
  match o with
  | none => .masked
  | some el => cellAt el i

/-- `mask_linear` (`_file.py:226-231`): `[name(i) not in listdir for i in range(size)]` -/
def fMaskLinear (g : Geom) (f : Files V) : List Bool :=
  (List.range (prod g.shape)).map (fun i => (alook f i).isNone)

/-- `to_array` (`_file.py:173-224`) -/
def fToArray (g : Geom) (f : Files V) (s : Option Bool) : Obs V :=
  if !resolveSplat g s then
    .arr g.shape ((List.range (prod g.shape)).map (fun i => wholeCell (alook f i)))
  else if g.internal.isEmpty then .err .value
  else
    .arr g.full (readOut .masked (prod g.full)
      ((allIdx g.shape).foldl (fun a E => (allIdx g.internal).foldl
          (fun a I => upd a (flatIdx g.mask g.shape g.internal E I)
            (cellSub (alook f (keyToFile g.shape E)) (ravel g.internal I))) a)
        (fun _ => none)))

def fStep (g : Geom) (f : Files V) : Op V → Files V × Obs V
  | .dump key v =>
    match dumpTargets g key with
    | .error e => (f, .err e)
    | .ok ts => (ts.foldl (fun f E => ains f (keyToFile g.shape E) v) f, .unit)
  | .get key => (f, getItemWith g (fun E => alook f (keyToFile g.shape E)) key)
  | .toArray s => (f, fToArray g f s)
  | .mask => (f, .bools g.shape (fMaskLinear g f))
  | .maskLinear => (f, .blist (fMaskLinear g f))
  | .has i =>
    -- `check_linear_index` (repaired, DF-C07-linear; the pinned code answered `False` for every index without a file)
    if 0 ≤ i ∧ i < (prod g.shape : Nat) then (f, .bool (alook f i.toNat).isSome) else (f, .err .index)
  | .at i =>
    if 0 ≤ i ∧ i < (prod g.shape : Nat) then
      match alook f i.toNat with
      | none => (f, .err .missing)
      | some el => (f, .scalar (.whole el))
    else (f, .err .index)
  | .persistReopen => (f, .unit)     -- the files are the state; a new object on the folder sees them

/-! ### specification: a masked n-d object array -/

/-- external key ↦ element, `none` = masked -/
abbrev MArr (V : Type) := List Nat → Option (List V)

def aEmpty : MArr V := fun _ => none

def aToArray (g : Geom) (a : MArr V) (s : Option Bool) : Obs V :=
  if !resolveSplat g s then .arr g.shape ((allIdx g.shape).map (fun E => wholeCell (a E)))
  else if g.internal.isEmpty then .err .value
  else .arr g.full ((allIdx g.full).map (cellOf g a))

def aMaskFlat (g : Geom) (a : MArr V) : List Bool := (allIdx g.shape).map (fun E => (a E).isNone)

/-- The reference array. Linear indices outside `0 ≤ i < size` answer `IndexError`, like `ndarray.flat[i]`; since the
    DF-C07-linear repair every back end does the same (`C07_refines_all_indices`), so `Op.InDomain` is no longer needed. -/
def aStep (g : Geom) (a : MArr V) : Op V → MArr V × Obs V
  | .dump key v =>
    match dumpTargets g key with
    | .error e => (a, .err e)
    | .ok ts => (fun E => if E ∈ ts then some v else a E, .unit)
  | .get key => (a, getItemWith g a key)
  | .toArray s => (a, aToArray g a s)
  | .mask => (a, .bools g.shape (aMaskFlat g a))
  | .maskLinear => (a, .blist (aMaskFlat g a))
  | .has i =>
    match unravel? g.shape i with
    | none => (a, .err .index)
    | some E => (a, .bool (a E).isSome)
  | .at i =>
    match unravel? g.shape i with
    | none => (a, .err .index)
    | some E =>
      match a E with
      | none => (a, .err .missing)
      | some el => (a, .scalar (.whole el))
  | .persistReopen => (a, .unit)

/-- run an operation sequence, collecting the observations -/
def runOps {S} (step : S → Op V → S × Obs V) : S → List (Op V) → S × List (Obs V)
  | s, [] => (s, [])
  | s, op :: ops =>
    let r := step s op
    let rest := runOps step r.1 ops
    (rest.1, r.2 :: rest.2)

/-- linear indices are within the array -/
def Op.InDomain (g : Geom) : Op V → Prop
  | .has i => 0 ≤ i ∧ i < (prod g.shape : Nat)
  | .at i => 0 ≤ i ∧ i < (prod g.shape : Nat)
  | _ => True


/-! ## Extension (round 2) -/

/-! ### linear indices on the pinned tree (before the DF-C07-linear repair); kept for the witnesses in `Props/C07Ext` -/

/-- `DictArray.has_index` of the pinned tree (`_dict.py:57-60`): `np.unravel_index` raised `ValueError` outside the array -/
def dHasPinned (g : Geom) (d : Dict V) (i : Int) : Obs V :=
  match unravel? g.shape i with
  | none => .err .value
  | some E => .bool (alook d E).isSome

/-- `FileArray.has_index` of the pinned tree (`_file.py:90-92`): `is_file()` of a name that is never written → `False` -/
def fHasPinned (_g : Geom) (f : Files V) (i : Int) : Obs V :=
  .bool (if 0 ≤ i then (alook f i.toNat).isSome else false)

/-- `FileArray.get_from_index` of the pinned tree: `FileNotFoundError`, the same answer as for an unwritten element -/
def fAtPinned (_g : Geom) (f : Files V) (i : Int) : Obs V :=
  match (if 0 ≤ i then alook f i.toNat else none) with
  | none => .err .missing
  | some el => .scalar (.whole el)

/-! ### container types -/

def KE.isSlice : KE → Bool
  | .slice .. => true
  | .int _ => false

/-- what kind of Python object an operation hands back -/
inductive Container
  | nothing        -- `None` (`dump`, `persist`)
  | raised         -- an exception
  | element        -- a stored element / atom, or the `numpy.ma.masked` constant
  | maskedObject   -- `numpy.ma.MaskedArray`, dtype `object`
  | maskedBool     -- `numpy.ma.MaskedArray`, dtype `bool`
  | boolList       -- `list[bool]`
  | bool
deriving DecidableEq, Repr

/-- the container of an observation (the driver prints it next to every array-shaped result) -/
def Obs.container : Obs V → Container
  | .unit => .nothing
  | .err _ => .raised
  | .scalar _ => .element
  | .arr .. => .maskedObject
  | .bools .. => .maskedBool
  | .blist _ => .boolList
  | .bool _ => .bool

/-- the container an operation returns when it does not raise: a function of the operation alone (for `__getitem__`: of
    whether the key holds a slice) — `_file.py:124-171`, `_dict.py:67-116` (with the DF-C07-container repair: a slice key
    gives a `MaskedArray` in `DictArray` too), `to_array`, `mask`, `mask_linear`, `has_index`, `get_from_index` -/
def Op.container : Op V → Container
  | .dump .. => .nothing
  | .get key => if key.any KE.isSlice then .maskedObject else .element
  | .toArray _ => .maskedObject
  | .mask => .maskedBool
  | .maskLinear => .boolList
  | .has _ => .bool
  | .at _ => .element
  | .persistReopen => .nothing

/-! ### constructors -/

/-- arguments of a storage-class constructor after `folder`: `shape`, `internal_shape=None`, `shape_mask=None` -/
structure CArgs where
  shape : List Nat
  internal : Option (List Nat)
  mask : Option (List Bool)
deriving DecidableEq, Repr

/-- what a constructor raises: `ValueError` (its own checks) or `TypeError` (`len(None)`) -/
inductive CErr | value | type
deriving DecidableEq, Repr

/-- `FileArray.__init__` (`_file.py:50-62`) = `DictArray.__init__` (`_dict.py:37-47`; `SharedMemoryDictArray` delegates):
    * `if internal_shape and shape_mask is None: raise ValueError`;
    * `if internal_shape is not None and len(shape_mask) != len(shape) + len(internal_shape): raise ValueError`
      (`len(None)` is a `TypeError` when `internal_shape == ()` comes without a mask);
    * `shape_mask` defaults to `(True,) * len(shape)`, `internal_shape` to `()`.
    Nothing else is checked: with `internal_shape=None` any mask is taken as it is. -/
def construct (a : CArgs) : Except CErr Geom :=
  match a.internal, a.mask with
  | some (_ :: _), none => .error .value
  | some [], none => .error .type
  | some i, some m => if m.length ≠ a.shape.length + i.length then .error .value else .ok ⟨a.shape, i, m⟩
  | none, some m => .ok ⟨a.shape, [], m⟩
  | none, none => .ok ⟨a.shape, [], List.replicate a.shape.length true⟩

/-- the one call site of the map runner, `_init_arrays` (`_run_info.py:361-372`):
    `storage_class(path, external_shape_from_mask(shape, mask), internal_shape_from_mask(shape, mask), mask)` with the
    `zip(shape, mask)` comprehensions of `_shapes.py:56-61` -/
def initArrays (full : List Nat) (mask : List Bool) : CArgs :=
  ⟨extOf mask full, some (intOf mask full), some mask⟩

/-! ### the registry and the class flags the map runner reads -/

/-- which operational model stands for a class -/
inductive Backing | dict | files
deriving DecidableEq, Repr

/-- one entry of `storage_registry` (`_base.py:19,112-133`): key = `storage_id`, class name, the class attribute
    `requires_serialization` and the property `dump_in_subprocess` -/
structure Backend where
  id : String
  cls : String
  requiresSerialization : Bool
  dumpInSubprocess : Bool
  backing : Backing
deriving DecidableEq, Repr

/-- the registry of an interpreter without zarr (`_dict.py:25,207-209,224,256-258,262-263`, `_file.py:38-39,264-266,288`) -/
def registry : List Backend :=
  [ ⟨"dict", "DictArray", false, false, .dict⟩,
    ⟨"file_array", "FileArray", true, true, .files⟩,
    ⟨"shared_memory_dict", "SharedMemoryDictArray", true, true, .dict⟩ ]

/-- `_update_array` (`_run.py:502-527`): the call made in the worker (`in_post_process = False`) or in the parent's
    post-processing (`True`) dumps iff `force_dump or (array.dump_in_subprocess != in_post_process)` -/
def dumpsHere (b : Backend) (inPostProcess force : Bool) : Bool := force || (b.dumpInSubprocess != inPostProcess)

/-- `_maybe_run_folder` (`_run_info.py:225-233`): without a `run_folder` a temporary one is made iff the storage
    `requires_serialization` -/
def getsTempFolder (b : Backend) (runFolderGiven : Bool) : Bool := !runFolderGiven && b.requiresSerialization

/-- `get_storage_class` (`_base.py:183-207`): `ValueError` for an unknown identifier -/
def getStorageClass (id : String) : Except Err Backend :=
  match registry.find? (fun b => b.id = id) with
  | some b => .ok b
  | none => .error .value

/-! ### several processes dumping into one `FileArray` folder -/

/-- one completed `dump` of one element by writer process `w`: `_utils.dump` writes `.__cell__.pickle.<pid>.tmp` completely
    and `os.replace`s it onto `__cell__.pickle` — one atomic event on the folder -/
structure WEv (V : Type) where
  w : Nat
  cell : Nat
  val : List V
deriving Repr

def applyW (f : Files V) (e : WEv V) : Files V := ains f e.cell e.val

/-- the folder after a trace (any interleaving of the writers' programs) of atomic dumps -/
def runW (f : Files V) (t : List (WEv V)) : Files V := t.foldl applyW f

/-- the program-order subsequence of writer `w` -/
def projW (t : List (WEv V)) (w : Nat) : List (WEv V) := t.filter (fun e => e.w = w)

/-- the last value a trace writes to `cell` -/
def lastTo : List (WEv V) → Nat → Option (List V)
  | [], _ => none
  | e :: t, c =>
    match lastTo t c with
    | some v => some v
    | none => if e.cell = c then some e.val else none

end PF.St
