import PfModel.Model.RunInfoNorm
import PfModel.Lemmas.RunInfoCodec
/-! Lemmas for `C04Norm`: Python dicts built from pairs (`dictOf`), the collapsed codec, the normal form. -/
namespace PF.RIC
open PF PF.Map

/-! ### `dictSet` / `dictOf` -/

section dict
variable {κ β γ : Type} [DecidableEq κ]

theorem dictSet_mapVal (g : β → γ) (d : List (κ × β)) (k : κ) (v : β) :
    dictSet (d.map fun kv => (kv.1, g kv.2)) k (g v) = (dictSet d k v).map fun kv => (kv.1, g kv.2) := by
  induction d with
  | nil => rfl
  | cons a r ih =>
    simp only [List.map_cons, dictSet]
    split
    · simp
    · simp [ih]

theorem foldl_dictSet_mapVal (g : β → γ) (l d : List (κ × β)) :
    (l.map fun kv => (kv.1, g kv.2)).foldl (fun d (kv : κ × γ) => dictSet d kv.1 kv.2) (d.map fun kv => (kv.1, g kv.2)) =
      (l.foldl (fun d (kv : κ × β) => dictSet d kv.1 kv.2) d).map fun kv => (kv.1, g kv.2) := by
  induction l generalizing d with
  | nil => rfl
  | cons a r ih =>
    simp only [List.map_cons, List.foldl_cons]
    rw [dictSet_mapVal, ih]

/-- a comprehension commutes with a function applied to the values -/
theorem dictOf_mapVal (g : β → γ) (l : List (κ × β)) :
    dictOf (l.map fun kv => (kv.1, g kv.2)) = (dictOf l).map fun kv => (kv.1, g kv.2) := by
  have := foldl_dictSet_mapVal g l []
  simpa [dictOf] using this

theorem dictSet_new (d : List (κ × β)) (k : κ) (v : β) (h : k ∉ d.map (·.1)) : dictSet d k v = d ++ [(k, v)] := by
  induction d with
  | nil => rfl
  | cons a r ih =>
    simp only [List.map_cons, List.mem_cons, not_or] at h
    simp only [dictSet]
    rw [if_neg (fun e => h.1 e.symm), ih h.2]
    rfl

theorem foldl_dictSet_nodup (l d : List (κ × β)) (h : (d.map (·.1) ++ l.map (·.1)).Nodup) :
    l.foldl (fun d (kv : κ × β) => dictSet d kv.1 kv.2) d = d ++ l := by
  induction l generalizing d with
  | nil => simp
  | cons a r ih =>
    simp only [List.foldl_cons]
    have hn : a.1 ∉ d.map (·.1) := by
      intro hm
      have := (List.nodup_append.mp h).2.2 a.1 hm a.1 (by simp)
      exact this rfl
    rw [dictSet_new d a.1 a.2 hn, ih]
    · simp
    · have : (d ++ [(a.1, a.2)]).map (·.1) ++ r.map (·.1) = d.map (·.1) ++ (a :: r).map (·.1) := by simp
      rw [this]; exact h

/-- a list of pairs with distinct keys already is the dict -/
theorem dictOf_of_nodup (l : List (κ × β)) (h : (l.map (·.1)).Nodup) : dictOf l = l := by
  have := foldl_dictSet_nodup l [] (by simpa using h)
  simpa [dictOf] using this

theorem dictSet_keys (d : List (κ × β)) (k : κ) (v : β) :
    (dictSet d k v).map (·.1) = if k ∈ d.map (·.1) then d.map (·.1) else d.map (·.1) ++ [k] := by
  induction d with
  | nil => simp [dictSet]
  | cons a r ih =>
    simp only [dictSet]
    by_cases e : a.1 = k
    · simp [e]
    · have e' : ¬ k = a.1 := fun x => e x.symm
      simp only [e, if_false, List.map_cons, ih, List.mem_cons, e', false_or]
      split <;> simp

theorem foldl_dictSet_keys_nodup (l d : List (κ × β)) (h : (d.map (·.1)).Nodup) :
    ((l.foldl (fun d (kv : κ × β) => dictSet d kv.1 kv.2) d).map (·.1)).Nodup := by
  induction l generalizing d with
  | nil => exact h
  | cons a r ih =>
    simp only [List.foldl_cons]
    apply ih
    rw [dictSet_keys]
    split
    · exact h
    · next hn =>
      rw [List.nodup_append]
      refine ⟨h, by simp, ?_⟩
      intro x hx y hy e
      simp only [List.mem_singleton] at hy
      subst hy; subst e
      exact hn hx

/-- the keys of a dict are distinct -/
theorem dictOf_keys_nodup (l : List (κ × β)) : ((dictOf l).map (·.1)).Nodup :=
  foldl_dictSet_keys_nodup l [] (by simp)

theorem foldl_dictSet_keys_mem (l d : List (κ × β)) (k : κ) :
    k ∈ (l.foldl (fun d (kv : κ × β) => dictSet d kv.1 kv.2) d).map (·.1) ↔ k ∈ d.map (·.1) ∨ k ∈ l.map (·.1) := by
  induction l generalizing d with
  | nil => simp
  | cons a r ih =>
    simp only [List.foldl_cons]
    rw [ih, dictSet_keys]
    split
    · next hm =>
      simp only [List.map_cons, List.mem_cons]
      constructor
      · rintro (h | h)
        · exact Or.inl h
        · exact Or.inr (Or.inr h)
      · rintro (h | h | h)
        · exact Or.inl h
        · subst h; exact Or.inl hm
        · exact Or.inr h
    · simp only [List.map_cons, List.mem_cons, List.mem_append, List.not_mem_nil, or_false]
      constructor
      · rintro ((h | h) | h)
        · exact Or.inl h
        · exact Or.inr (Or.inl h)
        · exact Or.inr (Or.inr h)
      · rintro (h | h | h)
        · exact Or.inl (Or.inl h)
        · exact Or.inl (Or.inr h)
        · exact Or.inr h

/-- a dict has exactly the keys of the pairs it was built from -/
theorem dictOf_keys_mem (l : List (κ × β)) (k : κ) : k ∈ (dictOf l).map (·.1) ↔ k ∈ l.map (·.1) := by
  have := foldl_dictSet_keys_mem l [] k
  simpa [dictOf] using this

end dict

theorem nodup_map_on {α β : Type} (f : α → β) (l : List α) (hinj : ∀ x ∈ l, ∀ y ∈ l, f x = f y → x = y) (h : l.Nodup) :
    (l.map f).Nodup := by
  induction l with
  | nil => simp
  | cons a r ih =>
    rw [List.nodup_cons] at h
    simp only [List.map_cons, List.nodup_cons]
    refine ⟨?_, ih (fun x hx y hy => hinj x (List.mem_cons_of_mem _ hx) y (List.mem_cons_of_mem _ hy)) h.2⟩
    intro hm
    obtain ⟨y, hy, e⟩ := List.mem_map.mp hm
    have := hinj y (List.mem_cons_of_mem _ hy) a (by simp) e
    subst this
    exact h.1 hy

theorem mapOpt_map' {α β γ : Type} (f : β → Option γ) (g : α → β) (h : α → γ) (l : List α) (hh : ∀ x ∈ l, f (g x) = some (h x)) :
    mapOpt f (l.map g) = some (l.map h) := by
  induction l with
  | nil => rfl
  | cons a r ih =>
    simp only [List.map_cons, mapOpt, hh a (by simp), ih (fun x hx => hh x (List.mem_cons_of_mem _ hx))]

theorem dedupNames_of_nodup (l : List String) (h : l.Nodup) : dedupNames l = l := by
  induction l with
  | nil => rfl
  | cons a r ih =>
    rw [List.nodup_cons] at h
    simp only [dedupNames, h.1, if_false, ih h.2]

/-! ### the collapsed codec -/

/-- `load`'s comprehension applied to `dump`'s comprehension -/
theorem decKeyedN_enc {α : Type} (f : J → Option α) (g : α → J) (l : List (Key × α)) (hv : ∀ v, f (g v) = some v) :
    decKeyedN f (.obj (dictOf (l.map fun (kv : Key × α) => (keyStr kv.1, g kv.2)))) = some (normDict l) := by
  have h1 : (l.map fun (kv : Key × α) => (keyStr kv.1, g kv.2)) =
      (l.map fun (kv : Key × α) => (keyStr kv.1, kv.2)).map fun (sv : String × α) => (sv.1, g sv.2) := by
    simp [List.map_map]
  rw [h1, dictOf_mapVal]
  simp only [decKeyedN]
  rw [mapOpt_map' _ _ (fun (sv : String × α) => (strKey sv.1, sv.2)) _ (fun sv _ => by simp [hv])]
  rfl

theorem jfN_names (r : RunInfo) : jfield (encodeN r) "all_output_names" = some (.arr ((sortNames r.allOutputNames).map .str)) := by
  simp [encodeN, jfield, alookup]
theorem jfN_shapes (r : RunInfo) : jfield (encodeN r) "shapes" = some (.obj (dictOf (r.shapes.map fun (kv : Key × List Nat) => (keyStr kv.1, J.arr (kv.2.map encNat))))) := by
  simp [encodeN, jfield, alookup]
theorem jfN_masks (r : RunInfo) : jfield (encodeN r) "shape_masks" = some (.obj (dictOf (r.shapeMasks.map fun (kv : Key × List Bool) => (keyStr kv.1, J.arr (kv.2.map .bool))))) := by
  simp [encodeN, jfield, alookup]
theorem jfN_internal (r : RunInfo) : jfield (encodeN r) "internal_shapes" = some (match r.internalShapes with
      | none => .null
      | some m => .obj (m.map fun (kv : String × IShape) => (kv.1, encIShape kv.2))) := by
  cases hh : r.internalShapes <;> simp [encodeN, jfield, alookup, hh]
theorem jfN_storage (r : RunInfo) : jfield (encodeN r) "storage" = some (match r.storage with
      | .uniform s => .str s
      | .per m => .obj (dictOf (m.map fun (kv : Key × String) => (keyStr kv.1, J.str kv.2)))) := by
  cases hh : r.storage <;> simp [encodeN, jfield, alookup, hh]
theorem jfN_inputs (r : RunInfo) : jfield (encodeN r) "input_paths" = some (.obj (r.inputs.map fun (kv : String × Val) => (kv.1, .path (.input kv.1)))) := by
  simp [encodeN, jfield, alookup]
theorem jfN_defaults (r : RunInfo) : jfield (encodeN r) "defaults_path" = some (.path .defaults) := by
  simp [encodeN, jfield, alookup]
theorem jfN_mapspecs (r : RunInfo) : jfield (encodeN r) "mapspecs_as_strings" = some (.arr (r.mapspecs.map .str)) := by
  simp [encodeN, jfield, alookup]
theorem jfN_version (r : RunInfo) : jfield (encodeN r) "pipefunc_version" = some (.str r.version) := by
  simp [encodeN, jfield, alookup]

/-- `RunInfo.load` on any folder that holds the three kinds of files `_dump_all` wrote: the normal form, for every record -/
theorem decodeN_of_reads (fo : Folder) (r : RunInfo)
    (h1 : fo .runInfo = some (.json (encodeN r)))
    (h2 : ∀ kv ∈ r.inputs, fo (.input kv.1) = some (.val kv.2))
    (h3 : fo .defaults = some (.kw r.defaults)) :
    decodeN fo = some (normalise r) := by
  have hin : decInputs fo (.obj (r.inputs.map fun (kv : String × Val) => (kv.1, J.path (.input kv.1)))) = some r.inputs := by
    simp only [decInputs]
    apply mapOpt_map
    intro kv hkv
    simp [loadVal, h2 kv hkv]
  have hsh := decKeyedN_enc (decArr decNat) (fun sh => J.arr (sh.map encNat)) r.shapes decArr_nat
  have hmk := decKeyedN_enc (decArr decBool) (fun mk => J.arr (mk.map J.bool)) r.shapeMasks decArr_bool
  have hint : decInternal (match r.internalShapes with
      | none => .null
      | some m => .obj (m.map fun (kv : String × IShape) => (kv.1, encIShape kv.2))) = some r.internalShapes := by
    cases r.internalShapes with
    | none => rfl
    | some m =>
      simp only [decInternal]
      rw [mapOpt_map _ _ m (fun kv _ => by simp [decIShape_enc])]
      rfl
  have hst : decStorageN (match r.storage with
      | .uniform s => .str s
      | .per m => .obj (dictOf (m.map fun (kv : Key × String) => (keyStr kv.1, J.str kv.2)))) = some (normStorage r.storage) := by
    cases hs : r.storage with
    | uniform s => rfl
    | per m =>
      simp only [decStorageN]
      rw [decKeyedN_enc decStr J.str m (fun _ => rfl)]
      rfl
  have hdf : decDefaults fo (.path .defaults) = some r.defaults := by simp [decDefaults, h3]
  unfold decodeN
  rw [h1]
  simp only [decodeJN, jfN_names, jfN_shapes, jfN_masks, jfN_internal, jfN_storage, jfN_inputs, jfN_defaults, jfN_mapspecs, jfN_version,
    Option.bind_some, decArr_str, hsh, hmk, hint, hst, hin, hdf, decStr, bind, pure, normalise]

theorem dumpAllN_runInfo (fo : Folder) (r : RunInfo) : dumpAllN fo r .runInfo = some (.json (encodeN r)) := by
  simp only [dumpAllN]
  rw [write_other _ _ _ _ (by simp), foldl_inputs_other _ _ _ (by simp), write_same]

theorem dumpAllN_defaults (fo : Folder) (r : RunInfo) : dumpAllN fo r .defaults = some (.kw r.defaults) := by
  simp only [dumpAllN, write_same]

theorem dumpAllN_input (fo : Folder) (r : RunInfo) (hn : (akeys r.inputs).Nodup) (kv : String × Val) (h : kv ∈ r.inputs) :
    dumpAllN fo r (.input kv.1) = some (.val kv.2) := by
  simp only [dumpAllN]
  rw [write_other _ _ _ _ (by simp)]
  exact foldl_inputs_hit _ _ kv.1 kv.2 hn h

/-! ### fixed points of the normal form -/

/-- distinct keys that are their own normal form: the dictionary is unchanged -/
theorem normDict_fix {β : Type} (l : List (Key × β)) (hn : (l.map (·.1)).Nodup) (hk : ∀ kv ∈ l, normKey kv.1 = kv.1) :
    normDict l = l := by
  have hinj : ∀ x ∈ l, ∀ y ∈ l, keyStr x.1 = keyStr y.1 → x.1 = y.1 := by
    intro x hx y hy e
    rw [← hk x hx, ← hk y hy]
    simp only [normKey, e]
  have hn1 : ((l.map fun (kv : Key × β) => (keyStr kv.1, kv.2)).map (·.1)).Nodup := by
    have : (l.map fun (kv : Key × β) => (keyStr kv.1, kv.2)).map (·.1) = (l.map (·.1)).map keyStr := by simp [List.map_map]
    rw [this]
    apply nodup_map_on _ _ _ hn
    intro a ha b hb e
    obtain ⟨x, hx, rfl⟩ := List.mem_map.mp ha
    obtain ⟨y, hy, rfl⟩ := List.mem_map.mp hb
    exact hinj x hx y hy e
  have h2 : ((l.map fun (kv : Key × β) => (keyStr kv.1, kv.2)).map fun (sv : String × β) => (strKey sv.1, sv.2)) = l := by
    rw [List.map_map]
    conv => rhs; rw [← List.map_id l]
    apply List.map_congr_left
    intro kv hkv
    have := hk kv hkv
    simp only [normKey] at this
    simp [this]
  simp only [normDict, joinDict, splitDict]
  rw [dictOf_of_nodup _ hn1, h2, dictOf_of_nodup _ hn]

/-- the keys of the normal form are normal forms of keys -/
theorem normDict_keys {β : Type} (l : List (Key × β)) (k : Key) (h : k ∈ (normDict l).map (·.1)) :
    ∃ k' ∈ l.map (·.1), k = normKey k' := by
  simp only [normDict, splitDict] at h
  rw [dictOf_keys_mem] at h
  simp only [List.map_map, List.mem_map, Function.comp] at h
  obtain ⟨sv, hsv, e⟩ := h
  have hs : sv.1 ∈ (joinDict l).map (·.1) := List.mem_map.mpr ⟨sv, hsv, rfl⟩
  simp only [joinDict] at hs
  rw [dictOf_keys_mem] at hs
  simp only [List.map_map, List.mem_map, Function.comp] at hs
  obtain ⟨kv, hkv, e2⟩ := hs
  refine ⟨kv.1, List.mem_map.mpr ⟨kv, hkv, rfl⟩, ?_⟩
  rw [← e, ← e2]; rfl

theorem normDict_keys_nodup {β : Type} (l : List (Key × β)) : ((normDict l).map (·.1)).Nodup := dictOf_keys_nodup _

theorem dictFixed_iff {β : Type} (l : List (Key × β)) :
    dictFixed l = true ↔ (l.map (·.1)).Nodup ∧ ∀ kv ∈ l, normKey kv.1 = kv.1 := by
  simp [dictFixed, List.all_eq_true]

/-- under `dictFixed` the first comprehension does nothing either -/
theorem joinDict_fix {β γ : Type} (g : β → γ) (l : List (Key × β)) (hn : (l.map (·.1)).Nodup) (hk : ∀ kv ∈ l, normKey kv.1 = kv.1) :
    dictOf (l.map fun (kv : Key × β) => (keyStr kv.1, g kv.2)) = l.map fun (kv : Key × β) => (keyStr kv.1, g kv.2) := by
  apply dictOf_of_nodup
  have : (l.map fun (kv : Key × β) => (keyStr kv.1, g kv.2)).map (·.1) = (l.map (·.1)).map keyStr := by simp [List.map_map]
  rw [this]
  apply nodup_map_on _ _ _ hn
  intro a ha b hb e
  obtain ⟨x, hx, rfl⟩ := List.mem_map.mp ha
  obtain ⟨y, hy, rfl⟩ := List.mem_map.mp hb
  rw [← hk x hx, ← hk y hy]
  simp only [normKey, e]

end PF.RIC

namespace PF.RIC
open PF PF.Map

theorem recFixed_iff (r : RunInfo) :
    recFixed r = true ↔ dictFixed r.shapes = true ∧ dictFixed r.shapeMasks = true ∧ ∀ m, r.storage = .per m → dictFixed m = true := by
  simp only [recFixed, Bool.and_eq_true]
  cases r.storage with
  | uniform s => simp
  | per m => simp [and_assoc]

/-- on a fixed record the collapsed `dump` writes what the plain one writes -/
theorem encodeN_eq_of_fixed (r : RunInfo) (h : recFixed r = true) : encodeN r = encode r := by
  obtain ⟨h1, h2, h3⟩ := (recFixed_iff r).mp h
  rw [dictFixed_iff] at h1 h2
  have e1 := joinDict_fix (fun sh => J.arr (sh.map encNat)) r.shapes h1.1 h1.2
  have e2 := joinDict_fix (fun mk => J.arr (mk.map J.bool)) r.shapeMasks h2.1 h2.2
  simp only [encodeN, encode, e1, e2]
  cases hs : r.storage with
  | uniform s => rfl
  | per m =>
    have h3' := (dictFixed_iff m).mp (h3 m hs)
    have e3 := joinDict_fix J.str m h3'.1 h3'.2
    simp only [e3]
    rfl

theorem normalise_of_fixed (r : RunInfo) (h : recFixed r = true) (hnames : r.allOutputNames.Nodup) :
    normalise r = { r with allOutputNames := sortNames r.allOutputNames } := by
  obtain ⟨h1, h2, h3⟩ := (recFixed_iff r).mp h
  rw [dictFixed_iff] at h1 h2
  have e1 := normDict_fix _ h1.1 h1.2
  have e2 := normDict_fix _ h2.1 h2.2
  have e3 : normStorage r.storage = r.storage := by
    cases hs : r.storage with
    | uniform s => rfl
    | per m =>
      have h3' := (dictFixed_iff m).mp (h3 m hs)
      simp only [normStorage, normDict_fix _ h3'.1 h3'.2]
  have e4 : dedupNames (sortNames r.allOutputNames) = sortNames r.allOutputNames :=
    dedupNames_of_nodup _ ((sortNames_perm _).nodup_iff.mpr hnames)
  simp only [normalise, e1, e2, e3, e4]

end PF.RIC

namespace PF.RIC
open PF PF.Map

section dictlen
variable {κ β : Type} [DecidableEq κ]

theorem dictSet_length (d : List (κ × β)) (k : κ) (v : β) :
    (dictSet d k v).length = if k ∈ d.map (·.1) then d.length else d.length + 1 := by
  have := congrArg List.length (dictSet_keys d k v)
  rw [List.length_map] at this
  rw [this]
  split <;> simp

theorem foldl_dictSet_length (l d : List (κ × β)) :
    (l.foldl (fun d (kv : κ × β) => dictSet d kv.1 kv.2) d).length ≤ d.length + l.length ∧
    ((l.foldl (fun d (kv : κ × β) => dictSet d kv.1 kv.2) d).length = d.length + l.length →
      l.foldl (fun d (kv : κ × β) => dictSet d kv.1 kv.2) d = d ++ l) := by
  induction l generalizing d with
  | nil => simp
  | cons a r ih =>
    simp only [List.foldl_cons, List.length_cons]
    obtain ⟨ih1, ih2⟩ := ih (dictSet d a.1 a.2)
    have hl := dictSet_length d a.1 a.2
    by_cases hm : a.1 ∈ d.map (·.1)
    · rw [if_pos hm] at hl
      refine ⟨by omega, fun e => ?_⟩
      omega
    · rw [if_neg hm] at hl
      refine ⟨by omega, fun e => ?_⟩
      rw [ih2 (by omega), dictSet_new d a.1 a.2 hm]
      simp

theorem dictOf_length_le (l : List (κ × β)) : (dictOf l).length ≤ l.length := by
  have := (foldl_dictSet_length l []).1
  simpa [dictOf] using this

/-- a comprehension that loses no entry changes nothing -/
theorem dictOf_eq_of_length (l : List (κ × β)) (h : (dictOf l).length = l.length) : dictOf l = l := by
  have := (foldl_dictSet_length l []).2
  simp only [List.length_nil, Nat.zero_add, List.nil_append] at this
  exact this h

end dictlen

theorem map_eq_self {α : Type} (f : α → α) (l : List α) (h : l.map f = l) : ∀ x ∈ l, f x = x := by
  induction l with
  | nil => intro x hx; cases hx
  | cons a r ih =>
    simp only [List.map_cons, List.cons.injEq] at h
    intro x hx
    rcases List.mem_cons.mp hx with e | hr
    · subst e; exact h.1
    · exact ih h.2 x hr

/-- a dictionary that `dump` + `load` leave unchanged has distinct keys, each its own normal form -/
theorem normDict_fix_conv {β : Type} (l : List (Key × β)) (h : normDict l = l) : dictFixed l = true := by
  rw [dictFixed_iff]
  refine ⟨by rw [← h]; exact normDict_keys_nodup l, ?_⟩
  have hlen := congrArg List.length h
  simp only [normDict, splitDict, joinDict] at hlen h
  have l1 := dictOf_length_le (l.map fun (kv : Key × β) => (keyStr kv.1, kv.2))
  have l2 := dictOf_length_le ((dictOf (l.map fun (kv : Key × β) => (keyStr kv.1, kv.2))).map fun (sv : String × β) => (strKey sv.1, sv.2))
  simp only [List.length_map] at l1 l2
  have e1 := dictOf_eq_of_length (l.map fun (kv : Key × β) => (keyStr kv.1, kv.2)) (by simp only [List.length_map]; omega)
  rw [e1] at h l2 hlen
  have e2 := dictOf_eq_of_length ((l.map fun (kv : Key × β) => (keyStr kv.1, kv.2)).map fun (sv : String × β) => (strKey sv.1, sv.2))
    (by simp only [List.length_map] at hlen ⊢; omega)
  rw [e2, List.map_map] at h
  intro kv hkv
  have := map_eq_self _ l h kv hkv
  simp only [Function.comp] at this
  exact congrArg Prod.fst this

end PF.RIC

namespace PF.RIC
open PF PF.Map

theorem mem_dedupNames (l : List String) (x : String) : x ∈ dedupNames l ↔ x ∈ l := by
  induction l with
  | nil => simp [dedupNames]
  | cons a r ih =>
    simp only [dedupNames]
    split
    · next hm =>
      rw [ih, List.mem_cons]
      constructor
      · exact Or.inr
      · rintro (e | h)
        · subst e; exact hm
        · exact h
    · simp only [List.mem_cons, ih]

theorem dedupNames_nodup (l : List String) : (dedupNames l).Nodup := by
  induction l with
  | nil => simp [dedupNames]
  | cons a r ih =>
    simp only [dedupNames]
    split
    · exact ih
    · next hm => exact List.nodup_cons.mpr ⟨fun h => hm ((mem_dedupNames r a).mp h), ih⟩

/-- **fixed points of `normalise`**, exactly -/
theorem normalise_fix_iff (r : RunInfo) :
    normalise r = { r with allOutputNames := sortNames r.allOutputNames } ↔ (recFixed r = true ∧ r.allOutputNames.Nodup) := by
  constructor
  · intro h
    have hs := congrArg RunInfo.shapes h
    have hm := congrArg RunInfo.shapeMasks h
    have hst := congrArg RunInfo.storage h
    have hn := congrArg RunInfo.allOutputNames h
    simp only [normalise] at hs hm hst hn
    refine ⟨(recFixed_iff r).mpr ⟨normDict_fix_conv _ hs, normDict_fix_conv _ hm, ?_⟩, ?_⟩
    · intro m e
      rw [e] at hst
      simp only [normStorage, Storage.per.injEq] at hst
      exact normDict_fix_conv _ hst
    · have : (sortNames r.allOutputNames).Nodup := by rw [← hn]; exact dedupNames_nodup _
      exact (sortNames_perm _).nodup_iff.mp this
  · rintro ⟨h, hn⟩
    exact normalise_of_fixed r h hn

end PF.RIC

namespace PF.RIC
open PF PF.Map

/-- when a second `dump` + `load` would not change any key again, the normal form is a fixed point -/
theorem dictFixed_normDict_of {β : Type} (l : List (Key × β)) (h : ∀ kv ∈ l, normKey (normKey kv.1) = normKey kv.1) :
    dictFixed (normDict l) = true := by
  rw [dictFixed_iff]
  refine ⟨normDict_keys_nodup l, ?_⟩
  intro kv hkv
  obtain ⟨k', hk', e⟩ := normDict_keys l kv.1 (List.mem_map.mpr ⟨kv, hkv, rfl⟩)
  obtain ⟨kv', hkv', e'⟩ := List.mem_map.mp hk'
  rw [e, ← e']
  exact h kv' hkv'

/-- idempotence of the dictionary normal form, exactly -/
theorem normDict_idem_iff {β : Type} (l : List (Key × β)) :
    normDict (normDict l) = normDict l ↔ ∀ kv ∈ normDict l, normKey kv.1 = kv.1 := by
  constructor
  · intro h
    exact ((dictFixed_iff _).mp (normDict_fix_conv _ h)).2
  · intro h
    exact normDict_fix _ (normDict_keys_nodup l) h

theorem recFixed_of_keyOK (r : RunInfo) (h : NamesOK r) (hs : (r.shapes.map (·.1)).Nodup) (hm : (r.shapeMasks.map (·.1)).Nodup)
    (hst : ∀ m, r.storage = .per m → (m.map (·.1)).Nodup) : recFixed r = true := by
  rw [recFixed_iff]
  refine ⟨(dictFixed_iff _).mpr ⟨hs, fun kv hkv => strKey_keyStr _ (h.shapes kv hkv)⟩,
          (dictFixed_iff _).mpr ⟨hm, fun kv hkv => strKey_keyStr _ (h.masks kv hkv)⟩, ?_⟩
  intro m e
  exact (dictFixed_iff _).mpr ⟨hst m e, fun kv hkv => strKey_keyStr _ (h.storage m e kv hkv)⟩

end PF.RIC
