import PfModel.Props.C02
import PfModel.Lemmas.PipelineNeeded
import PfModel.Lemmas.PipelineTotal
import PfModel.Lemmas.PipelineCombos
import PfModel.Lemmas.PipelineCombosComplete
/-!
C02, continued — *which* functions a call evaluates, *which* keywords it consumes, and that every combination listed by
`arg_combinations` is accepted.

`needed fs kw o` is the least set of functions containing the producer of `o` (when `o` is not supplied) and the producer
of every parameter that a needed function takes from upstream (not bound, not supplied, produced).  A supplied
intermediate therefore cuts the set off: its producer is not needed through that parameter.
-/
namespace PF.C02
open PF PF.Pipe

/-- the function `f` is needed to evaluate `o` under the keywords `kw` -/
def neededF (fs : List Func) (kw : List (String × Val)) (o : String) (f : Func) : Prop := NeededF fs kw o f

/-- the function *named* `nm` is needed to evaluate `o` under the keywords `kw` -/
def needed (fs : List Func) (kw : List (String × Val)) (o : String) (nm : String) : Prop := Needed fs kw o nm

/-- `neededF` contains the producer of a requested output that is not supplied … -/
theorem C02_needed_root (fs : List Func) (kw : List (String × Val)) (o : String) (f : Func)
    (hk : alookup kw o = none) (h : producer fs o = some f) : neededF fs kw o f := neededF_root fs kw hk h

/-- … and the producer of every parameter a needed function takes from upstream … -/
theorem C02_needed_step (fs : List Func) (kw : List (String × Val)) (o : String) (f g : Func) (q orig : String)
    (h : neededF fs kw o f) (hp : (q, orig) ∈ f.params) (hb : alookup f.bound q = none) (hk : alookup kw q = none)
    (hg : producer fs q = some g) : neededF fs kw o g := by
  refine neededF_step fs kw h hp ?_ hg
  simp [resolve, hb, hk, hg, IsUp]

/-- … and is the least such set. -/
theorem C02_needed_least (fs : List Func) (kw : List (String × Val)) (o : String) (S : Func → Prop)
    (h0 : alookup kw o = none → ∀ f, producer fs o = some f → S f)
    (hs : ∀ f g q orig, S f → (q, orig) ∈ f.params → alookup f.bound q = none → alookup kw q = none →
      producer fs q = some g → S g) :
    ∀ f, neededF fs kw o f → S f := by
  apply neededF_least fs kw o S h0
  intro f g q orig hf hp hu hg
  obtain ⟨hb, hk, _⟩ := resolve_upstream fs kw hu
  exact hs f g q orig hf hp hb hk hg

/-- **Exactly the functions the output depends on.**  For a well-formed pipeline, the call log of a successful run
    consists of exactly the needed functions — nothing outside the dependency cone of `o`, nothing behind a supplied
    intermediate, and nothing of the cone is skipped.  (Together with `C02_each_once_deps_first`: each exactly once,
    after its dependencies.) -/
theorem C02_exactly_needed (fs : List Func) (kw : List (String × Val)) (rank : String → Nat) (hw : WFp fs rank)
    (n : Nat) (o : String) (v : Val) (s' : St) (h : run fs kw n o ⟨kw, [], []⟩ = .ok (v, s')) :
    ∀ nm, nm ∈ s'.calls ↔ needed fs kw o nm :=
  run_calls_iff fs kw rank hw n o v s' h

/-- The half of `C02_exactly_needed` that needs no well-formedness at all: whatever is called is reachable from `o`
    through parameters taken from upstream. -/
theorem C02_only_needed (fs : List Func) (kw : List (String × Val)) (n : Nat) (o : String) (v : Val) (s' : St)
    (h : run fs kw n o ⟨kw, [], []⟩ = .ok (v, s')) : ∀ nm ∈ s'.calls, ∃ f, Reach fs kw o f ∧ f.name = nm := by
  obtain ⟨add, eadd, badd⟩ := run_reach fs kw n o _ v s' h
  intro nm hnm
  simp only [List.nil_append] at eadd
  rw [eadd] at hnm; exact badd nm hnm

/-- **The used-parameter set** after a successful run: exactly the parameters of the needed functions (bound ones and
    ones fed from upstream included — `_get_func_args` marks every parameter it passes). -/
theorem C02_used_parameters (fs : List Func) (kw : List (String × Val)) (rank : String → Nat) (hw : WFp fs rank)
    (n : Nat) (o : String) (v : Val) (s' : St) (h : run fs kw n o ⟨kw, [], []⟩ = .ok (v, s')) :
    ∀ k, k ∈ s'.used ↔ ∃ f, neededF fs kw o f ∧ ∃ orig, (k, orig) ∈ f.params :=
  run_used_iff fs kw rank hw n o v s' h

/-- **Surplus keywords**: once the evaluation went through, `Pipeline.run` rejects the call with
    `UnusedParametersError` exactly when some supplied keyword is not a parameter of any needed function … -/
theorem C02_unused_iff (fs : List Func) (kw : List (String × Val)) (rank : String → Nat) (hw : WFp fs rank)
    (o : String) (v : Val) (s : St) (ho : alookup kw o = none)
    (h : run fs kw (fuelFor fs) o ⟨kw, [], []⟩ = .ok (v, s)) :
    (∃ ps, runTop fs kw (.name o) = .error (.unused ps)) ↔
      ∃ k ∈ akeys kw, ¬ ∃ f, neededF fs kw o f ∧ ∃ orig, (k, orig) ∈ f.params := by
  have hused := C02_used_parameters fs kw rank hw _ o v s h
  rw [runTop_name_eq fs kw o v s ho h]
  constructor
  · rintro ⟨ps, hps⟩
    split at hps
    · cases hps
    · next hne =>
      rw [List.isEmpty_iff] at hne
      obtain ⟨k, hk⟩ := List.exists_mem_of_ne_nil _ hne
      obtain ⟨hk1, hk2⟩ := List.mem_filter.mp hk
      refine ⟨k, hk1, fun hex => ?_⟩
      have := (hused k).mpr hex
      simp [this] at hk2
  · rintro ⟨k, hk, hno⟩
    have hmem : k ∈ (akeys kw).filter (fun k => !(s.used.contains k)) := by
      refine List.mem_filter.mpr ⟨hk, ?_⟩
      have : k ∉ s.used := fun hu => hno ((hused k).mp hu)
      simp [this]
    split
    · next he => rw [List.isEmpty_iff] at he; rw [he] at hmem; cases hmem
    · exact ⟨_, rfl⟩

/-- … and the error then names exactly those keywords. -/
theorem C02_unused_exact (fs : List Func) (kw : List (String × Val)) (rank : String → Nat) (hw : WFp fs rank)
    (o : String) (v : Val) (s : St) (ho : alookup kw o = none)
    (h : run fs kw (fuelFor fs) o ⟨kw, [], []⟩ = .ok (v, s)) (ps : List String)
    (hps : runTop fs kw (.name o) = .error (.unused ps)) :
    ∀ k, k ∈ ps ↔ k ∈ akeys kw ∧ ¬ ∃ f, neededF fs kw o f ∧ ∃ orig, (k, orig) ∈ f.params := by
  have hused := C02_used_parameters fs kw rank hw _ o v s h
  rw [runTop_name_eq fs kw o v s ho h] at hps
  split at hps
  · cases hps
  · injection hps with hps; injection hps with hps; subst hps
    intro k
    rw [List.mem_filter]
    constructor
    · rintro ⟨h1, h2⟩
      refine ⟨h1, fun hex => ?_⟩
      have := (hused k).mpr hex
      simp [this] at h2
    · rintro ⟨h1, h2⟩
      have : k ∉ s.used := fun hu => h2 ((hused k).mp hu)
      exact ⟨h1, by simp [this]⟩

/-- **The evaluation goes through** for a well-formed pipeline whenever the requested output has a producer and no
    parameter of a function reachable from it is left without a bound value, keyword, producer or default; the fuel
    `runTop` uses is enough for every acyclic pipeline. -/
theorem C02_run_succeeds (fs : List Func) (kw : List (String × Val)) (rank : String → Nat) (hw : WFp fs rank)
    (o : String) (hp : (producer fs o).isSome)
    (hres : ∀ f, Reach fs kw o f → ∀ p ∈ f.params,
      (alookup f.bound p.1).isSome ∨ (alookup kw p.1).isSome ∨ (producer fs p.1).isSome ∨ (pdefault fs p.1).isSome) :
    ∃ v s', run fs kw (fuelFor fs) o ⟨kw, [], []⟩ = .ok (v, s') :=
  run_total_fuelFor fs kw rank hw o _ (fun f hf p hp => resolve_not_missing fs kw f p.1 (hres f hf p hp)) hp

/-- **Every combination listed by `arg_combinations` is accepted.**  For a well-formed pipeline, every `c` in
    `argCombinations fs o`, and every keyword dictionary whose keys are exactly `c` (values arbitrary): provided every
    parameter of a needed function that is *not* in `c` has a bound value, a producer or a default, `Pipeline.run`
    succeeds — the output is not among the keywords, the evaluation goes through, no keyword is surplus — returns the
    value of the composition along the DAG, and calls exactly the needed functions. -/
theorem C02_arg_combinations (fs : List Func) (rank : String → Nat) (hw : WFp fs rank) (o : String)
    (cs : List (List String)) (hcs : argCombinations fs o = some cs) (c : List String) (hc : c ∈ cs)
    (kw : List (String × Val)) (hkeys : ∀ k, k ∈ akeys kw ↔ k ∈ c)
    (hres : ∀ f, neededF fs kw o f → ∀ p ∈ f.params, p.1 ∉ c →
      (alookup f.bound p.1).isSome ∨ (producer fs p.1).isSome ∨ (pdefault fs p.1).isSome) :
    ∃ out, runTop fs kw (.name o) = .ok out ∧ (∃ k, compose fs kw k o = .ok out.value) ∧
      (∀ nm, nm ∈ out.calls ↔ needed fs kw o nm) := by
  obtain ⟨i0, hi0, hcut⟩ := argCombinations_cut fs rank hw o cs hcs
  exact cut_accepted fs kw rank hw o i0 hi0 c (hcut c hc) hkeys hres

/-- What a listed combination is, graph-theoretically: it does not contain the output, and every name in it is an
    unbound parameter of a function that is needed when exactly these names are supplied (so none is surplus). -/
theorem C02_arg_combinations_consumed (fs : List Func) (rank : String → Nat) (hw : WFp fs rank) (o : String)
    (cs : List (List String)) (hcs : argCombinations fs o = some cs) (c : List String) (hc : c ∈ cs)
    (kw : List (String × Val)) (hkeys : ∀ k, k ∈ akeys kw ↔ k ∈ c) :
    o ∉ c ∧ ∀ n ∈ c, ∃ f, neededF fs kw o f ∧ alookup f.bound n = none ∧ ∃ orig, (n, orig) ∈ f.params := by
  obtain ⟨i0, hi0, hcut⟩ := argCombinations_cut fs rank hw o cs hcs
  obtain ⟨E, hch, hE⟩ := hcut c hc
  obtain ⟨_, _, hoo, _⟩ := producerIdx_some fs hw.uniq o i0 hi0
  have hout : ∀ e ∈ E, ∀ n ∈ akeys kw, n ∉ (funcAt fs e).outputs :=
    fun e he n hn => (hE n ((hkeys n).mp hn)).2 e he
  have hoc : o ∉ c := fun hm => (hE o hm).2 i0 (hch.head_mem fs) hoo
  have hko : alookup kw o = none := by
    rw [alookup_none_iff]; intro hm; exact hoc ((hkeys o).mp hm)
  have hreach := cut_reach fs kw hw.uniq o i0 hi0 E hch hout
  refine ⟨hoc, ?_⟩
  intro n hn
  obtain ⟨⟨e, he, orig, hp, hb⟩, _⟩ := hE n hn
  exact ⟨funcAt fs e, ⟨hko, hreach e he⟩, hb, orig, hp⟩

/-- **A listed combination is self-sufficient.**  When distinct graph nodes have distinct sort keys (`KeyInj`: decidable,
    and true whenever names are identifiers — the condition under which the model's `uniqueSorted` is Python's
    `sorted(set(nodes), key=_sort_key)`), a listed combination contains *every* root argument of the functions it makes
    needed — with or without a default — so the call needs nothing else: `C02_arg_combinations` without its
    resolvability hypothesis. -/
theorem C02_arg_combinations_self_sufficient (fs : List Func) (rank : String → Nat) (hw : WFp fs rank)
    (hki : KeyInj fs) (o : String) (cs : List (List String)) (hcs : argCombinations fs o = some cs)
    (c : List String) (hc : c ∈ cs) (kw : List (String × Val)) (hkeys : ∀ k, k ∈ akeys kw ↔ k ∈ c) :
    ∃ out, runTop fs kw (.name o) = .ok out ∧ (∃ k, compose fs kw k o = .ok out.value) ∧
      (∀ nm, nm ∈ out.calls ↔ needed fs kw o nm) := by
  obtain ⟨i0, hi0, hcc⟩ := argCombinations_ccut fs rank hw hki o cs hcs
  refine cut_accepted fs kw rank hw o i0 hi0 c ((hcc c hc).cut fs hw.uniq i0 ⟨o, hi0⟩ c) hkeys ?_
  intro f hf
  exact ccut_resolvable fs kw hw.uniq o i0 hi0 c (hcc c hc) hkeys f hf.2

/-- The all-roots combination `root_args` is one of the listed combinations, hence accepted. -/
theorem C02_root_args_accepted (fs : List Func) (rank : String → Nat) (hw : WFp fs rank) (o : String)
    (c : List String) (hc : rootArgs fs o = some c)
    (kw : List (String × Val)) (hkeys : ∀ k, k ∈ akeys kw ↔ k ∈ c)
    (hres : ∀ f, neededF fs kw o f → ∀ p ∈ f.params, p.1 ∉ c →
      (alookup f.bound p.1).isSome ∨ (producer fs p.1).isSome ∨ (pdefault fs p.1).isSome) :
    (∀ n ∈ c, producer fs n = none) ∧
    ∃ out, runTop fs kw (.name o) = .ok out ∧ (∃ k, compose fs kw k o = .ok out.value) ∧
      (∀ nm, nm ∈ out.calls ↔ needed fs kw o nm) := by
  unfold rootArgs at hc
  split at hc
  · cases hc
  · next cs hcs =>
    have hmem := List.mem_of_find?_eq_some hc
    have hall := List.find?_some hc
    refine ⟨?_, C02_arg_combinations fs rank hw o cs hcs c hmem kw hkeys hres⟩
    intro n hn
    have := List.all_eq_true.mp hall n hn
    simpa using this

/-! ### non-vacuity -/

def rankD (nm : String) : Nat := if nm = "fa" then 0 else if nm = "fb" then 1 else 2

/-- the diamond of `Props/C02.lean` is well-formed -/
theorem wf_diamond : WFp [fD, fB, fA] rankD := by
  refine ⟨?_, ?_, ?_⟩
  · intro f hf g hg e; simp [fD, fB, fA] at hf hg; rcases hf with rfl | rfl | rfl <;> rcases hg with rfl | rfl | rfl <;> simp_all
  · intro f hf g hg o h1 h2; simp [fD, fB, fA] at hf hg; rcases hf with rfl | rfl | rfl <;> rcases hg with rfl | rfl | rfl <;> simp_all
  · intro f hf p hp g hg hb
    simp [fD, fB, fA] at hf
    rcases hf with rfl | rfl | rfl <;> simp at hp <;> rcases hp with rfl | rfl | rfl <;>
      simp [producer, fD, fB, fA] at hg <;> subst hg <;> simp [rankD]

/-- a nullary function feeding a consumer -/
def fN : Func := ⟨"fn", [], ["n"], [], []⟩
def fM : Func := ⟨"fm", [("n", "u"), ("z", "w")], ["m"], [], []⟩

theorem wf_nullary : WFp [fM, fN] (fun nm => if nm = "fn" then 0 else 1) := by
  refine ⟨?_, ?_, ?_⟩
  · intro f hf g hg e; simp [fM, fN] at hf hg; rcases hf with rfl | rfl <;> rcases hg with rfl | rfl <;> simp_all
  · intro f hf g hg o h1 h2; simp [fM, fN] at hf hg; rcases hf with rfl | rfl <;> rcases hg with rfl | rfl <;> simp_all
  · intro f hf p hp g hg hb
    simp [fM, fN] at hf
    rcases hf with rfl | rfl <;> simp at hp <;> rcases hp with rfl | rfl <;>
      simp [producer, fM, fN] at hg <;> subst hg <;> simp

-- what the model computes on the two pipelines
example : argCombinations [fD, fB, fA] "d" = some [["a", "b", "c"], ["b", "c", "x"], ["x", "y"], ["a", "y"]] := by decide
example : rootArgs [fD, fB, fA] "d" = some ["x", "y"] := by decide
example : argCombinations [fM, fN] "m" = some [["n", "z"], ["z"]] := by decide
example : (runTop [fD, fB, fA] [("a", .int 1), ("y", .int 2)] (.name "d")).toOption.map (·.calls) = some ["fb", "fd"] := by decide
example : (runTop [fD, fB, fA] [("a", .int 1), ("b", .int 1), ("c", .int 1)] (.name "d")).toOption.map (·.calls) = some ["fd"] := by decide
example : (runTop [fD, fB, fA] [("a", .int 1), ("b", .int 1), ("c", .int 1), ("y", .int 1)] (.name "d")).toOption.map (·.calls) = none := by decide
example : (runTop [fM, fN] [("z", .int 1)] (.name "m")).toOption.map (·.calls) = some ["fn", "fm"] := by decide
example : (runTop [fM, fN] [("n", .int 0), ("z", .int 1)] (.name "m")).toOption.map (·.calls) = some ["fm"] := by decide

/-- `C02_exactly_needed` at work (diamond, intermediate `a` supplied): `fb` is needed, `fa` — cut off by `a` — is not -/
example : needed [fD, fB, fA] [("a", .int 1)] "d" "fb" ∧ ¬ needed [fD, fB, fA] [("a", .int 1)] "d" "fa" := by
  obtain ⟨v, s', h, hc⟩ : ∃ v s', run [fD, fB, fA] [("a", .int 1)] 5 "d" ⟨[("a", .int 1)], [], []⟩ = .ok (v, s') ∧
      s'.calls = ["fb", "fd"] := ⟨_, _, rfl, by decide⟩
  have := C02_exactly_needed _ _ rankD wf_diamond 5 "d" v s' h
  constructor
  · exact (this "fb").mp (by rw [hc]; decide)
  · intro hn; have := (this "fa").mpr hn; rw [hc] at this; revert this; decide

/-- `C02_exactly_needed` on the nullary pipeline: the nullary function is needed when `n` is not supplied -/
example : needed [fM, fN] [("z", .int 1)] "m" "fn" := by
  obtain ⟨v, s', h, hc⟩ : ∃ v s', run [fM, fN] [("z", .int 1)] 4 "m" ⟨[("z", .int 1)], [], []⟩ = .ok (v, s') ∧
      s'.calls = ["fn", "fm"] := ⟨_, _, rfl, by decide⟩
  exact (C02_exactly_needed _ _ _ wf_nullary 4 "m" v s' h "fn").mp (by rw [hc]; decide)

/-- `C02_used_parameters` / `C02_unused_iff` at work: with `a` supplied, `x` is a parameter of no needed function, so
    supplying it as well is rejected -/
example : ∃ ps, runTop [fD, fB, fA] [("a", .int 5), ("x", .int 1)] (.name "d") = .error (.unused ps) ∧ "x" ∈ ps :=
  ⟨_, rfl, by decide⟩

example : ¬ ∃ f, neededF [fD, fB, fA] [("a", .int 5), ("x", .int 1)] "d" f ∧ ∃ orig, ("x", orig) ∈ f.params := by
  obtain ⟨v, s', h, hc⟩ : ∃ v s', run [fD, fB, fA] [("a", .int 5), ("x", .int 1)] (fuelFor [fD, fB, fA]) "d"
      ⟨[("a", .int 5), ("x", .int 1)], [], []⟩ = .ok (v, s') ∧ s'.used = ["a", "a", "y", "b", "c"] := ⟨_, _, rfl, by decide⟩
  intro hex
  have := (C02_used_parameters _ _ rankD wf_diamond _ "d" v s' h "x").mpr hex
  rw [hc] at this; revert this; decide

/-- `C02_arg_combinations` at work: the hypotheses are satisfiable for the single-cut combination `["a", "y"]` of the
    diamond (every parameter outside the combination is produced upstream) -/
example : ∃ out, runTop [fD, fB, fA] [("a", .int 1), ("y", .int 2)] (.name "d") = .ok out ∧
    (∃ k, compose [fD, fB, fA] [("a", .int 1), ("y", .int 2)] k "d" = .ok out.value) ∧
    (∀ nm, nm ∈ out.calls ↔ needed [fD, fB, fA] [("a", .int 1), ("y", .int 2)] "d" nm) := by
  obtain ⟨v, s', h, hc⟩ : ∃ v s', run [fD, fB, fA] [("a", .int 1), ("y", .int 2)] 5 "d"
      ⟨[("a", .int 1), ("y", .int 2)], [], []⟩ = .ok (v, s') ∧ s'.calls = ["fb", "fd"] := ⟨_, _, rfl, by decide⟩
  have hcalls := C02_exactly_needed _ _ rankD wf_diamond 5 "d" v s' h
  apply C02_arg_combinations [fD, fB, fA] rankD wf_diamond "d"
    [["a", "b", "c"], ["b", "c", "x"], ["x", "y"], ["a", "y"]] (by decide) ["a", "y"] (by decide)
  · intro k; simp [akeys]
  · intro f hf p hp hpc
    have hm := Reach.mem _ _ hf.2
    simp [fD, fB, fA] at hm
    rcases hm with rfl | rfl | rfl
    · simp at hp; rcases hp with rfl | rfl | rfl <;> simp at hpc ⊢ <;> decide
    · simp at hp; rcases hp with rfl | rfl <;> simp at hpc
    · -- `fa` is not needed: it is cut off by the supplied `a`
      have := (hcalls "fa").mpr ⟨_, hf, rfl⟩
      rw [hc] at this; exact absurd this (by decide)

/-- … and for the only-roots combination of the nullary pipeline (`n` comes from the nullary function) -/
example : ∃ out, runTop [fM, fN] [("z", .int 1)] (.name "m") = .ok out ∧
    (∃ k, compose [fM, fN] [("z", .int 1)] k "m" = .ok out.value) ∧
    (∀ nm, nm ∈ out.calls ↔ needed [fM, fN] [("z", .int 1)] "m" nm) := by
  refine (C02_root_args_accepted [fM, fN] _ wf_nullary "m" ["z"] (by decide) _ ?_ ?_).2
  · intro k; simp [akeys]
  · intro f hf p hp hpc
    have hm := Reach.mem _ _ hf.2
    simp [fM, fN] at hm
    rcases hm with rfl | rfl <;> simp at hp <;> rcases hp with rfl | rfl <;> simp at hpc ⊢ <;> decide

/-- `KeyInj` holds on both pipelines, and `C02_arg_combinations_self_sufficient` then accepts every listed combination
    outright — e.g. `["b", "c", "x"]` of the diamond, whatever the values -/
example : KeyInj [fD, fB, fA] ∧ KeyInj [fM, fN] := by decide

example (v1 v2 v3 : Val) : ∃ out, runTop [fD, fB, fA] [("x", v1), ("c", v2), ("b", v3)] (.name "d") = .ok out ∧
    (∃ k, compose [fD, fB, fA] [("x", v1), ("c", v2), ("b", v3)] k "d" = .ok out.value) ∧
    (∀ nm, nm ∈ out.calls ↔ needed [fD, fB, fA] [("x", v1), ("c", v2), ("b", v3)] "d" nm) := by
  apply C02_arg_combinations_self_sufficient [fD, fB, fA] rankD wf_diamond (by decide) "d"
    [["a", "b", "c"], ["b", "c", "x"], ["x", "y"], ["a", "y"]] (by decide) ["b", "c", "x"] (by decide)
  intro k; simp [akeys]; constructor <;> (intro h; rcases h with h | h | h <;> simp [h])

end PF.C02
