/-!
Model of the four cache containers of `pipefunc/cache.py` (C14).

Keys and values are natural numbers (the harness maps its key alphabet and its unique put-values to numbers).
Every Python statement that can raise is modelled with its exception (`Err`), so "no operation raises" is a theorem about
the model (under the representation invariant) rather than an artefact of a totalised definition.

The definitions mirror the *repaired* code (fix commits DF-01, DF-02, DF-03); the pinned definitions that the repairs
replaced are kept next to them (`LRU.putPinned`, `Hyb.expirePinned`, `evictPinned`) for the defect witnesses in
`Props/C14.lean`.
-/
namespace PF.Cache

abbrev Key := Nat
abbrev Val := Nat

/-- the Python exceptions the cache code can raise -/
inductive Err
  | keyError | valueError | indexError | zeroDivision | fileNotFound
  deriving DecidableEq, Repr

/-! ### Python `dict` as an association list in insertion order -/
section Dict
variable {β : Type}

/-- `d.get(k)` -/
def lookup : List (Key × β) → Key → Option β
  | [], _ => none
  | (k', v) :: r, k => if k' = k then some v else lookup r k

/-- `k in d` -/
def has (d : List (Key × β)) (k : Key) : Bool := (lookup d k).isSome

/-- `del d[k]` / `d.pop(k)` (the caller models the `KeyError` of an absent key) -/
def erase : List (Key × β) → Key → List (Key × β)
  | [], _ => []
  | (k', v) :: r, k => if k' = k then erase r k else (k', v) :: erase r k

/-- `d[k] = v`: replaced in place when present, appended otherwise (insertion order is what `min(scores)` iterates) -/
def set : List (Key × β) → Key → β → List (Key × β)
  | [], k, v => [(k, v)]
  | (k', v') :: r, k, v => if k' = k then (k, v) :: r else (k', v') :: set r k v

/-- `list(d)` -/
def keys (d : List (Key × β)) : List Key := d.map (·.1)
end Dict

/-- first minimum of a list of `(key, score)` pairs — Python's `min(scores, key=scores.get)` returns the first minimal
    element in iteration order -/
def argmin : List (Key × Nat) → Option (Key × Nat)
  | [] => none
  | (k, s) :: r =>
    match argmin r with
    | none => some (k, s)
    | some (k', s') => if s ≤ s' then some (k, s) else some (k', s')

/-! ### LRUCache (`cache.py:257-346`) -/

/-- `_cache_dict`, `_cache_queue` (front = least recently used), `max_size` — `cache.py:271-293` -/
structure LRU where
  max : Nat
  dict : List (Key × Val)
  queue : List Key
  deriving Repr

namespace LRU

def empty (max : Nat) : LRU := { max := max, dict := [], queue := [] }

/-- `LRUCache.get` — `cache.py:295-306`: absent → `None`; else `queue.remove(key)` (`ValueError` when the key is not
    queued) and `queue.append(key)` -/
def get (s : LRU) (k : Key) : Except Err (LRU × Option Val) :=
  match lookup s.dict k with
  | none => .ok (s, none)
  | some v =>
    if k ∈ s.queue then .ok ({ s with queue := s.queue.erase k ++ [k] }, some v)
    else .error .valueError

/-- `LRUCache.put` as pinned — `cache.py:308-320`: `dict[key] = value`; below capacity append, otherwise
    `queue.pop(0)` (`IndexError` on an empty queue), `dict.pop(evicted)` (`KeyError` when absent), append -/
def putPinned (s : LRU) (k : Key) (v : Val) : Except Err LRU :=
  let d := set s.dict k v
  if s.queue.length < s.max then .ok { s with dict := d, queue := s.queue ++ [k] }
  else
    match s.queue with
    | [] => .error .indexError
    | old :: rest =>
      if has d old then .ok { s with dict := erase d old, queue := rest ++ [k] }
      else .error .keyError

/-- `LRUCache.put` after the DF-01 repair: a resident key gets its value replaced and moves to the back of the queue;
    a new key takes the pinned path -/
def put (s : LRU) (k : Key) (v : Val) : Except Err LRU :=
  if has s.dict k then
    if k ∈ s.queue then .ok { s with dict := set s.dict k v, queue := s.queue.erase k ++ [k] }
    else .error .valueError
  else putPinned s k v

/-- `LRUCache.clear` — `cache.py:339-345` -/
def clear (s : LRU) : LRU := { s with dict := [], queue := [] }

end LRU

/-! ### HybridCache (`cache.py:56-250`) -/

/-- `_cache_dict`, `_access_counts`, `_computation_durations`, `max_size`; the weights are `wa/W` and `wd/W` for a common
    positive denominator `W` that cancels in every comparison — `cache.py:81-106` -/
structure Hyb where
  max : Nat
  wa : Nat
  wd : Nat
  dict : List (Key × Val)
  ac : List (Key × Nat)
  du : List (Key × Nat)
  deriving Repr

/-- `sum(d.values())` -/
def total (d : List (Key × Nat)) : Nat := (d.map (·.2)).sum

namespace Hyb

def empty (max wa wd : Nat) : Hyb := { max := max, wa := wa, wd := wd, dict := [], ac := [], du := [] }

/-- The score `wa/W * a/ta + wd/W * d/td` of `cache.py:198-202`, multiplied by the positive constant `W * ta * td`
    (`W * ta` when all durations are zero: the repaired code then takes every normalised duration as 0). Scores are
    only ever compared with each other, so the common factor is immaterial. -/
def score (wa wd ta td a d : Nat) : Nat :=
  if td = 0 then wa * a else wa * a * td + wd * d * ta

/-- the `scores` dict of `cache.py:198-202`, in the iteration order of `_access_counts` -/
def scores (s : Hyb) : List (Key × Nat) :=
  s.ac.map fun p => (p.1, score s.wa s.wd (total s.ac) (total s.du) p.2 ((lookup s.du p.1).getD 0))

/-- `_expire` after the DF-02 repair — `cache.py:185-208`: `KeyError` when a key of `_access_counts` has no duration,
    `ValueError` for `min` of nothing, `KeyError` when a `del` misses -/
def expire (s : Hyb) : Except Err (Hyb × Key) :=
  if s.ac.all (fun p => has s.du p.1) then
    match argmin (scores s) with
    | none => .error .valueError
    | some (k, _) =>
      if has s.dict k then .ok ({ s with dict := erase s.dict k, ac := erase s.ac k, du := erase s.du k }, k)
      else .error .keyError
  else .error .keyError

/-- `_expire` as pinned: the normalisations divide by the totals (`ZeroDivisionError` when a total is zero and its
    dict is not empty) -/
def expirePinned (s : Hyb) : Except Err (Hyb × Key) :=
  if (total s.ac = 0 ∧ s.ac ≠ []) ∨ (total s.du = 0 ∧ s.du ≠ []) then .error .zeroDivision else expire s

/-- the three assignments at the end of `put` — `cache.py:181-183` -/
def store (s : Hyb) (k : Key) (v : Val) (d : Nat) : Hyb :=
  { s with dict := set s.dict k v, ac := set s.ac k 1, du := set s.du k d }

/-- `HybridCache.put` — `cache.py:160-183`; also returns the key `_expire` removed, if it ran -/
def put (s : Hyb) (k : Key) (v : Val) (d : Nat) : Except Err (Hyb × Option Key) :=
  if s.max ≤ s.dict.length then
    match expire s with
    | .error e => .error e
    | .ok (s1, ev) => .ok (store s1 k v d, some ev)
  else .ok (store s k v d, none)

def putPinned (s : Hyb) (k : Key) (v : Val) (d : Nat) : Except Err (Hyb × Option Key) :=
  if s.max ≤ s.dict.length then
    match expirePinned s with
    | .error e => .error e
    | .ok (s1, ev) => .ok (store s1 k v d, some ev)
  else .ok (store s k v d, none)

/-- `HybridCache.get` — `cache.py:135-158`: `_access_counts[key] += 1` raises `KeyError` when the count is missing -/
def get (s : Hyb) (k : Key) : Except Err (Hyb × Option Val) :=
  match lookup s.dict k with
  | none => .ok (s, none)
  | some v =>
    match lookup s.ac k with
    | none => .error .keyError
    | some a => .ok ({ s with ac := set s.ac k (a + 1) }, some v)

/-- `HybridCache.clear` — `cache.py:210-215` -/
def clear (s : Hyb) : Hyb := { s with dict := [], ac := [], du := [] }

end Hyb

/-! ### SimpleCache (`cache.py:348-380`) -/
structure Simple where
  dict : List (Key × Val)
  deriving Repr

/-! ### DiskCache (`cache.py:383-499`) -/

/-- the `*.pkl` files of the cache directory: key ↦ (stored value, `st_ctime_ns` as a logical clock reading) -/
abbrev Files := List (Key × (Val × Nat))

/-- the `(file, st_ctime_ns)` pairs `min(files, key=...)` ranges over — `cache.py:465` -/
def stamps (f : Files) : List (Key × Nat) := f.map fun p => (p.1, p.2.2)

/-- `_evict_if_needed` after the DF-03 repair — `cache.py:461-466`: `n` times, unlink the file with the smallest ctime
    among those that are left -/
def evictN : Nat → Files → Files
  | 0, f => f
  | n + 1, f =>
    match argmin (stamps f) with
    | none => f
    | some (k, _) => evictN n (erase f k)

/-- `_evict_if_needed` as pinned: the list of files is read once, so a second iteration stats the file the first one
    unlinked (`FileNotFoundError`) -/
def evictPinned : Nat → Files → Except Err Files
  | 0, f => .ok f
  | 1, f => .ok (evictN 1 f)
  | _ + 2, _ => .error .fileNotFound

/-- directory, logical clock, `max_size` (`None` = unbounded), optional in-memory LRU in front — `cache.py:403-424` -/
structure Disk where
  max : Option Nat
  files : Files
  clock : Nat
  lru : Option LRU
  deriving Repr

namespace Disk

def empty (max : Option Nat) (lru : Option Nat) : Disk :=
  { max := max, files := [], clock := 0, lru := lru.map LRU.empty }

/-- number of files `_evict_if_needed` removes: `len(files) - max_size` when positive -/
def excess (max : Option Nat) (f : Files) : Nat :=
  match max with
  | none => 0
  | some m => f.length - m

/-- the part of `DiskCache.put` that touches the directory: write the file (its ctime becomes the newest), then evict -/
def writeFile (s : Disk) (k : Key) (v : Val) : Disk :=
  let f := set s.files k (v, s.clock)
  { s with files := evictN (excess s.max f) f, clock := s.clock + 1 }

/-- `DiskCache.put` — `cache.py:446-456`: write the file, `lru_cache.put`, `_evict_if_needed` -/
def put (s : Disk) (k : Key) (v : Val) : Except Err Disk :=
  match s.lru with
  | none => .ok (writeFile s k v)
  | some l =>
    match l.put k v with
    | .error e => .error e
    | .ok l' => .ok { writeFile s k v with lru := some l' }

/-- `DiskCache.get` — `cache.py:430-444`: the LRU answers when it holds the key; otherwise the file is read and its
    value put into the LRU -/
def get (s : Disk) (k : Key) : Except Err (Disk × Option Val) :=
  match s.lru with
  | none => .ok (s, (lookup s.files k).map (·.1))
  | some l =>
    if has l.dict k then
      match l.get k with
      | .error e => .error e
      | .ok (l', o) => .ok ({ s with lru := some l' }, o)
    else
      match lookup s.files k with
      | none => .ok (s, none)
      | some (v, _) =>
        match l.put k v with
        | .error e => .error e
        | .ok l' => .ok ({ s with lru := some l' }, some v)

/-- `DiskCache.__contains__` — `cache.py:468-473` -/
def contains (s : Disk) (k : Key) : Bool :=
  (match s.lru with | none => false | some l => has l.dict k) || has s.files k

/-- `DiskCache.clear` — `cache.py:480-486` -/
def clear (s : Disk) : Disk := { s with files := [], lru := s.lru.map LRU.clear }

/-- a new `DiskCache(cache_dir, max_size, lru_cache_size=…)` on the same directory: the files stay, the LRU is new -/
def reopen (s : Disk) (max : Option Nat) (lru : Option Nat) : Disk :=
  { s with max := max, lru := lru.map LRU.empty }

end Disk

/-! ### Operations and observations common to the four containers -/

inductive Op
  | put (k : Key) (v : Val) (d : Nat)      -- `d`: the `duration` argument of `HybridCache.put`, ignored elsewhere
  | get (k : Key)
  | has (k : Key)
  | len
  | clear
  | reopen (max : Option Nat) (lru : Option Nat)   -- DiskCache only; a no-op for the in-memory caches
  deriving Repr

inductive Obs
  | unit
  | val (o : Option Val)
  | bool (b : Bool)
  | nat (n : Nat)
  deriving DecidableEq, Repr

def LRU.step (s : LRU) : Op → Except Err (LRU × Obs)
  | .put k v _ => match s.put k v with | .error e => .error e | .ok s' => .ok (s', .unit)
  | .get k => match s.get k with | .error e => .error e | .ok (s', o) => .ok (s', .val o)
  | .has k => .ok (s, .bool (has s.dict k))
  | .len => .ok (s, .nat s.dict.length)
  | .clear => .ok (s.clear, .unit)
  | .reopen _ _ => .ok (s, .unit)

def Hyb.step (s : Hyb) : Op → Except Err (Hyb × Obs)
  | .put k v d => match s.put k v d with | .error e => .error e | .ok (s', _) => .ok (s', .unit)
  | .get k => match s.get k with | .error e => .error e | .ok (s', o) => .ok (s', .val o)
  | .has k => .ok (s, .bool (has s.dict k))
  | .len => .ok (s, .nat s.dict.length)
  | .clear => .ok (s.clear, .unit)
  | .reopen _ _ => .ok (s, .unit)

def Simple.step (s : Simple) : Op → Except Err (Simple × Obs)
  | .put k v _ => .ok ({ dict := set s.dict k v }, .unit)
  | .get k => .ok (s, .val (lookup s.dict k))
  | .has k => .ok (s, .bool (has s.dict k))
  | .len => .ok (s, .nat s.dict.length)
  | .clear => .ok ({ dict := [] }, .unit)
  | .reopen _ _ => .ok (s, .unit)

def Disk.step (s : Disk) : Op → Except Err (Disk × Obs)
  | .put k v _ => match s.put k v with | .error e => .error e | .ok s' => .ok (s', .unit)
  | .get k => match s.get k with | .error e => .error e | .ok (s', o) => .ok (s', .val o)
  | .has k => .ok (s, .bool (s.contains k))
  | .len => .ok (s, .nat s.files.length)
  | .clear => .ok (s.clear, .unit)
  | .reopen m l => .ok (s.reopen m l, .unit)

/-- what a container answers for a key: the semantic content of a state -/
def LRU.view (s : LRU) (k : Key) : Option Val := lookup s.dict k
def Hyb.view (s : Hyb) (k : Key) : Option Val := lookup s.dict k
def Simple.view (s : Simple) (k : Key) : Option Val := lookup s.dict k
def Disk.view (s : Disk) (k : Key) : Option Val :=
  match (match s.lru with | none => none | some l => lookup l.dict k) with
  | some v => some v
  | none => (lookup s.files k).map (·.1)

/-- a container seen through its public operations -/
structure Sem (σ : Type) where
  step : σ → Op → Except Err (σ × Obs)
  view : σ → Key → Option Val

def lruSem : Sem LRU := ⟨LRU.step, LRU.view⟩
def hybSem : Sem Hyb := ⟨Hyb.step, Hyb.view⟩
def simpleSem : Sem Simple := ⟨Simple.step, Simple.view⟩
def diskSem : Sem Disk := ⟨Disk.step, Disk.view⟩

/-- run a history; the observations are returned oldest first; the first exception ends the run -/
def Sem.run {σ} (M : Sem σ) : σ → List Op → Except Err (σ × List Obs)
  | s, [] => .ok (s, [])
  | s, op :: h =>
    match M.step s op with
    | .error e => .error e
    | .ok (s', o) =>
      match M.run s' h with
      | .error e => .error e
      | .ok (s'', os) => .ok (s'', o :: os)

/-- "the value most recently put for each key" as a function of the history, updated by one operation -/
def recent (m : Key → Option Val) : Op → Key → Option Val
  | .put k v _ => fun k' => if k' = k then some v else m k'
  | _ => m

/-- the value most recently put for `k` in the history `h` (`none`: never put) -/
def lastPut (h : List Op) : Key → Option Val := h.foldl recent (fun _ => none)

/-! ### The abstract LRU policy: a recency list of `(key, value)`, most recent last, capped at `max` -/
abbrev Recency := List (Key × Val)

namespace Recency
/-- a hit moves the entry to the back -/
def get (r : Recency) (k : Key) : Recency × Option Val :=
  match lookup r k with
  | none => (r, none)
  | some v => (erase r k ++ [(k, v)], some v)

/-- the entry goes to the back with its new value; if that makes the list longer than `max`, the front — the least
    recently used entry — leaves -/
def put (max : Nat) (r : Recency) (k : Key) (v : Val) : Recency :=
  let r' := erase r k ++ [(k, v)]
  if max < r'.length then r'.tail else r'
end Recency

/-- abstraction function of `LRU`: every queued key with its value, in queue order -/
def LRU.abs (s : LRU) : Recency := s.queue.map fun k => (k, (lookup s.dict k).getD 0)

end PF.Cache
