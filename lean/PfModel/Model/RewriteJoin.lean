/-
`Pipeline.join(self, *pipelines)` / `|` AS WRITTEN (`pipefunc/_pipeline/_base.py:1698-1741`): the copies of the functions of
every operand (a `Pipeline` contributes its `functions` in order, a bare `PipeFunc` itself) are collected into ONE list and
handed to the `Pipeline` constructor (`self.copy(functions=functions, default_resources=None)`, `_base.py:1628-1650`), which
`add`s them one by one (`_base.py:160-186`).  Every `add` (`_base.py:220-263`) first refuses an output name some function added
before already produces (`validate_unique_output_names`, `_validation.py:139-147`), appends, and re-validates the pipeline built
SO FAR (`_validate`, `_base.py:1147-1154`: scopes, consistent defaults, and the graph-based checks, which raise
`NetworkXUnfeasible` on a cycle).  So `join` refuses exactly when some PREFIX of the concatenation fails - which is more than
"the whole list is valid" (`PF.Rw.join`): `validate_consistent_defaults` skips an argument that is an output, so two functions
with different defaults for `z` are refused when the producer of `z` comes AFTER them and accepted when it comes before.

`PF.Rw.addF` (Model/RewriteOps.lean) is `Pipeline.add` without the cycle check; nothing is copied.  Core Lean only.
-/
import PfModel.Model.RewriteOps
namespace PF.Rw.Join
open PF PF.Pipe PF.Rw

/-- one `Pipeline.add(f)` of the constructor's loop (`_base.py:180-185, 220-263`): `addF` (unique output names, append,
    `validate_scopes`, `validate_consistent_defaults`), then the graph-based part of `_validate` (a cycle raises
    `NetworkXUnfeasible`, printed `RecursionError` by the driver like every other cycle of the C10 model) -/
def addStep (acc : List RFunc) (f : RFunc) : Except Err (List RFunc) :=
  match addF f acc with
  | .error e => .error e
  | .ok r => if acyclic r then .ok r else .error .fuel

/-- the loop `for f in functions: self.add(f)` of `Pipeline.__init__` (`_base.py:180-185`), started from `acc` -/
def addAll : List RFunc → List RFunc → Except Err (List RFunc)
  | acc, [] => .ok acc
  | acc, f :: rest =>
    match addStep acc f with
    | .error e => .error e
    | .ok acc' => addAll acc' rest

/-- `Pipeline(functions)` -/
def pipelineOf (l : List RFunc) : Except Err (List RFunc) := addAll [] l

/-- `Pipeline.join(self, *pipelines)` and `self | other` (`_base.py:1698-1741`): an operand is the list of the functions of a
    `Pipeline`, or the singleton list of a bare `PipeFunc` -/
def joinAll (self : List RFunc) (others : List (List RFunc)) : Except Err (List RFunc) :=
  pipelineOf (self ++ others.flatten)

/-- what ONE `add` demands of the function `f` it adds to the functions `pre` added before (all decidable) -/
def addOK (pre : List RFunc) (f : RFunc) : Bool :=
  !(f.core.outputs.any (allOutputs pre).contains) && !(outputIsParam [f]) && !(scopesClash none (pre ++ [f])) &&
  consistentDefaults (pre ++ [f]) && acyclic (pre ++ [f])

/-! ### which outputs of an operand a join leaves alone (decidable; evaluated by the driver for every operand output) -/

/-- one round of "the non-bound parameters of the producers of the names collected so far" inside the operand `ms` -/
def coneStep (ms : List RFunc) (c : List String) : List String :=
  (c ++ c.flatMap fun x => match rproducer ms x with
    | none => []
    | some f => f.core.params.filterMap fun p => if (alookup f.core.bound p.1).isSome then none else some p.1).eraseDups

/-- the names upstream of `o` inside `ms` (`ms.length + 1` rounds; `closedB` checks the result, so no proof about the iteration is needed) -/
def coneOf (ms : List RFunc) (o : String) : List String :=
  (List.range (ms.length + 1)).foldl (fun c _ => coneStep ms c) [o]

/-- `c` is closed under "is a non-bound parameter of the producer" in `ms` (a bound parameter is never wired to anything) -/
def closedB (ms : List RFunc) (c : List String) : Bool :=
  c.all fun x => match rproducer ms x with
    | none => true
    | some f => f.core.params.all fun p => (alookup f.core.bound p.1).isSome || c.contains p.1

/-- no name of `c` is an output of a function of the other operands -/
def untouchedB (rest : List RFunc) (c : List String) : Bool :=
  c.all fun x => rest.all fun g => !(g.core.outputs.contains x)

/-- the keywords supply every root argument of the cone (non-bound parameters of cone functions that nothing in `ms` produces) -/
def suppliedB (ms : List RFunc) (kw : List (String × Val)) (c : List String) : Bool :=
  c.all fun x => match rproducer ms x with
    | none => true
    | some f => f.core.params.all fun p =>
        (alookup f.core.bound p.1).isSome || (rproducer ms p.1).isSome || (alookup kw p.1).isSome

/-- output `o` of operand `ms` is left alone by a join with the functions `rest` of the other operands: its cone inside `ms`
    contains no output of `rest` -/
def joinKeeps (ms rest : List RFunc) (o : String) : Bool :=
  let c := coneOf ms o
  c.contains o && closedB ms c && untouchedB rest c

/-! ### the seeded change C10-s4-B, as a definition -/

/-- `g.func is f.func and g.output_name == f.output_name`: the same wrapped callable (the model identifies a callable by the
    name its terms record) under the same current output name -/
def sameStep (f g : RFunc) : Bool := f.core.name == g.core.name && f.core.outputs == g.core.outputs

/-- the seeded loop: a function that "is already there" is skipped -/
def skipJoined : List RFunc → List RFunc → List RFunc
  | acc, [] => acc
  | acc, f :: rest => if acc.any (sameStep f) then skipJoined acc rest else skipJoined (acc ++ [f]) rest

/-- `Pipeline.join` with seeded change C10-s4-B -/
def joinSeeded (self : List RFunc) (others : List (List RFunc)) : Except Err (List RFunc) :=
  pipelineOf (skipJoined [] (self ++ others.flatten))

end PF.Rw.Join
