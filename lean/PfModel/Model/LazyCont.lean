/-
Model of `evaluate_lazy` on containers (`pipefunc/lazy.py:122-149`): lists, tuples, dicts and sets of deferred objects, nested.

`evaluate_lazy(x)`:
* `lazy.py:135-136`  a `_LazyFunction` → `x.evaluate()` (the EXISTING `PF.Lazy.eval`, through `evalArg`);
* `lazy.py:137-140`  `not _contains_lazy(x)` → `x` itself.  `_contains_lazy` (`lazy.py:122-130`) looks into dict VALUES, tuples, lists and
  sets (recursively).  Value-wise the shortcut is the identity: rebuilding a container none of whose leaves is deferred yields an
  equal container of the same constructor, and evaluates nothing; the model therefore has no branch for it (the harness checks
  object identity on the implementation);
* `lazy.py:141-148`  dict → `{k: evaluate_lazy(v) for k, v in x.items()}` (values, insertion order; keys are not looked at);
  tuple / list → elements left to right; set → elements in the set's iteration order (the model's list IS that order);
* `lazy.py:149`      anything else → `x` itself: a container `evaluate_lazy` does not look into (`frozenset`, `deque`, a dataclass …)
  keeps its deferred objects UNEVALUATED: `Cont.other`, handed over as it is (`CVal.other` keeps the subtrees).

`isinstance` is used for the test and the rebuild: a namedtuple / tuple subclass holding a deferred object comes back as a plain
`tuple`, a `defaultdict` / `OrderedDict` as a plain `dict`, a list / set subclass as `list` / `set`; without a deferred object inside
it comes back as it is.  The model's constructors are the four BASE types; the harness maps a subclass instance to its base
constructor (what comes back when something inside is deferred) and checks identity otherwise.
Core Lean only.
-/
import PfModel.Model.Lazy
namespace PF.Lazy
open PF PF.Pipe

/-- what `evaluate_lazy` is called with: a leaf (a deferred object or a plain value) or a container -/
inductive Cont
  | leaf (a : LArg)
  | list (xs : List Cont)
  | tuple (xs : List Cont)
  | dict (kvs : List (String × Cont))
  | set (xs : List Cont)                    -- in iteration order
  | other (tag : String) (xs : List Cont)   -- a container `evaluate_lazy` does not look into
  deriving Repr, Inhabited

/-- what `evaluate_lazy` returns: same constructors, values at the leaves; an `other` container is the object handed in -/
inductive CVal
  | leaf (v : Val)
  | list (xs : List CVal)
  | tuple (xs : List CVal)
  | dict (kvs : List (String × CVal))
  | set (xs : List CVal)
  | other (tag : String) (xs : List Cont)
  deriving Repr, Inhabited

/-- the form of a container without its leaves: constructors, lengths, dict keys -/
inductive Shape
  | leaf
  | list (xs : List Shape)
  | tuple (xs : List Shape)
  | dict (kvs : List (String × Shape))
  | set (xs : List Shape)
  | other (tag : String) (xs : List Shape)
  deriving Repr, Inhabited

mutual
def Cont.shape : Cont → Shape
  | .leaf _ => .leaf
  | .list xs => .list (shapes xs)
  | .tuple xs => .tuple (shapes xs)
  | .dict kvs => .dict (shapeKVs kvs)
  | .set xs => .set (shapes xs)
  | .other t xs => .other t (shapes xs)
def shapes : List Cont → List Shape
  | [] => []
  | c :: r => c.shape :: shapes r
def shapeKVs : List (String × Cont) → List (String × Shape)
  | [] => []
  | (k, c) :: r => (k, c.shape) :: shapeKVs r
end

mutual
def CVal.shape : CVal → Shape
  | .leaf _ => .leaf
  | .list xs => .list (cshapes xs)
  | .tuple xs => .tuple (cshapes xs)
  | .dict kvs => .dict (cshapeKVs kvs)
  | .set xs => .set (cshapes xs)
  | .other t xs => .other t (shapes xs)
def cshapes : List CVal → List Shape
  | [] => []
  | c :: r => c.shape :: cshapes r
def cshapeKVs : List (String × CVal) → List (String × Shape)
  | [] => []
  | (k, c) :: r => (k, c.shape) :: cshapeKVs r
end

/- the leaves `evaluate_lazy` reaches, left to right (none below `other`) -/
mutual
def Cont.leaves : Cont → List LArg
  | .leaf a => [a]
  | .list xs => leavesL xs
  | .tuple xs => leavesL xs
  | .dict kvs => leavesKV kvs
  | .set xs => leavesL xs
  | .other _ _ => []
def leavesL : List Cont → List LArg
  | [] => []
  | c :: r => c.leaves ++ leavesL r
def leavesKV : List (String × Cont) → List LArg
  | [] => []
  | (_, c) :: r => c.leaves ++ leavesKV r
end

def refsOf : List LArg → List Nat
  | [] => []
  | .ref i :: r => i :: refsOf r
  | .val _ :: r => refsOf r

/-- the deferred objects among the leaves `evaluate_lazy` reaches, in evaluation order -/
def Cont.leafRefs (c : Cont) : List Nat := refsOf c.leaves

/- `evaluate_lazy` (`lazy.py:133-149`) over a way `rec` of evaluating a `_LazyFunction` -/
mutual
def evalContWith (rec : Nat → ESt → Except EErr (Val × ESt)) : Cont → ESt → Except EErr (CVal × ESt)
  | .leaf a, s =>
    match evalArg rec a s with
    | .error e => .error e
    | .ok (v, s1) => .ok (.leaf v, s1)
  | .list xs, s =>
    match evalContsWith rec xs s with
    | .error e => .error e
    | .ok (vs, s1) => .ok (.list vs, s1)
  | .tuple xs, s =>
    match evalContsWith rec xs s with
    | .error e => .error e
    | .ok (vs, s1) => .ok (.tuple vs, s1)
  | .dict kvs, s =>
    match evalKVsWith rec kvs s with
    | .error e => .error e
    | .ok (vs, s1) => .ok (.dict vs, s1)
  | .set xs, s =>
    match evalContsWith rec xs s with
    | .error e => .error e
    | .ok (vs, s1) => .ok (.set vs, s1)
  | .other t xs, s => .ok (.other t xs, s)
def evalContsWith (rec : Nat → ESt → Except EErr (Val × ESt)) : List Cont → ESt → Except EErr (List CVal × ESt)
  | [], s => .ok ([], s)
  | c :: r, s =>
    match evalContWith rec c s with
    | .error e => .error e
    | .ok (v, s1) =>
      match evalContsWith rec r s1 with
      | .error e => .error e
      | .ok (vs, s2) => .ok (v :: vs, s2)
def evalKVsWith (rec : Nat → ESt → Except EErr (Val × ESt)) : List (String × Cont) → ESt → Except EErr (List (String × CVal) × ESt)
  | [], s => .ok ([], s)
  | (k, c) :: r, s =>
    match evalContWith rec c s with
    | .error e => .error e
    | .ok (v, s1) =>
      match evalKVsWith rec r s1 with
      | .error e => .error e
      | .ok (vs, s2) => .ok ((k, v) :: vs, s2)
end

/-- `evaluate_lazy(x)` on a node table: deferred leaves through `_LazyFunction.evaluate` (`eval`, with its own fuel) -/
def evalCont (nodes : List Node) (c : Cont) (s : ESt) : Except EErr (CVal × ESt) :=
  evalContWith (eval nodes (nodes.length + 1)) c s

/-- `evaluate_lazy(x)` in a session -/
def evaluateCont (c : Cont) (s : LSt) : Except EErr (CVal × LSt) :=
  match evalCont s.nodes c s.ev with
  | .error e => .error e
  | .ok (v, e) => .ok (v, { s with ev := e })

/- the container of the values the leaves stand for (pointwise `den`); an `other` container stands for itself -/
mutual
def denCont (nodes : List Node) : Cont → Option CVal
  | .leaf a => match den nodes a with | some v => some (.leaf v) | none => none
  | .list xs => match denConts nodes xs with | some vs => some (.list vs) | none => none
  | .tuple xs => match denConts nodes xs with | some vs => some (.tuple vs) | none => none
  | .dict kvs => match denKVs nodes kvs with | some vs => some (.dict vs) | none => none
  | .set xs => match denConts nodes xs with | some vs => some (.set vs) | none => none
  | .other t xs => some (.other t xs)
def denConts (nodes : List Node) : List Cont → Option (List CVal)
  | [] => some []
  | c :: r =>
    match denCont nodes c, denConts nodes r with
    | some v, some vs => some (v :: vs)
    | _, _ => none
def denKVs (nodes : List Node) : List (String × Cont) → Option (List (String × CVal))
  | [] => some []
  | (k, c) :: r =>
    match denCont nodes c, denKVs nodes r with
    | some v, some vs => some ((k, v) :: vs)
    | _, _ => none
end

end PF.Lazy
