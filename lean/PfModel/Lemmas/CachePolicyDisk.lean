import PfModel.Lemmas.CachePolicyHybrid
/-! Helper lemmas for C14: DiskCache — eviction of the oldest files, the two-level invariant, lawfulness. -/
namespace PF.Cache

theorem mem_of_mem_erase {β : Type} (d : List (Key × β)) (k : Key) (p : Key × β) (h : p ∈ erase d k) : p ∈ d := by
  induction d with
  | nil => simp [erase] at h
  | cons e es ih =>
    obtain ⟨a, b⟩ := e
    simp only [erase] at h
    split at h
    · exact List.mem_cons_of_mem _ (ih h)
    · rcases List.mem_cons.mp h with rfl | h
      · simp
      · exact List.mem_cons_of_mem _ (ih h)

theorem lookup_of_mem {β : Type} (d : List (Key × β)) (h : (keys d).Nodup) (p : Key × β) (hp : p ∈ d) :
    lookup d p.1 = some p.2 := by
  induction d with
  | nil => simp at hp
  | cons e es ih =>
    obtain ⟨a, b⟩ := e
    simp only [keys, List.map_cons, List.nodup_cons] at h
    rcases List.mem_cons.mp hp with rfl | hp
    · simp [lookup]
    · simp only [lookup]
      split
      · next e =>
        exfalso; apply h.1; rw [e]
        exact List.mem_map_of_mem (f := (·.1)) hp
      · exact ih h.2 hp

theorem mem_of_lookup {β : Type} (d : List (Key × β)) (k : Key) (x : β) (h : lookup d k = some x) : (k, x) ∈ d := by
  induction d with
  | nil => simp [lookup] at h
  | cons e es ih =>
    obtain ⟨a, b⟩ := e
    simp only [lookup] at h
    split at h
    · next e => cases h; subst e; simp
    · exact List.mem_cons_of_mem _ (ih h)

theorem exists_other {β : Type} (d : List (Key × β)) (h : (keys d).Nodup) (h2 : 2 ≤ d.length) (k : Key) :
    ∃ q ∈ d, q.1 ≠ k := by
  match d, h, h2 with
  | a :: b :: r, h, _ =>
    by_cases ha : a.1 = k
    · refine ⟨b, by simp, ?_⟩
      simp only [keys, List.map_cons, List.nodup_cons, List.mem_cons, not_or] at h
      intro hb; exact h.1.1 (ha.trans hb.symm)
    · exact ⟨a, by simp, ha⟩

theorem mem_stamps (f : Files) (e t : Nat) (h : (e, t) ∈ stamps f) : ∃ p ∈ f, p.1 = e ∧ p.2.2 = t := by
  simp only [stamps, List.mem_map] at h
  obtain ⟨p, hp, he⟩ := h
  cases he
  exact ⟨p, hp, rfl, rfl⟩

/-- the file `_evict_if_needed` unlinks in one round is one whose ctime no remaining file undercuts -/
theorem argmin_stamps_oldest (f : Files) (e t : Nat) (h : argmin (stamps f) = some (e, t)) :
    has f e = true ∧ ∀ p ∈ f, t ≤ p.2.2 := by
  obtain ⟨hle, _⟩ := argmin_spec _ _ _ h
  obtain ⟨p, hp, he, _⟩ := mem_stamps f e t (argmin_mem _ _ _ h)
  refine ⟨?_, ?_⟩
  · rw [has_iff_mem_keys, ← he]; exact List.mem_map_of_mem (f := (·.1)) hp
  · intro q hq
    exact hle (q.1, q.2.2) (by simp only [stamps, List.mem_map]; exact ⟨q, hq, rfl⟩)

theorem evictN_sub (n : Nat) : ∀ (f : Files) p, p ∈ evictN n f → p ∈ f := by
  induction n with
  | zero => intro f p h; exact h
  | succ n ih =>
    intro f p h
    simp only [evictN] at h
    split at h
    · exact h
    · exact mem_of_mem_erase _ _ _ (ih _ _ h)

theorem evictN_lookup_sub (n : Nat) : ∀ (f : Files) k x, lookup (evictN n f) k = some x → lookup f k = some x := by
  induction n with
  | zero => intro f k x h; exact h
  | succ n ih =>
    intro f k x h
    simp only [evictN] at h
    split at h
    · exact h
    · exact lookup_erase_some _ _ _ _ (ih _ _ _ h)

theorem evictN_nodup (n : Nat) : ∀ (f : Files), (keys f).Nodup → (keys (evictN n f)).Nodup := by
  induction n with
  | zero => intro f h; exact h
  | succ n ih =>
    intro f h
    simp only [evictN]
    split
    · exact h
    · exact ih _ (nodup_keys_erase _ _ h)

theorem evictN_length (n : Nat) : ∀ (f : Files), (keys f).Nodup → (evictN n f).length = f.length - n := by
  induction n with
  | zero => intro f _; rfl
  | succ n ih =>
    intro f h
    simp only [evictN]
    split
    · next hn =>
      have : stamps f = [] := (argmin_none _).mp hn
      have : f = [] := by simpa [stamps] using this
      subst this; simp
    · next e t ha =>
      obtain ⟨he, _⟩ := argmin_stamps_oldest f e t ha
      rw [ih _ (nodup_keys_erase _ _ h)]
      have := length_erase_has f e h he
      omega

/-- a file whose ctime is later than every other file's survives as long as fewer than all files are evicted -/
theorem evictN_keeps (n : Nat) : ∀ (f : Files) (k : Key) (v c : Nat), (keys f).Nodup → lookup f k = some (v, c) →
    (∀ p ∈ f, p.1 ≠ k → p.2.2 < c) → n < f.length → lookup (evictN n f) k = some (v, c) := by
  induction n with
  | zero => intro f k v c _ hl _ _; exact hl
  | succ n ih =>
    intro f k v c hnd hl hnew hn
    simp only [evictN]
    split
    · exact hl
    · next e t ha =>
      obtain ⟨he, hle⟩ := argmin_stamps_oldest f e t ha
      have hek : k ≠ e := by
        intro hke
        subst hke
        obtain ⟨p, hp, hpk, hpt⟩ := mem_stamps f k t (argmin_mem _ _ _ ha)
        have := lookup_of_mem f hnd p hp
        rw [hpk, hl] at this
        have htc : t = c := by rw [← hpt]; have h' := Option.some.inj this; rw [← h']
        obtain ⟨q, hq, hqk⟩ := exists_other f hnd (by omega) k
        have h1 := hnew q hq hqk
        have h2 := hle q hq
        omega
      refine ih (erase f e) k v c (nodup_keys_erase _ _ hnd) ?_ ?_ ?_
      · rw [lookup_erase_ne _ _ _ hek]; exact hl
      · intro p hp hpk; exact hnew p (mem_of_mem_erase _ _ _ hp) hpk
      · have := length_erase_has f e hnd he; omega

theorem mem_set {β : Type} (d : List (Key × β)) (hnd : (keys d).Nodup) (k : Key) (v : β) (p : Key × β) (h : p ∈ set d k v) :
    p = (k, v) ∨ (p ∈ d ∧ p.1 ≠ k) := by
  induction d with
  | nil => simp only [set, List.mem_singleton] at h; exact Or.inl h
  | cons e es ih =>
    obtain ⟨a, b⟩ := e
    simp only [keys, List.map_cons, List.nodup_cons] at hnd
    simp only [set] at h
    split at h
    · next hak =>
      subst hak
      rcases List.mem_cons.mp h with rfl | h
      · exact Or.inl rfl
      · refine Or.inr ⟨List.mem_cons_of_mem _ h, ?_⟩
        intro e; apply hnd.1; rw [← e]; exact List.mem_map_of_mem (f := (·.1)) h
    · next hak =>
      rcases List.mem_cons.mp h with rfl | h
      · exact Or.inr ⟨by simp, hak⟩
      · rcases ih hnd.2 h with h' | ⟨h', hne⟩
        · exact Or.inl h'
        · exact Or.inr ⟨List.mem_cons_of_mem _ h', hne⟩

/-! ### the LRU seen through lookups -/

theorem lru_put_self (l l' : LRU) (k : Key) (v : Val) (hi : l.Inv) (hp : l.put k v = .ok l') : lookup l'.dict k = some v :=
  lru_lawful.put_self l k v 0 l' .unit hi (by simp [lruSem, LRU.step, hp])

theorem lru_put_frame (l l' : LRU) (k : Key) (v : Val) (hi : l.Inv) (hp : l.put k v = .ok l') (x : Key) (y : Val)
    (hx : x ≠ k) (h : lookup l'.dict x = some y) : lookup l.dict x = some y := by
  have := lru_lawful.frame l (.put k v 0) l' .unit x y hi (by simp [lruSem, LRU.step, hp]) h
  simpa [recent, hx, lruSem, LRU.view] using this

/-! ### DiskCache: invariant -/

/-- `max_size` is not 0, the in-memory LRU is well formed, one file per key, every ctime is in the past, and where the
    LRU and a file both hold a key they hold the same value -/
structure Disk.Inv (s : Disk) : Prop where
  pos : s.max ≠ some 0
  lruInv : ∀ l, s.lru = some l → l.Inv
  fnodup : (keys s.files).Nodup
  fresh : ∀ p ∈ s.files, p.2.2 < s.clock
  agree : ∀ l, s.lru = some l → ∀ k a b, lookup l.dict k = some a → lookup s.files k = some b → a = b.1

theorem Disk.view_lru (s : Disk) (l : LRU) (k : Key) (a : Val) (hl : s.lru = some l) (h : lookup l.dict k = some a) :
    s.view k = some a := by
  simp [Disk.view, hl, h]

theorem Disk.view_cases (s : Disk) (k : Key) (y : Val) (h : s.view k = some y) :
    (∃ l, s.lru = some l ∧ lookup l.dict k = some y) ∨ (∃ t, lookup s.files k = some (y, t)) := by
  unfold Disk.view at h
  cases hl : s.lru with
  | none =>
    simp only [hl] at h
    cases hf : lookup s.files k with
    | none => simp [hf] at h
    | some b => simp only [hf, Option.map_some, Option.some.injEq] at h; exact Or.inr ⟨b.2, by rw [← h]⟩
  | some l =>
    simp only [hl] at h
    cases hd : lookup l.dict k with
    | some a => simp only [hd, Option.some.injEq] at h; exact Or.inl ⟨l, rfl, by rw [hd, h]⟩
    | none =>
      simp only [hd] at h
      cases hf : lookup s.files k with
      | none => simp [hf] at h
      | some b => simp only [hf, Option.map_some, Option.some.injEq] at h; exact Or.inr ⟨b.2, by rw [← h]⟩

theorem Disk.view_file (s : Disk) (hi : s.Inv) (k : Key) (y t : Nat) (h : lookup s.files k = some (y, t)) : s.view k = some y := by
  unfold Disk.view
  cases hl : s.lru with
  | none => simp [h]
  | some l =>
    simp only
    cases hd : lookup l.dict k with
    | none => simp [h]
    | some a => have := hi.agree l hl k a (y, t) hd h; simp [this]

/-- nothing appears from nowhere: if at key `x` the new LRU only holds what the old one held and the new directory only
    what the old one held, then the new answer at `x` is the old answer -/
theorem Disk.view_mono_at (s s' : Disk) (hi : s.Inv) (x : Key)
    (hl : ∀ l' y, s'.lru = some l' → lookup l'.dict x = some y → ∃ l, s.lru = some l ∧ lookup l.dict x = some y)
    (hf : ∀ b, lookup s'.files x = some b → lookup s.files x = some b) (y : Val) (h : s'.view x = some y) :
    s.view x = some y := by
  rcases Disk.view_cases s' x y h with ⟨l', hl', hd⟩ | ⟨t, hft⟩
  · obtain ⟨l, h1, h2⟩ := hl l' y hl' hd
    exact Disk.view_lru s l x y h1 h2
  · exact Disk.view_file s hi x y t (hf _ hft)

theorem Disk.inv_empty (m l : Option Nat) (hm : m ≠ some 0) (hl : l ≠ some 0) : (Disk.empty m l).Inv := by
  refine ⟨hm, ?_, by simp [Disk.empty, keys], by simp [Disk.empty], ?_⟩
  · intro q hq
    cases l with
    | none => simp [Disk.empty] at hq
    | some n =>
      simp only [Disk.empty, Option.map_some, Option.some.injEq] at hq
      subst hq
      exact LRU.inv_empty n (by cases n with | zero => simp at hl | succ _ => omega)
  · intro q _ k a b _ hb; simp [Disk.empty, lookup] at hb

theorem Disk.excess_lt (max : Option Nat) (f : Files) (hpos : max ≠ some 0) (hlen : 0 < f.length) :
    Disk.excess max f < f.length := by
  cases max with
  | none => exact hlen
  | some m =>
    have : m ≠ 0 := fun e => hpos (by rw [e])
    simp only [Disk.excess]; omega

/-- the directory after `put`: the new file is there with the newest ctime, nothing else changed except evictions, and
    no more than `max_size` files are left -/
theorem Disk.writeFile_spec (s : Disk) (k : Key) (v : Val) (hi : s.Inv) :
    (keys (s.writeFile k v).files).Nodup ∧
    (∀ p ∈ (s.writeFile k v).files, p.2.2 < (s.writeFile k v).clock) ∧
    lookup (s.writeFile k v).files k = some (v, s.clock) ∧
    (∀ x b, x ≠ k → lookup (s.writeFile k v).files x = some b → lookup s.files x = some b) ∧
    (∀ m, s.max = some m → (s.writeFile k v).files.length ≤ m) := by
  have hnd : (keys (set s.files k (v, s.clock))).Nodup := nodup_keys_set _ _ _ hi.fnodup
  have hlen : 0 < (set s.files k (v, s.clock)).length := by
    cases hset : set s.files k (v, s.clock) with
    | nil => have := lookup_set_self s.files k (v, s.clock); rw [hset] at this; simp [lookup] at this
    | cons _ _ => simp
  refine ⟨evictN_nodup _ _ hnd, ?_, ?_, ?_, ?_⟩
  · intro p hp
    have hp' := evictN_sub _ _ _ hp
    simp only [Disk.writeFile]
    rcases mem_set _ hi.fnodup _ _ _ hp' with rfl | ⟨hm, _⟩
    · simp
    · have := hi.fresh p hm; omega
  · apply evictN_keeps _ _ _ _ _ hnd (lookup_set_self _ _ _)
    · intro p hp hpk
      rcases mem_set _ hi.fnodup _ _ _ hp with rfl | ⟨hm, _⟩
      · exact absurd rfl hpk
      · exact hi.fresh p hm
    · exact Disk.excess_lt _ _ hi.pos hlen
  · intro x b hx h
    have := evictN_lookup_sub _ _ _ _ h
    rwa [lookup_set_ne _ _ _ _ hx] at this
  · intro m hm
    simp only [Disk.writeFile, hm, Disk.excess]
    rw [evictN_length _ _ hnd]; omega

theorem Disk.put_spec (s : Disk) (k : Key) (v : Val) (hi : s.Inv) :
    ∃ s', s.put k v = .ok s' ∧ s'.Inv ∧ s'.max = s.max ∧ s'.view k = some v ∧
      (∀ m, s.max = some m → s'.files.length ≤ m) ∧
      (∀ x y, x ≠ k → s'.view x = some y → s.view x = some y) := by
  obtain ⟨w1, w2, w3, w4, w5⟩ := Disk.writeFile_spec s k v hi
  unfold Disk.put
  cases hl : s.lru with
  | none =>
    have hwl : (s.writeFile k v).lru = none := by simp [Disk.writeFile, hl]
    have hinv : (s.writeFile k v).Inv :=
      ⟨hi.pos, (by intro l h; rw [hwl] at h; cases h), w1, w2, (by intro l h; rw [hwl] at h; cases h)⟩
    refine ⟨_, rfl, hinv, rfl, Disk.view_file _ hinv k v s.clock w3, w5, ?_⟩
    intro x y hx h
    refine Disk.view_mono_at s _ hi x ?_ (fun b hb => w4 x b hx hb) y h
    intro l' y' h'; rw [hwl] at h'; cases h'
  | some l =>
    have hli := hi.lruInv l hl
    obtain ⟨l', hp, hli', _⟩ := LRU.put_spec l k v hli
    simp only [hp]
    have hself := lru_put_self l l' k v hli hp
    have hinv : Disk.Inv { s.writeFile k v with lru := some l' } := by
      refine ⟨hi.pos, ?_, w1, w2, ?_⟩
      · intro q hq; have hq' : l' = q := by simpa using hq
        subst hq'; exact hli'
      · intro q hq x a b ha hb
        have hq' : l' = q := by simpa using hq
        subst hq'
        by_cases hx : x = k
        · subst hx
          rw [hself] at ha
          have hb' : lookup (s.writeFile x v).files x = some b := hb
          rw [w3] at hb'
          cases ha; cases hb'; rfl
        · exact hi.agree l hl x a b (lru_put_frame l l' k v hli hp x a hx ha) (w4 x b hx hb)
    refine ⟨_, rfl, hinv, rfl, Disk.view_lru _ l' k v rfl hself, w5, ?_⟩
    intro x y hx h
    refine Disk.view_mono_at s { s.writeFile k v with lru := some l' } hi x ?_ (fun b hb => w4 x b hx hb) y h
    intro q y' hq hd
    have hq' : l' = q := by simpa using hq
    subst hq'
    exact ⟨l, hl, lru_put_frame l l' k v hli hp x y' hx hd⟩

theorem Disk.get_spec (s : Disk) (k : Key) (hi : s.Inv) :
    ∃ s', s.get k = .ok (s', s.view k) ∧ s'.Inv ∧ s'.max = s.max ∧ s'.files = s.files ∧
      (∀ x y, s'.view x = some y → s.view x = some y) := by
  unfold Disk.get
  cases hl : s.lru with
  | none =>
    refine ⟨s, ?_, hi, rfl, rfl, fun _ _ h => h⟩
    simp [Disk.view, hl]
  | some l =>
    have hli := hi.lruInv l hl
    simp only
    by_cases hh : has l.dict k = true
    · rw [if_pos hh]
      obtain ⟨l', hg, hli', hd, _⟩ := LRU.get_spec l k hli
      simp only [hg]
      obtain ⟨a, ha⟩ := Option.isSome_iff_exists.mp hh
      have hinv : Disk.Inv { s with lru := some l' } :=
        ⟨hi.pos, (by intro q hq; have hq' : l' = q := by simpa using hq
                     subst hq'; exact hli'), hi.fnodup, hi.fresh,
         (by intro q hq x a b ha hb; have hq' : l' = q := by simpa using hq
             subst hq'; rw [hd] at ha; exact hi.agree l hl x a b ha hb)⟩
      refine ⟨_, ?_, hinv, rfl, rfl, ?_⟩
      · rw [Disk.view_lru s l k a hl ha, ha]
      · intro x y h
        refine Disk.view_mono_at s { s with lru := some l' } hi x ?_ (fun b hb => hb) y h
        intro q y' hq hd'; have hq' : l' = q := by simpa using hq
        subst hq'; rw [hd] at hd'; exact ⟨l, hl, hd'⟩
    · rw [if_neg hh]
      have hnone : lookup l.dict k = none := by
        cases h : lookup l.dict k with
        | none => rfl
        | some a => simp [has, h] at hh
      cases hf : lookup s.files k with
      | none =>
        refine ⟨s, ?_, hi, rfl, rfl, fun _ _ h => h⟩
        simp [Disk.view, hl, hnone, hf]
      | some b =>
        obtain ⟨v, t⟩ := b
        obtain ⟨l', hp, hli', _⟩ := LRU.put_spec l k v hli
        simp only [hp]
        have hself := lru_put_self l l' k v hli hp
        have hinv : Disk.Inv { s with lru := some l' } := by
          refine ⟨hi.pos, ?_, hi.fnodup, hi.fresh, ?_⟩
          · intro q hq; have hq' : l' = q := by simpa using hq
            subst hq'; exact hli'
          · intro q hq x a b ha hb
            have hq' : l' = q := by simpa using hq
            subst hq'
            by_cases hx : x = k
            · subst hx
              rw [hself] at ha
              have hb' : lookup s.files x = some b := hb
              rw [hf] at hb'
              cases ha; cases hb'; rfl
            · exact hi.agree l hl x a b (lru_put_frame l l' k v hli hp x a hx ha) hb
        have hvk : s.view k = some v := Disk.view_file s hi k v t hf
        refine ⟨_, ?_, hinv, rfl, rfl, ?_⟩
        · rw [hvk]
        · intro x y h
          by_cases hx : x = k
          · subst hx
            rw [Disk.view_lru _ l' x v rfl hself] at h
            rw [← h]; exact hvk
          · refine Disk.view_mono_at s { s with lru := some l' } hi x ?_ (fun b hb => hb) y h
            intro q y' hq hd'; have hq' : l' = q := by simpa using hq
            subst hq'
            exact ⟨l, hl, lru_put_frame l l' k v hli hp x y' hx hd'⟩

theorem Disk.clear_inv (s : Disk) (hi : s.Inv) : s.clear.Inv := by
  refine ⟨hi.pos, ?_, by simp [Disk.clear, keys], by simp [Disk.clear], ?_⟩
  · intro q hq
    cases hl : s.lru with
    | none => simp [Disk.clear, hl] at hq
    | some l =>
      simp only [Disk.clear, hl, Option.map_some, Option.some.injEq] at hq
      subst hq; exact LRU.clear_inv l (hi.lruInv l hl)
  · intro q _ k a b _ hb; simp [Disk.clear, lookup] at hb

theorem Disk.clear_view (s : Disk) (k : Key) : s.clear.view k = none := by
  unfold Disk.view Disk.clear
  cases s.lru <;> simp [lookup, LRU.clear]

/-- a new `DiskCache` on the same directory: the files are untouched, every key answers what its file holds -/
theorem Disk.reopen_spec (s : Disk) (m l : Option Nat) (hi : s.Inv) (hm : m ≠ some 0) (hl : l ≠ some 0) :
    (s.reopen m l).Inv ∧ (s.reopen m l).files = s.files ∧
    (∀ k, (s.reopen m l).view k = (lookup s.files k).map (·.1)) ∧
    (∀ x y, (s.reopen m l).view x = some y → s.view x = some y) := by
  have hview : ∀ k, (s.reopen m l).view k = (lookup s.files k).map (·.1) := by
    intro k
    unfold Disk.view Disk.reopen
    cases l <;> simp [LRU.empty, lookup]
  refine ⟨⟨hm, ?_, hi.fnodup, hi.fresh, ?_⟩, rfl, hview, ?_⟩
  · intro q hq
    cases l with
    | none => simp [Disk.reopen] at hq
    | some n =>
      simp only [Disk.reopen, Option.map_some, Option.some.injEq] at hq
      subst hq
      exact LRU.inv_empty n (by cases n with | zero => simp at hl | succ _ => omega)
  · intro q hq k a b ha _
    cases l with
    | none => simp [Disk.reopen] at hq
    | some n =>
      simp only [Disk.reopen, Option.map_some, Option.some.injEq] at hq
      subst hq; simp [LRU.empty, lookup] at ha
  · intro x y h
    rw [hview] at h
    cases hf : lookup s.files x with
    | none => simp [hf] at h
    | some b =>
      simp only [hf, Option.map_some, Option.some.injEq] at h
      exact Disk.view_file s hi x y b.2 (by rw [hf, ← h])

theorem disk_lawful : Lawful diskSem Disk.Inv where
  total := by
    intro s op hs hwf
    cases op with
    | put k v d =>
      obtain ⟨s', hp, hi, _⟩ := Disk.put_spec s k v hs
      exact ⟨s', .unit, by simp [diskSem, Disk.step, hp], hi⟩
    | get k =>
      obtain ⟨s', hg, hi, _⟩ := Disk.get_spec s k hs
      exact ⟨s', .val (s.view k), by simp [diskSem, Disk.step, hg], hi⟩
    | has k => exact ⟨s, _, rfl, hs⟩
    | len => exact ⟨s, _, rfl, hs⟩
    | clear => exact ⟨s.clear, _, rfl, Disk.clear_inv s hs⟩
    | reopen m l => exact ⟨s.reopen m l, _, rfl, (Disk.reopen_spec s m l hs hwf.1 hwf.2).1⟩
  get_obs := by
    intro s k s' o hs h
    obtain ⟨s1, hg, _⟩ := Disk.get_spec s k hs
    simp only [diskSem, Disk.step, hg] at h
    cases h; rfl
  has_obs := by
    intro s k s' o _ h
    simp only [diskSem, Disk.step] at h
    cases h
    refine ⟨?_, rfl⟩
    simp only [diskSem, Disk.contains, Disk.view, has]
    cases s.lru with
    | none => simp
    | some l => cases hd : lookup l.dict k <;> simp [hd]
  put_self := by
    intro s k v d s' o hs h
    obtain ⟨s1, hp, _, _, hv, _⟩ := Disk.put_spec s k v hs
    simp only [diskSem, Disk.step, hp] at h
    cases h; exact hv
  frame := by
    intro s op s' o k x hs h hv
    cases op with
    | put k' v d =>
      obtain ⟨s1, hp, _, _, hself, _, hfr⟩ := Disk.put_spec s k' v hs
      simp only [diskSem, Disk.step, hp] at h
      cases h
      simp only [recent]
      split
      · next e => subst e; simp only [diskSem] at hv; rw [hself] at hv; exact hv
      · next e => exact hfr k x e hv
    | get k' =>
      obtain ⟨s1, hg, _, _, _, hfr⟩ := Disk.get_spec s k' hs
      simp only [diskSem, Disk.step, hg] at h
      cases h
      exact hfr k x hv
    | has _ => simp only [diskSem, Disk.step] at h; cases h; exact hv
    | len => simp only [diskSem, Disk.step] at h; cases h; exact hv
    | clear => simp only [diskSem, Disk.step] at h; cases h; simp [diskSem, Disk.clear_view] at hv
    | reopen m l =>
      simp only [diskSem, Disk.step] at h; cases h
      simp only [diskSem, recent] at hv ⊢
      -- `reopen` with ill-formed arguments is not excluded here: the view only depends on the files
      unfold Disk.view Disk.reopen at hv
      have hv' : (lookup s.files k).map (·.1) = some x := by
        cases l <;> simpa [LRU.empty, lookup] using hv
      cases hf : lookup s.files k with
      | none => simp [hf] at hv'
      | some b =>
        simp only [hf, Option.map_some, Option.some.injEq] at hv'
        exact Disk.view_file s hs k x b.2 (by rw [hf, ← hv'])

end PF.Cache
