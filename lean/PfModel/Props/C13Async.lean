import PfModel.Lemmas.ErrorsAsync
import PfModel.Props.C13
/-!
C13 (extension) — `Pipeline.map_async` with several raising invocations: which exception surfaces.

`Errors.runGensA fails sched loopo` is the model of the generation loop of `run_map_async`: the pool runs the submitted tasks of
generation `g` in the order `sched g`, the event loop observes their completions in the order `loopo g`, and
`_process_task_async` awaits each function's futures with `asyncio.gather` (first observed failure wins).
`specGensA` is the schedule-free specification: the failing generation and the *candidates* — the raising invocations of the
first function (in generation order) that has one.  `specGens` (the synchronous specification of `C13_surface`) names the head
of that list.
-/
namespace PF.C13
open PF PF.Map PF.Errors

/-- the raising invocations of a task list, in submission order: the first one is `firstFail` -/
theorem C13_first_fail_is_head (fails : Oracle) : ∀ ts : List Task,
    firstFail fails ts = (ts.filterMap fun t => (failOf fails t).map fun x => (t, x)).head? := by
  intro ts
  induction ts with
  | nil => rfl
  | cons t ts ih =>
    simp only [firstFail, List.filterMap_cons]
    cases h : failOf fails t with
    | none => simp [ih]
    | some x => simp

/-- **Candidates vs. the synchronous answer** (one generation): the candidate list is empty iff no invocation of the
    generation fails; otherwise its head is the invocation `firstFail` names (what `Pipeline.map` raises, `C13_surface`),
    and every candidate is a raising invocation of that same function. -/
theorem C13_async_candidates_gen (fails : Oracle) : ∀ frs : List (MFunc × FuncResult),
    (asyncCandidates fails frs).head? = firstFail fails (genTasks frs) ∧
    ∀ c ∈ asyncCandidates fails frs, c.1 ∈ genTasks frs ∧ failOf fails c.1 = some c.2 ∧
      ∀ c0, (asyncCandidates fails frs).head? = some c0 → c.1.f = c0.1.f := by
  intro frs
  induction frs with
  | nil => simp [asyncCandidates, genTasks, firstFail]
  | cons fr rest ih =>
    obtain ⟨f, r⟩ := fr
    rw [genTasks_cons, firstFail_append]
    simp only [asyncCandidates]
    have hh := C13_first_fail_is_head fails (tasksOf f r)
    cases hc : (tasksOf f r).filterMap (fun t => (failOf fails t).map fun x => (t, x)) with
    | nil =>
      rw [hc] at hh
      simp only [List.head?_nil] at hh
      simp only [hh]
      refine ⟨ih.1, fun c hcm => ?_⟩
      obtain ⟨h1, h2, h3⟩ := ih.2 c hcm
      exact ⟨List.mem_append_right _ h1, h2, h3⟩
    | cons c0 cs =>
      rw [hc] at hh
      simp only [List.head?_cons] at hh
      simp only [hh, List.head?_cons]
      refine ⟨trivial, fun c hcm => ?_⟩
      have hmem : ∀ d ∈ c0 :: cs, d.1 ∈ tasksOf f r ∧ failOf fails d.1 = some d.2 := by
        intro d hd
        rw [← hc] at hd
        obtain ⟨t, ht, e⟩ := List.mem_filterMap.mp hd
        cases hx : failOf fails t with
        | none => simp [hx] at e
        | some x => simp [hx] at e; subst e; exact ⟨ht, hx⟩
      obtain ⟨h1, h2⟩ := hmem c hcm
      refine ⟨List.mem_append_left _ h1, h2, ?_⟩
      intro c0' e
      injection e with e; subst e
      rw [mem_tasksOf f r _ h1, mem_tasksOf f r _ (hmem c0 (by simp)).1]

/-- **Specification of `map_async` vs. specification of `map`**: both name the same generation; what `map` raises is the
    head of the candidates of `map_async`; every candidate is a raising invocation of the same function. -/
theorem C13_async_candidates_head (fails : Oracle) (R : Env → MFunc → M FuncResult) :
    ∀ (gens : List (List MFunc)) (env : Env) (g g' : Nat) (cands : List (Task × Exn)),
      specGensA fails R gens env g = .ok (some (g', cands)) →
      ∃ t0 x0 more, cands = (t0, x0) :: more ∧ specGens fails R gens env g = .ok (some (g', raisedOf t0 x0)) ∧
        ∀ c ∈ cands, c.1.f = t0.f ∧ failOf fails c.1 = some c.2 := by
  intro gens
  induction gens with
  | nil => intro env g g' cands h; simp [specGensA, pure, Except.pure] at h
  | cons gen rest ih =>
    intro env g g' cands h
    simp only [specGensA] at h
    simp only [specGens]
    cases hrs : runGenWith R env gen with
    | error e => simp [hrs] at h
    | ok rs =>
      simp only [hrs] at h ⊢
      obtain ⟨hhead, hall⟩ := C13_async_candidates_gen fails (gen.zip rs)
      cases hc : asyncCandidates fails (gen.zip rs) with
      | nil =>
        rw [hc] at hhead
        simp only [hc] at h
        simp only [List.head?_nil] at hhead
        rw [← hhead]
        exact ih _ _ _ _ h
      | cons c0 cs =>
        simp only [hc, pure, Except.pure] at h
        injection h with h; injection h with h; injection h with h1 h2
        subst h1; subst h2
        rw [hc] at hhead hall
        simp only [List.head?_cons] at hhead
        rw [← hhead]
        refine ⟨c0.1, c0.2, cs, rfl, rfl, fun c hcm => ?_⟩
        obtain ⟨_, h2, h3⟩ := hall c hcm
        exact ⟨h3 c0 rfl, h2⟩

/-- **Which exception `map_async` surfaces** (clause "raises an exception of the same type and message", async entry point,
    every pool schedule and every loop order that eventually run / observe every submitted task).
    * the specification refuses → the run refuses with the same error;
    * no invocation fails → the run completes with the results and the store of the failure-free generation loop;
    * otherwise the run raises — in the generation the specification names — the (untouched, annotated) exception of one of
      the candidates: a raising invocation of the first function of that generation that has one.
    In no case does it hang. -/
theorem C13_async_surface (fails : Oracle) (sched loopo : Nat → List Nat) (R : Env → MFunc → M FuncResult) :
    ∀ (gens : List (List MFunc)) (env : Env) (g : Nat), FairSchedA sched loopo R gens env g →
      match specGensA fails R gens env g with
      | .error e => runGensA fails sched loopo R gens env g = .refused e
      | .ok none => ∃ rs envF log, runGensA fails sched loopo R gens env g = .ok rs envF log ∧ runGensWith R gens env = .ok (rs, envF)
      | .ok (some (g', cands)) => ∃ t x log store, (t, x) ∈ cands ∧
          runGensA fails sched loopo R gens env g = .raised g' (raisedOf t x) log store := by
  intro gens
  induction gens with
  | nil => intro env g _; simp [specGensA, pure, Except.pure, runGensA, runGensG, runGensWith]
  | cons gen rest ih =>
    intro env g hfair
    simp only [specGensA, runGensA, runGensG]
    rw [runGensWith_cons]
    cases hrs : runGenWith R env gen with
    | error e => simp [poolGenA, hrs]
    | ok rs =>
      simp only []
      simp only [FairSchedA, hrs] at hfair
      obtain ⟨hσ, hρ, hrest⟩ := hfair
      have hspec := poolGenA_spec fails (sched g) (loopo g) R env gen rs hrs hσ hρ
      obtain ⟨hhead, _⟩ := C13_async_candidates_gen fails (gen.zip rs)
      cases hc : asyncCandidates fails (gen.zip rs) with
      | nil =>
        rw [hc] at hhead
        simp only [List.head?_nil] at hhead
        rw [← hhead] at hspec
        obtain ⟨log, e⟩ := hspec
        simp only [e]
        have ih' := ih { env with store := env.store ++ rs.flatMap (·.slots) } (g + 1) hrest
        simp only [runGensA] at ih'
        cases hs : specGensA fails R rest { env with store := env.store ++ rs.flatMap (·.slots) } (g + 1) with
        | error e2 => rw [hs] at ih'; simp only [ih']
        | ok o =>
          rw [hs] at ih'
          cases o with
          | none =>
            obtain ⟨rs', envF, log', e', hrw⟩ := ih'
            simp only [e', hrw]
            exact ⟨_, _, _, rfl, rfl⟩
          | some p =>
            obtain ⟨g', cands⟩ := p
            obtain ⟨t, x, log', store, hm, e'⟩ := ih'
            simp only [e']
            exact ⟨t, x, _, _, hm, rfl⟩
      | cons c0 cs =>
        rw [hc] at hhead
        simp only [List.head?_cons] at hhead
        rw [← hhead] at hspec
        obtain ⟨t, x, log, sl, e, _, _, _, hm⟩ := hspec
        simp only [e, pure, Except.pure]
        rw [hc] at hm
        exact ⟨t, x, _, _, hm, rfl⟩

/-- **A function with one raising invocation: `map_async` = `map`.**  When the candidate list is a singleton — in particular
    in every run of the property's quantifier, where exactly one invocation raises — `map_async` raises exactly the exception
    (and the note, and the snapshot) that the synchronous specification `specGens` names. -/
theorem C13_async_single (fails : Oracle) (sched loopo : Nat → List Nat) (R : Env → MFunc → M FuncResult)
    (gens : List (List MFunc)) (env : Env) (g g' : Nat) (t0 : Task) (x0 : Exn)
    (hfair : FairSchedA sched loopo R gens env g) (h : specGensA fails R gens env g = .ok (some (g', [(t0, x0)]))) :
    specGens fails R gens env g = .ok (some (g', raisedOf t0 x0)) ∧
    ∃ log store, runGensA fails sched loopo R gens env g = .raised g' (raisedOf t0 x0) log store := by
  obtain ⟨t, x, more, e, hs, _⟩ := C13_async_candidates_head fails R gens env g g' _ h
  injection e with e1 e2
  injection e1 with e1 e3
  subst e1; subst e3
  refine ⟨hs, ?_⟩
  have := C13_async_surface fails sched loopo R gens env g hfair
  rw [h] at this
  obtain ⟨t, x, log, store, hm, e⟩ := this
  simp only [List.mem_singleton] at hm
  injection hm with h1 h2
  subst h1; subst h2
  exact ⟨log, store, e⟩

/-- **First observed failure** (the rule of `asyncio.gather`, cf. `C03_async_first_failure`): what the wait for one function's
    futures raises is the exception held by a future of that function which the loop observed, and no future of that
    function that the loop observed earlier had failed. -/
theorem C13_async_first_observed (futs : Futs) (ρ : List Nat) (ts : List Task) (off : Nat) (t : Task) (x : Exn)
    (h : awaitGather futs ρ ts off = .raised t x) :
    ∃ l1 k l2, ρ = l1 ++ (off + k) :: l2 ∧ ts[k]? = some t ∧ futs (off + k) = some (some x) ∧
      ∀ j ∈ l1, ∀ k' t', j = off + k' → ts[k']? = some t' → ∀ x', futs j ≠ some (some x') := by
  simp only [awaitGather] at h
  cases hg : gatherFail futs ts off ρ with
  | none => simp only [hg] at h; split at h <;> cases h
  | some tx =>
    obtain ⟨t', x'⟩ := tx
    simp only [hg] at h
    injection h with h1 h2
    subst h1; subst h2
    exact gatherFail_some futs ts off ρ _ _ hg

/-- **Attribution, no later generation, snapshot, completed results — `map_async`**, for *every* pool schedule and loop order
    (fair or not): a raised run raises the oracle's exception for an invocation `t` of a function of generation `g'`,
    annotated with that function and the values it received; every logged invocation belongs to a generation `≤ g'`; the
    snapshot reproduces the exception (also after save/load); the store holds, complete, what the failure-free run holds
    after the generations before `g'`, followed by what the failing generation wrote. -/
theorem C13_async_raised (fails : Oracle) (sched loopo : Nat → List Nat) (R : Env → MFunc → M FuncResult)
    (gens : List (List MFunc)) (env : Env) (g g' : Nat) (r : Raised) (log : List Task) (store : List (String × Slot))
    (h : runGensA fails sched loopo R gens env g = .raised g' r log store) :
    g ≤ g' ∧
    (∃ (gen : List MFunc) (t : Task), gens[g' - g]? = some gen ∧ t.f ∈ gen ∧ fails t.f.name t.c.args = some r.exn ∧
      r.noteFunc = t.f.name ∧ r.noteKw = noteKwOf t.f.params t.c.args ∧ r.snap = ⟨t.f.name, r.exn, t.c.args⟩) ∧
    (∀ u ∈ log, ∃ j gen, j ≤ g' - g ∧ gens[j]? = some gen ∧ u.f ∈ gen) ∧
    reproduce fails (load (save r.snap)) = .error r.exn ∧
    (∃ rs envk part, runGensWith R (gens.take (g' - g)) env = .ok (rs, envk) ∧ store = envk.store ++ part) := by
  obtain ⟨k, gen, t, x, rs, envk, part, e1, e2, ht, hx, hr, hlog, hrw, hst, _⟩ :=
    runGensG_raised_facts fails R _ (genFacts_poolGenA fails sched loopo R) gens env g g' r log store h
  subst e1; subst hr
  have hx' : fails t.f.name t.c.args = some x := hx
  refine ⟨by omega, ⟨gen, t, by simpa using e2, ht, hx', rfl, rfl, rfl⟩, ?_, ?_, ⟨rs, envk, part, by simpa using hrw, hst⟩⟩
  · intro u hu
    obtain ⟨j, gj, hj, e, hm⟩ := hlog u hu
    exact ⟨j, gj, by omega, e, hm⟩
  · simp [raisedOf, handleError, reproduce, save, load, hx']

/-! ## non-vacuity -/

/-- `g0` fails at the elements 2 and 3 (two different exceptions), `g1` at the element 1 -/
def orcA : Oracle := fun name kw =>
  match name, kw with
  | "g0", [(_, .int 2)] => some ⟨"ValueError", [.str "two"]⟩
  | "g0", [(_, .int 3)] => some ⟨"KeyError", [.str "three"]⟩
  | "g1", [(_, .int 1)] => some ⟨"Custom", []⟩
  | _, _ => none

def summaryA : Errors.Outcome → String × Nat × String × List String
  | .raised g r log _ => ("raised", g, r.exn.cls, log.map (·.f.name))
  | .done r => ("done", 0, "", r.calls.map (·.name))
  | .refused _ => ("refused", 0, "", [])
  | .hang g log => ("hang", g, "", log.map (·.f.name))

/-- loop order = submission order: `map_async` raises what `map` raises (the ValueError of element 2) -/
example : summaryA (runMapA orcA (fun _ => [0, 1, 2, 3, 4, 5]) (fun _ => [0, 1, 2, 3, 4, 5]) [g0, g1, g2] [("x", x3)] []) =
    ("raised", 0, "ValueError", ["g0", "g0", "g0", "g1", "g1", "g1"]) := by decide
/-- the loop observes the third future first: the KeyError of element 3 surfaces — another invocation of the *same* function;
    the Custom error of `g1` (a later function of the generation) can never surface; `g2` never runs -/
example : summaryA (runMapA orcA (fun _ => [0, 1, 2, 3, 4, 5]) (fun _ => [3, 2, 1, 0, 5, 4]) [g0, g1, g2] [("x", x3)] []) =
    ("raised", 0, "KeyError", ["g0", "g0", "g0", "g1", "g1", "g1"]) := by decide
/-- the candidates of that run: the two raising invocations of `g0`, in submission order (`specGens` names the first) -/
example : ((specGensA orcA (runFuncWith opArray [g0, g1, g2] [("x", [3]), ("y", [3]), ("w", [3])] [("x", [true]), ("y", [true]), ("w", [true])])
    (generations [g0, g1, g2]) { inputs := [("x", x3)], store := [] } 0).toOption.map fun o => o.map fun p => (p.1, p.2.map fun c => (c.1.f.name, c.2.cls))) =
    some (some (0, [("g0", "ValueError"), ("g0", "KeyError")])) := by decide
/-- a loop that never observes the failed futures while another future never finishes: the hypothesis of
    `C13_async_surface` is needed -/
example : summaryA (runMapA orcA (fun _ => [0, 3, 4, 5]) (fun _ => [0]) [g0, g1, g2] [("x", x3)] []) =
    ("hang", 0, "", ["g0", "g1", "g1", "g1"]) := by decide
/-- with the single-failure oracle `orc` of C13 the candidates of generation 0 are the one raising invocation of `g0`
    (hypothesis of `C13_async_single`; `g1`'s failure belongs to a later function) -/
example : ((specGensA orc (runFuncWith opArray [g0, g1, g2] [("x", [3]), ("y", [3]), ("w", [3])] [("x", [true]), ("y", [true]), ("w", [true])])
    (generations [g0, g1, g2]) { inputs := [("x", x3)], store := [] } 0).toOption.map fun o => o.map fun p => (p.1, p.2.length)) =
    some (some (0, 1)) := by decide

end PF.C13
