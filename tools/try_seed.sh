#!/bin/sh
# tools/try_seed.sh CXX path/to/patch.diff [tier] : run the check of CXX against a scratch worktree of /repo with the patch applied.
# The check runs from a scratch COPY of /verif (build output included), so that nothing in /verif — evidence, replays, the Lean facts the
# translators regenerate from the source — is touched by a run against a modified tree. Both scratch directories are removed afterwards.
# Exit status: that of the check (1 = detected).
pid=$1; patch=$(readlink -f "$2"); tier=${3:-quick}
V=$(cd "$(dirname "$0")/.." && pwd)
wt=/tmp/tryseed-$pid-$$
vc=/tmp/tryseed-verif-$pid-$$
git -C /repo worktree add -q --detach "$wt" HEAD || exit 2
git -C "$wt" apply "$patch" 2>/dev/null || git -C "$wt" apply --3way "$patch" || { git -C /repo worktree remove --force "$wt"; echo "patch does not apply"; exit 2; }
mkdir -p "$vc" && rsync -a --exclude .git --exclude replays --exclude 'evidence/.scratch' --exclude 'lean/.audit' "$V"/ "$vc"/ || exit 2
cd "$vc" || exit 2
st=0
for seed in ${SEEDS:-0 1}; do
  VERIF_REPO="$wt" VERIF_SEED=$seed ./check "$pid" --tier "$tier" > /tmp/tryseed-$pid-$$.log 2>&1; s=$?
  grep -E "^VIOLATION|^KNOWN-FINDING|^\[$pid\]|INFRA" /tmp/tryseed-$pid-$$.log | sed "s#$vc#$V#g" | cut -c1-260 | head -6
  [ $s -ne 0 ] && st=$s
done
if [ -n "$KEEP_REPLAYS" ] && [ -d "$vc/replays" ]; then mkdir -p "$V/replays/seeded" && cp "$vc"/replays/*.json "$V/replays/seeded/" 2>/dev/null; fi
cd /; rm -rf "$vc"
git -C /repo worktree remove --force "$wt"
rm -f /tmp/tryseed-$pid-$$.log
echo "try_seed $pid $(basename "$patch"): exit=$st"
exit $st
