import PfModel.Model.Hashable
/-!
Instances of user SUBCLASSES of the natively handled containers (namedtuples, `class SubList(list)`, `class SubDict(dict)`,
a `MaskedArray` without masked elements, …) in `pipefunc.cache.to_hashable` (`pipefunc/cache.py:711-797`).  Core Lean only.

The dispatch of `to_hashable` is by `isinstance` (`cache.py:759-784`), the tag is `tp = type(obj)` (`cache.py:753`): an unhashable
instance of a subclass gets the payload of its builtin base and its OWN class as the tag.  A hashable instance (a namedtuple of
hashable fields, an instance of a `frozenset` subclass) is returned as it is (`cache.py:742-751`); as a key it compares and hashes
with the `__eq__` / `__hash__` it inherits from `tuple` / `frozenset`, which do not look at the class.  The model therefore
returns the BASE value for it: on keys, Python's `==` stays `=` of model values (as in `Model/Hashable.lean`).

Modelled are subclasses that do not override `__eq__`, `__hash__`, `__iter__`, `items` (what `namedtuple` and a bare
`class S(list): pass` give).  A wide value `WV` is a `PV` in which every container node carries `sub : Option Nat`:
`none` = an instance of the builtin class itself, `some n` = an instance of the user class number `n` derived from it.
-/
namespace PF.Hashable

inductive WV
  | atom (a : Atom)
  | node (k : Kind) (sub : Option Nat) (xs : List WV)
  deriving Repr

mutual
/-- the value with every subclass mark forgotten: what Python's `==` / `hash` of the builtin base see -/
def WV.base : WV → PV
  | .atom a => .atom a
  | .node k _ xs => .node k (WV.baseL xs)
def WV.baseL : List WV → List PV
  | [] => []
  | x :: xs => x.base :: WV.baseL xs
end

mutual
/-- no subclass instance anywhere inside -/
def WV.plain : WV → Bool
  | .atom _ => true
  | .node _ s xs => s.isNone && WV.plainL xs
def WV.plainL : List WV → Bool
  | [] => true
  | x :: xs => x.plain && WV.plainL xs
end

mutual
/-- the embedding of the core values -/
def WV.ofPV : PV → WV
  | .atom a => .atom a
  | .node k xs => .node k none (WV.ofPVL xs)
def WV.ofPVL : List PV → List WV
  | [] => []
  | x :: xs => WV.ofPV x :: WV.ofPVL xs
end

/-- `tp = type(obj)` (`cache.py:753`) -/
def clsOf (k : Kind) : Option Nat → Cls
  | none => k.cls
  | some n => .other n

/-- `finish` with the tag `type(obj)` -/
def wfinish (k : Kind) (s : Option Nat) (cs : List (PV × PV)) : Except Err PV :=
  match sortIf k cs with
  | .ok srt => .ok (tagged (clsOf k s) (k.wrap (srt.map Prod.snd)))
  | .error e => .error e

mutual
/-- `to_hashable(obj)` for wide values.  `hash(obj)` of a subclass instance is the hash of its base (`hashable` of the base
    value); the marker test is `isinstance(obj, tuple) and obj[0] == m` (`cache.py:750`), true of a tuple subclass as well;
    the branch taken is that of the base kind (`isinstance`), the tag is the instance's own class. -/
def wkey (esc : Bool) : WV → Except Err PV
  | .atom a => .ok (.atom a)
  | .node k s xs =>
    if hashable (.node k (WV.baseL xs)) && !(esc && markerHeaded (.node k (WV.baseL xs))) then .ok (.node k (WV.baseL xs))
    else match k.mode with
      | .elem => do let cs ← wconvElems esc xs; wfinish k s cs
      | .item => do let cs ← wconvItems esc xs; wfinish k s cs
      | .rawItem => do let cs ← rawItems (WV.baseL xs); wfinish k s cs
      | .rawAtom => do let cs ← rawAtoms (WV.baseL xs); wfinish k s cs
      | .leaf => match xs with
        | [] => wfinish k s []
        | _ :: _ => .error .malformed
/-- `to_hashable(item) for item in items`; the sort key of an element of a set is the element (hashable: its base) -/
def wconvElems (esc : Bool) : List WV → Except Err (List (PV × PV))
  | [] => .ok []
  | x :: xs => do let c ← wkey esc x; let cs ← wconvElems esc xs; .ok ((x.base, c) :: cs)
/-- `(k, to_hashable(v)) for k, v in items` (the item tuples come from `.items()`; the dict keys are hashable) -/
def wconvItems (esc : Bool) : List WV → Except Err (List (PV × PV))
  | [] => .ok []
  | .node .tuple _ [k, v] :: xs => do let c ← wkey esc v; let cs ← wconvItems esc xs; .ok ((k.base, tup [k.base, c]) :: cs)
  | _ :: _ => .error .malformed
end

/-- the children converted as the branch of the kind does -/
def wconv (esc : Bool) (m : Mode) (xs : List WV) : Except Err (List (PV × PV)) :=
  match m with
  | .elem => wconvElems esc xs
  | .item => wconvItems esc xs
  | .rawItem => rawItems (WV.baseL xs)
  | .rawAtom => rawAtoms (WV.baseL xs)
  | .leaf => match xs with
    | [] => .ok []
    | _ :: _ => .error .malformed

/-- the class of a value as `type(obj)` reports it, for containers -/
def WV.rootCls : WV → Option Cls
  | .atom _ => none
  | .node k s _ => some (clsOf k s)

/-- the value is returned as it is by (the repaired) `to_hashable` -/
def WV.asIs (w : WV) : Bool := hashable w.base && !markerHeaded w.base

/-- the seeded change C15-s4-A: list / tuple subclasses tagged with their builtin base -/
def wkeyBaseTagged (w : WV) : Except Err PV := key true w.base

end PF.Hashable
