import PfModel.Lemmas.RunInfoHist
import PfModel.Props.C04Resume
/-!
C04, run-folder histories as a state machine (round 9) — "After Pipeline.map(..., run_folder=F) returns, load_outputs / RunInfo.load yield
for every output, input and default exactly the values the run produced or was given", quantified over HISTORIES: the folder `F`
may be in any state an earlier sequence of `map` calls left it in — partial runs (`fixed_indices`), resumes with `cleanup=False` under
another storage configuration and with other inputs the resume check accepts, re-runs with `cleanup=True`, reloads in between (reading
is not a transition).

`PF.RIC.stepRun` (Model/RunInfoHist.lean) is one `map` call as a transition of the folder; unlike `PF.RIC.runOn` of round 4 the store
of the run is not a parameter: it is what `init_store` opens ON THE FOLDER under the classes of this run (`openStore`), run through
C06's model of a run in pieces (`PF.Pieces.runPart`).  The theorems need no `agreeSlot` hypothesis: `runPart_slots` +
`agreeSlot_of_slots` (Lemmas/RunInfoHist.lean) prove it for every previous content of the folder.
-/
namespace PF.C04
open PF PF.Map PF.RIC PF.Pieces

/-- **One `map` call on any folder.**  For every folder content `fo` (whatever earlier runs — partial, under other storage classes,
    with other accepted inputs — or anything else left there), every tolerance `eqv` of the resume check, every request (`cleanup`
    or not, any `fixed_indices`, any storage configuration): if the call is accepted and returns `part` (`persist_memory=True`), then
    `RunInfo.load(F)` is the record of THIS call (its inputs, storage choices, shapes, masks, MapSpecs, internal shapes, defaults) and
    `load_outputs(o)` is, for every output, exactly what the run's own storage objects hold when it returns (`to_array()` of the
    run's array — kept and newly computed elements, missing ones masked — or the stored value).
    Hypotheses: names are identifiers, `inputs` is a dictionary, the keys of a storage dictionary are admissible, `Recorded` (see
    `C04_agree`), and the outputs of the run's store are distinct (follows from unique output names; not proved, as in round 2). -/
theorem C04_hist_step (c : HistCfg) (eqv : Val → Val → Bool) (fo fo' : Folder) (q : Req) (part : PartResult)
    (hid : IdentsOK c.fs) (hin : (akeys q.inputs).Nodup) (hst : ∀ m, q.storage = .per m → ∀ kv ∈ m, KeyOK kv.1)
    (H : Recorded c.parse c.fs q.storage) (hn : (akeys part.store).Nodup)
    (h : stepRun c eqv true fo q = .ok (fo', part)) :
    decode fo' = some { c.info q part.res.shapes part.res.masks with
                        allOutputNames := sortNames (c.info q part.res.shapes part.res.masks).allOutputNames } ∧
    ∀ os ∈ part.store, loadOutput c.parse fo' os.1 = some os.2.toVal := by
  obtain ⟨shapes, masks, fo1, hsm, hc, hr, hfo⟩ := stepRun_ok c eqv true fo fo' q part h
  obtain ⟨hsm', hslots⟩ := runPart_slots c.fs q.inputs c.ui q.fixed _ part hr
  have e : (shapes, masks) = (part.res.shapes, part.res.masks) := by
    rw [hsm] at hsm'; exact Except.ok.inj hsm'
  obtain ⟨e1, e2⟩ := Prod.mk.inj e
  subst e1 e2
  have hok : NamesOK (c.info q part.res.shapes part.res.masks) :=
    C04_names_ok_of_identifiers c.fs c.tupled c.intForm q.inputs c.user q.storage c.version _ _ hid hin hst
  have hrun : runOn eqv true fo { cleanup := q.cleanup, info := c.info q part.res.shapes part.res.masks,
                                  backend := backendFor c.fs q.storage, store := part.store } = .ok fo' := by
    simp only [runOn, hc, Except.map, hfo]
  have hag := agreeSlot_of_slots c.parse c.fs c.tupled c.intForm q.inputs c.user q.storage c.version _ _ part.store hsm hslots H
  exact ⟨C04_resume_records eqv true fo fo' _ hok hrun, C04_resume_reload c.parse eqv fo fo' _ hok hn hag hrun⟩

/-- **Every reachable folder state reloads exactly.**  After ANY accepted sequence of `map` calls into one folder, starting from any
    folder — each call with its own inputs, storage configuration, `fixed_indices` and `cleanup` flag —, the folder records the LAST
    call and `load_outputs` yields exactly what the LAST call's storage objects hold.  (Every state a history can reach is the end of
    a history, so this covers reloading between any two calls.) -/
theorem C04_hist_reachable (c : HistCfg) (eqv : Val → Val → Bool) (fo0 fo' : Folder) (qs : List Req) (q : Req)
    (parts : List PartResult) (hid : IdentsOK c.fs) (hin : (akeys q.inputs).Nodup)
    (hst : ∀ m, q.storage = .per m → ∀ kv ∈ m, KeyOK kv.1) (H : Recorded c.parse c.fs q.storage)
    (h : runHist c eqv true fo0 (qs ++ [q]) = .ok (fo', parts)) :
    ∃ init part, parts = init ++ [part] ∧ ((akeys part.store).Nodup →
      decode fo' = some { c.info q part.res.shapes part.res.masks with
                          allOutputNames := sortNames (c.info q part.res.shapes part.res.masks).allOutputNames } ∧
      ∀ os ∈ part.store, loadOutput c.parse fo' os.1 = some os.2.toVal) := by
  rw [runHist_append] at h
  cases h1 : runHist c eqv true fo0 qs with
  | error e => simp [h1] at h
  | ok p1 =>
    obtain ⟨f1, init⟩ := p1
    simp only [h1] at h
    cases h2 : stepRun c eqv true f1 q with
    | error e => simp [h2] at h
    | ok p2 =>
      obtain ⟨f2, part⟩ := p2
      simp only [h2, Except.ok.injEq, Prod.mk.injEq] at h
      obtain ⟨e1, e2⟩ := h
      subst e1 e2
      exact ⟨init, part, rfl, fun hn => C04_hist_step c eqv f1 f2 q part hid hin hst H hn h2⟩

/-- **What a resumed run starts from is what the folder holds under ITS classes.**  The elements of the array `init_store` opens on a
    folder are exactly the elements the recorded class finds there at the external indices of the array: `cellsOn` is the graph of the
    class's reader on `[0, n)`. -/
theorem C04_hist_open_cells (look : Nat → Option Val) (n li : Nat) :
    cellLookup (cellsOn look n) li = if li < n then look li else none := by
  unfold cellsOn
  induction n with
  | zero => simp [cellLookup]
  | succ n ih =>
    rw [List.range_succ, List.filterMap_append]
    have happ : ∀ (l1 l2 : List (Nat × Val)), cellLookup (l1 ++ l2) li = (cellLookup l1 li).orElse fun _ => cellLookup l2 li := by
      intro l1 l2
      induction l1 with
      | nil => simp [cellLookup]
      | cons a r ih2 =>
        obtain ⟨k, v⟩ := a
        simp only [List.cons_append, cellLookup]
        split
        · simp
        · exact ih2
    have hlast : cellLookup (List.filterMap (fun li => (look li).map fun v => (li, v)) [n]) li = if li = n then look n else none := by
      cases hl : look n with
      | none => simp [hl, cellLookup]
      | some v =>
        simp only [List.filterMap_cons, hl, Option.map_some, List.filterMap_nil, cellLookup]
        by_cases e : n = li
        · subst e; simp
        · have : ¬ li = n := fun h => e h.symm
          simp [e, this]
    rw [happ, ih, hlast]
    by_cases h1 : li < n
    · have h2 : li < n + 1 := by omega
      have h3 : ¬ li = n := by omega
      simp only [h1, h2, h3, if_true, if_false]
      cases look li <;> rfl
    · by_cases h2 : li = n
      · subst h2; simp [Option.orElse]
      · have h3 : ¬ li < n + 1 := by omega
        simp [h1, h2, h3, Option.orElse]

/-! ### witnesses and non-vacuity -/

/-- the pipeline of Props/C04.lean with an un-mapped `g` that does not reduce `y` (a reduced axis cannot be fixed) -/
def fsH : List MFunc := [
  { name := "f", params := [("x", "x")], outputs := ["y", "z"],
    mapspec := some { inputs := [⟨"x", [some "i"]⟩], outputs := [⟨"y", [some "i"]⟩, ⟨"z", [some "i"]⟩] },
    ret := none, internal := none, defaults := [], bound := [] },
  { name := "g", params := [("c", "c")], outputs := ["w"], mapspec := none, ret := none, internal := none,
    defaults := [("c", .str "d")], bound := [] }]
def cfgEx : HistCfg := { fs := fsH, tupled := [], intForm := [], user := [], version := "v", parse := tableParse fsH }
/-- a partial run (`fixed_indices={"i": 0}`) under `file_array` -/
def q1 : Req := { cleanup := true, inputs := inEx, storage := .uniform "file_array", fixed := some [("i", .idx 0)] }
/-- the resume under the per-output dictionary of Props/C04.lean (the tuple output goes to `dict`), with ANOTHER first element -/
def q2 : Req := { cleanup := false, inputs := [("x", .arr [2] [.int 7, .int 2])], storage := stEx, fixed := none }
/-- the resume under the SAME class, with another first element -/
def q3 : Req := { cleanup := false, inputs := [("x", .arr [2] [.int 7, .int 2])], storage := .uniform "file_array", fixed := none }

/-- the hypotheses of `C04_hist_reachable` hold for the history `q1, q2` (`Recorded` is shown below): partial run under `file_array`, then a resume under a storage dictionary that moves the tuple output to `dict`
    with an input the tolerant check accepts.  The resume does not see the element file of the first run (another class): it computes
    BOTH elements from ITS input (two calls; the un-mapped `g` is loaded), the folder records the dictionary and the new input, all three outputs reload as the
    resume's store, and the stale element file of the first run still lies next to the dictionary file. -/
example : (match runHist cfgEx (fun _ _ => true) true Folder.empty ([q1] ++ [q2]) with
  | .ok (fo, [p1, p2]) =>
    (decode fo).map (·.storage) == some stEx &&
    (match (decode fo).map (·.inputs) with | some [("x", Val.arr [2] [Val.int 7, Val.int 2])] => true | _ => false) &&
    p1.res.calls.length == 2 && p2.res.calls.length == 2 && p2.store.length == 3 &&
    (p2.store.all fun os => match loadOutput (tableParse fsH) fo os.1 with | some _ => true | none => false) &&
    (akeys p2.store).length == (akeys p2.store).eraseDups.length &&
    liesAs fo "y" 2 == ["dict", "file_array"]
  | _ => false) = true := by decide

/-- **A resume under the same class keeps the earlier run's elements** — also when its own input differs within what the resume check
    accepts: after `q1` (element 0 from `x[0] = 1`) and `q3` (`x[0] = 7`, one call: the missing element 1; the un-mapped `g` is loaded), `load_outputs("y")` holds `f(x=1)` at index 0: the value the run RETURNED (and the first run produced), not the
    value a fresh run on the last inputs would produce.  This is what the harness used to compare "up to the floats". -/
theorem C04_hist_kept_element_witness :
    (match runHist cfgEx (fun _ _ => true) true Folder.empty [q1, q3] with
     | .ok (fo, [_, p2]) =>
       p2.res.calls.length == 1 &&
       (match loadOutput (tableParse fsH) fo "y" with
        | some (.arr [2] [.pick (.app "f" [("x", .int 1)]) "y", .pick (.app "f" [("x", .int 2)]) "y"]) => true
        | _ => false)
     | _ => false) = true := by decide

/-- a strict resume check refuses the same history: `runHist` is not always `.ok` -/
example : (match runHist cfgEx (fun _ _ => false) true Folder.empty [q1, q3] with
  | .error (.refused .inputs) => true
  | _ => false) = true := by decide

/-- `cleanup=True` forgets everything: after `q1, q3` a clean re-run computes all elements again from its own input -/
example : (match runHist cfgEx (fun _ _ => true) true Folder.empty [q1, q3, { q3 with cleanup := true }] with
  | .ok (fo, [_, _, p3]) =>
    p3.res.calls.length == 3 &&
    (match loadOutput (tableParse fsH) fo "y" with
     | some (.arr [2] [.pick (.app "f" [("x", .int 7)]) "y", .pick (.app "f" [("x", .int 2)]) "y"]) => true
     | _ => false)
  | _ => false) = true := by decide

example : Recorded (tableParse fsH) fsH stEx := by
  refine ⟨?_, ?_, by decide, ?_⟩
  · apply C04_tableParse_print
    decide
  · intro f hf ms hms
    simp only [fsH, List.mem_cons, List.not_mem_nil, or_false] at hf
    rcases hf with e | e <;> subst e <;> simp at hms <;> subst hms <;> rfl
  · intro f hf ms hms _
    simp only [fsH, List.mem_cons, List.not_mem_nil, or_false] at hf
    rcases hf with e | e <;> subst e <;> simp at hms
    decide

example : (akeys q2.inputs).Nodup ∧ ∀ m, q2.storage = .per m → ∀ kv ∈ m, KeyOK kv.1 := by
  refine ⟨by decide, ?_⟩
  intro m hm kv hkv
  simp only [q2, stEx, Storage.per.injEq] at hm
  subst hm
  simp only [List.mem_cons, List.not_mem_nil, or_false] at hkv
  rcases hkv with e | e <;> subst e
  · refine ⟨by decide, ?_⟩
    intro s hs; simp only [List.mem_cons, List.not_mem_nil, or_false] at hs; rcases hs with e | e <;> subst e <;> decide
  · simp only [KeyOK]; decide

example : IdentsOK fsH := by
  unfold IdentsOK Ident
  decide

end PF.C04
