/-
Lemmas for `C08_add_axes_denotes` (one appended axis extends every key by the new trailing component) and for the two
length tests of `output_key` / `input_keys` agreeing on specs with distinct output indices.
-/
import PfModel.Lemmas.MapSpecKeys
namespace PF.MS

theorem prod_snoc (s : List Nat) (d : Nat) : PF.prod (s ++ [d]) = PF.prod s * d := by
  induction s with
  | nil => simp [PF.prod]
  | cons e es ih => simp only [List.cons_append, PF.prod, ih, Nat.mul_assoc]

theorem shapeToKey_snoc (d j : Nat) (hj : j < d) : ∀ (s : List Nat) (i : Nat),
    PF.shapeToKey (s ++ [d]) (i * d + j) = PF.shapeToKey s i ++ [j]
  | [], i => by
      simp only [List.nil_append, PF.shapeToKey_cons, PF.prod, Nat.div_one]
      rw [Nat.add_comm, Nat.add_mul_mod_self_right, Nat.mod_eq_of_lt hj]
      simp [PF.shapeToKey, PF.strides]
  | e :: es, i => by
      rw [List.cons_append, PF.shapeToKey_cons, PF.shapeToKey_cons, shapeToKey_snoc d j hj es i, prod_snoc]
      have hd : 0 < d := by omega
      have : (i * d + j) / (PF.prod es * d) = i / PF.prod es := by
        rw [Nat.mul_comm (PF.prod es) d, ← Nat.div_div_eq_div_mul]
        congr 1
        rw [Nat.add_comm, Nat.add_mul_div_right _ _ hd, Nat.div_eq_of_lt hj]; simp
      rw [this]; rfl

theorem posOf_lt (ax : String) : ∀ (l : List String), ax ∈ l → posOf ax l < l.length
  | [], h => by simp at h
  | a :: r, h => by
      simp only [posOf]
      split
      · simp
      · next e =>
        have : ax ∈ r := by
          rcases List.mem_cons.mp h with h' | h'
          · exact absurd h'.symm e
          · exact h'
        have := posOf_lt ax r this
        simp; omega

theorem posOf_append_mem (ax : String) (t : List String) : ∀ (l : List String), ax ∈ l → posOf ax (l ++ t) = posOf ax l
  | [], h => by simp at h
  | a :: r, h => by
      simp only [List.cons_append, posOf]
      split
      · rfl
      · next e =>
        have : ax ∈ r := by
          rcases List.mem_cons.mp h with h' | h'
          · exact absurd h'.symm e
          · exact h'
        rw [posOf_append_mem ax t r this]

theorem posOf_append_new (ax : String) : ∀ (l : List String), ax ∉ l → posOf ax (l ++ [ax]) = l.length
  | [], _ => by simp [posOf]
  | a :: r, h => by
      have h1 : a ≠ ax := fun e => h (e ▸ List.mem_cons_self)
      have h2 : ax ∉ r := fun e => h (List.mem_cons_of_mem _ e)
      simp [posOf, h1, posOf_append_new ax r h2]

theorem selectC_old (ext : List String) (key : List Nat) (a : String) (j : Nat) (hl : ext.length = key.length)
    (ax : String) (hax : ax ∈ ext) :
    selectC (ext ++ [a]) (key ++ [j]) (some ax) = selectC ext key (some ax) := by
  simp only [selectC, posOf_append_mem ax [a] ext hax]
  have := posOf_lt ax ext hax
  rw [List.getD_eq_getElem?_getD, List.getD_eq_getElem?_getD, List.getElem?_append_left (by omega)]

theorem selectC_new (ext : List String) (key : List Nat) (a : String) (j : Nat) (hl : ext.length = key.length)
    (ha : a ∉ ext) : selectC (ext ++ [a]) (key ++ [j]) (some a) = some j := by
  simp only [selectC, posOf_append_new a ext ha, hl]
  simp

theorem mem_inputIndexList_extend (m : MapSpec) (a n : String) :
    n ∈ inputIndexList ⟨m.inputs.map (extendSpec [some a]), m.outputs.map (extendSpec [some a])⟩ ↔
      n ∈ inputIndexList m ∨ (n = a ∧ m.inputs ≠ []) := by
  rw [mem_inputIndexList, mem_inputIndexList]
  simp only [List.mem_map]
  constructor
  · rintro ⟨x, ⟨y, hy, rfl⟩, hn⟩
    have := indices_extendSpec [a] y
    simp only [List.map_cons, List.map_nil] at this
    rw [this] at hn
    rcases List.mem_append.mp hn with h | h
    · exact Or.inl ⟨y, hy, h⟩
    · simp at h; exact Or.inr ⟨h, List.ne_nil_of_mem hy⟩
  · rintro (⟨y, hy, h⟩ | ⟨rfl, hne⟩)
    · refine ⟨_, ⟨y, hy, rfl⟩, ?_⟩
      have := indices_extendSpec [a] y
      simp only [List.map_cons, List.map_nil] at this
      rw [this]; exact List.mem_append_left _ h
    · cases hi : m.inputs with
      | nil => exact absurd hi hne
      | cons y r =>
        refine ⟨_, ⟨y, List.mem_cons_self, rfl⟩, ?_⟩
        have := indices_extendSpec [n] y
        simp only [List.map_cons, List.map_nil] at this
        rw [this]; simp

theorem fresh_not_output (m : MapSpec) (a : String) (hf : FreshAxes [a] m) : a ∉ outputIndices m := by
  unfold outputIndices
  cases h : m.outputs with
  | nil => simp
  | cons o r =>
    simp only
    rw [mem_indices]
    exact hf.fresh a List.mem_cons_self o (by rw [h]; simp)

theorem externalIndices_extend (m : MapSpec) (hv : Valid m) (a : String) (hf : FreshAxes [a] m) (hne : m.inputs ≠ []) :
    externalIndices ⟨m.inputs.map (extendSpec [some a]), m.outputs.map (extendSpec [some a])⟩ =
      externalIndices m ++ [a] := by
  have ho := outputIndices_extend [a] m hv.out_ne
  simp only [List.map_cons, List.map_nil] at ho
  unfold externalIndices
  rw [ho, List.filter_append]
  have hna := fresh_not_output m a hf
  congr 1
  · apply List.filter_congr
    intro n hn
    have hne' : n ≠ a := fun e => hna (e ▸ hn)
    have := mem_inputIndexList_extend m a n
    cases h1 : (inputIndexList m).contains n with
    | true =>
      rw [List.contains_iff_mem] at h1 ⊢
      exact this.mpr (Or.inl h1)
    | false =>
      cases h2 : (inputIndexList ⟨m.inputs.map (extendSpec [some a]), m.outputs.map (extendSpec [some a])⟩).contains n with
      | false => rfl
      | true =>
        rw [List.contains_iff_mem] at h2
        rcases this.mp h2 with h | ⟨h, _⟩
        · rw [← List.contains_iff_mem, h1] at h; cases h
        · exact absurd h hne'
  · have : (inputIndexList ⟨m.inputs.map (extendSpec [some a]), m.outputs.map (extendSpec [some a])⟩).contains a = true :=
      List.contains_iff_mem.mpr ((mem_inputIndexList_extend m a a).mpr (Or.inr ⟨rfl, hne⟩))
    have hm := List.contains_iff_mem.mp this
    simp [List.filter, hm]

theorem external_sub_output (m : MapSpec) (n : String) (h : n ∈ externalIndices m) : n ∈ outputIndices m := by
  unfold externalIndices at h
  exact (List.mem_filter.mp h).1

/-- `input_keys` after `add_axes(a)`: every key gets the new trailing component -/
theorem inputKeys_extend (m : MapSpec) (hv : Valid m) (a : String) (hf : FreshAxes [a] m) (hne : m.inputs ≠ [])
    (hd : (externalIndices m).Nodup) (s : List Nat) (hs : s.length = (externalIndices m).length)
    (d i j : Nat) (hj : j < d) :
    inputKeys ⟨m.inputs.map (extendSpec [some a]), m.outputs.map (extendSpec [some a])⟩ (s ++ [d]) (i * d + j) =
      .ok (m.inputs.map fun x =>
        (x.name, x.axes.map (selectC (externalIndices m) (PF.shapeToKey s i)) ++ [some j])) := by
  have hv' := valid_extend [a] m hv hf
  simp only [List.map_cons, List.map_nil] at hv'
  have hext := externalIndices_extend m hv a hf hne
  have hna : a ∉ externalIndices m := fun h => fresh_not_output m a hf (external_sub_output m a h)
  have hd' : (externalIndices m ++ [a]).Nodup := by
    rw [List.nodup_append]
    refine ⟨hd, by simp, ?_⟩
    intro x hx y hy
    simp at hy; subst hy
    intro e; subst e; exact hna hx
  rw [inputKeys_select _ hv' (by rw [hext]; exact hd') (s ++ [d]) (i * d + j) (by rw [hext]; simp [hs])]
  rw [hext, shapeToKey_snoc d j hj s i, List.map_map]
  congr 1
  apply List.map_congr_left
  intro x hx
  have hl : (externalIndices m).length = (PF.shapeToKey s i).length := by rw [length_shapeToKey, hs]
  simp only [Function.comp, extendSpec, List.map_append, List.map_cons, List.map_nil, Prod.mk.injEq, true_and]
  congr 1
  · apply List.map_congr_left
    intro ax hax
    cases ax with
    | none => rfl
    | some ax => exact selectC_old _ _ a j hl ax (valid_axis_external m hv x hx ax hax)
  · rw [selectC_new _ _ a j hl hna]

/-! ### `len(set(input_indices)) = len(external_indices)` when the output indices are distinct -/

theorem filter_mem_cons_length (x : String) (xs : List String) (hx : x ∉ xs) : ∀ (O : List String), O.Nodup → x ∈ O →
    (O.filter fun n => (x :: xs).contains n).length = (O.filter fun n => xs.contains n).length + 1
  | [], _, h => by simp at h
  | o :: r, hn, h => by
      have hn' := List.nodup_cons.mp hn
      by_cases e : o = x
      · subst e
        have h1 : (o :: xs).contains o = true := by simp
        have h2 : xs.contains o = false := by
          cases hc : xs.contains o with
          | false => rfl
          | true => exact absurd (List.contains_iff_mem.mp hc) hx
        simp only [List.filter_cons, h1, h2, ↓reduceIte, List.length_cons, Bool.false_eq_true]
        congr 1
        congr 1
        apply List.filter_congr
        intro n hnr
        have : n ≠ o := fun e => hn'.1 (e ▸ hnr)
        simp [this]
      · have hr : x ∈ r := by
          rcases List.mem_cons.mp h with h' | h'
          · exact absurd h'.symm e
          · exact h'
        have ih := filter_mem_cons_length x xs hx r hn'.2 hr
        have hc : (x :: xs).contains o = xs.contains o := by
          simp [e]
        simp only [List.filter_cons, hc]
        split
        · simp only [List.length_cons, ih]
        · exact ih

theorem filter_mem_cons_dup (x : String) (xs : List String) (hx : x ∈ xs) (O : List String) :
    (O.filter fun n => (x :: xs).contains n) = (O.filter fun n => xs.contains n) := by
  apply List.filter_congr
  intro n _
  by_cases e : n = x
  · subst e; simp [hx]
  · simp [e]

theorem nDistinct_filter (O : List String) (hn : O.Nodup) : ∀ (L : List String), (∀ n ∈ L, n ∈ O) →
    nDistinct L = (O.filter fun n => L.contains n).length
  | [], _ => by
      simp only [nDistinct, List.contains_nil]
      induction O with
      | nil => rfl
      | cons a r ih => simpa [List.filter] using ih (List.nodup_cons.mp hn).2
  | x :: xs, h => by
      have ih := nDistinct_filter O hn xs (fun n hn => h n (List.mem_cons_of_mem _ hn))
      simp only [nDistinct]
      split
      · next hc => rw [filter_mem_cons_dup x xs (List.contains_iff_mem.mp hc), ih]
      · next hc =>
        have hx : x ∉ xs := fun e => hc (List.contains_iff_mem.mpr e)
        rw [filter_mem_cons_length x xs hx O hn (h x List.mem_cons_self), ih]

theorem nDistinct_external (m : MapSpec) (hv : Valid m) (hn : (outputIndices m).Nodup) :
    nDistinct (inputIndexList m) = (externalIndices m).length := by
  unfold externalIndices
  apply nDistinct_filter _ hn
  intro n hn'
  obtain ⟨x, hx, hi⟩ := (mem_inputIndexList m n).mp hn'
  exact hv.in_sub x hx n hi

theorem external_nodup (m : MapSpec) (hn : (outputIndices m).Nodup) : (externalIndices m).Nodup := by
  unfold externalIndices
  exact hn.sublist List.filter_sublist

end PF.MS
