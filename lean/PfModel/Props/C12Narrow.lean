import PfModel.Props.C12
import PfModel.Lemmas.ValidateNarrow
/-!
C12, round 4: the start of `map` on a NARROWED pipeline (`output_names=` and / or `auto_subpipeline=True`).

`prepare_run` replaces the pipeline by `pipeline.subpipeline(set(inputs), output_names)` before `_validate_complete_inputs`.
`Pipeline.subpipeline` (C11's model `PF.Sub.prepare`) tests MISSING root arguments only; the clause "surplus inputs raise an
exception at the start of map, before any user function is invoked" is carried by `_validate_complete_inputs` on the narrowed
pipeline alone (seeded change C12-s3-B skipped it "because `subpipeline` has already checked that the inputs suffice").
* `C12_narrow_plain`: without `output_names` / `auto_subpipeline`, `startMapN` IS `startMap`;
* `C12_narrow_iff`, `C12_narrow_complete`, `C12_narrow_refused_iff`: reject and complete for every combination of the two arguments;
* `C12_narrow_no_effects`: a refused start has invoked no user function and written nothing;
* `C12_narrow_reject_unknown_input`: an input name that NO function accepts is refused, whatever `output_names` / `auto_subpipeline` are;
* `C12_narrow_reject_surplus`: so is an input (or default) that is no root argument of the NARROWED pipeline (e.g. a root argument only
  dropped functions take);
* `C12_narrow_nothing_missing`, `C12_narrow_complete_inputs_iff`: after a narrowing nothing is missing, so `_validate_complete_inputs`
  fails EXACTLY for surplus names — it is the surplus test, not a redundant one.
-/
namespace PF.C12
open PF PF.Map PF.Validate

/-- the narrowing is requested: `auto_subpipeline=True` or an `output_names` argument -/
def Narrowing (r : Req) (auto : Bool) : Prop := auto = true ∨ ∃ ns, r.outputNames = some ns

theorem C12_narrowing_iff (r : Req) (auto : Bool) : Narrowing r auto ↔ (auto || r.outputNames.isSome) = true := by
  unfold Narrowing
  cases auto <;> cases r.outputNames <;> simp

/-- **Without `output_names` and `auto_subpipeline` nothing changes**: `startMapN` is `startMap`. -/
theorem C12_narrow_plain (fs : List MFunc) (r : Req) (h : r.outputNames = none) : startMapN fs r false = startMap fs r := by
  unfold startMapN
  rw [narrow_off fs r h, narrowed_of_none r h]
  cases hc : checkExecutor r with
  | error e => exact (startMap_executor_error fs r e hc).symm
  | ok u => rfl

/-- **The narrowed pipeline is made of functions of the pipeline.** -/
theorem C12_narrow_members (fs : List MFunc) (r : Req) (auto : Bool) (sub : List MFunc) (h : narrow fs r auto = .ok sub) :
    ∀ f ∈ sub, f ∈ fs := narrow_subset fs r auto sub h

/-- **What the narrowing itself refuses**: only with `output_names` / `auto_subpipeline`; a name in `output_names` that is no node of
    the graph (`KeyError`), whatever `Pipeline.subpipeline` refuses (C11's model: an input name that is no node when only
    `auto_subpipeline` is given, a MISSING root argument of the narrowed pipeline), or a `Pipeline.drop` whose `_validate` fails. -/
theorem C12_narrow_refused_iff (fs : List MFunc) (r : Req) (auto : Bool) :
    Refused (narrow fs r auto) ↔
      Narrowing r auto ∧
      ((∃ ns, r.outputNames = some ns ∧ ∃ n ∈ ns, n ∉ nodeNames fs) ∨
       Refused (Sub.prepare fs r.inputs (r.outputNames.map (selOutputs fs)) auto) ∨
       ∃ sub, Sub.prepare fs r.inputs (r.outputNames.map (selOutputs fs)) auto = .ok sub ∧ Refused (dropChecks sub [] fs)) := by
  rw [C12_narrowing_iff, ← checkOutputNames_refused]
  unfold narrow
  cases hn : (auto || r.outputNames.isSome) with
  | false => simp [Refused]
  | true =>
    simp only [Bool.not_true, Bool.false_eq_true, ↓reduceIte, true_and]
    cases hc : checkOutputNames fs r with
    | error e => simp [Refused]
    | ok u =>
      cases hp : Sub.prepare fs r.inputs (r.outputNames.map (selOutputs fs)) auto with
      | error e => simp [Refused]
      | ok sub =>
        cases hd : dropChecks sub [] fs with
        | error e => simp [Refused, hd]
        | ok u' => simp [Refused, hd]

/-- **Reject and complete** for `map(inputs, output_names=…, auto_subpipeline=…)`: the start refuses exactly when an executor comes
    with `parallel=False`, the narrowing refuses, or the narrowed pipeline with the request has a `MapFault`. -/
theorem C12_narrow_iff (fs : List MFunc) (r : Req) (auto : Bool) :
    Refused (startMapN fs r auto).2 ↔
      (r.executor = true ∧ r.parallel = false) ∨ Refused (narrow fs r auto) ∨
      ∃ sub, narrow fs r auto = .ok sub ∧ MapFault sub r.narrowed := by
  unfold startMapN
  rw [← checkExecutor_refused]
  cases hc : checkExecutor r with
  | error e => simp [Refused]
  | ok u =>
    cases hn : narrow fs r auto with
    | error e => simp [Refused]
    | ok sub =>
      simp only [C12_startMap_iff]
      simp [Refused]

/-- **Complete**, stated on its own: no executor fault, an accepted narrowing and no `MapFault` of the narrowed pipeline ⇒ accepted. -/
theorem C12_narrow_complete (fs : List MFunc) (r : Req) (auto : Bool) (sub : List MFunc)
    (he : ¬ (r.executor = true ∧ r.parallel = false)) (hn : narrow fs r auto = .ok sub) (hm : ¬ MapFault sub r.narrowed) :
    (startMapN fs r auto).2 = .ok () := by
  have : ¬ Refused (startMapN fs r auto).2 := by
    rw [C12_narrow_iff]
    rintro (h | ⟨e, h⟩ | ⟨s, hs, h⟩)
    · exact he h
    · rw [hn] at h; cases h
    · rw [hn] at hs; cases hs; exact hm h
  rw [refused_iff_not_ok] at this
  exact Classical.not_not.mp this

/-- **Before any user function, without altering the run folder** — also when the pipeline is narrowed first: a refused start has
    invoked no user function and written nothing; with `cleanup=False` (or without a run folder) nothing has happened at all. -/
theorem C12_narrow_no_effects (fs : List MFunc) (r : Req) (auto : Bool) (e : VErr) (h : (startMapN fs r auto).2 = .error e) :
    (∀ x ∈ (startMapN fs r auto).1, x.isCall = false ∧ x.isWrite = false) ∧
    ((r.cleanup = false ∨ r.folder = false) → (startMapN fs r auto).1 = []) := by
  unfold startMapN at h ⊢
  cases hc : checkExecutor r with
  | error e' => simp
  | ok u =>
    simp only [hc] at h ⊢
    cases hn : narrow fs r auto with
    | error e' => simp
    | ok sub =>
      simp only [hn] at h ⊢
      exact C12_no_effects sub r.narrowed e h

/-- **Surplus input of the narrowed pipeline**: an input (or a default of the narrowed pipeline) that is not one of ITS root
    arguments — e.g. a root argument that only dropped functions take — is refused. -/
theorem C12_narrow_reject_surplus (fs : List MFunc) (r : Req) (auto : Bool) (sub : List MFunc) (hn : narrow fs r auto = .ok sub)
    (k : String) (hk : k ∈ akeys r.inputs ++ akeys (pdefaults sub)) (hr : k ∉ rootArgs sub) : Refused (startMapN fs r auto).2 :=
  (C12_narrow_iff fs r auto).mpr (Or.inr (Or.inr ⟨sub, hn, (C12_startMap_iff sub r.narrowed).mp
    (C12_reject_surplus_input sub r.narrowed k hk hr)⟩))

/-- **Surplus inputs raise an exception at the start of map — whatever `output_names` and `auto_subpipeline` are**: an input name
    that no function of the pipeline accepts as a parameter is refused (by the executor test, by the narrowing — `KeyError` with
    `auto_subpipeline` alone —, or by `_validate_complete_inputs` on the narrowed pipeline), and by `C12_narrow_no_effects` before
    any user function is invoked and without a write. -/
theorem C12_narrow_reject_unknown_input (fs : List MFunc) (r : Req) (auto : Bool) (k : String) (hk : k ∈ akeys r.inputs)
    (hp : ∀ f ∈ fs, k ∉ paramNames f) : Refused (startMapN fs r auto).2 := by
  cases hn : narrow fs r auto with
  | error e => exact (C12_narrow_iff fs r auto).mpr (Or.inr (Or.inl ⟨e, hn⟩))
  | ok sub =>
    refine C12_narrow_reject_surplus fs r auto sub hn k (List.mem_append_left _ hk) ?_
    intro hroot
    obtain ⟨f, hf, hpf⟩ := rootArgs_param sub k hroot
    exact hp f (narrow_subset fs r auto sub hn f hf) hpf

/-- **After a narrowing nothing is missing**: `Pipeline.subpipeline` has refused every request in which a root argument of the
    narrowed pipeline is neither provided nor defaulted. -/
theorem C12_narrow_nothing_missing (fs : List MFunc) (r : Req) (auto : Bool) (sub : List MFunc) (ha : Narrowing r auto)
    (hn : narrow fs r auto = .ok sub) : ∀ p ∈ rootArgs sub, p ∈ akeys r.inputs ∨ p ∈ akeys (pdefaults sub) := by
  rcases narrow_ok fs r auto sub hn with ⟨hoff, _⟩ | ⟨hon, _, hprep, _⟩
  · rw [(C12_narrowing_iff r auto).mp ha] at hoff; cases hoff
  · have hn' : (auto || (r.outputNames.map (selOutputs fs)).isSome) = true := by
      cases ho : r.outputNames <;> simp_all
    exact (prepare_ok fs r.inputs _ auto sub hn' hprep).2

/-- … so **`_validate_complete_inputs` on a narrowed pipeline fails exactly for surplus names**: it is THE surplus test of such a
    request (what `subpipeline` "has already checked" is the other half only). -/
theorem C12_narrow_complete_inputs_iff (fs : List MFunc) (r : Req) (auto : Bool) (sub : List MFunc) (ha : Narrowing r auto)
    (hn : narrow fs r auto = .ok sub) :
    Refused (validateInputs sub r.inputs) ↔ ∃ k ∈ akeys r.inputs ++ akeys (pdefaults sub), k ∉ rootArgs sub := by
  have hmiss := C12_narrow_nothing_missing fs r auto sub ha hn
  have hnil : (rootArgs sub).filter (fun x => !(akeys r.inputs ++ akeys (pdefaults sub)).contains x) = [] := by
    apply List.filter_eq_nil_iff.mpr
    intro p hp
    rcases hmiss p hp with h | h <;> simp [List.contains_iff_mem, h]
  unfold validateInputs
  simp only [bind, Except.bind, hnil, pure, Except.pure]
  cases hf2 : (akeys r.inputs ++ akeys (pdefaults sub)).filter (fun x => !(rootArgs sub).contains x) with
  | nil =>
    constructor
    · rintro ⟨e, he⟩; cases he
    · rintro ⟨k, hk, hr⟩
      have := List.filter_eq_nil_iff.mp hf2 k hk
      simp [List.contains_iff_mem, hr] at this
  | cons m tl =>
    constructor
    · intro _
      have hm : m ∈ (akeys r.inputs ++ akeys (pdefaults sub)).filter (fun x => !(rootArgs sub).contains x) := by
        rw [hf2]; exact List.mem_cons_self ..
      obtain ⟨h1, h2⟩ := List.mem_filter.mp hm
      exact ⟨m, h1, by simpa [List.contains_iff_mem] using h2⟩
    · intro _; exact ⟨_, rfl⟩

/-! ### non-vacuity and witnesses (the pipeline of the seeded change's demo: `x[i] -> y[i]`, then `z = g(y)`) -/

private def fn (n : String) (ps : List String) (o : String) : MFunc :=
  { name := n, params := ps.map fun p => (p, p), outputs := [o], mapspec := none, ret := none, internal := none, defaults := [], bound := [] }
private def mapped (n x y : String) : MFunc :=
  { fn n [x] y with mapspec := some { inputs := [{ name := x, axes := [some "i"] }], outputs := [{ name := y, axes := [some "i"] }] } }
private def demo : List MFunc := [mapped "f" "x" "y", fn "g" ["y"] "z", fn "h" ["w"] "v"]
private def req (inputs : List (String × Val)) (S : Option (List String)) : Req :=
  { inputs := inputs, internal := [], storage := "dict", folder := true, cleanup := false, executor := false, parallel := false,
    order := [], prev := none, outputNames := S }
private def xs : Val := .arr [2] [.int 1, .int 2]

/-- `map({"x": …, "bogus": 7}, output_names={"y"})` (with and without `auto_subpipeline`) and `output_names={"z"}`: refused as a
    surplus input of the narrowed pipeline, nothing written, nothing called -/
example : startMapN demo (req [("x", xs), ("bogus", .int 7)] (some ["y"])) false = ([], .error ⟨.value, "complete-inputs"⟩) := by decide
example : startMapN demo (req [("x", xs), ("bogus", .int 7)] (some ["y"])) true = ([], .error ⟨.value, "complete-inputs"⟩) := by decide
example : startMapN demo (req [("x", xs), ("bogus", .int 7)] (some ["z"])) false = ([], .error ⟨.value, "complete-inputs"⟩) := by decide
/-- `auto_subpipeline=True` alone: `node_mapping["bogus"]` is a `KeyError` -/
example : startMapN demo (req [("x", xs), ("bogus", .int 7)] none) true = ([], .error ⟨.key, "subpipeline-unknown-name"⟩) := by decide
/-- `w` is a root argument of the whole pipeline but only of the dropped `h`: surplus for `output_names={"y"}` -/
example : startMapN demo (req [("x", xs), ("w", .int 7)] (some ["y"])) false = ([], .error ⟨.value, "complete-inputs"⟩) := by decide
/-- a missing root argument is refused by `subpipeline` itself -/
example : startMapN demo (req [] (some ["y"])) false = ([], .error ⟨.value, "subpipeline-missing-inputs"⟩) := by decide
/-- the well-formed narrowed request is accepted and runs `f` only (twice); with `y` supplied as an input and `z` requested only `g` -/
example : startMapN demo (req [("x", xs)] (some ["y"])) false =
    ([.writeRunInfo, .writeInputs, .writeDefaults, .mkdirStore "y", .call "f", .call "f"], .ok ()) := by decide
example : startMapN demo (req [("y", xs)] (some ["z"])) false = ([.writeRunInfo, .writeInputs, .writeDefaults, .call "g"], .ok ()) := by decide
example : narrow demo (req [("x", xs)] (some ["y"])) false = .ok [mapped "f" "x" "y"] := rfl
/-- dropping a producer makes the defaults of its consumers count: `Pipeline.drop` → `_validate` refuses inconsistent ones -/
example : narrow [fn "f" ["x"] "y", { fn "g" ["y"] "z" with defaults := [("y", .int 1)] }, { fn "h" ["y"] "v" with defaults := [("y", .int 2)] }]
    (req [("y", .int 3)] (some ["z", "v"])) false = .error ⟨.value, "inconsistent-defaults"⟩ := rfl
example : Refused (startMapN demo (req [("x", xs), ("bogus", .int 7)] (some ["y"])) true).2 :=
  C12_narrow_reject_unknown_input _ _ _ "bogus" (by decide) (by decide)
example : Refused (startMapN demo (req [("x", xs), ("w", .int 7)] (some ["y"])) false).2 :=
  C12_narrow_reject_surplus _ _ _ [mapped "f" "x" "y"] rfl "w" (by decide) (by decide)
example : Narrowing (req [("x", xs)] (some ["y"])) false := Or.inr ⟨_, rfl⟩
example : ∃ k ∈ akeys (req [("x", xs), ("w", .int 7)] (some ["y"])).inputs ++ akeys (pdefaults [mapped "f" "x" "y"]), k ∉ rootArgs [mapped "f" "x" "y"] :=
  ⟨"w", by decide, by decide⟩
example : (startMapN demo (req [("x", xs)] (some ["y"])) false).2 = .ok () :=
  C12_narrow_complete _ _ _ [mapped "f" "x" "y"] (by decide) rfl (by
    intro h
    exact (refused_iff_not_ok _).mp ((C12_startMap_iff _ _).mpr h) (by decide))

end PF.C12
