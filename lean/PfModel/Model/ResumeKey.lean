/-
Key <-> linear-index conversion of the storages on the RESUME path of `Pipeline.map`.

`PF.ResumeFS` keys every stored element by its LINEAR index (`Path.cell o li`, `dictCells`).  The real storages are keyed
by TUPLES: the runner dumps element `li` under `_shape_to_key(shape, li)` (`map/_run.py:551`, `_mapspec.py:288-292`),
a `DictArray` stores `_dict[key]` and answers `get_from_index(li)` through `np.unravel_index(li, shape)`
(`_storage_array/_dict.py:58-68`), a `FileArray` turns the key into the file number `sum(k * stride)`
(`_storage_array/_file.py:82-85`).  This module models the tuple-keyed dict and the conversions, so that the statement
"a resumed run reads element `li` back with its own value" is a theorem about `shapeToKey`/`ravel`, for every shape and
every pattern of stored/missing elements, and not an assumption of the harness glue.
-/
import PfModel.Model.ResumeFS
namespace PF.ResumeKey
open PF PF.Map

/-- `DictArray._dict : dict[tuple[int, ...], Any]` (`_storage_array/_dict.py:55`), insertion ordered -/
abbrev KDict := List (List Nat × Val)

/-- `self._dict[key]` / `key in self._dict` -/
def kLookup : KDict → List Nat → Option Val
  | [], _ => none
  | (k', v) :: r, k => if k' = k then some v else kLookup r k

/-- `DictArray.dump(key, value)` with an all-integer key: `self._dict[key] = value` (`_dict.py:175-195`):
    an existing key keeps its position and gets the new value, a new key is appended -/
def kDump : KDict → List Nat → Val → KDict
  | [], k, v => [(k, v)]
  | (k', v') :: r, k, v => if k' = k then (k', v) :: r else (k', v') :: kDump r k v

/-- `DictArray.get_from_index(li)` = `self._dict[np.unravel_index(li, self.shape)]` (`_dict.py:58-62`); `none` = `KeyError` -/
def kGetFromIndex (shape : List Nat) (d : KDict) (li : Nat) : Option Val :=
  kLookup d (shapeToKey shape li)

/-- `DictArray.has_index(li)` = `np.unravel_index(li, self.shape) in self._dict` (`_dict.py:64-68`) -/
def kHasIndex (shape : List Nat) (d : KDict) (li : Nat) : Bool :=
  (kLookup d (shapeToKey shape li)).isSome

/-- `DictArray.mask_linear()` (`_dict.py:163-173`): an all-`True` array of the shape, `mask[key] = False` for every key
    of the dict, then flattened row-major: position `li` is `False` iff some key of the dict ravels to `li`.
    (`True` = missing.)  This goes through `ravel`, NOT through `shapeToKey`: that it agrees with `kHasIndex` is
    `C05_key_mask_has`. -/
def kMaskLinear (shape : List Nat) (d : KDict) : List Bool :=
  (List.range (prod shape)).map fun li => !(d.any fun p => ravel shape p.1 == li)

/-- `_update_array` (`map/_run.py:478-537`, key from `_shape_to_key(external_shape, index)`, `:551`/`_mapspec.py:288`):
    the dict a run holds after dumping every `(li, v) ∈ cells`, in that order, under the key `shapeToKey shape li` -/
def kStore (shape : List Nat) (cells : List (Nat × Val)) : KDict :=
  cells.foldl (fun d c => kDump d (shapeToKey shape c.1) c.2) []

/-- what a resumed run can load: the present elements `(li, get_from_index(li))`, ascending
    (`_existing_and_missing_indices` + `get_from_index`, `map/_run.py:577-596, 965`) -/
def kLoadCells (shape : List Nat) (d : KDict) : List (Nat × Val) :=
  (List.range (prod shape)).filterMap fun li => (kGetFromIndex shape d li).map fun v => (li, v)

/-- `FileArray._key_to_file(key)` (`_storage_array/_file.py:82-85`): the number in `__<i>__.pickle` is
    `sum(k * s for k, s in zip(key, strides))` -/
def fileOfKey (shape key : List Nat) : Nat := ravel shape key

/-- the files a `FileArray` holds after the same dumps: `(file number, value)`, a later dump of the same file replaces it -/
def fStore (shape : List Nat) (cells : List (Nat × Val)) : List (Nat × Val) :=
  cells.map fun c => (fileOfKey shape (shapeToKey shape c.1), c.2)

/-- Python `tuple.__lt__` on equal-length int tuples -/
def lexLt : List Nat → List Nat → Bool
  | [], [] => false
  | [], _ :: _ => true
  | _ :: _, [] => false
  | a :: as, b :: bs => a < b || (a == b && lexLt as bs)

/-- insertion into a key-sorted dict -/
def kInsert (p : List Nat × Val) : KDict → KDict
  | [] => [p]
  | q :: r => if lexLt p.1 q.1 then p :: q :: r else q :: kInsert p r

/-- `sorted(obj)` over the keys of a persisted dict (`harness/c05_crashfs.py: decode`) -/
def kSort : KDict → KDict
  | [] => []
  | p :: r => kInsert p (kSort r)

/-- `[obj[k] for k in sorted(obj)]`: the values in lexicographic key order -/
def sortedValues (d : KDict) : List Val := (kSort d).map Prod.snd

/-- the column-major unravel of the seeded change `C05-s4-B` (`divmod` from the FIRST axis) -/
def unravelF : List Nat → Nat → List Nat
  | [], _ => []
  | n :: ns, i => i % n :: unravelF ns (i / n)

/-- `get_from_index` of the seeded change -/
def kGetFromIndexF (shape : List Nat) (d : KDict) (li : Nat) : Option Val :=
  kLookup d (unravelF shape li)

end PF.ResumeKey
