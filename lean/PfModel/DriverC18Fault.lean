import PfModel.DriverVal
import PfModel.Model.LazyFault
import PfModel.Model.PipeCache
/-! Driver entry `"fsession"` of C18: the `"session"` entry of `Driver/C18.lean` (lazy calls, `evaluate()`s, `construct_dag()` blocks on
    one pipeline) when user functions may raise: `{"op": "fault", "bad": [function names]}` sets the functions that raise from now on,
    `{"op": "eval", "h": n}` is `PF.Lazy.evaluateF`.  Answer of an eval: `{"value": v | "raised": function name, "log": [names of all
    invocations so far, raising ones included], "new": [names this step invoked], "done": [ids with `_evaluated = True`]}`. -/
namespace PF.DrvC18Fault
open Lean PF PF.Drv PF.Pipe PF.Lazy

def getFunc (j : Json) : R Func := do
  return { name := ← strF j "name", params := ← listF (asPair asStr asStr) j "params", outputs := ← listF asStr j "outputs",
           defaults := (← optF getKw j "defaults").getD [], bound := (← optF getKw j "bound").getD [] }

def putErr : Err → Json
  | .fuel => jObj [("err", jStr "RecursionError")]
  | .missing _ => jObj [("err", jStr "ValueError")]
  | .noFunc _ => jObj [("err", jStr "KeyError")]
  | .unused ps => jObj [("err", jStr "UnusedParametersError"), ("unused", jList jStr ps)]
  | .outputInKwargs => jObj [("err", jStr "ValueError")]
  | .mapspec => jObj [("err", jStr "RuntimeError")]

def putEErr : EErr → Json
  | .fuel => jObj [("err", jStr "RecursionError")]
  | .dangling _ => jObj [("err", jStr "KeyError")]
  | .notTuple => jObj [("err", jStr "TypeError")]

def getReq (j : Json) : R Req := do
  match j with
  | .str s => return .name s
  | _ => return .whole (← asList asStr j)

def putLArg : LArg → Json
  | .val v => jObj [("val", putVal v)]
  | .ref i => jObj [("ref", jNat i)]

def putNode : Lazy.Node → Json
  | .call f args => jObj [("kind", jStr "call"), ("f", jStr f.name), ("args", jList (fun (_, a) => putLArg a) args)]
  | .pick f src name => jObj [("kind", jStr "pick"), ("f", jStr f.name), ("args", jArr [putLArg src, jObj [("val", putVal (.str name))]])]

def putGraph (g : TG) : Json :=
  jObj [("nodes", jList jNat g.gnodes), ("edges", jList (fun (a, b) => jArr [jNat a, jNat b]) g.edges),
        ("cache", jNat g.cache.length)]

structure St where
  s : LSt
  handles : List (Option LArg)
  bad : List String

def nodeName (nodes : List Lazy.Node) (i : Nat) : String :=
  match nodes[i]? with
  | some (.call f _) => f.name
  | some (.pick f _ _) => f.name
  | none => "?"

def step (fs : List Func) (t : St) (op : Json) : R (Json × St) := do
  let s := t.s
  match ← strF op "op" with
  | "enter" => return (jObj [("ok", jBool true)], { t with s := enterDag s })
  | "exit" =>
    match s.tg with
    | none => .error "exit without enter"
    | some g => return (putGraph g, { t with s := exitDag s })
  | "fault" => return (jObj [("ok", jBool true)], { t with bad := ← listF asStr op "bad" })
  | "call" =>
    let kw ← getKw (← fld op "kw")
    let req ← getReq (← fld op "out")
    match lrunTop fs kw req s with
    | .error e => return (putErr e, { t with handles := t.handles ++ [none] })
    | .ok (a, s1) =>
      let eager : Json := match runTop fs kw req with | .ok o => jObj [("value", putVal o.value), ("calls", jList jStr o.calls)] | .error e => putErr e
      return (jObj [("ret", putLArg a), ("den", jOpt putVal (den s1.nodes a)), ("eager", eager),
                    ("log", jList jStr (callNames s1.nodes s1.ev.log))], { t with s := s1, handles := t.handles ++ [some a] })
  | "eval" =>
    let h ← natF op "h"
    match t.handles[h]? with
    | some (some a) =>
      let (s1, r) := evaluateF t.bad a s
      let common := [("log", jList jStr (callNames s1.nodes s1.ev.log)),
                     ("new", jList jStr (callNames s1.nodes (s1.ev.log.drop s.ev.log.length))),
                     ("done", jList jNat (s1.ev.done.map (·.1)))]
      match r with
      | .ok v => return (jObj (("value", putVal v) :: common), { t with s := s1 })
      | .error (.raised id) => return (jObj (("raised", jStr (nodeName s1.nodes id)) :: common), { t with s := s1 })
      | .error (.model e) => return (putEErr e, { t with s := s1 })
    | _ => .error s!"eval of handle {h}: no such object"
  | o => .error s!"unknown op {o}"

def session (fs : List Func) : List Json → St → List Json → R (List Json × St)
  | [], t, acc => .ok (acc.reverse, t)
  | op :: ops, t, acc => do
    let (r, t1) ← step fs t op
    session fs ops t1 (r :: acc)

/-- the entry `"fsession"` -/
def handle (a : Json) : R Json := do
  let fs ← listF getFunc a "funcs"
  let ops ← asArr (← fld a "ops")
  let s0 : LSt := { memo := [], used := [], usedNone := false, nodes := [], tg := none, ev := ⟨[], []⟩, own := none, cfn := [] }
  let (rs, t) ← session fs ops ⟨s0, [], []⟩ []
  let wf := PipeCache.rankedB fs && PipeCache.uniqueOutB fs && PipeCache.consistentDefaultsB PipeCache.encVal fs
  return jObj [("ops", jArr rs), ("table", jList putNode t.s.nodes), ("wf", jBool wf), ("roots_ok", jBool (PipeCache.rootsAgreeB fs))]

end PF.DrvC18Fault
