/-
Model of the validation that guards pipeline construction and the start of `Pipeline.map` (C12).

`construct` mirrors `PipeFunc.__init__` → `_validate_names` / `_validate_mapspec` (`pipefunc/_pipefunc.py:545-596, 838-877`) for every
function and then `Pipeline.__init__` → `add` (one function at a time: `validate_unique_output_names`, then `Pipeline._validate` on the
functions added so far: `validate_consistent_defaults`, `_validate_mapspec`, `validate_consistent_axes`, `_autogen_mapspec_axes` →
`topological_generations`, `pipefunc/_pipeline/_base.py:217-256, 1120-1195`, `_pipeline/_validation.py`).

`startMap` mirrors `prepare_run` (`pipefunc/map/_prepare.py:25-77`) and `RunInfo.create` (`map/_run_info.py:52-86`) as a list of
*steps in the code's order*: a step is a check (with its result) or an effect on the outside world.  `exec` runs the steps up to
the first failing check and returns the effects performed so far.  Core Lean only.
-/
import PfModel.Model.MapRun
import PfModel.Model.MapPieces
namespace PF.Validate
open PF PF.Map

/-! ### errors and effects -/

/-- exception classes the harness distinguishes (`pfimport.exc_enum`) -/
inductive Exc
  | value | type | key | index | unfeasible | other
  deriving Repr, DecidableEq, Inhabited

/-- which check raised, and with which exception class -/
structure VErr where
  exc : Exc
  check : String
  deriving Repr, DecidableEq, Inhabited

abbrev V := Except VErr

instance : DecidableEq (V Unit) := fun a b =>
  match a, b with
  | .ok _, .ok _ => isTrue rfl
  | .error e, .error e' => if h : e = e' then isTrue (h ▸ rfl) else isFalse (by intro hh; cases hh; exact h rfl)
  | .ok _, .error _ => isFalse (by intro h; cases h)
  | .error _, .ok _ => isFalse (by intro h; cases h)

/-- effects on the outside world, in the vocabulary of the property -/
inductive Effect
  | cleanup                 -- `_cleanup_run_folder`: `shutil.rmtree(run_folder)`
  | writeRunInfo            -- `RunInfo.dump`: `run_info.json`
  | writeInputs             -- `inputs/*.cloudpickle`
  | writeDefaults           -- `defaults/defaults.cloudpickle`
  | mkdirStore (o : String) -- `init_store` → `_init_arrays`: the storage of a mapped output
  | call (f : String)       -- a user function is invoked
  deriving Repr, DecidableEq, Inhabited

def Effect.isCall : Effect → Bool
  | .call _ => true
  | _ => false

/-- an effect that alters the run folder without the caller having asked to wipe it -/
def Effect.isWrite : Effect → Bool
  | .writeRunInfo | .writeInputs | .writeDefaults | .mkdirStore _ => true
  | _ => false

inductive Step
  | check (name : String) (r : V Unit)
  | eff (e : Effect)
  deriving Repr

/-- run the steps up to the first failing check -/
def exec : List Step → List Effect × V Unit
  | [] => ([], .ok ())
  | .check _ (.error e) :: _ => ([], .error e)
  | .check _ (.ok ()) :: r => exec r
  | .eff x :: r => (x :: (exec r).1, (exec r).2)

/-! ### value equality (`==` on the generated terms) -/

mutual
def valEq : Val → Val → Bool
  | .int a, .int b => a == b
  | .str a, .str b => a == b
  | .none, .none => true
  | .masked, .masked => true
  | .app f a, .app g b => f == g && kwEq a b
  | .pick v o, .pick w p => valEq v w && o == p
  | .proj v i, .proj w j => valEq v w && i == j
  | .arr s a, .arr t b => s == t && valsEq a b
  | .tup a, .tup b => valsEq a b
  | _, _ => false
def valsEq : List Val → List Val → Bool
  | [], [] => true
  | a :: as, b :: bs => valEq a b && valsEq as bs
  | _, _ => false
def kwEq : List (String × Val) → List (String × Val) → Bool
  | [], [] => true
  | (k, a) :: as, (l, b) :: bs => k == l && valEq a b && kwEq as bs
  | _, _ => false
end

/-! ### construction -/

def paramNames (f : MFunc) : List String := f.params.map (·.1)

/-- `_validate_names`: "The `output_name` cannot be the same as any of the input parameter names" -/
def selfNamed (f : MFunc) : Bool := f.outputs.any fun o => (paramNames f).contains o

/-- `PipeFunc._validate_mapspec`, first test: a MapSpec input that is not a parameter -/
def mapspecInputNotParam (f : MFunc) : Bool :=
  match f.mapspec with
  | none => false
  | some ms => ms.inputs.any fun a => !(paramNames f).contains a.name

/-- second test: a bound parameter among the MapSpec inputs -/
def mapspecInputBound (f : MFunc) : Bool :=
  match f.mapspec with
  | none => false
  | some ms => ms.inputs.any fun a => (alookup f.bound a.name).isSome

/-- third test: the *set* of MapSpec output names differs from the set of output names -/
def mapspecOutputSetDiffers (f : MFunc) : Bool :=
  match f.mapspec with
  | none => false
  | some ms => !((ms.outputs.all fun a => f.outputs.contains a.name) && (f.outputs.all fun o => (ms.outputs.map (·.name)).contains o))

/-- `Pipeline._validate_mapspec`: the *tuple* of output names differs from the MapSpec's -/
def mapspecOutputOrderDiffers (f : MFunc) : Bool :=
  match f.mapspec with
  | none => false
  | some ms => ms.outputs.map (·.name) != f.outputs

/-- `MapSpec.__post_init__` (`map/_mapspec.py:120-135`, reached through `_maybe_mapspec` in `PipeFunc.__init__`): an output axis
    that is `:`, outputs with different indices, an input index that no output carries -/
def mapspecMalformed (f : MFunc) : Bool :=
  match f.mapspec with
  | none => false
  | some ms =>
    ms.outputs.any (fun o => o.axes.any Option.isNone) ||
    !((ms.outputs.drop 1).all fun o => o.axes.filterMap id == (ms.outputs.headD default).axes.filterMap id) ||
    ms.inputIndices.any (fun i => !ms.outputIndices.contains i)

/-- everything `PipeFunc(...)` checks that the generated faults can reach, in the code's order -/
def pipeFuncValidate (f : MFunc) : V Unit := do
  if mapspecMalformed f then throw ⟨.value, "mapspec-malformed"⟩
  if selfNamed f then throw ⟨.value, "output-is-own-parameter"⟩
  if mapspecInputNotParam f then throw ⟨.value, "mapspec-input-not-a-parameter"⟩
  if mapspecInputBound f then throw ⟨.value, "mapspec-input-bound"⟩
  if mapspecOutputSetDiffers f then throw ⟨.value, "mapspec-outputs-differ"⟩

/-- `validate_unique_output_names(f.output_name, output_to_func)` -/
def clashes (f : MFunc) (acc : List MFunc) : Bool := f.outputs.any fun o => (allOutputs acc).contains o

/-- `validate_consistent_defaults`: every default of a shared root argument equals the first one recorded for it -/
def defaultsConsistent (gs : List MFunc) : Bool :=
  (pdefaults gs).all fun kv => match alookup (pdefaults gs) kv.1 with
    | some w => valEq kv.2 w
    | none => true

/-- every `ArraySpec` of every MapSpec -/
def allSpecs (gs : List MFunc) : List ASpec :=
  gs.flatMap fun f => match f.mapspec with
    | none => []
    | some ms => ms.inputs ++ ms.outputs

def axesAgree : List (Option String) → List (Option String) → Bool
  | [], [] => true
  | x :: xs, y :: ys => (x.isNone || y.isNone || x == y) && axesAgree xs ys
  | _, _ => false

/-- two specs of the same array are compatible: same rank and, where both name an axis, the same name -/
def compatible (a b : ASpec) : Bool := a.name != b.name || axesAgree a.axes b.axes

/-- `validate_consistent_axes` -/
def axesConsistent (gs : List MFunc) : Bool := (allSpecs gs).all fun a => (allSpecs gs).all fun b => compatible a b

/-- `nx.topological_generations` raises `NetworkXUnfeasible` iff Kahn layering leaves a residue -/
def acyclic (gs : List MFunc) : Bool := (generations gs).flatten.length == gs.length

/-- `Pipeline._validate` on the functions added so far -/
def pipelineValidate (gs : List MFunc) : V Unit := do
  if !defaultsConsistent gs then throw ⟨.value, "inconsistent-defaults"⟩
  if gs.any mapspecOutputOrderDiffers then throw ⟨.value, "mapspec-output-order"⟩
  if !axesConsistent gs then throw ⟨.value, "inconsistent-axes"⟩
  if !acyclic gs then throw ⟨.unfeasible, "cycle"⟩

/-- `Pipeline.__init__`: `add` one function at a time -/
def addAll : List MFunc → List MFunc → V Unit
  | [], _ => pure ()
  | f :: rest, acc => do
    if clashes f acc then throw ⟨.value, "duplicate-output"⟩
    pipelineValidate (acc ++ [f])
    addAll rest (acc ++ [f])

def validateEach : List MFunc → V Unit
  | [] => pure ()
  | f :: rest => do pipeFuncValidate f; validateEach rest

/-- all `PipeFunc(...)` constructors in listing order, then `Pipeline([...])` -/
def construct (fs : List MFunc) : V Unit := do
  validateEach fs
  addAll fs []

/-! ### the start of `map` -/

/-- what `run_info.json`, `inputs/` and `defaults/` of a completed earlier run record -/
structure Prev where
  funcs : List MFunc
  order : List String                 -- `sorted_functions` of that pipeline, by name
  inputs : List (String × Val)
  internal : List (String × List Nat)
  deriving Repr

/-- the `storage=` argument: one registry name for everything, or a dictionary output name ↦ registry name
    (a tuple-valued `output_name` is keyed by its names joined with `,`; `""` is the default entry) -/
inductive StorageArg
  | name (s : String)
  | perOutput (d : List (String × String))
  deriving Repr, DecidableEq, Inhabited

instance : Coe String StorageArg := ⟨.name⟩

/-- every registry name the argument mentions (`[storage] if isinstance(storage, str) else storage.values()`) -/
def StorageArg.names : StorageArg → List String
  | .name s => [s]
  | .perOutput d => d.map (·.2)

structure Req where
  inputs : List (String × Val)        -- a Python `list` is a `Val.tup`, an `ndarray` a `Val.arr`
  internal : List (String × List Nat) -- the caller's `internal_shapes`
  storage : StorageArg
  folder : Bool                       -- a `run_folder` is given
  cleanup : Bool
  executor : Bool
  parallel : Bool
  order : List String                 -- `sorted_functions` of this pipeline, by name (ties inside a generation are networkx's)
  prev : Option Prev                  -- the folder holds a completed run
  outputNames : Option (List String) := none                  -- `output_names=` (`none`: everything)
  fixed : Option (List (String × PF.Pieces.Sel)) := none      -- `fixed_indices=`
  deriving Repr

def ofMap {α} (check : String) : M α → V Unit
  | .ok _ => .ok ()
  | .error (.value _) => .error ⟨.value, check⟩
  | .error (.type _) => .error ⟨.type, check⟩
  | .error (.key _) => .error ⟨.key, check⟩
  | .error (.index _) => .error ⟨.index, check⟩
  | .error .fuel => .error ⟨.other, check⟩

/-- `storage_registry` with zarr unavailable -/
def storageRegistry : List String := ["file_array", "dict", "shared_memory_dict"]

/-- what `array_shape` sees: a list has the shape `(len,)` -/
def normVal : Val → Val
  | .tup vs => .arr [vs.length] vs
  | v => v

def normInputs (inputs : List (String × Val)) : List (String × Val) := inputs.map fun kv => (kv.1, normVal kv.2)

/-- `prepare_run`: "Cannot use an executor without `parallel=True`" -/
def checkExecutor (r : Req) : V Unit := if r.executor && !r.parallel then .error ⟨.value, "executor-without-parallel"⟩ else .ok ()

/-- `_validate_storage_names`: `get_storage_class` on every name the `storage=` argument mentions -/
def checkStorage (r : Req) : V Unit :=
  if r.storage.names.all storageRegistry.contains then .ok () else .error ⟨.value, "unknown-storage"⟩

/-- the key of a function in a `storage=` / `executor=` dictionary -/
def outputKey (f : MFunc) : String := ",".intercalate f.outputs

/-- functions whose outputs get a storage array in `init_store` (MapSpec with inputs) and for which a `storage=` dictionary
    has neither an entry nor a `""` default (`RunInfo.storage_class`: "Cannot find storage class for …") -/
def storageUnresolved (fs : List MFunc) (s : StorageArg) : List MFunc :=
  match s with
  | .name _ => []
  | .perOutput d =>
    if (alookup d "").isSome then [] else
    fs.filter fun f => (match f.mapspec with | some ms => !ms.inputs.isEmpty | none => false) && (alookup d (outputKey f)).isNone

/-- `_validate_storage_names` (second half, DF-37 repaired): every mapped output resolves to a storage class -/
def checkStorageDefault (fs : List MFunc) (r : Req) : V Unit :=
  if (storageUnresolved fs r.storage).isEmpty then .ok () else .error ⟨.value, "storage-default"⟩

/-- the names `Pipeline.node_mapping` knows: every output name and every root argument -/
def nodeNames (fs : List MFunc) : List String := allOutputs fs ++ rootArgs fs

/-- `pipeline.subpipeline(set(inputs), output_names)`: `pipeline.node_mapping[n]` for a name that is not a node is a `KeyError`
    (which functions a *proper* selection keeps is C11's subject, not modelled here) -/
def checkOutputNames (fs : List MFunc) (r : Req) : V Unit :=
  match r.outputNames with
  | none => .ok ()
  | some ns => if ns.all (nodeNames fs).contains then .ok () else .error ⟨.key, "output-names"⟩

/-- `mapspec_dimensions` -/
def specDim (fs : List MFunc) (n : String) : Nat :=
  match (allSpecs fs).find? (·.name = n) with
  | some a => a.axes.length
  | none => 0

/-- `_check_inputs`: a list or tuple where an array of rank > 1 is expected -/
def listForNd (fs : List MFunc) (inputs : List (String × Val)) : Bool :=
  inputs.any fun kv => match kv.2 with
    | .tup _ => specDim fs kv.1 > 1
    | _ => false

def checkInputs (fs : List MFunc) (r : Req) : V Unit := if listForNd fs r.inputs then .error ⟨.value, "list-for-nd-array"⟩ else .ok ()

/-- `map_shapes(pipeline, inputs, _construct_internal_shapes(internal_shapes, pipeline))` -/
def shapesOf (fs : List MFunc) (inputs : List (String × Val)) (ui : List (String × List Nat)) :=
  mapShapes fs (normInputs inputs) (constructInternal fs ui)

def sameDict {β} [BEq β] (a b : List (String × β)) : Bool :=
  a.length == b.length && a.all fun kv => match alookup b kv.1 with
    | some w => kv.2 == w
    | none => false

/-- `_is_equal` (after the DF-C05-objarray-gate repair: object ndarrays, for which `equal_nan=True` raises, are compared by
    shape and then element by element; before it the comparison of equal-shaped object arrays raised and the result was `none`) -/
def pyEqual : Val → Val → Option Bool
  | .arr s a, .arr t b => some (s == t && valsEq a b)
  | .arr _ _, _ => some false
  | _, .arr _ _ => some false
  | a, b => some (valEq a b)

/-- `equal_dicts` -/
def equalDicts (a b : List (String × Val)) : Option Bool :=
  if a.length != b.length then some false else
  if !(a.all fun kv => (alookup b kv.1).isSome) then some false else
  let rs := a.map fun kv => match alookup b kv.1 with
    | some w => pyEqual kv.2 w
    | none => some false
  -- the loop returns False at the first unequal pair; comparison errors are only reported after the loop
  if rs.any (· == some false) then some false else
  if rs.any (· == none) then none else some true

/-- a Python `dict` built from the pairs: one entry per key (`Pipeline.defaults` is a dictionary; with consistent defaults all
    entries of one key are equal, so which one is kept does not matter) -/
def asDict {β} : List (String × β) → List (String × β)
  | [] => []
  | kv :: rest => kv :: (asDict rest).filter (·.1 ≠ kv.1)

def sortedBy (fs : List MFunc) (order : List String) : List MFunc := order.filterMap fun n => fs.find? (·.name = n)

/-- `pipeline.mapspecs_as_strings`, as specs -/
def mapspecList (fs : List MFunc) (order : List String) : List MSpec := (sortedBy fs order).filterMap (·.mapspec)

/-- `_compare_to_previous_run_info` (with DF-30 repaired: the constructed internal shapes are compared) -/
def comparePrev (fs : List MFunc) (r : Req) (p : Prev) : V Unit := do
  if !sameDict (constructInternal fs r.internal) (constructInternal p.funcs p.internal) then throw ⟨.value, "previous-internal-shapes"⟩
  if mapspecList fs r.order != mapspecList p.funcs p.order then throw ⟨.value, "previous-mapspecs"⟩
  match shapesOf fs r.inputs r.internal, shapesOf p.funcs p.inputs p.internal with
  | .error e, _ => ofMap "map-shapes" (.error e : M Unit)
  | .ok _, .error _ => throw ⟨.value, "previous-run-unreadable"⟩
  | .ok (sh, _), .ok (sh0, _) =>
    if !sameDict sh sh0 then throw ⟨.value, "previous-shapes"⟩
    match equalDicts r.inputs p.inputs with
    | none => pure ()                       -- "Could not compare … hoping for the best"
    | some false => throw ⟨.value, "previous-inputs"⟩
    | some true =>
      match equalDicts (asDict (pdefaults fs)) (asDict (pdefaults p.funcs)) with
      | some false => throw ⟨.value, "previous-defaults"⟩
      | _ => pure ()

/-- outputs that get a storage array in `init_store`: those of functions whose MapSpec has inputs -/
def mappedOutputs (fs : List MFunc) : List String :=
  fs.flatMap fun f => match f.mapspec with
    | some ms => if ms.inputs.isEmpty then [] else f.outputs
    | none => []

/-- the user calls of the run that follows, for a fresh store (`PF.Map.runMap`, C01); what a run resumed on a completed
    folder recomputes is C05's subject and not listed -/
def callsOf (fs : List MFunc) (r : Req) : List Effect :=
  if r.folder && !r.cleanup && r.prev.isSome then [] else
  match runMap fs (normInputs r.inputs) r.internal with
  | .ok res => res.calls.map fun c => Effect.call c.name
  | .error _ => []

/-- the checks of `prepare_run` up to and including the storage lookup (first statement of `RunInfo.create`) -/
def headChecks (fs : List MFunc) (r : Req) : List Step :=
  [ .check "executor-without-parallel" (checkExecutor r),
    .check "output-names" (checkOutputNames fs r),
    .check "complete-inputs" (ofMap "complete-inputs" (validateInputs fs r.inputs)),
    .check "consistent-axes" (if axesConsistent fs then .ok () else .error ⟨.value, "inconsistent-axes"⟩),
    .check "fixed-indices" (ofMap "fixed-indices" (PF.Pieces.validateFixed fs (normInputs r.inputs) r.fixed)),
    .check "storage" (checkStorage r),
    .check "storage-default" (checkStorageDefault fs r) ]

/-- `_cleanup_run_folder` or `_compare_to_previous_run_info` -/
def folderSteps (fs : List MFunc) (r : Req) : List Step :=
  if r.folder then
    if r.cleanup then [.eff .cleanup]
    else match r.prev with
      | none => []
      | some p => [.check "previous-run" (comparePrev fs r p)]
  else []

def tailChecks (fs : List MFunc) (r : Req) : List Step :=
  [ .check "check-inputs" (checkInputs fs r),
    .check "map-shapes" (ofMap "map-shapes" (shapesOf fs r.inputs r.internal)) ]

/-- `RunInfo.__post_init__`, `init_store`, then the run itself -/
def effectSteps (fs : List MFunc) (r : Req) : List Step :=
  ((if r.folder then [Effect.writeRunInfo, .writeInputs, .writeDefaults] ++ (mappedOutputs fs).map Effect.mkdirStore else [])
    ++ callsOf fs r).map Step.eff

def startSteps (fs : List MFunc) (r : Req) : List Step :=
  headChecks fs r ++ folderSteps fs r ++ tailChecks fs r ++ effectSteps fs r

/-- the start of `Pipeline.map`: the effects performed, and whether the request was refused -/
def startMap (fs : List MFunc) (r : Req) : List Effect × V Unit := exec (startSteps fs r)

/-- `order` lists every function once and never puts a function before one of an earlier Kahn layer -/
def orderValid (fs : List MFunc) (order : List String) : Bool :=
  let gens := (generations fs).map fun g => g.map (·.name)
  let genOf := fun n => gens.findIdx? (·.contains n)
  order.length == fs.length && (fs.all fun f => order.contains f.name) &&
  (let idx := order.filterMap genOf
   idx.length == order.length && (idx.zip (idx.drop 1)).all fun ab => ab.1 ≤ ab.2)

/-! ### the call order of `prepare_run` / `RunInfo.create` as extracted from the source (DESIGN.md 3.4) -/

inductive CallKind
  | validation   -- may raise, touches nothing
  | effect       -- writes to the run folder / creates stores / starts user-visible work
  | cleanup      -- `_cleanup_run_folder`: only reached with `cleanup=True`
  | neutral      -- pure plumbing
  | unknown      -- not in the table: the tie is broken
  deriving Repr, DecidableEq, Inhabited

/-- the fixed classification table -/
def classify (name : String) : CallKind :=
  if ["raise", "pipeline.subpipeline", "validate_slurm_executor", "_validate_executor_names", "_validate_complete_inputs", "validate_consistent_axes", "_validate_fixed_indices",
      "_validate_storage_names", "_maybe_run_folder", "_compare_to_previous_run_info", "_check_inputs", "map_shapes"].contains name
  then .validation
  else if ["run_info._dump_all", "run_info.init_store", "init_tracker"].contains name then .effect
  else if name == "_cleanup_run_folder" then .cleanup
  else if ["pipeline._flatten_scopes", "set", "isinstance", "executor.copy", "pipeline.mapspecs", "OrderedDict",
           "_cannot_be_parallelized", "_check_parallel", "_construct_internal_shapes", "cls"].contains name then .neutral
  else .unknown

/-- validations every request must pass before the first write -/
def requiredValidations : List String :=
  ["raise", "pipeline.subpipeline", "_validate_executor_names", "_validate_complete_inputs", "validate_consistent_axes", "_validate_fixed_indices", "_validate_storage_names",
   "_compare_to_previous_run_info", "_check_inputs", "map_shapes"]

def beforeFirstEffect (calls : List String) : List String := calls.takeWhile fun c => classify c != .effect
def fromFirstEffect (calls : List String) : List String := calls.dropWhile fun c => classify c != .effect

/-- every call is classified; every required validation occurs before the first effect; nothing after the first effect
    validates; the folder is wiped (if at all) before it is compared or written -/
def validationsPrecedeEffects (calls : List String) : Bool :=
  calls.all (fun c => classify c != .unknown) &&
  requiredValidations.all (fun v => (beforeFirstEffect calls).contains v) &&
  (fromFirstEffect calls).all (fun c => classify c != .validation && classify c != .cleanup) &&
  (fromFirstEffect calls).contains "run_info._dump_all" && (fromFirstEffect calls).contains "run_info.init_store"

/-- the source names of the steps of `startSteps`, in the order the model performs them -/
def modelSourceOrder : List String :=
  ["raise", "pipeline.subpipeline", "_validate_executor_names", "_validate_complete_inputs", "validate_consistent_axes", "_validate_fixed_indices",
   "_validate_storage_names", "_cleanup_run_folder", "_compare_to_previous_run_info", "_check_inputs", "map_shapes",
   "run_info._dump_all", "run_info.init_store"]

def isSubseq : List String → List String → Bool
  | [], _ => true
  | _ :: _, [] => false
  | a :: as, b :: bs => if a == b then isSubseq as bs else isSubseq (a :: as) bs

/-! ### round 2: the head of `run_map` and the constructors, as extracted from the source -/

inductive SrcKind
  | validation   -- raises for an ill-formed argument, runs no user code
  | gate         -- `prepare_run`: everything `startMap` models
  | run          -- user functions may be invoked from here on
  | mutation     -- changes the object under construction (no user code)
  | neutral      -- plumbing
  | unknown      -- not in the table: the tie is broken
  deriving Repr, DecidableEq, Inhabited

/-- classification of the calls of `run_map` / `run_map_async` (the nested `_run_pipeline` coroutine listed where it is defined) -/
def classifyRun (name : String) : SrcKind :=
  if name == "prepare_run" then .gate
  else if ["_run_and_process_generation", "_run_and_process_generation_async", "_run_pipeline", "asyncio.create_task"].contains name
  then .run
  else if ["progress.display", "_maybe_executor", "progress.update_progress", "_maybe_persist_memory", "maybe_multi_run_manager",
           "progress.attach_task", "is_running_in_ipynb", "multi_run_manager.display", "AsyncMap"].contains name then .neutral
  else .unknown

/-- every call is classified; `prepare_run` is called; only plumbing precedes it; the generations are run after it -/
def prepareGuardsRun (calls : List String) : Bool :=
  calls.all (fun c => classifyRun c != .unknown) &&
  calls.contains "prepare_run" &&
  (calls.takeWhile (· != "prepare_run")).all (fun c => classifyRun c == .neutral) &&
  (calls.dropWhile (· != "prepare_run")).any (fun c => classifyRun c == .run)

/-- classification of the calls of `Pipeline.__init__` / `add` / `_validate` / `_validate_mapspec` and `PipeFunc.__init__` / `_validate` -/
def classifyCtor (name : String) : SrcKind :=
  if ["raise", "self.add", "self._validate", "validate_unique_output_names", "validate_unique_output_names_of", "validate_scopes",
      "validate_consistent_defaults",
      "self._validate_mapspec", "validate_consistent_type_annotations", "validate_consistent_axes", "self._autogen_mapspec_axes",
      "_maybe_mapspec", "self._validate_names"].contains name then .validation
  else if ["self.functions.append", "f._pipelines.add", "self._clear_internal_cache", "self.update_scope"].contains name then .mutation
  else if ["Resources.maybe_from_dict", "Resources.maybe_with_defaults", "isinstance", "any", "create_cache", "f.copy", "callable",
           "PipeFunc", "type", "at_least_tuple", "self.mapspecs", "weakref.WeakSet", "_get_name", "return"].contains name then .neutral
  else .unknown

/-- user code can only run in `map`/`run`, so for a constructor the ordering fact is: every call is classified and every required
    validation call is made before the first `return` -/
def ctorValidates (required : List String) (calls : List String) : Bool :=
  calls.all (fun c => classifyCtor c != .unknown) &&
  required.all (fun v => (calls.takeWhile (· != "return")).contains v)

def pipelineInitRequired : List String := ["self.add"]
/-- the clash of output names is tested before the function is appended, the whole pipeline validated after -/
def pipelineAddRequired : List String := ["validate_unique_output_names", "self.functions.append", "self._validate"]
def pipelineValidateRequired : List String :=
  ["validate_scopes", "validate_unique_output_names_of", "validate_consistent_defaults", "self._validate_mapspec"]
def pipelineValidateMapspecRequired : List String := ["raise", "validate_consistent_axes", "self._autogen_mapspec_axes"]
def pipeFuncInitRequired : List String := ["_maybe_mapspec", "self._validate"]
def pipeFuncValidateRequired : List String := ["self._validate_names", "self._validate_mapspec"]

end PF.Validate
