"""Generated pipelines without MapSpecs (C02, C09, C10, C11, C13, C18): JSON descriptions and real `Pipeline` objects.

A description is what the Lean drivers read:
  {"funcs": [{"name": "f0", "params": [["r0", "a0"], ...], "outputs": ["o0"], "defaults": [["r0", v]], "bound": [["r1", v]]}]}
`params` pairs the pipeline-level name with the wrapped function's own parameter name (renames).
"""
from __future__ import annotations

import contextlib
import io

import pfimport  # noqa: F401
from pipefunc import PipeFunc, Pipeline

import terms


def sval(s):
    return {"s": s}


# which functions may be interpreted constants (terms.CONST_SUFFIX), per property: models that compare values (cache keys)
# only get them at sinks, where no key is ever computed from the collapsed value
_CONST_POLICY = {"C09": "sinks"}   # "off": harness not yet adapted


def _const_policy():
    import os
    return os.environ.get("VERIF_CONST", _CONST_POLICY.get(os.environ.get("VERIF_PID", ""), "all"))


# sequence-valued interpreted functions are enabled per property once its harness copes with them
_SEQ_ON = {"C01", "C02", "C03", "C04", "C05", "C06", "C11", "C13", "C19"}


def _seq_policy():
    import os
    v = os.environ.get("VERIF_SEQ")
    return (v == "1") if v is not None else os.environ.get("VERIF_PID", "") in _SEQ_ON


def assign_consts(rng, funcs, p_const=0.15):
    """Rename some functions to `<name>_none/_zero/_false/_empty` (interpreted constant functions, see terms.py)."""
    policy = _const_policy()
    if policy == "off":
        return
    for i, f in enumerate(funcs):
        if rng.random() >= p_const:
            continue
        if policy == "sinks" and any(p in f["outputs"] for g in funcs for p, _ in g["params"]):
            continue
        if rng.random() < 0.4 and not f.get("ret") and _seq_policy():
            f["name"] += rng.choice(["_pair", "_lst", "_nd"])       # sequence-valued results (terms.SEQ_SUFFIX)
        else:
            f["name"] += rng.choice(["_none", "_none", "_none", "_zero", "_false", "_empty"])   # None is where short-cuts go wrong most


def gen_dag(rng, max_funcs=5, roots=3, p_tuple=0.25, p_default=0.3, p_bound=0.15, p_rename=0.3, p_nullary=0.08, max_params=3):
    n = rng.randint(1, max_funcs)
    root_names = [f"r{i}" for i in range(roots)]
    funcs, produced = [], []
    for i in range(n):
        pool = root_names + produced
        k = 0 if rng.random() < p_nullary else rng.randint(1, max_params)
        # bias towards consuming upstream outputs so that DAGs are connected (diamonds, shared parameters)
        chosen = []
        for _ in range(min(k, len(pool))):
            cand = rng.choice(produced) if produced and rng.random() < 0.55 else rng.choice(pool)
            if cand not in chosen:
                chosen.append(cand)
        outs = [f"o{i}"] if rng.random() >= p_tuple else [f"o{i}a", f"o{i}b"]
        params, defaults, bound = [], [], []
        for j, p in enumerate(chosen):
            orig = f"a{j}" if rng.random() < p_rename else p
            params.append([p, orig])
            if p in root_names and rng.random() < p_default:
                defaults.append([p, sval(f"dflt:{p}")])
            elif rng.random() < p_bound:
                bound.append([p, sval(f"bound:{p}:f{i}")])
        # python signatures need defaulted parameters last
        dn = {d[0] for d in defaults}
        params = [q for q in params if q[0] not in dn] + [q for q in params if q[0] in dn]
        funcs.append({"name": f"f{i}", "params": params, "outputs": outs, "defaults": defaults, "bound": bound})
        produced += outs
    assign_consts(rng, funcs)
    return {"funcs": funcs}


def all_outputs(desc):
    return [o for f in desc["funcs"] for o in f["outputs"]]


def build(desc, order=None, log=None, fail=None, defaults_in_signature=True, **pipeline_kwargs):
    """Real PipeFuncs + Pipeline for a description. Returns (pipeline, log)."""
    log = log if log is not None else terms.CallLog()
    order = list(range(len(desc["funcs"]))) if order is None else order
    pfs = []
    for i in order:
        f = desc["funcs"][i]
        origs = [orig for _, orig in f["params"]]
        renames = {orig: p for p, orig in f["params"] if orig != p}
        inv = {p: orig for p, orig in f["params"]}
        dflt = {p: terms.dec(v) for p, v in f.get("defaults", [])}
        sig_defaults = {inv[p]: v for p, v in dflt.items()} if defaults_in_signature else {}
        fn = terms.make_func(f["name"], origs, f["outputs"], defaults=sig_defaults, log=log,
                             fail=(fail.get(f["name"]) if fail else None))
        on = f["outputs"][0] if len(f["outputs"]) == 1 else tuple(f["outputs"])
        kw = {}
        if not defaults_in_signature and dflt:
            kw["defaults"] = dflt
        if f.get("bound"):
            kw["bound"] = {p: terms.dec(v) for p, v in f["bound"]}
        if f.get("cache"):
            kw["cache"] = True
        if f.get("mapspec"):
            kw["mapspec"] = f["mapspec"]
        if f.get("internal_shape"):
            kw["internal_shape"] = tuple(f["internal_shape"])
        pfs.append(PipeFunc(fn, on, renames=renames, **kw))
    with contextlib.redirect_stdout(io.StringIO()):
        p = Pipeline(pfs, **pipeline_kwargs)
    return p, log


def quiet(fn, *a, **k):
    with contextlib.redirect_stdout(io.StringIO()):
        return fn(*a, **k)
