import PfModel.Lemmas.MapSpecAxes
/-!
C08, the module functions over a *list* of MapSpecs (`validate_consistent_axes`, `mapspec_axes`, `mapspec_dimensions`), which C12
(validation before any user code) and C19 (xarray dimensions) read.  The property's statement names "rename/add_axes;
validate_consistent_axes; mapspec_axes" as one mechanism: these theorems say what the functions compute.
-/
namespace PF.C08
open PF.MS

/-- `validate_consistent_axes` accepts exactly the lists in which any two specs of the same array have the same rank and
    never give one position two different names (`:` is compatible with everything) -/
theorem C08_consistent_iff (ms : List MapSpec) :
    consistentAxes ms = true ↔
      ∀ a ∈ allSpecs ms, ∀ b ∈ allSpecs ms, a.name = b.name →
        a.axes.length = b.axes.length ∧ AgreeAt a.axes b.axes := by
  unfold consistentAxes
  simp only [List.all_eq_true]
  constructor
  · intro h a ha b hb hn
    have := h a ha b hb
    simp only [hn, beq_self_eq_true, Bool.true_and, Bool.not_eq_true'] at this
    exact (axesClash_false_iff _ _).1 this
  · intro h a ha b hb
    by_cases hn : a.name = b.name
    · have := (axesClash_false_iff _ _).2 (h a ha b hb hn)
      simp [hn, this]
    · simp [hn]

/-- it rejects a list in which one array is used with two ranks, or one position of an array has two names -/
theorem C08_consistent_rejects (ms : List MapSpec) (a b : ArraySpec) (ha : a ∈ allSpecs ms) (hb : b ∈ allSpecs ms)
    (hn : a.name = b.name)
    (h : a.axes.length ≠ b.axes.length ∨ ∃ (i : Nat) (x y : String), a.axes[i]? = some (some x) ∧ b.axes[i]? = some (some y) ∧ x ≠ y) :
    consistentAxes ms = false := by
  cases hc : consistentAxes ms with
  | false => rfl
  | true =>
    obtain ⟨h1, h2⟩ := (C08_consistent_iff ms).1 hc a ha b hb hn
    rcases h with h | ⟨i, x, y, e1, e2, hne⟩
    · exact absurd h1 h
    · exact absurd (h2 i x y e1 e2) hne

/-- non-vacuity: a consistent pair (`y[i, j]` produced, `y[:, j]` consumed) and an inconsistent one -/
example : consistentAxes [⟨[⟨"x", [some "i"]⟩], [⟨"y", [some "i", some "j"]⟩]⟩, ⟨[⟨"y", [none, some "j"]⟩], [⟨"z", [some "j"]⟩]⟩] = true := by
  decide
example : consistentAxes [⟨[⟨"x", [some "i"]⟩], [⟨"y", [some "i", some "j"]⟩]⟩, ⟨[⟨"y", [none, some "k"]⟩], [⟨"z", [some "k"]⟩]⟩] = false := by
  decide

/-- `mapspec_dimensions` of a consistent list gives every array the rank of *every* spec that names it -/
theorem C08_mapspec_dimensions (ms : List MapSpec) (hc : consistentAxes ms = true) (a : ArraySpec) (ha : a ∈ allSpecs ms) :
    lookup a.name (mapspecDimensions ms) = some a.axes.length := by
  unfold mapspecDimensions
  have hmem : a.name ∈ firstOcc ((allSpecs ms).map (·.name)) :=
    (mem_firstOcc _ _).2 (List.mem_map.2 ⟨a, ha, rfl⟩)
  rw [lookup_map_self (fun n => (lastRank n (allSpecs ms)).getD 0) _ _ hmem]
  obtain ⟨k, hk⟩ := lastRank_isSome a.name (allSpecs ms) ⟨a, ha, rfl⟩
  obtain ⟨b, hb, hn, hl⟩ := lastRank_some a.name (allSpecs ms) k hk
  have := ((C08_consistent_iff ms).1 hc a ha b hb hn.symm).1
  simp [hk, ← hl, this]

/-- `mapspec_axes` of a consistent list: every array that occurs has an entry; the tuple has the rank of every spec that
    names the array; position `i` holds the name `x` exactly when some spec of the array names position `i` `x` (and then
    no spec names it otherwise, by `C08_consistent_iff`), so it is `None` exactly when every spec slices it with `:` -/
theorem C08_mapspec_axes_denotes (ms : List MapSpec) (hc : consistentAxes ms = true) (a : ArraySpec) (ha : a ∈ allSpecs ms) :
    ∃ t, lookup a.name (mapspecAxes ms) = some t ∧ t.length = a.axes.length ∧
      ∀ (i : Nat) (x : String), i < a.axes.length →
        (t[i]? = some (some x) ↔ ∃ b ∈ allSpecs ms, b.name = a.name ∧ b.axes[i]? = some (some x)) := by
  have hcons := (C08_consistent_iff ms).1 hc
  have hmem : a.name ∈ firstOcc ((allSpecs ms).map (·.name)) :=
    (mem_firstOcc _ _).2 (List.mem_map.2 ⟨a, ha, rfl⟩)
  have hrank : maxRank (allSpecs ms) a.name = a.axes.length := by
    unfold maxRank
    rw [foldl_max_const a.axes.length]
    · omega
    · intro b hb
      simp only [List.mem_filter, beq_iff_eq] at hb
      exact ((hcons a ha b hb.1 hb.2.symm).1).symm
    · intro e
      have : a ∈ (allSpecs ms).filter (·.name == a.name) := by simp [ha]
      rw [e] at this; cases this
  refine ⟨_, lookup_go (allSpecs ms) _ a.name hmem, ?_, ?_⟩
  · rw [collectAxes_length, hrank]
  · intro i x hi
    rw [collectAxes_get _ _ _ _ (by rw [hrank]; exact hi)]
    simp only [Nat.zero_add, Option.some.injEq]
    constructor
    · intro h
      exact (mem_dctOf _ _ _ _).1 (natLookupLast_mem i _ x h)
    · intro h
      have hm := (mem_dctOf (allSpecs ms) a.name i x).2 h
      obtain ⟨y, hy⟩ := natLookupLast_of_mem i x _ hm
      obtain ⟨b', hb', hn', e'⟩ := (mem_dctOf _ _ _ _).1 (natLookupLast_mem i _ y hy)
      obtain ⟨b, hb, hn, e⟩ := h
      have := (hcons b hb b' hb' (hn.trans hn'.symm)).2 i x y e e'
      rw [hy, this]

/-- in particular every spec of a consistent list reads its own axis names off the table (what C19 labels dimensions with) -/
theorem C08_mapspec_axes_agree (ms : List MapSpec) (hc : consistentAxes ms = true) (a : ArraySpec) (ha : a ∈ allSpecs ms)
    (i : Nat) (x : String) (hx : a.axes[i]? = some (some x)) :
    ∃ t, lookup a.name (mapspecAxes ms) = some t ∧ t.length = a.axes.length ∧ t[i]? = some (some x) := by
  obtain ⟨t, h1, h2, h3⟩ := C08_mapspec_axes_denotes ms hc a ha
  have hi : i < a.axes.length := by
    cases h : a.axes[i]? with
    | none => rw [h] at hx; cases hx
    | some v => exact (List.getElem?_eq_some_iff.1 h).1
  exact ⟨t, h1, h2, (h3 i x hi).2 ⟨a, ha, rfl, hx⟩⟩

/-- non-vacuity of the three theorems: the consistent example above, array `y` -/
example : lookup "y" (mapspecAxes [⟨[⟨"x", [some "i"]⟩], [⟨"y", [some "i", some "j"]⟩]⟩, ⟨[⟨"y", [none, some "j"]⟩], [⟨"z", [some "j"]⟩]⟩])
    = some [some "i", some "j"] := by decide
example : lookup "y" (mapspecDimensions [⟨[⟨"x", [some "i"]⟩], [⟨"y", [some "i", some "j"]⟩]⟩, ⟨[⟨"y", [none, some "j"]⟩], [⟨"z", [some "j"]⟩]⟩])
    = some 2 := by decide

end PF.C08
