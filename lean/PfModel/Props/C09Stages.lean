import PfModel.Lemmas.PipeCacheStages
import PfModel.Props.C09Stable
import PfModel.Props.C09Fail
/-!
C09, proof round 2 — two hypotheses of the history theorems settled over the existing definitions.

(A) `WFHist` / `WFAll` ("the pipeline is well-formed at every stage of the history") for histories WITH mutations.  Round 9
    proved `stableB → WF / WFp` for one function list and `WFHist` for call-only histories; for histories with
    `update_defaults` / `update_bound` / `replace` the report said "the driver evaluates the flag at every stage".  Here: the
    flag the driver evaluates, `stableHistB enc fs steps = (stages fs steps).all (stableB enc)`, implies `WFAll fs steps` and
    `WFHist fs steps`, and the history theorems are restated with the flag in place of the hypothesis.

(B) `MutSafeF` / `MutSafeBR` (no `update_bound` / `replace` invalidates a resident entry — FALSE in general: known findings
    KF-C09-update-bound, KF-C09-replace).  Here: it HOLDS for every mutation applied while nothing is resident
    ("configure, then use"): any `update_bound` / `replace` / `update_defaults` prefix followed by any history of calls (failing
    or not) and `update_defaults`, from a cache without resident entries, is transparent — no side condition left.
-/
namespace PF.C09
open PF PF.Pipe PF.PipeCache

/-! ### (A) the per-stage flag implies the per-stage hypothesis -/

/-- **The per-stage flag implies `WFAll`** — histories with any mutations; the printer has to be injective only on the default
    values that occur together in one stage. -/
theorem C09_stages_wfall_on (enc : Val → String) :
    ∀ (steps : List Step) (fs : List Func),
      (∀ st ∈ stages fs steps, ∀ f ∈ st, ∀ g ∈ st, ∀ kv ∈ f.defaults, ∀ kw ∈ g.defaults, enc kv.2 = enc kw.2 → kv.2 = kw.2) →
      stableHistB enc fs steps = true → WFAll fs steps := by
  intro steps
  induction steps with
  | nil =>
    intro fs hinj h
    have hst : stableB enc fs = true := by simpa [stableHistB, stages] using h
    exact ⟨⟨_, C09_stable_wf_on enc fs (hinj fs (by simp [stages])) hst⟩, C09_stable_wfp enc fs hst⟩
  | cons st rest ih =>
    intro fs hinj h
    have hall := (stages_all_iff (stableB enc) fs (st :: rest)).1 h
    have hmem := stages_start_mem (st :: rest) fs
    have hst : stableB enc fs = true := hall fs hmem
    have hhead : (∃ rank, WF fs rank) ∧ (∃ rk, WFp fs rk) :=
      ⟨⟨_, C09_stable_wf_on enc fs (hinj fs hmem) hst⟩, C09_stable_wfp enc fs hst⟩
    have hsub := stages_tail_sub fs st rest
    cases st with
    | mutate m =>
      exact ⟨hhead, ih _ (fun s hs => hinj s (hsub s hs))
        ((stages_all_iff (stableB enc) _ rest).2 (fun s hs => hall s (hsub s hs)))⟩
    | call o kw full =>
      exact ⟨hhead, ih _ (fun s hs => hinj s (hsub s hs))
        ((stages_all_iff (stableB enc) _ rest).2 (fun s hs => hall s (hsub s hs)))⟩

/-- **The per-stage flag implies `WFAll`**, injective printer. -/
theorem C09_stages_wfall (enc : Val → String) (hinj : ∀ a b, enc a = enc b → a = b) (steps : List Step) (fs : List Func)
    (h : stableHistB enc fs steps = true) : WFAll fs steps :=
  C09_stages_wfall_on enc steps fs (fun _ _ _ _ _ _ kv _ kw _ e => hinj kv.2 kw.2 e) h

/-- `WFAll` (rounds 2+) is at least `WFHist` (round 1) -/
theorem C09_wfall_wfhist : ∀ (steps : List Step) (fs : List Func), WFAll fs steps → WFHist fs steps := by
  intro steps
  induction steps with
  | nil => intro _ _; trivial
  | cons st rest ih =>
    intro fs h
    cases st with
    | mutate m => exact ih _ h.2
    | call o kw full => exact ⟨h.1.1, ih _ h.2⟩

/-- **The per-stage flag implies `WFHist`** for every history (round 9: call-only histories). -/
theorem C09_stages_wfhist (enc : Val → String) (hinj : ∀ a b, enc a = enc b → a = b) (steps : List Step) (fs : List Func)
    (h : stableHistB enc fs steps = true) : WFHist fs steps :=
  C09_wfall_wfhist steps fs (C09_stages_wfall enc hinj steps fs h)

/-- the flag is exactly "every stage passes `stableB`", and it fails exactly when some stage fails -/
theorem C09_stages_flag_iff (enc : Val → String) (fs : List Func) (steps : List Step) :
    (stableHistB enc fs steps = true ↔ ∀ st ∈ stages fs steps, stableB enc st = true) ∧
    (stableHistB enc fs steps = false ↔ ∃ st ∈ stages fs steps, stableB enc st = false) := by
  refine ⟨stages_all_iff _ _ _, ?_⟩
  simp [stableHistB, List.all_eq_false]

/-- `C09_transparent_all` (calls failing or not + `update_defaults`) with the per-stage flag in place of `WFAll` -/
theorem C09_stages_transparent_all {H C} (P : Policy H C) (h : Val → H) (hinj : ∀ a b, h a = h b → a = b) (cached : Func → Bool)
    (enc : Val → String) (henc : ∀ a b, enc a = enc b → a = b)
    (steps : List Step) (fs : List Func) (c : C) (hnb : noBoundReplace steps = true) (hst : stableHistB enc fs steps = true)
    (hi : Inv P h fs c) :
    AgreesF steps (histU fs steps) (histF P cached (fun fs => computeKey h fs) fs c steps) :=
  C09_transparent_all P h hinj cached steps fs c hnb (C09_stages_wfall enc henc steps fs hst) hi

/-- `C09_transparent_outcome` with the per-stage flag in place of `WFAll` -/
theorem C09_stages_transparent_outcome {H C} (P : Policy H C) (h : Val → H) (hinj : ∀ a b, h a = h b → a = b)
    (cached : Func → Bool) (enc : Val → String) (henc : ∀ a b, enc a = enc b → a = b)
    (steps : List Step) (fs : List Func) (c : C) (hnb : noBoundReplace steps = true) (hst : stableHistB enc fs steps = true)
    (hi : Inv P h fs c) :
    AgreesO steps (histU fs steps) (histC P cached (fun fs => computeKey h fs) fs c steps) :=
  C09_transparent_outcome P h hinj cached steps fs c hnb (C09_stages_wfall enc henc steps fs hst) hi

/-- `C09_transparent_all_partial` (any mutations) with the per-stage flag in place of `WFAll`.
    Missing for the full statement (unchanged): `MutSafeF`, false on the code for `update_bound` / `replace` with resident
    entries (known findings); see (B) for the case in which it holds. -/
theorem C09_stages_transparent_all_partial {H C} (P : Policy H C) (h : Val → H) (hinj : ∀ a b, h a = h b → a = b)
    (cached : Func → Bool) (enc : Val → String) (henc : ∀ a b, enc a = enc b → a = b)
    (steps : List Step) (fs : List Func) (c : C) (hst : stableHistB enc fs steps = true)
    (hi : Inv P h fs c) (hs : MutSafeF P h cached fs c steps) :
    AgreesF steps (histU fs steps) (histF P cached (fun fs => computeKey h fs) fs c steps) :=
  C09_transparent_all_partial P h hinj cached steps fs c (C09_stages_wfall enc henc steps fs hst) hi hs

/-! ### (B) mutations while nothing is resident are safe -/

/-- a cache without resident entries is right for every pipeline -/
theorem C09_no_resident_inv {H C} (P : Policy H C) (h : Val → H) (fs : List Func) (c : C) (hres : ∀ K, P.res c K = none) :
    Inv P h fs c := by
  intro K r hr
  rw [hres K] at hr
  cases hr

/-- **`MutSafeF` holds for "configure, then use".**  Any mutations (`update_bound`, `replace`, `update_defaults`) applied while
    the cache has no resident entry, followed by a history without `update_bound` / `replace`. -/
theorem C09_mutSafeF_configure_then_use {H C} (P : Policy H C) (h : Val → H) (cached : Func → Bool) (c : C)
    (hres : ∀ K, P.res c K = none) (rest : List Step) (hnb : noBoundReplace rest = true) :
    ∀ (ms : List Mut) (fs : List Func), MutSafeF P h cached fs c (ms.map .mutate ++ rest) := by
  intro ms
  induction ms with
  | nil => intro fs; exact C09_aux_mutSafeF_of_noBoundReplace P h cached rest fs c hnb
  | cons m ms ih =>
    intro fs
    refine ⟨?_, ih _⟩
    cases m with
    | updateDefaults d => trivial
    | updateBound n b => exact C09_no_resident_inv P h _ c hres
    | replace new => exact C09_no_resident_inv P h _ c hres

/-- the same for `MutSafeBR` (histories over `histC`, round 2) -/
theorem C09_mutSafeBR_configure_then_use {H C} (P : Policy H C) (h : Val → H) (cached : Func → Bool) (c : C)
    (hres : ∀ K, P.res c K = none) (rest : List Step) (hnb : noBoundReplace rest = true) :
    ∀ (ms : List Mut) (fs : List Func), MutSafeBR P h cached fs c (ms.map .mutate ++ rest) := by
  intro ms
  induction ms with
  | nil => intro fs; exact C09_aux_mutSafeBR_of_noBoundReplace P h cached rest fs c hnb
  | cons m ms ih =>
    intro fs
    refine ⟨?_, ih _⟩
    cases m with
    | updateDefaults d => trivial
    | updateBound n b => exact C09_no_resident_inv P h _ c hres
    | replace new => exact C09_no_resident_inv P h _ c hres

/-- **Caching is transparent for "configure, then use".**  A pipeline well-formed at every stage, any container, any cached
    subset, a cache without resident entries (a new pipeline); ANY sequence of `update_bound` / `replace` / `update_defaults`,
    then any history of calls (failing or not, any cut, `full_output` or not) and `update_defaults`: every call that succeeds
    without a cache returns normally with the cache the equal value / dictionary.  No `MutSafe` hypothesis: the known
    findings need an entry that is resident when `update_bound` / `replace` happens. -/
theorem C09_configure_then_use_transparent {H C} (P : Policy H C) (h : Val → H) (hinj : ∀ a b, h a = h b → a = b)
    (cached : Func → Bool) (ms : List Mut) (rest : List Step) (fs : List Func) (c : C) (hres : ∀ K, P.res c K = none)
    (hnb : noBoundReplace rest = true) (hwf : WFAll fs (ms.map .mutate ++ rest)) :
    AgreesF (ms.map .mutate ++ rest) (histU fs (ms.map .mutate ++ rest))
      (histF P cached (fun fs => computeKey h fs) fs c (ms.map .mutate ++ rest)) :=
  C09_transparent_all_partial P h hinj cached _ fs c hwf (C09_no_resident_inv P h fs c hres)
    (C09_mutSafeF_configure_then_use P h cached c hres rest hnb ms fs)

/-- … with the per-stage flag in place of `WFAll`: every hypothesis but the two injectivities (C15) is a Boolean the driver
    evaluates or a fact about the empty cache. -/
theorem C09_stages_configure_then_use_transparent {H C} (P : Policy H C) (h : Val → H) (hinj : ∀ a b, h a = h b → a = b)
    (cached : Func → Bool) (enc : Val → String) (henc : ∀ a b, enc a = enc b → a = b)
    (ms : List Mut) (rest : List Step) (fs : List Func) (c : C) (hres : ∀ K, P.res c K = none)
    (hnb : noBoundReplace rest = true) (hst : stableHistB enc fs (ms.map .mutate ++ rest) = true) :
    AgreesF (ms.map .mutate ++ rest) (histU fs (ms.map .mutate ++ rest))
      (histF P cached (fun fs => computeKey h fs) fs c (ms.map .mutate ++ rest)) :=
  C09_configure_then_use_transparent P h hinj cached ms rest fs c hres hnb (C09_stages_wfall enc henc _ fs hst)


/-! ### non-vacuity -/

/-- "configure, then use" on the pipeline of KF-C09-update-bound: `g(a, b)→c` with `b` bound to `B0`, `f(c,a)→d`;
    `update_bound(b=B1)` and `replace(f2)` BEFORE the first call, then `d(a=1)`, `update_defaults(a=A1)`, `d()`, `d(a=A1)`
    (`cfgF2`, `cfgMuts`, `cfgRest` of `Lemmas/PipeCacheStages.lean`).  The per-stage flag holds of it with the driver's printer
    (four stages) … -/

example : stableHistB encVal [gB, fD] (cfgMuts.map .mutate ++ cfgRest) = true ∧
    (stages [gB, fD] (cfgMuts.map .mutate ++ cfgRest)).length = 4 := by decide

/-- … and is not constantly true: a `replace` that closes a cycle, or an `update_bound`-free history on a pipeline with a
    duplicate output, fails it at the stage concerned only -/
example : stableHistB encVal [gA, fD] [.call "d" [("a", .str "1")] false, .mutate (.replace ⟨"g", [("d", "d")], ["c"], [], []⟩)] = false ∧
    stableHistB encVal [gA, fD] [.call "d" [("a", .str "1")] false] = true ∧
    stableHistB encVal [gA, ⟨"f", [("a", "a")], ["c"], [], []⟩] [] = false := by decide

/-- `C09_stages_wfall_on`: ALL hypotheses hold of the configure-then-use history (in every stage the default values that occur
    are one and the same value, so the printer separates them) -/
example : ∀ fs steps, fs = [gB, fD] → steps = cfgMuts.map .mutate ++ cfgRest → WFAll fs steps := by
  intro fs steps e1 e2
  subst e1 e2
  refine C09_stages_wfall_on encVal _ _ ?_ (by decide)
  have hs : stages [gB, fD] (cfgMuts.map .mutate ++ cfgRest) =
      [[gB, fD], [⟨"g", [("a", "a"), ("b", "b")], ["c"], [], [("b", .str "B1")]⟩, fD],
       [⟨"g", [("a", "a"), ("b", "b")], ["c"], [], [("b", .str "B1")]⟩, cfgF2],
       [⟨"g", [("a", "a"), ("b", "b")], ["c"], [("a", .str "A1")], [("b", .str "B1")]⟩,
        ⟨"f2", [("c", "c"), ("a", "a")], ["d"], [("a", .str "A1")], []⟩]] := rfl
  intro st hst f hf g hg kv hkv kw hkw _
  rw [hs] at hst
  simp only [List.mem_cons, List.mem_nil_iff, or_false] at hst
  rcases hst with rfl | rfl | rfl | rfl <;>
    simp only [List.mem_cons, List.mem_nil_iff, or_false] at hf hg <;>
    rcases hf with rfl | rfl <;> rcases hg with rfl | rfl <;>
    simp only [gB, fD, cfgF2, List.mem_cons, List.mem_nil_iff, or_false] at hkv hkw <;>
    first | exact hkv.elim | exact hkw.elim | rw [hkv, hkw]

/-- `C09_configure_then_use_transparent`, `C09_mutSafeF_configure_then_use`, `C09_mutSafeBR_configure_then_use`,
    `C09_no_resident_inv`: the empty `SimpleCache` has no resident entry, the rest has no `update_bound` / `replace`; and the
    history is not trivial: the last call HITS the entry of the third, values equal the twin's (with `B1` and `f2`).
    The same `update_bound` AFTER the first call is the known finding (`C09_stale_after_update_bound`). -/
example : (∀ K, (simplePolicy String).res [] K = none) ∧ noBoundReplace cfgRest = true ∧
    valsC (fun fs => computeKey hS fs) [gB, fD] (cfgMuts.map .mutate ++ cfgRest) = valsU [gB, fD] (cfgMuts.map .mutate ++ cfgRest) ∧
    valsU [gB, fD] (cfgMuts.map .mutate ++ cfgRest) =
      [none, none, some (.app "f2" [("c", .app "g" [("a", .str "1"), ("b", .str "B1")]), ("a", .str "1")]), none,
       some (.app "f2" [("c", .app "g" [("a", .str "A1"), ("b", .str "B1")]), ("a", .str "A1")]),
       some (.app "f2" [("c", .app "g" [("a", .str "A1"), ("b", .str "B1")]), ("a", .str "A1")])] ∧
    (histC (simplePolicy String) (fun _ => true) (fun fs => computeKey hS fs) [gB, fD] [] (cfgMuts.map .mutate ++ cfgRest)).map
      (fun r => match r with | some (.ok o) => some o.hits.length | _ => none) = [none, none, some 0, none, some 0, some 1] :=
  ⟨fun _ => rfl, rfl, rfl, rfl, rfl⟩

/-- `C09_stages_transparent_all`, `C09_stages_transparent_outcome`, `C09_stages_transparent_all_partial`, `C09_stages_wfall`,
    `C09_stages_wfhist`, `C09_stages_configure_then_use_transparent`: the hypotheses other than the two injectivities (C15's
    business, as in every C09 theorem; `C09_stages_wfall_on` above is the form all of whose hypotheses are discharged) on
    `d(); update_defaults(a=A1); d(); d(a=A0)` (round 2's `hDefaults`, whose last call hits) -/
example : noBoundReplace hDefaults = true ∧ stableHistB encVal [gDef, fD] hDefaults = true ∧
    Inv (simplePolicy String) hS [gDef, fD] [] ∧
    MutSafeF (simplePolicy String) hS (fun _ => true) [gDef, fD] [] hDefaults :=
  ⟨rfl, by decide, C09_empty_inv hS _, C09_aux_mutSafeF_of_noBoundReplace _ _ _ _ _ _ rfl⟩

/-- `C09_wfall_wfhist`, `C09_stages_flag_iff` -/
example : WFHist [gA, fD] hPoisoned := C09_wfall_wfhist _ _ ⟨⟨⟨_, C09_wf_example⟩, ⟨_, C09_wfp_example⟩⟩, ⟨⟨_, C09_wf_example⟩, ⟨_, C09_wfp_example⟩⟩, ⟨_, C09_wf_example⟩, ⟨_, C09_wfp_example⟩⟩
example : ∃ st ∈ stages [gA, fD] [.mutate (.replace ⟨"g", [("d", "d")], ["c"], [], []⟩)], stableB encVal st = false :=
  (C09_stages_flag_iff encVal _ _).2.1 (by decide)

end PF.C09
