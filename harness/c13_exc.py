"""Exception classes injected by the C13 harness.  Importable (so picklable by reference) in every worker process."""
from __future__ import annotations


class CustomError(Exception):
    """A custom picklable exception with two required constructor arguments."""

    def __init__(self, code, detail):
        super().__init__(code, detail)
        self.code = code
        self.detail = detail


class SubValueError(ValueError):
    """A subclass of a builtin: 'same type' must mean this class, not its base."""


class QuietError(Exception):
    """A custom class whose constructor takes no argument at all: an exception "without args" that cannot be rebuilt from
    rewritten args (`QuietError("text")` is a TypeError) — what pickling across a process pool does."""

    def __init__(self):
        super().__init__()


class UnpicklableArgsError(Exception):
    """An exception whose args hold an object that cannot be pickled (a lock).  OUTSIDE the property's quantifier
    ("custom picklable classes"): in-process it behaves like any exception; across a process pool the type is lost."""


class UserAbort(BaseException):
    """A BaseException that is not an Exception (like KeyboardInterrupt / SystemExit).  OUTSIDE the property's quantifier:
    pipefunc's `except Exception` sites do not see it — it surfaces unchanged, without note and without snapshot."""


class Unpicklable:
    """args element of `UnpicklableArgsError`: equal to every other instance, refuses to be pickled"""

    def __reduce__(self):
        raise TypeError("cannot pickle 'Unpicklable' object")

    def __repr__(self):
        return "Unpicklable()"


# the kinds of the property's quantifier (with / without args, custom picklable classes) …
KINDS = ["value", "noargs", "custom", "subclass", "quiet"]
# … and kinds outside it, whose observed behaviour is modelled / counted (see the module docstring of props/c13.py)
OUTSIDE_KINDS = ["base", "unpicklable"]


def make(kind: str, tag: int) -> Exception:
    if kind == "value":
        return ValueError("boom", tag)
    if kind == "noargs":
        return RuntimeError()
    if kind == "custom":
        return CustomError(tag, "detail")
    if kind == "subclass":
        return SubValueError("sub", tag)
    if kind == "quiet":
        return QuietError()
    if kind == "base":
        return UserAbort("abort", tag)
    if kind == "unpicklable":
        return UnpicklableArgsError("lock", tag, Unpicklable())
    raise AssertionError(kind)


def clsname(e: BaseException) -> str:
    t = type(e)
    return f"{t.__module__}.{t.__qualname__}"


def model_exn(kind: str, tag: int) -> dict:
    """The same exception as the Lean driver's `Exn` JSON."""
    e = make(kind, tag)
    x = {"cls": clsname(e), "args": [a if isinstance(a, int) else {"s": a} if isinstance(a, str) else {"s": "$opaque:" + type(a).__name__} for a in e.args]}
    if not isinstance(e, Exception):
        x["base"] = True          # not caught by `except Exception`: the model erases note and snapshot
    return x


def enc_arg(a):
    """encoding of one `e.args` element on the implementation side (agrees with `model_exn`)"""
    import terms
    j = terms.enc(a)
    if isinstance(j, dict) and "opaque" in j:
        return {"s": "$opaque:" + j["opaque"]}
    return j


class RaisingPicker:
    """An `output_picker` (user code that is NOT the wrapped function) that raises for the outputs of the invocations a hook
    names; otherwise picks the output by position.  Picklable by reference."""

    def __init__(self, outputs, hook):
        self.outputs = list(outputs)
        self.hook = hook

    def __call__(self, out, name):
        exc = self.hook.for_picker(out, name)
        if exc is not None:
            raise exc
        return out[self.outputs.index(name)]
