import PfModel.Lemmas.XLabelSet
import PfModel.Props.C19
/-!
C19 (extension) — the *exact set* of coordinates of every `DataArray` and of variables and coordinates of the merged dataset:
no variable or coordinate is lost and none is invented, for `load_intermediate` both ways (every theorem is for all `li`), for
any loader (`xarray_dataset_from_results` and `load_xarray_dataset` are the two instances, `C19_same`).
-/
namespace PF.C19
open PF PF.Map PF.XLabel

/-! ### the coordinates of one `DataArray`, exactly -/

/-- **No coordinate lost.** Every eligible dependency of `o` — an array `x` traced to `o` along exactly all of its axes `axes`
    (`(x, axes) ∈ trace_dependencies[o]`, `mapspec_axes[x] = axes`) for which an array `v` is on offer (`inputs[x]`, else the
    loader when `load_intermediate`) — is carried by a coordinate of the `DataArray` of `o` on exactly `axes`. -/
theorem C19_coords_complete (mss : List MSpec) (inputs : List (String × Val)) (load : String → Option Val) (li : Bool)
    (o x : String) (axes : List String) (v : Val) (da : DataArray)
    (hsrc : Source mss inputs load li o x axes v) (h : xarrayOf mss inputs load li o = .ok da) :
    ∃ c ∈ da.coords, c.dims = axes ∧ Carries c x v := by
  obtain ⟨hmem, hfull, harr⟩ := hsrc
  obtain ⟨data, es, dims, _, hes, _, rfl⟩ := xarrayOf_ok mss inputs load li o da h
  have hone := eligibleOne_of_source mss inputs load li x axes v hfull harr
  have hy := eligible_mem mss inputs load li (x, axes) (x, axes, v) hone _ es hes hmem
  obtain ⟨g, hg, hxg⟩ := groupCoords_mem es x axes v hy
  obtain ⟨c, hc, hd, hcar⟩ := coordsOfGroup_carries axes g x v hxg
  exact ⟨c, List.mem_flatMap.mpr ⟨(axes, g), hg, hc⟩, hd, hcar⟩

/-- … and an n-D one (n ≠ 1) is a plain coordinate under its own name: n-D arrays are never joined. -/
theorem C19_coords_complete_nd (mss : List MSpec) (inputs : List (String × Val)) (load : String → Option Val) (li : Bool)
    (o x : String) (axes : List String) (v : Val) (da : DataArray) (hnd : axes.length ≠ 1)
    (hsrc : Source mss inputs load li o x axes v) (h : xarrayOf mss inputs load li o = .ok da) :
    { name := x, dims := axes, val := .plain v } ∈ da.coords := by
  obtain ⟨hmem, hfull, harr⟩ := hsrc
  obtain ⟨data, es, dims, _, hes, _, rfl⟩ := xarrayOf_ok mss inputs load li o da h
  have hone := eligibleOne_of_source mss inputs load li x axes v hfull harr
  have hy := eligible_mem mss inputs load li (x, axes) (x, axes, v) hone _ es hes hmem
  obtain ⟨g, hg, hxg⟩ := groupCoords_mem es x axes v hy
  exact List.mem_flatMap.mpr ⟨(axes, g), hg, coordsOfGroup_nd axes g x v hxg hnd⟩

/-- **No coordinate invented.** Every coordinate of the `DataArray` of `o` is either the array of one eligible dependency
    under that dependency's own name, on that dependency's axes; or one multi-index over ≥ 2 eligible dependencies that all
    live on the same single axis, named by joining their names with `:`. -/
theorem C19_coords_sound (mss : List MSpec) (inputs : List (String × Val)) (load : String → Option Val) (li : Bool)
    (o : String) (da : DataArray) (h : xarrayOf mss inputs load li o = .ok da) (c : Coord) (hc : c ∈ da.coords) :
    (∃ v, c.val = .plain v ∧ Source mss inputs load li o c.name c.dims v) ∨
    (∃ names arrays, c.val = .multi names arrays ∧ c.name = ":".intercalate names ∧ 2 ≤ names.length ∧
      names.length = arrays.length ∧ c.dims.length = 1 ∧
      ∀ (k : Nat) x v, names[k]? = some x → arrays[k]? = some v → Source mss inputs load li o x c.dims v) := by
  obtain ⟨data, es, dims, _, hes, _, rfl⟩ := xarrayOf_ok mss inputs load li o da h
  obtain ⟨⟨k, g⟩, hkg, hcg⟩ := List.mem_flatMap.mp hc
  obtain ⟨hgs, hne⟩ := groupCoords_sound es
  have hsrc : ∀ m w, (m, w) ∈ g → Source mss inputs load li o m k w := by
    intro m w hm
    obtain ⟨h1, h2, h3⟩ := eligible_sound mss inputs load li _ es hes (m, k, w) (hgs k g hkg m w hm)
    exact ⟨h1, h2, h3⟩
  obtain ⟨hd, hcase⟩ := coordsOfGroup_sound k g (hne (k, g) hkg) c hcg
  rcases hcase with ⟨v, hv, hval⟩ | ⟨hval, hname, hlen, hax⟩
  · exact Or.inl ⟨v, hval, by rw [hd]; exact hsrc _ _ hv⟩
  · refine Or.inr ⟨_, _, hval, hname, by simpa using hlen, by simp, by rw [hd]; exact hax, ?_⟩
    intro i x v hx hv
    rw [hd]
    simp only [List.getElem?_map] at hx hv
    cases hgi : g[i]? with
    | none => simp [hgi] at hx
    | some e =>
      simp only [hgi, Option.map_some, Option.some.injEq] at hx hv
      subst hx hv
      exact hsrc e.1 e.2 (List.mem_of_getElem? hgi)

/-- **n-D root inputs.** A root input `x` (not a mapped output) that the MapSpec of `o` lists with every axis named
    (`x[a0, a1, …]`), whose axes are `a0, a1, …` in every MapSpec (`mapspec_axes`), and for which `inputs` has the array `v`, is a
    coordinate of the `DataArray` of `o` on exactly `[a0, a1, …]` — in the order of the input's own axes, whatever the order of
    the axes of `o` (a traced-axes tuple sorted any other way would drop it: seeded change C19-s2-A). -/
theorem C19_coords_nd (mss : List MSpec) (inputs : List (String × Val)) (load : String → Option Val) (li : Bool)
    (o : String) (ms : MSpec) (a : ASpec) (a0 : String) (rest : List String) (v : Val) (da : DataArray)
    (hm : alookup (mapspecMapping mss) o = some ms) (ha : a ∈ ms.inputs) (hax : a.axes = (a0 :: rest).map some)
    (hroot : alookup (mapspecMapping mss) a.name = none) (hfull : mapspecAxes mss a.name = some ((a0 :: rest).map some))
    (hin : alookup inputs a.name = some v) (h : xarrayOf mss inputs load li o = .ok da) :
    ∃ c ∈ da.coords, c.dims = a0 :: rest ∧ Carries c a.name v ∧
      (rest ≠ [] → c = { name := a.name, dims := a0 :: rest, val := .plain v }) := by
  have hdeps : ∀ ax ∈ a0 :: rest, InDeps (traceDeps (mapspecMapping mss) (mss.length + 1) o) ax a.name := by
    intro ax hmem
    exact traceDeps_direct _ _ o ms a ax hm ha (by rw [hax]; exact List.mem_map.mpr ⟨ax, hmem, rfl⟩) hroot
  have hlook := traceDependencies_full mss o a.name a0 rest hdeps hfull
  have hsrc : Source mss inputs load li o a.name (a0 :: rest) v := ⟨alookup_some_mem _ _ _ hlook, hfull, Or.inl hin⟩
  by_cases hr : rest = []
  · obtain ⟨c, hc, hd, hcar⟩ := C19_coords_complete mss inputs load li o a.name _ v da hsrc h
    exact ⟨c, hc, hd, hcar, fun h => absurd hr h⟩
  · have hnd : (a0 :: rest).length ≠ 1 := by
      cases rest with
      | nil => exact absurd rfl hr
      | cons _ _ => simp
    exact ⟨_, C19_coords_complete_nd mss inputs load li o a.name _ v da hnd hsrc h, rfl, Or.inl ⟨rfl, rfl⟩, fun _ => rfl⟩

/-- a plain coordinate is a function of its name alone (given MapSpecs, inputs, loader and `load_intermediate`): whichever
    `DataArray`s it is attached to, it has the same axes and the same values — so `merge(compat="override")`, which keeps the
    first of equally named coordinates, loses nothing -/
theorem C19_plain_coord_unique (mss : List MSpec) (inputs : List (String × Val)) (load : String → Option Val) (li : Bool)
    (o o' : String) (da da' : DataArray) (h : xarrayOf mss inputs load li o = .ok da) (h' : xarrayOf mss inputs load li o' = .ok da')
    (c c' : Coord) (hc : c ∈ da.coords) (hc' : c' ∈ da'.coords) (hname : c'.name = c.name) (v v' : Val)
    (hv : c.val = .plain v) (hv' : c'.val = .plain v') : c' = c := by
  have key : ∀ (o : String) (da : DataArray), xarrayOf mss inputs load li o = .ok da → ∀ c ∈ da.coords, ∀ v, c.val = .plain v →
      Source mss inputs load li o c.name c.dims v := by
    intro o da h c hc v hv
    rcases C19_coords_sound mss inputs load li o da h c hc with ⟨w, hw, hs⟩ | ⟨_, _, hm, _⟩
    · rw [hv] at hw; cases hw; exact hs
    · rw [hv] at hm; cases hm
  obtain ⟨_, hf, ha⟩ := key o da h c hc v hv
  obtain ⟨_, hf', ha'⟩ := key o' da' h' c' hc' v' hv'
  rw [hname, hf] at hf'
  have hdims : c.dims = c'.dims := by
    have := Option.some.inj hf'
    exact (List.map_inj_right (fun _ _ h => Option.some.inj h)).mp this
  have hval : v' = v := by
    rw [hname] at ha'
    rcases ha with ha | ⟨hn, _, hl⟩ <;> rcases ha' with ha' | ⟨hn', _, hl'⟩
    · rw [ha] at ha'; exact (Option.some.inj ha').symm
    · rw [ha] at hn'; cases hn'
    · rw [hn] at ha'; cases ha'
    · rw [hl] at hl'; exact (Option.some.inj hl').symm
  cases c; cases c'
  simp only [] at hname hdims hv hv'
  subst hname hdims hv hv' hval
  rfl

/-! ### the variables of the dataset, exactly -/

/-- **No variable invented, each labelled right.** Every data variable of the dataset is named after a requested output and
    holds what the loader has for it; the variable of a MapSpec output has `mapspec_axes` of it as dimensions, the variable of
    any other output is dimensionless / a plain array (`singleDims`). -/
theorem C19_vars_sound (mss : List MSpec) (inputs : List (String × Val)) (load : String → Option Val) (outputNames : List String)
    (li : Bool) (ds : Dataset) (h : xarrayDataset mss inputs load outputNames li = .ok ds) (var : Var) (hvar : var ∈ ds.vars) :
    var.name ∈ outputNames ∧ load var.name = some var.data ∧
    ((var.name ∈ msOutOf mss outputNames ∧ ∃ dims, var.dims = some dims ∧ mapspecAxes mss var.name = some dims) ∨
     (var.name ∉ msOutOf mss outputNames ∧ var.dims = singleDims var.name var.data)) := by
  obtain ⟨das, singles, hdas, hs, rfl⟩ := xarrayDataset_ok mss inputs load outputNames li ds h
  rcases List.mem_append.mp hvar with hv | hv
  · obtain ⟨da, hda, rfl⟩ := List.mem_map.mp hv
    have hda' : da ∈ das := (List.mem_filter.mp hda).1
    obtain ⟨o, ho, hx⟩ := mapM_mem_rev _ _ _ hdas da hda'
    obtain ⟨hn, hd, hl⟩ := C19_dims mss inputs load li o da hx
    have hout : o ∈ outputNames := by
      have := (List.mem_filter.mp ho).2
      simpa using this
    simp only [varOf, hn]
    exact ⟨hout, hl, Or.inl ⟨ho, da.dims, rfl, hd⟩⟩
  · obtain ⟨n, hn, hx⟩ := mapM_mem_rev _ _ _ hs var hv
    obtain ⟨h1, h2, h3⟩ := singleVar_ok load n var hx
    have hmem := List.mem_filter.mp hn
    rw [h1]
    refine ⟨hmem.1, h2, Or.inr ⟨?_, h3⟩⟩
    simpa using hmem.2

/-- **No output lost.** Every requested output is a data variable of the dataset or — when it is the array of a coordinate of
    a merged `DataArray` (an input-free `... -> v[i]` producer consumed element-wise, with `load_intermediate`) — a coordinate
    of the dataset.  (MapSpec array names are identifiers: they contain no `:`.) -/
theorem C19_vars_complete (mss : List MSpec) (inputs : List (String × Val)) (load : String → Option Val) (outputNames : List String)
    (li : Bool) (ds : Dataset) (h : xarrayDataset mss inputs load outputNames li = .ok ds)
    (hcolon : ∀ n ∈ msOutOf mss outputNames, ':' ∉ n.toList) (n : String) (hn : n ∈ outputNames) :
    (∃ var ∈ ds.vars, var.name = n) ∨ (∃ c ∈ ds.coords, c.name = n) := by
  obtain ⟨das, singles, hdas, hs, rfl⟩ := xarrayDataset_ok mss inputs load outputNames li ds h
  by_cases hms : n ∈ msOutOf mss outputNames
  · obtain ⟨da, hda, hx⟩ := mapM_mem _ _ _ hdas n hms
    have hname := xarrayOf_name mss inputs load li n da hx
    by_cases hc : (das.flatMap fun da => da.coords.map (·.name)).contains n = true
    · right
      simp only [List.contains_eq_mem, List.mem_flatMap, List.mem_map, decide_eq_true_eq] at hc
      obtain ⟨da', hda', c, hc, hcn⟩ := hc
      obtain ⟨o', ho', hx'⟩ := mapM_mem_rev _ _ _ hdas da' hda'
      have hname' := xarrayOf_name mss inputs load li o' da' hx'
      have hmapped := xarrayOf_coords_mapped mss inputs load li o' da' hx' c hc
      have hmerge : da' ∈ toMergeOf das := by
        refine List.mem_filter.mpr ⟨hda', ?_⟩
        simp only [Bool.not_eq_true', List.contains_eq_mem, decide_eq_false_iff_not, List.mem_flatMap, List.mem_map, not_exists,
          not_and]
        intro da'' hda'' c'' hc'' hcn''
        obtain ⟨o'', _, hx''⟩ := mapM_mem_rev _ _ _ hdas da'' hda''
        rcases C19_coords_sound mss inputs load li o'' da'' hx'' c'' hc'' with ⟨v, _, hsrc⟩ | ⟨names, _, _, hjoin, hlen, _⟩
        · have := traceDependencies_root mss o'' c''.name c''.dims hsrc.1
          rw [hcn'', hname'] at this
          rw [this] at hmapped
          cases hmapped
        · have := colon_in_join names hlen
          rw [← hjoin, hcn'', hname'] at this
          exact hcolon o' ho' this
      have hin : c ∈ (toMergeOf das).flatMap (·.coords) := List.mem_flatMap.mpr ⟨da', hmerge, hc⟩
      obtain ⟨c', hc', hn'⟩ := dedupCoords_names _ [] c hin (by simp)
      exact ⟨c', hc', by rw [hn', hcn]⟩
    · left
      refine ⟨varOf da, List.mem_append_left _ (List.mem_map.mpr ⟨da, List.mem_filter.mpr ⟨hda, ?_⟩, rfl⟩), hname⟩
      rw [hname]
      simpa using hc
  · left
    have : n ∈ singleOf mss outputNames := List.mem_filter.mpr ⟨hn, by simpa using hms⟩
    obtain ⟨var, hvar, hx⟩ := mapM_mem _ _ _ hs n this
    exact ⟨var, List.mem_append_right _ hvar, (singleVar_ok load n var hx).1⟩

/-- **Exactly one variable per output.** With distinct requested names and distinct MapSpec output names, no two data
    variables of the dataset share a name. -/
theorem C19_vars_nodup (mss : List MSpec) (inputs : List (String × Val)) (load : String → Option Val) (outputNames : List String)
    (li : Bool) (ds : Dataset) (h : xarrayDataset mss inputs load outputNames li = .ok ds)
    (hout : outputNames.Nodup) (hms : (mss.flatMap fun ms => ms.outputs.map (·.name)).Nodup) :
    (ds.vars.map (·.name)).Nodup := by
  obtain ⟨das, singles, hdas, hs, rfl⟩ := xarrayDataset_ok mss inputs load outputNames li ds h
  have h1 : das.map (·.name) = msOutOf mss outputNames :=
    mapM_map_eq _ (·.name) (fun a b hb => xarrayOf_name mss inputs load li a b hb) _ _ hdas
  have h2 : singles.map (·.name) = singleOf mss outputNames :=
    mapM_map_eq _ (·.name) (fun a b hb => (singleVar_ok load a b hb).1) _ _ hs
  have hsub : ((toMergeOf das).map varOf).map (·.name) = (toMergeOf das).map (·.name) := by
    simp [varOf, Function.comp_def]
  simp only [List.map_append, hsub, h2]
  refine List.nodup_append.mpr ⟨?_, ?_, ?_⟩
  · have : ((toMergeOf das).map (·.name)).Sublist (das.map (·.name)) := List.Sublist.map _ List.filter_sublist
    rw [h1] at this
    exact (hms.sublist List.filter_sublist).sublist this
  · exact hout.sublist List.filter_sublist
  · intro a ha b hb hab
    subst hab
    obtain ⟨da, hda, hn⟩ := List.mem_map.mp ha
    have : a ∈ das.map (·.name) := List.mem_map.mpr ⟨da, (List.mem_filter.mp hda).1, hn⟩
    rw [h1] at this
    have hb' := (List.mem_filter.mp hb).2
    simp [this] at hb'

/-! ### the coordinates of the dataset, exactly -/

/-- **No dataset coordinate invented.** Every coordinate of the dataset is a coordinate of the `DataArray` of a requested
    MapSpec output that is itself a data variable of the dataset (and is therefore characterised by `C19_coords_sound`). -/
theorem C19_dataset_coords_sound (mss : List MSpec) (inputs : List (String × Val)) (load : String → Option Val)
    (outputNames : List String) (li : Bool) (ds : Dataset) (h : xarrayDataset mss inputs load outputNames li = .ok ds)
    (c : Coord) (hc : c ∈ ds.coords) :
    ∃ o ∈ msOutOf mss outputNames, ∃ da, xarrayOf mss inputs load li o = .ok da ∧ c ∈ da.coords ∧ varOf da ∈ ds.vars := by
  obtain ⟨das, singles, hdas, hs, rfl⟩ := xarrayDataset_ok mss inputs load outputNames li ds h
  obtain ⟨hmem, _⟩ := dedupCoords_sub _ _ c hc
  obtain ⟨da, hda, hcda⟩ := List.mem_flatMap.mp hmem
  obtain ⟨o, ho, hx⟩ := mapM_mem_rev _ _ _ hdas da (List.mem_filter.mp hda).1
  exact ⟨o, ho, da, hx, hcda, List.mem_append_left _ (List.mem_map.mpr ⟨da, hda, rfl⟩)⟩

/-- **No dataset coordinate lost.** Every coordinate of the `DataArray` of every MapSpec output that is a data variable of
    the dataset is present in the dataset under its name; a plain one (a single input, or an n-D input) is present unchanged
    whenever the dataset's coordinate of that name is plain too (`merge(compat="override")` keeps the first of equally named
    coordinates; plain coordinates of one name are all equal, `C19_plain_coord_unique`). Coordinate names are unique. -/
theorem C19_dataset_coords_complete (mss : List MSpec) (inputs : List (String × Val)) (load : String → Option Val)
    (outputNames : List String) (li : Bool) (ds : Dataset) (h : xarrayDataset mss inputs load outputNames li = .ok ds)
    (o : String) (ho : o ∈ msOutOf mss outputNames) (da : DataArray) (hx : xarrayOf mss inputs load li o = .ok da)
    (hvar : ∃ var ∈ ds.vars, var.name = o)
    (c : Coord) (hc : c ∈ da.coords) :
    (ds.coords.map (·.name)).Nodup ∧
    ∃ c' ∈ ds.coords, c'.name = c.name ∧ ∀ v v', c.val = .plain v → c'.val = .plain v' → c' = c := by
  obtain ⟨das, singles, hdas, hs, rfl⟩ := xarrayDataset_ok mss inputs load outputNames li ds h
  refine ⟨dedupCoords_nodup _ _, ?_⟩
  -- `da` is one of the merged arrays
  have hdas_names : das.map (·.name) = msOutOf mss outputNames :=
    mapM_map_eq _ (·.name) (fun a b hb => xarrayOf_name mss inputs load li a b hb) _ _ hdas
  obtain ⟨da0, hda0, hx0⟩ := mapM_mem _ _ _ hdas o ho
  rw [hx] at hx0
  cases hx0
  have hmerge : da ∈ toMergeOf das := by
    obtain ⟨var, hv, hvn⟩ := hvar
    rcases List.mem_append.mp hv with hv | hv
    · obtain ⟨da1, hda1, rfl⟩ := List.mem_map.mp hv
      obtain ⟨o1, _, hx1⟩ := mapM_mem_rev _ _ _ hdas da1 (List.mem_filter.mp hda1).1
      have : o1 = o := by rw [← xarrayOf_name mss inputs load li o1 da1 hx1]; exact hvn
      subst this
      rw [hx] at hx1
      cases hx1
      exact hda1
    · -- a variable of an un-mapped output cannot be named like a MapSpec output
      obtain ⟨n, hn, hxn⟩ := mapM_mem_rev _ _ _ hs var hv
      have := (singleVar_ok load n var hxn).1
      rw [hvn] at this
      subst this
      have := (List.mem_filter.mp hn).2
      simp [ho] at this
  have hin : c ∈ (toMergeOf das).flatMap (·.coords) := List.mem_flatMap.mpr ⟨da, hmerge, hc⟩
  obtain ⟨c', hc', hn'⟩ := dedupCoords_names _ [] c hin (by simp)
  refine ⟨c', hc', hn', ?_⟩
  intro v v' hv hv'
  obtain ⟨hmem', _⟩ := dedupCoords_sub _ _ c' hc'
  obtain ⟨da', hda', hcda'⟩ := List.mem_flatMap.mp hmem'
  obtain ⟨o', _, hx'⟩ := mapM_mem_rev _ _ _ hdas da' (List.mem_filter.mp hda').1
  exact C19_plain_coord_unique mss inputs load li o o' da da' hx hx' c c' hc hcda' hn' v v' hv hv'

/-! ### both constructors, `load_intermediate` both ways -/

/-- the dataset of `xarray_dataset_from_results` (and, by `C19_same`, of `load_xarray_dataset`) has a variable or a
    coordinate for every output of the run, and nothing but outputs of the run as variables — with and without
    `load_intermediate` -/
theorem C19_fromResults_exact (mss : List MSpec) (inputs : List (String × Val)) (r : MapResult) (li : Bool) (ds : Dataset)
    (h : fromResults mss inputs r li = .ok ds) (hcolon : ∀ n ∈ akeys r.outputs, ':' ∉ n.toList) :
    (∀ var ∈ ds.vars, var.name ∈ akeys r.outputs ∧ alookup r.outputs var.name = some var.data) ∧
    (∀ n ∈ akeys r.outputs, (∃ var ∈ ds.vars, var.name = n) ∨ (∃ c ∈ ds.coords, c.name = n)) := by
  unfold fromResults at h
  refine ⟨fun var hv => ?_, fun n hn => ?_⟩
  · obtain ⟨h1, h2, _⟩ := C19_vars_sound mss inputs _ _ li ds h var hv
    exact ⟨h1, h2⟩
  · refine C19_vars_complete mss inputs _ _ li ds h ?_ n hn
    intro m hm
    have := (List.mem_filter.mp hm).2
    exact hcolon m (by simpa using this)

/-! ### non-vacuity -/

/-- `x0[j, i] -> y0[j, i]` (index names not alphabetical), `... -> g[i, j]`, `g[i, :] -> y1[i]` -/
def msA : MSpec := ⟨[⟨"x0", [some "j", some "i"]⟩], [⟨"y0", [some "j", some "i"]⟩]⟩
def msG : MSpec := ⟨[], [⟨"g", [some "i", some "j"]⟩]⟩
def msB : MSpec := ⟨[⟨"g", [some "i", none]⟩], [⟨"y1", [some "i"]⟩]⟩
def xA : Val := .arr [1, 2] [.int 10, .int 11]
def loadAll : String → Option Val := fun n => if n = "y0" ∨ n = "g" ∨ n = "y1" ∨ n = "z" then some (.str n) else none

/-- seeded change A: the 2-D input with index names `j, i` is a coordinate on `[j, i]` -/
example : ((xarrayOf [msA, msG, msB] [("x0", xA)] loadAll true "y0").toOption.map fun da => da.coords.map fun c => (c.name, c.dims)) =
    some [("x0", ["j", "i"])] := by decide
example : Source [msA, msG, msB] [("x0", xA)] loadAll true "y0" "x0" ["j", "i"] xA := ⟨by decide, by decide, Or.inl rfl⟩
/-- the hypotheses of `C19_coords_nd` hold for `x0[j, i] -> y0[j, i]` -/
example : alookup (mapspecMapping [msA, msG, msB]) "y0" = some msA ∧ (⟨"x0", [some "j", some "i"]⟩ : ASpec) ∈ msA.inputs ∧
    alookup (mapspecMapping [msA, msG, msB]) "x0" = none ∧ mapspecAxes [msA, msG, msB] "x0" = some (["j", "i"].map some) := by decide
/-- seeded change B: `g` (generated, consumed row-wise) and the un-mapped `z` are variables with `load_intermediate` on and off -/
example : ∀ li, ((xarrayDataset [msA, msG, msB] [("x0", xA)] loadAll ["g", "y0", "y1", "z"] li).toOption.map fun ds =>
    (ds.vars.map (·.name), ds.coords.map (·.name))) = some (["y0", "g", "y1", "z"], ["x0"]) := by decide
example : (mapspecMapping [msA, msG, msB]).map (·.1) = ["y0", "y1"] := by decide
example : ([msA, msG, msB].flatMap fun ms => ms.outputs.map (·.name)).Nodup := by decide
example : ∀ n ∈ msOutOf [msA, msG, msB] ["g", "y0", "y1", "z"], ':' ∉ n.toList := by decide
/-- an output that is only a coordinate: `... -> v[i]`, `v[i] -> w[i]` with `load_intermediate` -/
def msV : MSpec := ⟨[], [⟨"v", [some "i"]⟩]⟩
def msW : MSpec := ⟨[⟨"v", [some "i"]⟩], [⟨"w", [some "i"]⟩]⟩
example : ((xarrayDataset [msV, msW] [] (fun n => some (.str n)) ["v", "w"] true).toOption.map fun ds =>
    (ds.vars.map (·.name), ds.coords.map (·.name))) = some (["w"], ["v"]) := by decide
example : ((xarrayDataset [msV, msW] [] (fun n => some (.str n)) ["v", "w"] false).toOption.map fun ds =>
    (ds.vars.map (·.name), ds.coords.map (·.name))) = some (["v", "w"], []) := by decide

end PF.C19
