import PfModel.Lemmas.MapOrder
import PfModel.Model.SubPipe
/-!
Which names `Pipeline.map` returns: one entry per output name of every function, in execution order (helper lemmas for
`Props/C01Outputs.lean`).  Same shape as the call-list lemmas of `Lemmas/MapOrder.lean`.
-/
namespace PF.C01
open PF PF.Map

theorem runSingle_outputs (fs : List MFunc) (env : Env) (f : MFunc) (r : FuncResult) (h : runSingle fs env f = .ok r) :
    akeys r.outputs = f.outputs ∧ akeys r.slots = f.outputs := by
  unfold runSingle at h
  simp only [bind, Except.bind] at h
  split at h
  · cases h
  · simp only [pure, Except.pure] at h
    cases h
    simp [akeys, Function.comp_def]

theorem runMapped_outputs (arr : MFunc → List Nat → List Bool → (Nat → List (String × Val)) → String → Val)
    (fs : List MFunc) (env : Env) (f : MFunc) (ms : MSpec) (sh : List Nat) (mk : List Bool) (r : FuncResult)
    (h : runMappedWith arr fs env f ms sh mk = .ok r) : akeys r.outputs = f.outputs ∧ akeys r.slots = f.outputs := by
  unfold runMappedWith at h
  simp only [bind, Except.bind] at h
  split at h
  · cases h
  · simp only [pure, Except.pure] at h
    cases h
    simp [akeys, Function.comp_def]

theorem runFunc_outputs (arr : MFunc → List Nat → List Bool → (Nat → List (String × Val)) → String → Val)
    (fs : List MFunc) (shapes : List (String × List Nat)) (masks : List (String × List Bool)) (env : Env) (f : MFunc)
    (r : FuncResult) (h : runFuncWith arr fs shapes masks env f = .ok r) :
    akeys r.outputs = f.outputs ∧ akeys r.slots = f.outputs := by
  unfold runFuncWith at h
  split at h
  · split at h
    · exact runSingle_outputs fs env f r h
    · split at h
      · cases h
      · split at h
        · split at h
          · cases h
          · exact runMapped_outputs arr fs env f _ _ _ r h
        · cases h
  · exact runSingle_outputs fs env f r h

theorem akeys_append {β} (a b : List (String × β)) : akeys (a ++ b) = akeys a ++ akeys b := by simp [akeys]

theorem runGen_outputs (R : Env → MFunc → M FuncResult)
    (hR : ∀ env f r, R env f = .ok r → akeys r.outputs = f.outputs ∧ akeys r.slots = f.outputs)
    (env : Env) : ∀ (gen : List MFunc) (rs : List FuncResult), runGenWith R env gen = .ok rs →
      akeys (rs.flatMap (·.outputs)) = gen.flatMap (·.outputs) ∧ akeys (rs.flatMap (·.slots)) = gen.flatMap (·.outputs) := by
  intro gen
  induction gen with
  | nil =>
    intro rs h
    simp only [runGenWith, pure, Except.pure] at h
    cases h
    simp [akeys]
  | cons f rest ih =>
    intro rs h
    simp only [runGenWith, bind, Except.bind] at h
    split at h
    · cases h
    · next r hr =>
      split at h
      · cases h
      · next rs' hrs =>
        simp only [pure, Except.pure] at h
        cases h
        obtain ⟨a, b⟩ := hR env f r hr
        obtain ⟨c, d⟩ := ih rs' hrs
        simp only [List.flatMap_cons, akeys_append, a, b, c, d, and_self]

theorem runGens_outputs (R : Env → MFunc → M FuncResult)
    (hR : ∀ env f r, R env f = .ok r → akeys r.outputs = f.outputs ∧ akeys r.slots = f.outputs) :
    ∀ (gens : List (List MFunc)) (env : Env) (res : List FuncResult × Env), runGensWith R gens env = .ok res →
      akeys (res.1.flatMap (·.outputs)) = gens.flatten.flatMap (·.outputs) ∧
      akeys res.2.store = akeys env.store ++ gens.flatten.flatMap (·.outputs) := by
  intro gens
  induction gens with
  | nil =>
    intro env res h
    simp only [runGensWith, pure, Except.pure] at h
    cases h
    simp [akeys]
  | cons g gs ih =>
    intro env res h
    simp only [runGensWith, bind, Except.bind] at h
    split at h
    · cases h
    · next rs hrs =>
      split at h
      · cases h
      · next res' hres =>
        simp only [pure, Except.pure] at h
        cases h
        obtain ⟨a, b⟩ := runGen_outputs R hR env g rs hrs
        obtain ⟨c, d⟩ := ih _ res' hres
        simp only [List.flatMap_append, akeys_append, a, c, List.flatten_cons, true_and]
        rw [d]
        simp only [akeys_append, b, List.append_assoc]

/-- the names `run_map` returns, and the names the store holds afterwards: the outputs of every function, in execution order -/
theorem runMapWith_outputs (arr : MFunc → List Nat → List Bool → (Nat → List (String × Val)) → String → Val)
    (fs : List MFunc) (inputs : List (String × Val)) (ui : List (String × List Nat)) (r : MapResult)
    (h : runMapWith arr fs inputs ui = .ok r) :
    akeys r.outputs = (generations fs).flatten.flatMap (·.outputs) ∧ akeys r.stored = (generations fs).flatten.flatMap (·.outputs) ∧
    (generations fs).flatten.length = fs.length := by
  unfold runMapWith at h
  simp only [bind, Except.bind] at h
  split at h
  · cases h
  · split at h
    · cases h
    · next hac =>
      split at h
      · cases h
      · split at h
        · cases h
        · next res hres =>
          simp only [pure, Except.pure] at h
          cases h
          obtain ⟨a, b⟩ := runGens_outputs _ (fun env f r hr => runFunc_outputs arr fs _ _ env f r hr) _ _ res hres
          refine ⟨a, ?_, by simpa using hac⟩
          simp only [akeys, List.map_map] at b ⊢
          simpa [Function.comp_def] using b

theorem prodIdx_spec {α} (nd : α → Sub.Node) (fs : List α) (o : String) (i : Nat) (h : Sub.prodIdx nd fs o = some i) :
    ∃ f, fs[i]? = some f ∧ o ∈ (nd f).outputs := by
  unfold Sub.prodIdx at h
  rw [List.findIdx?_eq_some_iff_getElem] at h
  obtain ⟨hi, hp, _⟩ := h
  exact ⟨fs[i], by simp [hi], by simpa using hp⟩

end PF.C01
