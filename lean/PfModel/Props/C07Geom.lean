import PfModel.Lemmas.StorageExt
/-!
C07, extension (round 2) — where `Geom.WF` (the hypothesis of the C07 theorems) comes from.

`construct` mirrors the constructors (`FileArray.__init__`, `DictArray.__init__`, `SharedMemoryDictArray.__init__`),
`initArrays` the one call the map runner makes (`_init_arrays`). The constructors do NOT establish `WF` on their own
(`C07_construct_accepts_non_wf`); the runner's call does, and reaches every well-formed geometry.
-/
namespace PF.C07
open PF PF.St

/-- what the constructors reject, exactly: a non-empty `internal_shape` without a mask (`ValueError`), `internal_shape=()`
    without a mask (`TypeError` from `len(None)`), and — only when an `internal_shape` is given — a mask whose length is
    not `len(shape) + len(internal_shape)` (`ValueError`). Everything else is accepted as it is, with the defaults
    `internal_shape = ()` and `shape_mask = (True,) * len(shape)`. -/
theorem C07_construct_characterised (a : CArgs) :
    (construct a = .error .type ↔ a.internal = some [] ∧ a.mask = none) ∧
    (construct a = .error .value ↔
      (∃ x xs, a.internal = some (x :: xs) ∧ a.mask = none) ∨
      (∃ i m, a.internal = some i ∧ a.mask = some m ∧ m.length ≠ a.shape.length + i.length)) ∧
    (∀ g, construct a = .ok g ↔
      g.shape = a.shape ∧ g.internal = a.internal.getD [] ∧ g.mask = a.mask.getD (List.replicate a.shape.length true) ∧
      (a.internal ≠ none → ∃ m, a.mask = some m ∧ m.length = a.shape.length + g.internal.length)) := by
  obtain ⟨shape, internal, mask⟩ := a
  cases internal with
  | none =>
    cases mask with
    | none =>
      refine ⟨by simp [construct], by simp [construct], ?_⟩
      intro g; obtain ⟨s, i, m⟩ := g
      simp only [construct, Except.ok.injEq, Geom.mk.injEq, Option.getD_none, ne_eq, not_true_eq_false, false_implies,
        and_true]
      constructor
      · rintro ⟨rfl, rfl, rfl⟩; exact ⟨rfl, rfl, rfl⟩
      · rintro ⟨rfl, rfl, rfl⟩; exact ⟨rfl, rfl, rfl⟩
    | some m' =>
      refine ⟨by simp [construct], by simp [construct], ?_⟩
      intro g; obtain ⟨s, i, m⟩ := g
      simp only [construct, Except.ok.injEq, Geom.mk.injEq, Option.getD_none, Option.getD_some, ne_eq,
        not_true_eq_false, false_implies, and_true]
      constructor
      · rintro ⟨rfl, rfl, rfl⟩; exact ⟨rfl, rfl, rfl⟩
      · rintro ⟨rfl, rfl, rfl⟩; exact ⟨rfl, rfl, rfl⟩
  | some i' =>
    cases mask with
    | none =>
      cases i' with
      | nil =>
        refine ⟨by simp [construct], by simp [construct], ?_⟩
        intro g; simp [construct]
      | cons x xs =>
        refine ⟨by simp [construct], by simp [construct], ?_⟩
        intro g; simp [construct]
    | some m' =>
      have hc : construct ⟨shape, some i', some m'⟩ =
          if m'.length ≠ shape.length + i'.length then .error .value else .ok ⟨shape, i', m'⟩ := by
        cases i' <;> rfl
      by_cases hl : m'.length = shape.length + i'.length
      · rw [hc, if_neg (by simpa using hl)]
        refine ⟨by simp, by simp [hl], ?_⟩
        intro g; obtain ⟨s, i, m⟩ := g
        simp only [Except.ok.injEq, Geom.mk.injEq, Option.getD_some, ne_eq, reduceCtorEq, not_false_eq_true,
          Option.some.injEq, exists_eq_left', true_implies]
        constructor
        · rintro ⟨rfl, rfl, rfl⟩; exact ⟨rfl, rfl, rfl, hl⟩
        · rintro ⟨rfl, rfl, rfl, _⟩; exact ⟨rfl, rfl, rfl⟩
      · rw [hc, if_pos hl]
        refine ⟨by simp, by simp [hl], ?_⟩
        intro g; obtain ⟨s, i, m⟩ := g
        simp only [reduceCtorEq, Option.getD_some, ne_eq, not_false_eq_true, Option.some.injEq, exists_eq_left',
          true_implies, false_iff, not_and]
        rintro rfl rfl rfl; exact hl

/-- an accepted geometry is well formed iff its mask has one `True` per external axis (and, when no `internal_shape`
    was given, no `False` at all): the constructors check only the LENGTH of the mask, and only with an `internal_shape` -/
theorem C07_construct_wf_iff (a : CArgs) (g : Geom) (h : construct a = .ok g) :
    g.WF ↔ nTrue g.mask = a.shape.length ∧ (a.internal = none → nFalse g.mask = 0) := by
  obtain ⟨hs, hi, _, hm⟩ := ((C07_construct_characterised a).2.2 g).mp h
  unfold Geom.WF
  rw [hs]
  cases hin : a.internal with
  | none =>
    rw [hin] at hi
    simp only [hi, Option.getD_none, List.length_nil, true_implies]
    constructor
    · rintro ⟨h1, h2⟩; exact ⟨h1.symm, h2.symm⟩
    · rintro ⟨h1, h2⟩; exact ⟨h1.symm, h2.symm⟩
  | some i =>
    obtain ⟨m, hm1, hm2⟩ := hm (by rw [hin]; simp)
    have hgm : g.mask = m := by
      have := ((C07_construct_characterised a).2.2 g).mp h |>.2.2.1
      rw [this, hm1]; rfl
    have hsum := nTrue_add_nFalse g.mask
    rw [hgm] at hsum ⊢
    simp only [reduceCtorEq, false_implies, and_true]
    constructor
    · rintro ⟨h1, _⟩; exact h1.symm
    · intro h1; exact ⟨h1.symm, by omega⟩

/-- without a mask (and hence without an `internal_shape`) the constructed geometry is well formed: all axes external -/
theorem C07_construct_default_mask (a : CArgs) (g : Geom) (hm : a.mask = none) (h : construct a = .ok g) :
    g.WF ∧ g.internal = [] ∧ g.full = a.shape := by
  obtain ⟨shape, internal, mask⟩ := a
  subst hm
  cases internal with
  | some i => cases i <;> simp [construct] at h
  | none =>
    simp only [construct, Except.ok.injEq] at h
    subst h
    refine ⟨?_, rfl, ?_⟩
    · unfold Geom.WF
      exact ⟨(nTrue_replicate shape.length).1.symm, (nTrue_replicate shape.length).2.symm⟩
    · exact select_replicate_true shape []

/-- the map runner's call `storage_class(path, external_shape_from_mask(shape, mask), internal_shape_from_mask(shape, mask),
    mask)` is accepted iff the mask is not longer than the full shape, and then ALWAYS yields a well-formed geometry whose
    `full_shape` is the shape it was made from (its first `len(mask)` axes) -/
theorem C07_init_arrays_wf (full : List Nat) (mask : List Bool) :
    (mask.length ≤ full.length ↔ ∃ g, construct (initArrays full mask) = .ok g) ∧
    (∀ g, construct (initArrays full mask) = .ok g →
      g.WF ∧ g.mask = mask ∧ g.shape = extOf mask full ∧ g.internal = intOf mask full ∧ g.full = full.take mask.length) ∧
    (mask.length = full.length → ∃ g, construct (initArrays full mask) = .ok g ∧ g.WF ∧ g.full = full) := by
  have hmin := extOf_intOf_length_min mask full
  have hc : construct (initArrays full mask) =
      if mask.length ≠ (extOf mask full).length + (intOf mask full).length then .error .value
      else .ok ⟨extOf mask full, intOf mask full, mask⟩ := by
    unfold initArrays construct
    cases intOf mask full <;> rfl
  have hgood : mask.length ≤ full.length →
      (⟨extOf mask full, intOf mask full, mask⟩ : Geom).WF ∧
      (⟨extOf mask full, intOf mask full, mask⟩ : Geom).full = full.take mask.length := by
    intro hle
    exact ⟨extOf_intOf_length mask full hle, select_ext_int_take mask full hle⟩
  refine ⟨?_, ?_, ?_⟩
  · constructor
    · intro hle
      exact ⟨_, by rw [hc, if_neg (by omega)]⟩
    · rintro ⟨g, hg⟩
      rw [hc] at hg
      split at hg
      · cases hg
      · rename_i hne; omega
  · intro g hg
    rw [hc] at hg
    split at hg
    · cases hg
    · rename_i hne
      cases hg
      have hle : mask.length ≤ full.length := by omega
      exact ⟨(hgood hle).1, rfl, rfl, rfl, (hgood hle).2⟩
  · intro heq
    refine ⟨_, by rw [hc, if_neg (by omega)], (hgood (by omega)).1, ?_⟩
    rw [(hgood (by omega)).2, heq, List.take_length]

/-- conversely every well-formed geometry — every interleaving of external and internal axes — is what the runner's call
    constructs from its full shape and mask -/
theorem C07_wf_reachable (g : Geom) (hg : g.WF) : construct (initArrays g.full g.mask) = .ok g := by
  obtain ⟨s, i, m⟩ := g
  unfold Geom.WF at hg
  simp only at hg
  have he : extOf m (selectByMask m s i) = s := ext_select m s i hg.1 hg.2
  have hi : intOf m (selectByMask m s i) = i := int_select m s i hg.1 hg.2
  have hsum := nTrue_add_nFalse m
  simp only [initArrays, Geom.full, he, hi]
  have hc : construct ⟨s, some i, some m⟩ = if m.length ≠ s.length + i.length then .error .value else .ok ⟨s, i, m⟩ := by
    cases i <;> rfl
  rw [hc, if_neg (by omega)]

/-- the constructors alone do not establish `WF`: `shape=(2,)`, `internal_shape=(3,)`, `shape_mask=(True, True)` (right
    length, wrong content) and `shape=(2,)`, `shape_mask=(False,)` (no `internal_shape`: nothing checked) are accepted -/
theorem C07_construct_accepts_non_wf :
    (∃ g, construct ⟨[2], some [3], some [true, true]⟩ = .ok g ∧ ¬ g.WF) ∧
    (∃ g, construct ⟨[2], none, some [false]⟩ = .ok g ∧ ¬ g.WF) ∧
    construct ⟨[2], some [], none⟩ = .error .type ∧
    construct ⟨[2], some [3], none⟩ = .error .value ∧
    construct ⟨[2], some [3], some [true]⟩ = .error .value :=
  ⟨⟨_, rfl, by decide⟩, ⟨_, rfl, by decide⟩, rfl, rfl, rfl⟩

/-! ### non-vacuity -/

example : construct ⟨[3], some [2], some [false, true]⟩ = .ok ⟨[3], [2], [false, true]⟩ := rfl
example : construct (initArrays [2, 3] [false, true]) = .ok ⟨[3], [2], [false, true]⟩ := rfl
example : construct ⟨[2, 3], none, none⟩ = .ok ⟨[2, 3], [], [true, true]⟩ := rfl
example : (⟨[3], [2], [false, true]⟩ : Geom).WF := by decide
example : construct (initArrays [2] [true, false]) = .error .value := rfl
example : construct (initArrays [2, 3, 4] [true, false]) = .ok ⟨[2], [3], [true, false]⟩ := rfl

end PF.C07
