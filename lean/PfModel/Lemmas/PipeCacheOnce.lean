import PfModel.Lemmas.PipeCache
import PfModel.Lemmas.PipelineLog
/-!
C09, extension: in ANY cached evaluation — with or without `full_output`, whatever the cache holds (right entries or not),
whatever the container and the key computation — every function body runs at most once: the call log has no duplicates.
(The memo `all_results` holds every output of an executed function, and the pipeline is acyclic.)
-/
namespace PF.PipeCache
open PF PF.Pipe

variable {H C : Type}

structure OnceInv (fs : List Func) (s : CSt H C) : Prop where
  nodup : s.calls.Nodup
  called : ∀ f ∈ fs, f.name ∈ s.calls → ∀ q ∈ f.outputs, (alookup s.memo q).isSome

structure OnceFrame (rk : String → Nat) (bound : Nat) (strict : Bool) (s s' : CSt H C) : Prop where
  added : ∃ add, s'.calls = s.calls ++ add ∧ ∀ nm ∈ add, if strict then rk nm < bound else rk nm ≤ bound
  mono : ∀ q, (alookup s.memo q).isSome → (alookup s'.memo q).isSome

section Once
variable (fs : List Func) (rk : String → Nat) (kw : List (String × Val))

def RecOnce (r : String → CSt H C → Except Err (Val × CSt H C)) : Prop :=
  ∀ o s v s', OnceInv fs s → r o s = .ok (v, s') →
    OnceInv fs s' ∧ ∀ g, producer fs o = some g → OnceFrame rk (rk g.name) false s s'

theorem argsWithC_once (hw : WFp fs rk) (r : String → CSt H C → Except Err (Val × CSt H C)) (hr : RecOnce fs rk r)
    (f : Func) (hf : f ∈ fs) :
    ∀ ps (s : CSt H C) a s', (∀ p ∈ ps, p ∈ f.params) → OnceInv fs s → argsWithC r fs kw f ps s = .ok (a, s') →
      OnceInv fs s' ∧ OnceFrame rk (rk f.name) true s s' := by
  intro ps
  induction ps with
  | nil =>
    intro s a s' _ hi h
    simp only [argsWithC, Except.ok.injEq, Prod.mk.injEq] at h
    obtain ⟨_, rfl⟩ := h
    exact ⟨hi, ⟨[], by simp, by simp⟩, fun q hq => hq⟩
  | cons pq ps ih =>
    obtain ⟨p, orig⟩ := pq
    intro s a s' hps hi h
    have hps' : ∀ q ∈ ps, q ∈ f.params := fun q hq => hps q (List.mem_cons_of_mem _ hq)
    simp only [argsWithC] at h
    cases hres : resolve fs kw f p with
    | missing => simp [hres] at h
    | val v =>
      simp only [hres] at h
      cases hrest : argsWithC r fs kw f ps { s with used := s.used ++ [p] } with
      | error e => simp [hrest] at h
      | ok r2 =>
        obtain ⟨rest, s2⟩ := r2
        simp only [hrest, Except.ok.injEq, Prod.mk.injEq] at h
        obtain ⟨_, rfl⟩ := h
        obtain ⟨i2, fr2⟩ := ih { s with used := s.used ++ [p] } rest s2 hps' ⟨hi.nodup, hi.called⟩ hrest
        exact ⟨i2, fr2.added, fr2.mono⟩
    | upstream =>
      simp only [hres] at h
      obtain ⟨hb, _, hpp⟩ := PF.PipeCache.resolve_upstream fs kw f p hres
      obtain ⟨g, hg⟩ := Option.isSome_iff_exists.mp hpp
      cases hrp : r p s with
      | error e => simp [hrp] at h
      | ok r1 =>
        obtain ⟨v, s1⟩ := r1
        simp only [hrp] at h
        cases hrest : argsWithC r fs kw f ps { s1 with used := s1.used ++ [p] } with
        | error e => simp [hrest] at h
        | ok r2 =>
          obtain ⟨rest, s2⟩ := r2
          simp only [hrest, Except.ok.injEq, Prod.mk.injEq] at h
          obtain ⟨_, rfl⟩ := h
          obtain ⟨i1, fr1⟩ := hr p s v s1 hi hrp
          have fr1 := fr1 g hg
          obtain ⟨i2, fr2⟩ := ih { s1 with used := s1.used ++ [p] } rest s2 hps' ⟨i1.nodup, i1.called⟩ hrest
          have hlt : rk g.name < rk f.name := hw.acyc f hf (p, orig) (hps _ List.mem_cons_self) g hg hb
          refine ⟨i2, ?_, fun q hq => fr2.mono q (fr1.mono q hq)⟩
          obtain ⟨a1, e1, b1⟩ := fr1.added
          obtain ⟨a2, e2, b2⟩ := fr2.added
          refine ⟨a1 ++ a2, by simp only [] at e2; rw [e2, e1, List.append_assoc], ?_⟩
          intro nm hnm
          rcases List.mem_append.mp hnm with h1 | h2
          · have := b1 nm h1
            simp only [Bool.false_eq_true, ↓reduceIte] at this
            simp only [↓reduceIte]; omega
          · exact b2 nm h2

theorem runC_once (hw : WFp fs rk) (P : Policy H C) (cached : Func → Bool)
    (ck : List (String × Val) → Func → String → Option (Key H)) (full : Bool) :
    ∀ n, RecOnce fs rk (runC P cached ck fs kw full n) := by
  intro n
  induction n with
  | zero => intro o s v s' _ h; simp [runC] at h
  | succ n ihn =>
    intro o s v s' hi h
    rw [runC_succ] at h
    cases hm : alookup s.memo o with
    | some w =>
      simp only [hm, Except.ok.injEq, Prod.mk.injEq] at h
      obtain ⟨_, rfl⟩ := h
      exact ⟨hi, fun g _ => ⟨⟨[], by simp, by simp⟩, fun q hq => hq⟩⟩
    | none =>
      simp only [hm] at h
      cases hf : producer fs o with
      | none => simp [hf] at h
      | some f =>
        simp only [hf] at h
        obtain ⟨hfmem, homem⟩ := (producer_some_iff fs hw.uniq o f).mp hf
        generalize (if cached f then ck kw f o else none) = key at h
        cases hl : lookupC P key s.cache with
        | some hit =>
          obtain ⟨K, r, c'⟩ := hit
          simp only [hl] at h
          have hi1 : OnceInv fs ({ s with memo := unpack f r ++ s.memo, cache := c', hits := s.hits ++ [K] } : CSt H C) :=
            ⟨hi.nodup, fun g hg hc q hq => alookup_append_right_isSome _ _ q (hi.called g hg hc q hq)⟩
          by_cases hfull : full = true
          · rw [if_pos hfull] at h
            cases hargs : argsWithC (runC P cached ck fs kw full n) fs kw f f.params
                { s with memo := unpack f r ++ s.memo, cache := c', hits := s.hits ++ [K] } with
            | error e => simp [hargs] at h
            | ok r2 =>
              obtain ⟨a, s2⟩ := r2
              simp only [hargs] at h
              cases hx : alookup s2.memo o with
              | none => simp [hx] at h
              | some w =>
                simp only [hx, Except.ok.injEq, Prod.mk.injEq] at h
                obtain ⟨_, rfl⟩ := h
                obtain ⟨i2, fr2⟩ := argsWithC_once fs rk kw hw _ ihn f hfmem f.params _ a s2 (fun _ x => x) hi1 hargs
                refine ⟨i2, ?_⟩
                intro g hg
                cases hg
                obtain ⟨add, e, b⟩ := fr2.added
                refine ⟨⟨add, e, ?_⟩, fun q hq => fr2.mono q (alookup_append_right_isSome _ _ q hq)⟩
                intro nm hnm
                have := b nm hnm
                simp at this ⊢; omega
          · rw [if_neg hfull] at h
            cases hx : alookup (unpack f r ++ s.memo) o with
            | none => simp [hx] at h
            | some w =>
              simp only [hx, Except.ok.injEq, Prod.mk.injEq] at h
              obtain ⟨_, rfl⟩ := h
              exact ⟨⟨hi1.nodup, hi1.called⟩, fun g _ => ⟨⟨[], by simp, by simp⟩, fun q hq => alookup_append_right_isSome _ _ q hq⟩⟩
        | none =>
          simp only [hl] at h
          cases hargs : argsWithC (runC P cached ck fs kw full n) fs kw f f.params s with
          | error e => simp [hargs] at h
          | ok r2 =>
            obtain ⟨args, s1⟩ := r2
            simp only [hargs] at h
            cases hov : alookup (outVals f args) o with
            | none => simp [hov] at h
            | some w =>
              simp only [hov, Except.ok.injEq, Prod.mk.injEq] at h
              obtain ⟨_, rfl⟩ := h
              obtain ⟨i1, fr1⟩ := argsWithC_once fs rk kw hw _ ihn f hfmem f.params s args s1 (fun _ x => x) hi hargs
              obtain ⟨add, eadd, badd⟩ := fr1.added
              have hnot0 : f.name ∉ s.calls := by
                intro hc
                have := hi.called f hfmem hc o homem
                rw [hm] at this; simp at this
              have hnot1 : f.name ∉ s1.calls := by
                rw [eadd]; intro hc
                rcases List.mem_append.mp hc with h0 | h1
                · exact hnot0 h0
                · have := badd _ h1; simp at this
              refine ⟨⟨?_, ?_⟩, ?_⟩
              · show (s1.calls ++ [f.name]).Nodup
                exact List.nodup_append.mpr ⟨i1.nodup, by simp, by
                  intro a ha b hb; simp at hb; subst hb; intro e; subst e; exact hnot1 ha⟩
              · intro g hg hc q hq
                show (alookup (outVals f args ++ s1.memo) q).isSome
                have hc' : g.name ∈ s1.calls ++ [f.name] := hc
                rcases List.mem_append.mp hc' with h0 | h1
                · exact alookup_append_right_isSome _ _ q (i1.called g hg h0 q hq)
                · simp at h1
                  have : g = f := hw.names g hg f hfmem h1
                  subst this
                  have := mem_outVals_keys g args q hq
                  obtain ⟨x, hx⟩ := Option.isSome_iff_exists.mp this
                  rw [alookup_append, hx]; rfl
              · intro g hg
                cases hg
                refine ⟨⟨add ++ [f.name], ?_, ?_⟩, ?_⟩
                · show s1.calls ++ [f.name] = s.calls ++ (add ++ [f.name])
                  rw [eadd, List.append_assoc]
                · intro nm hnm
                  rcases List.mem_append.mp hnm with h0 | h1
                  · have := badd nm h0; simp at this ⊢; omega
                  · simp at h1; subst h1; simp
                · intro q hq
                  exact alookup_append_right_isSome _ _ q (fr1.mono q hq)

end Once

end PF.PipeCache
