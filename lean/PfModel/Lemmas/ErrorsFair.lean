/-
Lemmas for Props/C13Fair.lean: exactly when a generation run in an executor waits for ever.

`Fair σ n` ("the pool runs every submitted task") is the hypothesis of `C13_surface` / `C13_no_hang`; it is sufficient, not
necessary.  `Stuck` is the exact condition: in submission order, the first task the pool never runs comes before every raising
task that ran.  Core Lean only.
-/
import PfModel.Lemmas.Errors
namespace PF.Errors
open PF PF.Map

/-- the generation waits for ever: position `j` (submission order) is never run by the pool, and every earlier position was
    run and did not raise — `Future.result()` reaches position `j` and blocks -/
def Stuck (fails : Oracle) (σ : List Nat) (tasks : List Task) : Prop :=
  ∃ j, j < tasks.length ∧ j ∉ σ ∧ ∀ i, i < j → i ∈ σ ∧ ∀ t, tasks[i]? = some t → failOf fails t = none

/-- every position that `Future.result()` can reach (no raising task strictly before it) holds the result of its own task -/
def Enough (fails : Oracle) (futs : Futs) (ts : List Task) (off : Nat) : Prop :=
  ∀ k t, ts[k]? = some t → (∀ i u, i < k → ts[i]? = some u → failOf fails u = none) → futs (off + k) = some (failOf fails t)

theorem Enough.tail {fails futs t ts off} (h : Enough fails futs (t :: ts) off) (h0 : failOf fails t = none) :
    Enough fails futs ts (off + 1) := by
  intro k u hk hpre
  have := h (k + 1) u (by simpa using hk) (by
    intro i v hi hv
    cases i with
    | zero => simp at hv; subst hv; exact h0
    | succ i => exact hpre i v (by omega) (by simpa using hv))
  rwa [show off + (k + 1) = off + 1 + k by omega] at this

theorem Enough.left {fails futs a b off} (h : Enough fails futs (a ++ b) off) : Enough fails futs a off := by
  intro k t hk hpre
  have hlt : k < a.length := by
    rcases Nat.lt_or_ge k a.length with h | h
    · exact h
    · rw [List.getElem?_eq_none (by omega)] at hk; cases hk
  refine h k t (by rw [List.getElem?_append_left hlt]; exact hk) ?_
  intro i u hi hu
  rw [List.getElem?_append_left (by omega)] at hu
  exact hpre i u hi hu

theorem Enough.right {fails futs a b off} (h : Enough fails futs (a ++ b) off) (ha : ∀ u ∈ a, failOf fails u = none) :
    Enough fails futs b (off + a.length) := by
  intro k t hk hpre
  have := h (a.length + k) t (by rw [List.getElem?_append_right (by omega)]; simpa using hk) (by
    intro i u hi hu
    rcases Nat.lt_or_ge i a.length with hia | hia
    · rw [List.getElem?_append_left hia] at hu
      exact ha u (List.mem_of_getElem? hu)
    · rw [List.getElem?_append_right hia] at hu
      exact hpre (i - a.length) u (by omega) hu)
  rwa [show off + (a.length + k) = off + a.length + k by omega] at this

theorem awaitAll_enough (fails : Oracle) (futs : Futs) : ∀ ts off, Enough fails futs ts off →
    awaitAll futs ts off = match firstFail fails ts with | some (t, x) => .raised t x | none => .allDone := by
  intro ts
  induction ts with
  | nil => intro off _; simp [awaitAll, firstFail]
  | cons t ts ih =>
    intro off h
    have h0 := h 0 t (by simp) (by intro i u hi; omega)
    simp only [Nat.add_zero] at h0
    simp only [awaitAll, firstFail, h0]
    cases hf : failOf fails t with
    | some x => rfl
    | none => exact ih (off + 1) (h.tail hf)

theorem procGen_enough (fails : Oracle) (futs : Futs) : ∀ frs off, Enough fails futs (genTasks frs) off →
    match firstFail fails (genTasks frs) with
    | some (t, x) => ∃ sl, procGen futs frs off = .raised (raisedOf t x) sl
    | none => procGen futs frs off = .ok := by
  intro frs
  induction frs with
  | nil => intro off _; simp [procGen, genTasks, firstFail]
  | cons fr rest ih =>
    obtain ⟨f, r⟩ := fr
    intro off h
    rw [genTasks_cons] at h ⊢
    rw [firstFail_append]
    simp only [procGen, awaitAll_enough fails futs _ off h.left]
    cases hff : firstFail fails (tasksOf f r) with
    | some tx => obtain ⟨t, x⟩ := tx; exact ⟨_, rfl⟩
    | none =>
      simp only []
      have hr := h.right ((firstFail_none fails _).mp hff)
      rw [length_tasksOf] at hr
      have := ih (off + r.calls.length) hr
      cases hf2 : firstFail fails (genTasks rest) with
      | some tx =>
        obtain ⟨t, x⟩ := tx
        rw [hf2] at this
        obtain ⟨sl, e⟩ := this
        simp only [e]; exact ⟨_, rfl⟩
      | none =>
        rw [hf2] at this
        simp only [this]

/-- a schedule that is not stuck fills every future `Future.result()` can reach -/
theorem enough_execAll (fails : Oracle) (tasks : List Task) (σ : List Nat) (hns : ¬ Stuck fails σ tasks) :
    Enough fails (execAll fails tasks σ (fun _ => none)) tasks 0 := by
  have key : ∀ k, k < tasks.length → (∀ i u, i < k → tasks[i]? = some u → failOf fails u = none) → k ∈ σ := by
    intro k
    induction k using Nat.strongRecOn with
    | _ k ih =>
      intro hk hpre
      by_cases hm : k ∈ σ
      · exact hm
      · exact absurd ⟨k, hk, hm, fun i hi => ⟨ih i hi (by omega) (fun i' u hi' hu => hpre i' u (by omega) hu),
          fun t ht => hpre i t hi ht⟩⟩ hns
  intro k t hk hpre
  rw [execAll_get]
  simp only [Nat.zero_add, hk]
  have hlt : k < tasks.length := by
    rcases Nat.lt_or_ge k tasks.length with h | h
    · exact h
    · rw [List.getElem?_eq_none (by omega)] at hk; cases hk
  simp [key k hlt hpre]

/-! ### a stuck schedule hangs -/

theorem awaitAll_allDone (futs : Futs) : ∀ (ts : List Task) (off : Nat), (∀ i, i < ts.length → futs (off + i) = some none) →
    awaitAll futs ts off = .allDone := by
  intro ts
  induction ts with
  | nil => intro off _; rfl
  | cons t ts ih =>
    intro off h
    have h0 := h 0 (by simp)
    simp only [Nat.add_zero] at h0
    simp only [awaitAll, h0]
    exact ih (off + 1) (fun i hi => by
      have := h (i + 1) (by simp; omega)
      rwa [show off + (i + 1) = off + 1 + i by omega] at this)

theorem awaitAll_stuck (futs : Futs) : ∀ (ts : List Task) (off j : Nat), j < ts.length → futs (off + j) = none →
    (∀ i, i < j → futs (off + i) = some none) → awaitAll futs ts off = .hang := by
  intro ts
  induction ts with
  | nil => intro off j hj; simp at hj
  | cons t ts ih =>
    intro off j hj hnone hpre
    cases j with
    | zero => simp only [Nat.add_zero] at hnone; simp only [awaitAll, hnone]
    | succ j =>
      have h0 := hpre 0 (by omega)
      simp only [Nat.add_zero] at h0
      simp only [awaitAll, h0]
      refine ih (off + 1) j (by simpa using hj) (by rwa [show off + 1 + j = off + (j + 1) by omega]) ?_
      intro i hi
      have := hpre (i + 1) (by omega)
      rwa [show off + (i + 1) = off + 1 + i by omega] at this

theorem length_genTasks_cons (f : MFunc) (r : FuncResult) (rest : List (MFunc × FuncResult)) :
    (genTasks ((f, r) :: rest)).length = r.calls.length + (genTasks rest).length := by
  rw [genTasks_cons, List.length_append, length_tasksOf]

theorem procGen_stuck (futs : Futs) : ∀ (frs : List (MFunc × FuncResult)) (off j : Nat), j < (genTasks frs).length →
    futs (off + j) = none → (∀ i, i < j → futs (off + i) = some none) → procGen futs frs off = .hang := by
  intro frs
  induction frs with
  | nil => intro off j hj; simp [genTasks] at hj
  | cons fr rest ih =>
    obtain ⟨f, r⟩ := fr
    intro off j hj hnone hpre
    rw [length_genTasks_cons] at hj
    simp only [procGen]
    rcases Nat.lt_or_ge j r.calls.length with hlt | hge
    · rw [awaitAll_stuck futs (tasksOf f r) off j (by rw [length_tasksOf]; exact hlt) hnone hpre]
    · rw [awaitAll_allDone futs (tasksOf f r) off (fun i hi => hpre i (by rw [length_tasksOf] at hi; omega))]
      simp only []
      rw [ih (off + r.calls.length) (j - r.calls.length) (by omega)
        (by rwa [show off + r.calls.length + (j - r.calls.length) = off + j by omega])
        (fun i hi => by
          have := hpre (r.calls.length + i) (by omega)
          rwa [show off + (r.calls.length + i) = off + r.calls.length + i by omega] at this)]

theorem procGen_execAll_stuck (fails : Oracle) (σ : List Nat) (frs : List (MFunc × FuncResult))
    (h : Stuck fails σ (genTasks frs)) :
    procGen (execAll fails (genTasks frs) σ (fun _ => none)) frs 0 = .hang := by
  obtain ⟨j, hj, hnot, hpre⟩ := h
  refine procGen_stuck _ frs 0 j hj ?_ ?_
  · rw [execAll_get]
    simp only [Nat.zero_add]
    cases (genTasks frs)[j]? <;> simp [hnot]
  · intro i hi
    rw [execAll_get]
    simp only [Nat.zero_add]
    have hlt : i < (genTasks frs).length := by omega
    obtain ⟨hm, hf⟩ := hpre i hi
    rw [List.getElem?_eq_getElem hlt]
    simp [hm, hf _ (List.getElem?_eq_getElem hlt)]

/-- **one generation in an executor, exactly**: stuck ⇒ it waits for ever; not stuck ⇒ it behaves as the specification says -/
theorem poolGen_stuck (fails : Oracle) (σ : List Nat) (R : Env → MFunc → M FuncResult) (env : Env) (gen : List MFunc)
    (rs : List FuncResult) (h : runGenWith R env gen = .ok rs) (hs : Stuck fails σ (genTasks (gen.zip rs))) :
    ∃ log, poolGen fails σ R env gen = .hang log := by
  simp only [poolGen, h, procGen_execAll_stuck fails σ (gen.zip rs) hs]
  exact ⟨_, rfl⟩

theorem poolGen_spec_exact (fails : Oracle) (σ : List Nat) (R : Env → MFunc → M FuncResult) (env : Env) (gen : List MFunc)
    (rs : List FuncResult) (h : runGenWith R env gen = .ok rs) (hns : ¬ Stuck fails σ (genTasks (gen.zip rs))) :
    GenSpec fails gen rs (poolGen fails σ R env gen) := by
  have hd := procGen_enough fails _ (gen.zip rs) 0 (enough_execAll fails (genTasks (gen.zip rs)) σ hns)
  simp only [GenSpec, poolGen, h]
  cases hff : firstFail fails (genTasks (gen.zip rs)) with
  | some tx =>
    obtain ⟨t, x⟩ := tx
    rw [hff] at hd
    obtain ⟨sl, e⟩ := hd
    simp only [e]; exact ⟨_, _, rfl⟩
  | none =>
    rw [hff] at hd
    simp only [hd]; exact ⟨_, rfl⟩

theorem fair_not_stuck (fails : Oracle) (σ : List Nat) (tasks : List Task) (hf : Fair σ tasks.length) : ¬ Stuck fails σ tasks := by
  rintro ⟨j, hj, hnot, _⟩
  exact hnot (hf j hj)

/-- the pool runs enough on the path the run actually takes: no generation that is reached is stuck (a generation after a
    raising one is never reached) -/
def Returns (fails : Oracle) (sched : Nat → List Nat) (R : Env → MFunc → M FuncResult) : List (List MFunc) → Env → Nat → Prop
  | [], _, _ => True
  | gen :: rest, env, g =>
    match runGenWith R env gen with
    | .error _ => True
    | .ok rs => ¬ Stuck fails (sched g) (genTasks (gen.zip rs)) ∧
        (firstFail fails (genTasks (gen.zip rs)) = none →
          Returns fails sched R rest { env with store := env.store ++ rs.flatMap (·.slots) } (g + 1))

theorem fairSched_returns (fails : Oracle) (sched : Nat → List Nat) (R : Env → MFunc → M FuncResult) :
    ∀ (gens : List (List MFunc)) (env : Env) (g : Nat), FairSched sched R gens env g → Returns fails sched R gens env g := by
  intro gens
  induction gens with
  | nil => intro env g _; trivial
  | cons gen rest ih =>
    intro env g h
    simp only [FairSched] at h
    simp only [Returns]
    cases hrs : runGenWith R env gen with
    | error e => trivial
    | ok rs =>
      simp only [hrs] at h
      exact ⟨fair_not_stuck fails _ _ h.1, fun _ => ih _ _ h.2⟩

theorem returns_no_hang (fails : Oracle) (sched : Nat → List Nat) (R : Env → MFunc → M FuncResult) :
    ∀ (gens : List (List MFunc)) (env : Env) (g : Nat), Returns fails sched R gens env g →
      ∀ g' log, runGensE .pool fails sched R gens env g ≠ .hang g' log := by
  intro gens
  induction gens with
  | nil => intro env g _ g' log h; simp [runGensE] at h
  | cons gen rest ih =>
    intro env g hret g' log h
    simp only [runGensE, genE] at h
    simp only [Returns] at hret
    cases hrs : runGenWith R env gen with
    | error e => simp [poolGen, hrs] at h
    | ok rs =>
      simp only [hrs] at hret
      have hspec := poolGen_spec_exact fails (sched g) R env gen rs hrs hret.1
      simp only [GenSpec] at hspec
      cases hff : firstFail fails (genTasks (gen.zip rs)) with
      | some tx =>
        obtain ⟨t, x⟩ := tx
        rw [hff] at hspec
        obtain ⟨l, sl, e⟩ := hspec
        simp [e] at h
      | none =>
        rw [hff] at hspec
        obtain ⟨l, e⟩ := hspec
        simp only [e] at h
        cases hrec : runGensE .pool fails sched R rest { env with store := env.store ++ rs.flatMap (·.slots) } (g + 1) with
        | ok a b c => simp [hrec] at h
        | refused e => simp [hrec] at h
        | raised a b c d => simp [hrec] at h
        | hang g1 l1 => exact ih _ _ (hret.2 hff) g1 l1 hrec

theorem no_hang_returns (fails : Oracle) (sched : Nat → List Nat) (R : Env → MFunc → M FuncResult) :
    ∀ (gens : List (List MFunc)) (env : Env) (g : Nat),
      (∀ g' log, runGensE .pool fails sched R gens env g ≠ .hang g' log) → Returns fails sched R gens env g := by
  intro gens
  induction gens with
  | nil => intro env g _; trivial
  | cons gen rest ih =>
    intro env g h
    simp only [Returns]
    cases hrs : runGenWith R env gen with
    | error e => trivial
    | ok rs =>
      simp only []
      have hns : ¬ Stuck fails (sched g) (genTasks (gen.zip rs)) := by
        intro hs
        obtain ⟨l, e⟩ := poolGen_stuck fails (sched g) R env gen rs hrs hs
        exact h g l (by simp only [runGensE, genE, e])
      refine ⟨hns, fun hff => ih _ _ ?_⟩
      intro g' log' hrec
      have hspec := poolGen_spec_exact fails (sched g) R env gen rs hrs hns
      simp only [GenSpec, hff] at hspec
      obtain ⟨l, e⟩ := hspec
      exact h g' (l ++ log') (by simp only [runGensE, genE, e, hrec])

theorem surface_exact (mode : Mode) (fails : Oracle) (sched : Nat → List Nat) (R : Env → MFunc → M FuncResult) :
    ∀ (gens : List (List MFunc)) (env : Env) (g g' : Nat) (r : Raised),
      (mode = .pool → Returns fails sched R gens env g) →
      specGens fails R gens env g = .ok (some (g', r)) →
      ∃ log store, runGensE mode fails sched R gens env g = .raised g' r log store := by
  intro gens
  induction gens with
  | nil => intro env g g' r _ h; simp [specGens, pure, Except.pure] at h
  | cons gen rest ih =>
    intro env g g' r hret h
    simp only [specGens] at h
    cases hrs : runGenWith R env gen with
    | error e => simp [hrs] at h
    | ok rs =>
      simp only [hrs] at h
      have hspec : GenSpec fails gen rs (genE mode fails (sched g) R env gen) := by
        cases mode with
        | seq => exact seqGen_spec fails R env gen rs hrs
        | pool =>
          have := hret rfl; simp only [Returns, hrs] at this
          exact poolGen_spec_exact fails (sched g) R env gen rs hrs this.1
      simp only [GenSpec] at hspec
      simp only [runGensE]
      cases hff : firstFail fails (genTasks (gen.zip rs)) with
      | some tx =>
        obtain ⟨t, x⟩ := tx
        simp only [hff, pure, Except.pure] at h hspec
        injection h with h; injection h with h; injection h with h1 h2
        subst h1; subst h2
        obtain ⟨log, slots, e⟩ := hspec
        simp only [e]; exact ⟨_, _, rfl⟩
      | none =>
        simp only [hff] at h hspec
        obtain ⟨log, e⟩ := hspec
        have hf2 : mode = .pool → Returns fails sched R rest { env with store := env.store ++ rs.flatMap (·.slots) } (g + 1) := by
          intro hm; have := hret hm; simp only [Returns, hrs] at this; exact this.2 hff
        obtain ⟨log', store, e'⟩ := ih _ (g + 1) g' r hf2 h
        simp only [e, e']; exact ⟨_, _, rfl⟩

/-! ### `Stuck` is decidable: one scan of the submission order -/

/-- walk the submission order from position `i`: stop with `true` at the first position the pool never runs, with `false` at
    the first raising task that ran (or at the end) -/
def stuckFrom (fails : Oracle) (σ : List Nat) : List Task → Nat → Bool
  | [], _ => false
  | t :: ts, i =>
    if σ.contains i then
      match failOf fails t with
      | some _ => false
      | none => stuckFrom fails σ ts (i + 1)
    else true

theorem stuckFrom_iff (fails : Oracle) (σ : List Nat) : ∀ (ts : List Task) (off : Nat),
    stuckFrom fails σ ts off = true ↔
      ∃ j, j < ts.length ∧ (off + j) ∉ σ ∧ ∀ i, i < j → (off + i) ∈ σ ∧ ∀ t, ts[i]? = some t → failOf fails t = none := by
  intro ts
  induction ts with
  | nil => intro off; simp [stuckFrom]
  | cons t ts ih =>
    intro off
    simp only [stuckFrom]
    by_cases hm : off ∈ σ
    · have hc : σ.contains off = true := by simpa using hm
      simp only [hc, if_true]
      cases hf : failOf fails t with
      | some x =>
        simp only []
        constructor
        · intro h; cases h
        · rintro ⟨j, _, hnot, hpre⟩
          cases j with
          | zero => exact absurd hm (by simpa using hnot)
          | succ j =>
            have := (hpre 0 (by omega)).2 t (by simp)
            rw [hf] at this; cases this
      | none =>
        simp only []
        rw [ih (off + 1)]
        constructor
        · rintro ⟨j, hj, hnot, hpre⟩
          refine ⟨j + 1, by simpa using hj, by rwa [show off + (j + 1) = off + 1 + j by omega], ?_⟩
          intro i hi
          cases i with
          | zero => exact ⟨by simpa using hm, fun u hu => by simp at hu; subst hu; exact hf⟩
          | succ i =>
            have := hpre i (by omega)
            rw [show off + 1 + i = off + (i + 1) by omega] at this
            exact ⟨this.1, fun u hu => this.2 u (by simpa using hu)⟩
        · rintro ⟨j, hj, hnot, hpre⟩
          cases j with
          | zero => exact absurd hm (by simpa using hnot)
          | succ j =>
            refine ⟨j, by simpa using hj, by rwa [show off + 1 + j = off + (j + 1) by omega], ?_⟩
            intro i hi
            have := hpre (i + 1) (by omega)
            rw [show off + (i + 1) = off + 1 + i by omega] at this
            exact ⟨this.1, fun u hu => this.2 u (by simpa using hu)⟩
    · have hc : σ.contains off = false := by simpa using hm
      simp only [hc]
      constructor
      · intro _
        exact ⟨0, by simp, by simpa using hm, fun i hi => absurd hi (by omega)⟩
      · intro _; rfl

theorem stuck_iff_stuckFrom (fails : Oracle) (σ : List Nat) (tasks : List Task) :
    Stuck fails σ tasks ↔ stuckFrom fails σ tasks 0 = true := by
  rw [stuckFrom_iff]
  simp only [Stuck, Nat.zero_add]

instance (fails : Oracle) (σ : List Nat) (tasks : List Task) : Decidable (Stuck fails σ tasks) :=
  decidable_of_iff _ (stuck_iff_stuckFrom fails σ tasks).symm

end PF.Errors
