import PfModel.Lemmas.CachePolicyShared
import PfModel.Model.CachePolicyAccess
/-!
C14, shared mode: the labelling of `lruBody`'s micro-steps with container accesses (`Model/CachePolicyAccess.lean`) is
well formed — one label function per micro-step, and a micro-step that the labelling calls "skipped" does not touch the shared
state.  Together with the trace comparison of the harness (`access_stream`: the accesses recorded on the real `LRUCache` equal
`lruAccesses`) this is what connects `lruBody` — the object `C14_shared_lru` is about — to the source statements.
-/
namespace PF.C14
open PF.Cache PF.Cache.Shared

/-- one label function per micro-step, for every operation -/
theorem C14_lru_labels_cover (op : Op) : (lruLabels op).length = (lruBody.micro op).length := by
  cases op <;> rfl

/-- a micro-step without a label (a statement not executed on that path) leaves the shared state as it is: every change of
    `_cache_dict` / `_cache_queue` in the model is an access the harness expects to see on the real object -/
theorem C14_lru_unlabelled_steps_are_noops (op : Op) :
    ∀ p ∈ List.zip (lruBody.micro op) (lruLabels op), ∀ x : LReg × LRU, p.2 x = [] → (p.1 x).2 = x.2 := by
  cases op with
  | get k =>
    intro p hp x hx
    simp only [lruBody, lruLabels, List.zip_cons_cons, List.zip_nil_right, List.mem_cons, List.not_mem_nil, or_false] at hp
    rcases hp with rfl | rfl | rfl | rfl
    · simp at hx
    · rfl
    · by_cases hh : x.1.hit <;> simp_all
    · by_cases hh : x.1.hit <;> simp_all
  | put k v d =>
    intro p hp x hx
    simp only [lruBody, lruLabels, List.zip_cons_cons, List.zip_nil_right, List.mem_cons, List.not_mem_nil, or_false] at hp
    rcases hp with rfl | rfl | rfl | rfl | rfl
    · simp at hx
    · simp at hx
    · simp only at hx
      split at hx
      · simp at hx
      · split at hx <;> simp at hx
    · simp only at hx ⊢
      cases he : x.1.evict with
      | none => simp
      | some e => simp [he] at hx
    · simp at hx
  | has k =>
    intro p hp x hx
    simp only [lruBody, lruLabels, List.zip_cons_cons, List.zip_nil_right, List.mem_cons, List.not_mem_nil, or_false] at hp
    subst hp; simp at hx
  | len =>
    intro p hp x hx
    simp only [lruBody, lruLabels, List.zip_cons_cons, List.zip_nil_right, List.mem_cons, List.not_mem_nil, or_false] at hp
    subst hp; simp at hx
  | clear =>
    intro p hp x hx
    simp only [lruBody, lruLabels, List.zip_cons_cons, List.zip_nil_right, List.mem_cons, List.not_mem_nil, or_false] at hp
    rcases hp with rfl | rfl <;> simp at hx
  | reopen m l => intro p hp; simp [lruBody, lruLabels] at hp

/-- what the labelling gives on the paths of `put`: resident key; new key with room; new key into a full cache -/
theorem C14_lru_put_accesses :
    lruAccesses ⟨2, [(0, 1)], [0]⟩ (.put 0 5 0) = ["_cache_dict.__contains__", "_cache_dict.__setitem__", "_cache_queue.remove", "_cache_queue.append"] ∧
    lruAccesses ⟨2, [(0, 1)], [0]⟩ (.put 1 5 0) = ["_cache_dict.__contains__", "_cache_dict.__setitem__", "_cache_queue.__len__", "_cache_queue.append"] ∧
    lruAccesses ⟨1, [(0, 1)], [0]⟩ (.put 1 5 0) =
      ["_cache_dict.__contains__", "_cache_dict.__setitem__", "_cache_queue.__len__", "_cache_queue.pop", "_cache_dict.pop", "_cache_queue.append"] := by
  decide

example : lruAccesses ⟨2, [(0, 1), (1, 2)], [0, 1]⟩ .clear =
    ["_cache_dict.keys", "_cache_dict.__delitem__", "_cache_dict.__delitem__", "_cache_queue.__delitem__"] := by decide
example : lruAccesses ⟨2, [(0, 1)], [0]⟩ (.get 1) = ["_cache_dict.__contains__"] := by decide

end PF.C14
