import PfModel.Lemmas.RewriteOps
import PfModel.Lemmas.RewriteRename
/-!
C10, further operations (`Model/RewriteOps.lean`): selective `update_scope` is an instance of renaming (so `C10_rename`
applies), with the names it leaves alone; `drop`, `add`, `replace` are conservative on every output whose cone avoids the
removed / added function.
-/
namespace PF.C10
open PF PF.Pipe PF.Rw

/-- `Pipeline.update_scope(scope, inputs, outputs, exclude)`, when it accepts, is the renaming by `scopeSelRho`. -/
theorem C10_scope_sel_is_rename (s : Option String) (I O : Sel) (ex : List String) (fs fs' : List RFunc)
    (h : updateScopeSel s I O ex fs = .ok fs') : fs' = renameAll (scopeSelRho s I O ex fs) fs := by
  unfold updateScopeSel at h
  split at h
  · cases h
  · split at h
    · cases h
    · split at h
      · cases h
      · split at h
        · cases h
        · split at h
          · cases h
          · injection h with h; exact h.symm

/-- **update_scope with inputs / outputs / exclude** (any of `None`, `"*"`, a set of names; adding, replacing or
    removing a scope, dotted scopes included): the re-scoped pipeline called for the renamed output with the re-keyed
    keywords returns what the original returns — or both refuse — whenever the renaming is injective on the names in use. -/
theorem C10_scope_sel (s : Option String) (I O : Sel) (ex : List String) (fs fs' : List RFunc)
    (h : updateScopeSel s I O ex fs = .ok fs') (N : String → Prop)
    (hinj : ∀ a b, N a → N b → scopeSelRho s I O ex fs a = scopeSelRho s I O ex fs b → a = b)
    (kw : List (String × Val)) (hfs : ∀ f ∈ fs, NamesIn N f.core) (hkw : ∀ kv ∈ kw, N kv.1) (n : Nat) (o : String) (ho : N o) :
    Agree (eval fs' (kw.map (rkv (scopeSelRho s I O ex fs))) n (scopeSelRho s I O ex fs o)) (eval fs kw n o) := by
  rw [C10_scope_sel_is_rename s I O ex fs fs' h]
  exact eval_rename _ N hinj fs kw hfs hkw n o ho

/-- **what a scope leaves alone**: an excluded name, and a name that is neither a root argument nor an output (a
    parameter that is bound wherever it occurs), keep their names whatever `inputs` / `outputs` say. -/
theorem C10_scope_sel_untouched (s : Option String) (I O : Sel) (ex : List String) (fs : List RFunc) (n : String)
    (h : n ∈ ex ∨ (n ∉ rootArgs fs ∧ n ∉ allOutputs fs)) : scopeSelRho s I O ex fs n = n := by
  have hn : (scopeSelNames I O ex fs).contains n = false := by
    rw [Bool.eq_false_iff]
    intro hc
    simp only [scopeSelNames, List.contains_eq_mem, List.mem_filter, List.mem_append, decide_eq_true_eq,
      Bool.not_eq_true', decide_eq_false_iff_not] at hc
    rcases h with h | ⟨h1, h2⟩
    · exact hc.2 h
    · rcases hc.1 with hc | hc
      · exact h1 (pick_subset I _ n hc)
      · exact h2 (pick_subset O _ n hc)
  simp only [scopeSelRho, hn, Bool.false_eq_true, ↓reduceIte]

/-- `"*"` for both with nothing excluded is the renaming of `update_scope(scope, "*", "*")` (`scopeRho`). -/
theorem C10_scope_sel_all (s : Option String) (fs : List RFunc) : scopeSelRho s .all .all [] fs = scopeRho s fs := by
  funext n
  simp [scopeSelRho, scopeRho, scopeSelNames, Sel.pick]

/-- **drop**: `Pipeline.drop(output_name=o)`, when it accepts, removes exactly the producer of `o`; every output whose
    cone `C` (closed under "is a parameter of the producer") contains no output and no default of the dropped function
    evaluates in the remaining pipeline as before (same value, same refusal), for every keyword set. -/
theorem C10_drop (o : String) (fs r : List RFunc) (h : dropF o fs = .ok r) (hc : ConsistentDefaults (cores fs))
    (kw : List (String × Val)) (C : String → Prop)
    (hclosed : ∀ x f, C x → rproducer fs x = some f → ∀ p ∈ f.core.params, C p.1) :
    ∃ f, rproducer fs o = some f ∧ r = fs.filter (fun g => !(sameF g f)) ∧
      ((∀ x, C x → ∀ g ∈ fs, sameF g f = true → x ∉ g.core.outputs ∧ ∀ v, (x, v) ∉ g.core.defaults) →
        ∀ (n : Nat) (o' : String), C o' → eval r kw n o' = eval fs kw n o') := by
  unfold dropF at h
  split at h
  · cases h
  · next f hf =>
    have hr := validateP_ok _ _ h
    refine ⟨f, hf, hr, ?_⟩
    intro hfree n o' ho'
    rw [hr]
    apply eval_filter_cone fs _ kw C hc hclosed _ n o' ho'
    intro x hx g hg hP
    exact hfree x hx g hg (by simpa using hP)

/-- **add**: `Pipeline.add(f)`, when it accepts, appends `f`; every output whose cone contains no output and no default
    of the new function evaluates as before. -/
theorem C10_add (nf : RFunc) (fs r : List RFunc) (h : addF nf fs = .ok r) (hc : ConsistentDefaults (cores (fs ++ [nf])))
    (kw : List (String × Val)) (C : String → Prop)
    (hclosed : ∀ x f, C x → rproducer fs x = some f → ∀ p ∈ f.core.params, C p.1)
    (hfree : ∀ x, C x → x ∉ nf.core.outputs ∧ ∀ v, (x, v) ∉ nf.core.defaults)
    (n : Nat) (o : String) (ho : C o) : r = fs ++ [nf] ∧ eval r kw n o = eval fs kw n o := by
  have hr : r = fs ++ [nf] := by
    unfold addF at h
    split at h
    · cases h
    · split at h
      · cases h
      · exact validateP_ok _ _ h
  subst hr
  refine ⟨rfl, eval_join fs [nf] kw C hc hclosed ?_ n o ho⟩
  intro x hx g hg
  rw [List.mem_singleton] at hg
  subst hg
  exact hfree x hx

/-- **replace**: `Pipeline.replace(new)`, when it accepts, is the pipeline without the old producer of `new`'s output
    name, followed by `new`. -/
theorem C10_replace (nf : RFunc) (fs r : List RFunc) (h : replaceF nf fs = .ok r) :
    ∃ f, producerOfName fs nf.core.outputs = some f ∧ r = fs.filter (fun g => !(sameF g f)) ++ [nf] := by
  unfold replaceF at h
  split at h
  · cases h
  · next f hf =>
    split at h
    · cases h
    · next r0 hr0 =>
      have h0 := validateP_ok _ _ hr0
      subst h0
      refine ⟨f, hf, ?_⟩
      unfold addF at h
      split at h
      · cases h
      · split at h
        · cases h
        · exact validateP_ok _ _ h

/-! Non-vacuity.  String splitting (`dotSplit`, `prependScope`) is not kernel-reducible, so the closed witnesses of the
    accepting paths use parameterless functions (no parameter scope to compute); the accepting paths on real pipelines
    are exercised by the driver on every generated case. -/
private def f0 : RFunc := embed { name := "f0", params := [("r0", "r0")], outputs := ["o0"], defaults := [], bound := [] }
private def f1 : RFunc := embed { name := "f1", params := [("o0", "o0"), ("r1", "r1")], outputs := ["o1"], defaults := [], bound := [("r1", .str "b")] }
private def n0 : RFunc := embed { name := "n0", params := [], outputs := ["o0"], defaults := [], bound := [] }
private def n2 : RFunc := embed { name := "n2", params := [], outputs := ["o2"], defaults := [], bound := [] }

example : (updateScopeSel (some "S") .none .none [] [n0, n2]).toOption.map allOutputs = some ["o0", "o2"] := by decide
example : (dropF "o0" [n0, n2]).toOption.map allOutputs = some ["o2"] := by decide
example : (addF n2 [n0]).toOption.map allOutputs = some ["o0", "o2"] := by decide
example : (replaceF { n2 with core := { n2.core with outputs := ["o0"] } } [n0, n2]).toOption.map (fun r => r.map (·.core.name)) =
    some ["n2", "n2"] := by decide
/-- `r1` is bound wherever it occurs: no selection renames it -/
example : scopeSelRho (some "S") .all .all [] [f0, f1] "r1" = "r1" := C10_scope_sel_untouched _ _ _ _ _ _ (Or.inr (by decide))
/-- the cone {o2} avoids the dropped `n0` -/
example : ∀ x, x = "o2" → ∀ g ∈ [n0, n2], sameF g n0 = true → x ∉ g.core.outputs ∧ ∀ v, (x, v) ∉ g.core.defaults := by
  intro x hx g hg hs
  subst hx
  simp only [List.mem_cons, List.mem_nil_iff, or_false] at hg
  rcases hg with rfl | rfl
  · exact ⟨by decide, fun v h => by simp [n0, embed] at h⟩
  · exact absurd hs (by decide)

end PF.C10
