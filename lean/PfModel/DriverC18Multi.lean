import PfModel.DriverVal
import PfModel.Model.LazyMulti
import PfModel.Model.PipeCache
/-! Driver entry `"msession"` of C18: one process with several lazy pipelines (`PF.Lazy.GSt`): calls on any of them, `evaluate()`s
    and `construct_dag()` blocks, in any interleaving.
    Request: `{"pipes": [{"funcs": […], "own": bool, "cached": [[out, …], …]}, …],
               "ops": [{"op": "enter"} | {"op": "exit"} | {"op": "call", "p": i, "out": name | [names], "kw": [[k, v], …]} | {"op": "eval", "h": k}]}`;
    `h` counts the calls (0-based, refused ones included).  Answer: one observation per op, the node table, per pipeline the
    hypothesis `PF.PipeCache.WF` evaluated and the length of its own cache. -/
namespace PF.DrvC18Multi
open Lean PF PF.Drv PF.Pipe PF.Lazy

def getFunc (j : Json) : R Func := do
  return { name := ← strF j "name", params := ← listF (asPair asStr asStr) j "params", outputs := ← listF asStr j "outputs",
           defaults := (← optF getKw j "defaults").getD [], bound := (← optF getKw j "bound").getD [] }

def putErr : Err → Json
  | .fuel => jObj [("err", jStr "RecursionError")]
  | .missing _ => jObj [("err", jStr "ValueError")]
  | .noFunc _ => jObj [("err", jStr "KeyError")]
  | .unused ps => jObj [("err", jStr "UnusedParametersError"), ("unused", jList jStr ps)]
  | .outputInKwargs => jObj [("err", jStr "ValueError")]
  | .mapspec => jObj [("err", jStr "RuntimeError")]

def putEErr : EErr → Json
  | .fuel => jObj [("err", jStr "RecursionError")]
  | .dangling _ => jObj [("err", jStr "KeyError")]
  | .notTuple => jObj [("err", jStr "TypeError")]

def getReq (j : Json) : R Req := do
  match j with
  | .str s => return .name s
  | _ => return .whole (← asList asStr j)

def putLArg : LArg → Json
  | .val v => jObj [("val", putVal v)]
  | .ref i => jObj [("ref", jNat i)]

def putNode : Lazy.Node → Json
  | .call f args => jObj [("kind", jStr "call"), ("f", jStr f.name), ("args", jList (fun (_, a) => putLArg a) args)]
  | .pick f src name => jObj [("kind", jStr "pick"), ("f", jStr f.name), ("args", jArr [putLArg src, jObj [("val", putVal (.str name))]])]

def putGraph (t : GTG) : Json :=
  jObj [("nodes", jList jNat t.gnodes), ("edges", jList (fun (a, b) => jArr [jNat a, jNat b]) t.edges),
        ("cache", jNat (firstCacheLen t)), ("owners", jList (fun (i, c) => jArr [jNat i, jNat c.length]) t.caches)]

/-- one step of a session; `handles` are the objects the calls returned so far -/
def step (fss : List (List Func)) (g : GSt) (handles : List (Option LArg)) (op : Json) : R (Json × GSt × List (Option LArg)) := do
  match ← strF op "op" with
  | "enter" => return (jObj [("ok", jBool true)], genter g, handles)
  | "exit" =>
    match g.tg with
    | none => .error "exit without enter"
    | some t => return (putGraph t, gexit g, handles)
  | "call" =>
    let i ← natF op "p"
    let kw ← getKw (← fld op "kw")
    let req ← getReq (← fld op "out")
    match fss[i]? with
    | none => .error s!"call on pipeline {i}: no such pipeline"
    | some fs =>
      match gcall fss i kw req g with
      | .error e => return (putErr e, g, handles ++ [none])
      | .ok (a, g1) =>
        let spec : Json := match req with
          | .name n => match compose fs kw (fuelFor fs) n with | .ok v => putVal v | .error _ => Json.null
          | .whole _ => Json.null
        let eager : Json := match runTop fs kw req with
          | .ok o => jObj [("value", putVal o.value), ("calls", jList jStr o.calls)]
          | .error e => putErr e
        return (jObj [("ret", putLArg a), ("den", jOpt putVal (den g1.nodes a)), ("spec", spec), ("eager", eager),
                      ("count", jNat g1.nodes.length), ("log", jList jStr (callNames g1.nodes g1.ev.log))], g1, handles ++ [some a])
  | "eval" =>
    let h ← natF op "h"
    match handles[h]? with
    | some (some a) =>
      match geval a g with
      | .error e => return (putEErr e, g, handles)
      | .ok (v, g1) => return (jObj [("value", putVal v), ("log", jList jStr (callNames g1.nodes g1.ev.log)),
                                     ("ids", jList jNat g1.ev.log)], g1, handles)
    | _ => .error s!"eval of handle {h}: no such object"
  | o => .error s!"unknown op {o}"

def session (fss : List (List Func)) : List Json → GSt → List (Option LArg) → List Json → R (List Json × GSt)
  | [], g, _, acc => .ok (acc.reverse, g)
  | op :: ops, g, hs, acc => do
    let (r, g1, hs1) ← step fss g hs op
    session fss ops g1 hs1 (r :: acc)

def getPipeCfg (j : Json) : R (List Func × Bool × List (List String)) := do
  return (← listF getFunc j "funcs", (← optF asBool j "own").getD false, (← optF (asList (asList asStr)) j "cached").getD [])

def handle (a : Json) : R Json := do
  let cfg ← listF getPipeCfg a "pipes"
  let ops ← asArr (← fld a "ops")
  let fss := cfg.map (·.1)
  let (rs, g) ← session fss ops (ginit (cfg.map (·.2))) [] []
  let wf := fun (fs : List Func) => PipeCache.rankedB fs && PipeCache.uniqueOutB fs && PipeCache.consistentDefaultsB PipeCache.encVal fs
  return jObj [("ops", jArr rs), ("table", jList putNode g.nodes), ("wf", jList (fun fs => jBool (wf fs)) fss),
               ("own", jList (fun (p : PSt) => jOpt (fun c => jNat c.length) p.own) g.pipes)]

end PF.DrvC18Multi
