import PfModel.Model.ResourcesHeap
import PfModel.Lemmas.Resources
/-! Helper lemmas for `Props/C20Heap.lean`: the primitives of the heap, `Ext`, and the specification of every heap program. -/
namespace PF.ResH
open PF.Res

/-! ### lists -/

theorem getD_append_lt {α} (l t : List α) (i : Nat) (d : α) (h : i < l.length) : (l ++ t).getD i d = l.getD i d := by
  simp [List.getD_eq_getElem?_getD, List.getElem?_append_left h]

theorem getD_append_len {α} (l : List α) (x d : α) : (l ++ [x]).getD l.length d = x := by
  simp [List.getD_eq_getElem?_getD]

theorem getD_set_ne {α} (l : List α) (i j : Nat) (x d : α) (h : i ≠ j) : (l.set i x).getD j d = l.getD j d := by
  simp [List.getD_eq_getElem?_getD, List.getElem?_set_ne h]

theorem getD_set_eq {α} (l : List α) (i : Nat) (x d : α) (h : i < l.length) : (l.set i x).getD i d = x := by
  simp [List.getD_eq_getElem?_getD, h]

/-! ### primitives -/

@[simp] theorem obj_newDict (h : Heap) (d : D) (o : Ref) : (newDict h d).2.obj o = h.obj o := rfl
@[simp] theorem recs_newDict (h : Heap) (d : D) : (newDict h d).2.recs = h.recs := rfl
@[simp] theorem dicts_newDict (h : Heap) (d : D) : (newDict h d).2.dicts = h.dicts ++ [d] := rfl
@[simp] theorem fst_newDict (h : Heap) (d : D) : (newDict h d).1 = h.dicts.length := rfl
@[simp] theorem dict_newRec (h : Heap) (c : Rec) (r : Ref) : (newRec h c).2.dict r = h.dict r := rfl
@[simp] theorem dicts_newRec (h : Heap) (c : Rec) : (newRec h c).2.dicts = h.dicts := rfl
@[simp] theorem recs_newRec (h : Heap) (c : Rec) : (newRec h c).2.recs = h.recs ++ [c] := rfl
@[simp] theorem fst_newRec (h : Heap) (c : Rec) : (newRec h c).1 = h.recs.length := rfl
@[simp] theorem dict_setObj (h : Heap) (o : Ref) (c : Rec) (r : Ref) : (setObj h o c).dict r = h.dict r := rfl
@[simp] theorem dicts_setObj (h : Heap) (o : Ref) (c : Rec) : (setObj h o c).dicts = h.dicts := rfl
@[simp] theorem recsLen_setObj (h : Heap) (o : Ref) (c : Rec) : (setObj h o c).recs.length = h.recs.length := by
  simp [setObj]
@[simp] theorem obj_setItem (h : Heap) (r : Ref) (k : String) (v : Int) (o : Ref) : (setItem h r k v).obj o = h.obj o := rfl
@[simp] theorem recs_setItem (h : Heap) (r : Ref) (k : String) (v : Int) : (setItem h r k v).recs = h.recs := rfl
@[simp] theorem dictsLen_setItem (h : Heap) (r : Ref) (k : String) (v : Int) :
    (setItem h r k v).dicts.length = h.dicts.length := by
  simp [setItem]

theorem dict_newDict_lt (h : Heap) (d : D) (r : Ref) (hr : r < h.dicts.length) : (newDict h d).2.dict r = h.dict r :=
  getD_append_lt _ _ _ _ hr
@[simp] theorem dict_newDict_new (h : Heap) (d : D) : (newDict h d).2.dict h.dicts.length = d := getD_append_len _ _ _
theorem obj_newRec_lt (h : Heap) (c : Rec) (o : Ref) (ho : o < h.recs.length) : (newRec h c).2.obj o = h.obj o :=
  getD_append_lt _ _ _ _ ho
@[simp] theorem obj_newRec_new (h : Heap) (c : Rec) : (newRec h c).2.obj h.recs.length = c := getD_append_len _ _ _
theorem obj_setObj_ne (h : Heap) (o o' : Ref) (c : Rec) (hne : o ≠ o') : (setObj h o c).obj o' = h.obj o' :=
  getD_set_ne _ _ _ _ _ hne
theorem obj_setObj_eq (h : Heap) (o : Ref) (c : Rec) (ho : o < h.recs.length) : (setObj h o c).obj o = c :=
  getD_set_eq _ _ _ _ ho
theorem dict_setItem_ne (h : Heap) (r r' : Ref) (k : String) (v : Int) (hne : r ≠ r') :
    (setItem h r k v).dict r' = h.dict r' := getD_set_ne _ _ _ _ _ hne
theorem dict_setItem_eq (h : Heap) (r : Ref) (k : String) (v : Int) (hr : r < h.dicts.length) :
    (setItem h r k v).dict r = aset (h.dict r) k v := getD_set_eq _ _ _ _ hr

/-! ### `Ext` -/

theorem Ext.refl (h : Heap) : Ext h h := ⟨Nat.le_refl _, Nat.le_refl _, fun _ _ => rfl, fun _ _ => rfl⟩

theorem Ext.trans {a b c : Heap} (x : Ext a b) (y : Ext b c) : Ext a c :=
  ⟨Nat.le_trans x.recsLen y.recsLen, Nat.le_trans x.dictsLen y.dictsLen,
   fun o ho => (y.obj o (Nat.lt_of_lt_of_le ho x.recsLen)).trans (x.obj o ho),
   fun r hr => (y.dict r (Nat.lt_of_lt_of_le hr x.dictsLen)).trans (x.dict r hr)⟩

theorem ext_newDict (h : Heap) (d : D) : Ext h (newDict h d).2 :=
  ⟨Nat.le_refl _, by simp, fun _ _ => rfl, fun r hr => dict_newDict_lt h d r hr⟩

theorem ext_newRec (h : Heap) (c : Rec) : Ext h (newRec h c).2 :=
  ⟨by simp, Nat.le_refl _, fun o ho => obj_newRec_lt h c o ho, fun _ _ => rfl⟩

/-- a write to an instance that did not exist in `h0` keeps `Ext h0` -/
theorem ext_setObj_fresh {h0 h : Heap} (x : Ext h0 h) (o : Ref) (c : Rec) (ho : h0.recs.length ≤ o) :
    Ext h0 (setObj h o c) :=
  ⟨by simpa using x.recsLen, x.dictsLen,
   fun o' ho' => (obj_setObj_ne h o o' c (Nat.ne_of_gt (Nat.lt_of_lt_of_le ho' ho))).trans (x.obj o' ho'),
   fun r hr => x.dict r hr⟩

/-- a write into a dict object that did not exist in `h0` keeps `Ext h0` -/
theorem ext_setItem_fresh {h0 h : Heap} (x : Ext h0 h) (r : Ref) (k : String) (v : Int) (hr : h0.dicts.length ≤ r) :
    Ext h0 (setItem h r k v) :=
  ⟨x.recsLen, by simpa using x.dictsLen, fun o ho => x.obj o ho,
   fun r' hr' => (dict_setItem_ne h r r' k v (Nat.ne_of_gt (Nat.lt_of_lt_of_le hr' hr))).trans (x.dict r' hr')⟩

/-- under `Ext`, every old instance looks the same -/
theorem view_ext {h h' : Heap} (x : Ext h h') (wf : WF h) (o : Ref) (ho : o < h.recs.length) : view h' o = view h o := by
  simp only [view, x.obj o ho, x.dict _ (wf o ho)]

theorem wf_ext_old {h h' : Heap} (x : Ext h h') (wf : WF h) (o : Ref) (ho : o < h.recs.length) :
    (h'.obj o).ex < h.dicts.length := by
  rw [x.obj o ho]; exact wf o ho

/-! ### the constructor -/

theorem valid_with_extra (f : R) (e : List (String × Int)) : Valid { f with extra := e } = Valid f := rfl

theorem construct_some (h : Heap) (f : R) (r : Ref) :
    Ext h (construct h f (some r)).2 ∧ (construct h f (some r)).2.recs.length = h.recs.length + 1 ∧
    (construct h f (some r)).2.dicts = h.dicts ∧
    (construct h f (some r)).1 = (if Valid f then some h.recs.length else none) ∧
    (construct h f (some r)).2.obj h.recs.length = { f := { f with extra := [] }, ex := r } := by
  refine ⟨ext_newRec _ _, by simp [construct], rfl, rfl, ?_⟩
  simp [construct]

theorem construct_none (h : Heap) (f : R) :
    Ext h (construct h f none).2 ∧ (construct h f none).2.recs.length = h.recs.length + 1 ∧
    (construct h f none).2.dicts = h.dicts ++ [[]] ∧
    (construct h f none).1 = (if Valid f then some h.recs.length else none) ∧
    (construct h f none).2.obj h.recs.length = { f := { f with extra := [] }, ex := h.dicts.length } := by
  refine ⟨(ext_newDict _ _).trans (ext_newRec _ _), by simp [construct], rfl, rfl, ?_⟩
  simp only [construct]
  exact obj_newRec_new (newDict h []).2 _


/-- the outcome `o` of a combinator run from `h` to `h'` is a NEW instance holding a NEW `extra_args` object -/
structure FreshRes (h h' : Heap) (o : Nat) : Prop where
  objNew : h.recs.length ≤ o
  objIn : o < h'.recs.length
  exNew : h.dicts.length ≤ (h'.obj o).ex
  exIn : (h'.obj o).ex < h'.dicts.length

/-- reading an instance whose `__dict__` and dict content are known -/
theorem view_of_obj {h' : Heap} {o : Nat} {f : R} {e : Ref} {x : D}
    (ho : h'.obj o = { f := { f with extra := [] }, ex := e }) (hd : h'.dict e = x) : view h' o = { f with extra := x } := by
  simp only [view, ho, hd]

/-! ### dict() / from_dict / with_defaults -/

theorem foldl_setFieldH_tag (e : Ref) (a : R) (st : R × Option Ref) :
    ((toDict a).map (tagField e)).foldl setFieldH st = (overlay st.1 a, some e) := by
  rcases a with ⟨c, cn, n, m, g, t, p, ex, mo⟩
  cases c <;> cases cn <;> cases n <;> cases m <;> cases g <;> cases t <;> cases p <;>
    simp [toDict, optF, setField, setFieldH, tagField, overlay]

theorem overlay_init (a : R) : overlay {} a = a := by
  rcases a with ⟨c, cn, n, m, g, t, p, e, mo⟩
  cases c <;> cases cn <;> cases n <;> cases m <;> cases g <;> cases t <;> cases p <;> simp [overlay]

theorem withDefaultsH_spec (h : Heap) (wf : WF h) (self d : Nat) (hs : self < h.recs.length) (_hd : d < h.recs.length) :
    Ext h (withDefaultsH h self (some d)).2 ∧
    (withDefaultsH h self (some d)).1 = (withDefaults? (view h self) (some (view h d))).map (fun _ => h.recs.length) ∧
    FreshRes h (withDefaultsH h self (some d)).2 h.recs.length ∧
    (∀ w, withDefaults? (view h self) (some (view h d)) = some w →
      view (withDefaultsH h self (some d)).2 h.recs.length = w) := by
  -- the two deep copies
  have e1 : Ext h (dictH h d).2 := ext_newDict _ _
  have hself : (dictH h d).2.obj self = h.obj self := rfl
  have hex : (h.obj self).ex < h.dicts.length := wf self hs
  have hd1 : (dictH h d).2.dict (h.obj self).ex = h.dict (h.obj self).ex := e1.dict _ hex
  have hv1 : view (dictH h d).2 self = view h self := by simp only [view, hself, hd1]
  have e2 : Ext (dictH h d).2 (dictH (dictH h d).2 self).2 := ext_newDict _ _
  have hfold : ((dictH h d).1 ++ (dictH (dictH h d).2 self).1).foldl setFieldH ({}, none)
      = (overlay (overlay {} (view h d)) (view h self), some (h.dicts.length + 1)) := by
    rw [List.foldl_append]
    have a1 : (dictH h d).1 = (toDict (view h d)).map (tagField h.dicts.length) := rfl
    have a2 : (dictH (dictH h d).2 self).1 = (toDict (view (dictH h d).2 self)).map (tagField (h.dicts.length + 1)) := by
      simp [dictH, view]
    rw [a1, a2, foldl_setFieldH_tag, foldl_setFieldH_tag, hv1]
  have hfun : withDefaults? (view h self) (some (view h d)) = mk? (overlay (overlay {} (view h d)) (view h self)) := by
    simp only [withDefaults?, fromDict?, List.foldl_append, foldl_toDict]
  have hrecs : (dictH (dictH h d).2 self).2.recs = h.recs := rfl
  have hdicts : (dictH (dictH h d).2 self).2.dicts = h.dicts ++ [h.dict (h.obj d).ex] ++ [h.dict (h.obj self).ex] := by
    simp [dictH]; exact hd1
  have out : withDefaultsH h self (some d)
      = construct (dictH (dictH h d).2 self).2 (overlay (overlay {} (view h d)) (view h self)) (some (h.dicts.length + 1)) := by
    simp only [withDefaultsH, fromDictH, hfold]
  obtain ⟨c1, c2, c3, c4, c5⟩ := construct_some (dictH (dictH h d).2 self).2
    (overlay (overlay {} (view h d)) (view h self)) (h.dicts.length + 1)
  rw [hrecs] at c2 c4 c5
  rw [out]
  refine ⟨(e1.trans e2).trans c1, ?_, ⟨Nat.le_refl _, by omega, ?_, ?_⟩, ?_⟩
  · rw [c4, hfun]; simp only [mk?]; split <;> rfl
  · rw [c5]; exact Nat.le_succ _
  · rw [c5, c3, hdicts]; simp
  · intro w hw
    rw [hfun] at hw
    simp only [mk?] at hw
    split at hw
    · cases hw
      have hx : (construct (dictH (dictH h d).2 self).2 (overlay (overlay {} (view h d)) (view h self))
          (some (h.dicts.length + 1))).2.dict (h.dicts.length + 1) = (view h self).extra := by
        have := getD_append_len (h.dicts ++ [h.dict (h.obj d).ex]) (h.dict (h.obj self).ex) []
        simp only [List.length_append, List.length_cons, List.length_nil, Nat.zero_add] at this
        rw [Heap.dict, c3, hdicts, this]; rfl
      rw [view_of_obj c5 hx]
      rfl
    · cases hw

/-- `from_dict(data)`: the instance holds the dict OBJECT of the last `extra_args` entry of `data` (aliased, by construction of the
    dataclass), or a new empty one when there is none -/
theorem fromDictH_ex (h : Heap) (data : KwDict) :
    ((fromDictH h data).2.obj h.recs.length).ex =
      (match (data.foldl setFieldH ({}, none)).2 with | some r => r | none => h.dicts.length) ∧
    (fromDictH h data).1 = (if Valid (data.foldl setFieldH ({}, none)).1 then some h.recs.length else none) ∧
    Ext h (fromDictH h data).2 := by
  simp only [fromDictH]
  cases hq : (data.foldl setFieldH ({}, none)).2 with
  | none =>
    obtain ⟨c1, _, _, c4, c5⟩ := construct_none h (data.foldl setFieldH ({}, none)).1
    exact ⟨by rw [c5], c4, c1⟩
  | some r =>
    obtain ⟨c1, _, _, c4, c5⟩ := construct_some h (data.foldl setFieldH ({}, none)).1 r
    exact ⟨by rw [c5], c4, c1⟩

/-! ### update -/

structure UInv (h0 h : Heap) (data : Nat) : Prop where
  ext : Ext h0 h
  dlo : h0.recs.length ≤ data
  dhi : data < h.recs.length
  elo : h0.dicts.length ≤ (h.obj data).ex
  ehi : (h.obj data).ex < h.dicts.length

/-- the dict objects named by the keywords exist -/
def UpdOK (h : Heap) : HUpd → Prop
  | .extraObj v => v < h.dicts.length
  | .plain _ => True

theorem mergeNew_inv {h0 h : Heap} {data : Nat} (i : UInv h0 h data) (value : D) :
    UInv h0 (mergeNew h data value) data ∧
    view (mergeNew h data value) data
      = { view h data with extra := value.foldl (fun a kv => aset a kv.1 kv.2) (view h data).extra } := by
  have hobj : (mergeNew h data value).obj data = { (h.obj data) with ex := h.dicts.length } := by
    simp only [mergeNew]; exact obj_setObj_eq _ _ _ (by simpa using i.dhi)
  refine ⟨⟨?_, i.dlo, ?_, ?_, ?_⟩, ?_⟩
  · exact ext_setObj_fresh (i.ext.trans (ext_newDict _ _)) _ _ i.dlo
  · simpa [mergeNew] using i.dhi
  · rw [hobj]; exact i.ext.dictsLen
  · rw [hobj]; simp [mergeNew]
  · simp only [view, hobj]
    simp [mergeNew]

theorem applyUpd_with_extra (f : R) (x : List (String × Int)) (u : Upd)
    (h1 : ∀ l, u ≠ .field (.extra l)) (h2 : ∀ k v, u ≠ .unknown k v) :
    ({ applyUpd f u with extra := x } : R) = applyUpd { f with extra := x } u := by
  cases u with
  | field fl => cases fl <;> first | rfl | exact absurd rfl (h1 _)
  | unknown k v => exact absurd rfl (h2 k v)
  | _ => rfl

theorem updStep_plain {h : Heap} {data : Nat} (u : Upd) (h1 : ∀ l, u ≠ .field (.extra l)) (h2 : ∀ k v, u ≠ .unknown k v) :
    updStep h data (.plain u) = setObj h data { (h.obj data) with f := applyUpd (h.obj data).f u } := by
  cases u with
  | field fl => cases fl <;> first | rfl | exact absurd rfl (h1 _)
  | unknown k v => exact absurd rfl (h2 k v)
  | _ => rfl

theorem updStep_inv {h0 h : Heap} {data : Nat} (i : UInv h0 h data) (u : HUpd) (ok : UpdOK h0 u) :
    UInv h0 (updStep h data u) data ∧ view (updStep h data u) data = applyUpd (view h data) (toUpd h0 u) := by
  cases u with
  | extraObj v =>
    have : h.dict v = h0.dict v := i.ext.dict v ok
    simp only [updStep, toUpd, this]
    exact mergeNew_inv i _
  | plain u =>
    by_cases h1 : ∃ l, u = .field (.extra l)
    · obtain ⟨l, rfl⟩ := h1
      exact mergeNew_inv i l
    · by_cases h2 : ∃ k v, u = .unknown k v
      · obtain ⟨k, v, rfl⟩ := h2
        simp only [updStep, toUpd]
        refine ⟨⟨ext_setItem_fresh i.ext _ _ _ i.elo, i.dlo, i.dhi, i.elo, ?_⟩, ?_⟩
        · simpa using i.ehi
        · simp only [view, obj_setItem, dict_setItem_eq h _ k v i.ehi]; rfl
      · have n1 : ∀ l, u ≠ .field (.extra l) := fun l e => h1 ⟨l, e⟩
        have n2 : ∀ k v, u ≠ .unknown k v := fun k v e => h2 ⟨k, v, e⟩
        rw [updStep_plain u n1 n2]
        have hobj := obj_setObj_eq h data { (h.obj data) with f := applyUpd (h.obj data).f u } i.dhi
        refine ⟨⟨ext_setObj_fresh i.ext _ _ i.dlo, i.dlo, by simpa using i.dhi, ?_, ?_⟩, ?_⟩
        · rw [hobj]; exact i.elo
        · rw [hobj]; exact i.ehi
        · simp only [view, hobj, dict_setObj, toUpd]
          exact applyUpd_with_extra _ _ u n1 n2

theorem updFold_inv {h0 : Heap} {data : Nat} (kw : List HUpd) (ok : ∀ u ∈ kw, UpdOK h0 u) :
    ∀ h, UInv h0 h data →
      UInv h0 (kw.foldl (fun h u => updStep h data u) h) data ∧
      view (kw.foldl (fun h u => updStep h data u) h) data = (kw.map (toUpd h0)).foldl applyUpd (view h data) := by
  induction kw with
  | nil => intro h i; exact ⟨i, rfl⟩
  | cons u t ih =>
    intro h i
    obtain ⟨i1, v1⟩ := updStep_inv i u (ok u (by simp))
    obtain ⟨i2, v2⟩ := ih (fun u' hu' => ok u' (by simp [hu'])) _ i1
    simp only [List.foldl_cons, List.map_cons]
    exact ⟨i2, by rw [v2, v1]⟩

theorem updateH_spec (h : Heap) (self : Nat) (kw : List HUpd)
    (ok : ∀ u ∈ kw, UpdOK h u) :
    ∃ o, Ext h (updateH h self kw).2 ∧
      (updateH h self kw).1 = (update (view h self) (kw.map (toUpd h))).1.map (fun _ => o) ∧
      FreshRes h (updateH h self kw).2 o ∧
      (∀ w, (update (view h self) (kw.map (toUpd h))).1 = some w → view (updateH h self kw).2 o = w) := by
  -- the three statements before the loop
  let n := h.recs.length
  let m := h.dicts.length
  let h3 : Heap := setObj (newDict (newRec h (h.obj self)).2 (h.dict (h.obj self).ex)).2 n { (h.obj self) with ex := m }
  have hh3 : updateH h self kw =
      (let h4 := kw.foldl (fun h u => updStep h n u) h3
       construct h4 (h4.obj n).f (some (h4.obj n).ex)) := by
    simp only [updateH, fst_newRec, fst_newDict, dicts_newRec, obj_newDict, obj_newRec_new, dict_newRec]
    rfl
  have hobj3 : h3.obj n = { (h.obj self) with ex := m } := obj_setObj_eq _ _ _ (by simp [n])
  have i3 : UInv h h3 n := by
    refine ⟨ext_setObj_fresh ((ext_newRec _ _).trans (ext_newDict _ _)) _ _ (Nat.le_refl _), Nat.le_refl _, ?_, ?_, ?_⟩
    · simp [h3, n]
    · rw [hobj3]; exact Nat.le_refl _
    · rw [hobj3]; simp [h3, m]
  have v3 : view h3 n = view h self := by
    simp only [view, hobj3]
    have : h3.dict m = h.dict (h.obj self).ex := by
      simp only [h3, dict_setObj]
      exact dict_newDict_new (newRec h (h.obj self)).2 _
    rw [this]
  obtain ⟨i4, v4⟩ := updFold_inv (data := n) kw ok h3 i3
  rw [v3] at v4
  generalize hh4 : kw.foldl (fun h u => updStep h n u) h3 = h4 at i4 v4 hh3
  obtain ⟨c1, c2, c3, c4, c5⟩ := construct_some h4 (h4.obj n).f (h4.obj n).ex
  have hval : Valid (h4.obj n).f = Valid ((kw.map (toUpd h)).foldl applyUpd (view h self)) := by
    rw [← v4]; rfl
  refine ⟨h4.recs.length, ?_, ?_, ⟨?_, ?_, ?_, ?_⟩, ?_⟩
  · rw [hh3]; exact i4.ext.trans c1
  · rw [hh3]; simp only [c4, update, mk?, hval]; split <;> rfl
  · exact i4.ext.recsLen
  · rw [hh3]; simp only [c2]; omega
  · rw [hh3]; simp only [c5]; exact i4.elo
  · rw [hh3]; simp only [c5, c3]; exact i4.ehi
  · intro w hw
    rw [hh3]
    simp only [update, mk?] at hw
    split at hw
    · cases hw
      rw [← v4]
      simp only [view, c5, Heap.dict, c3]
    · cases hw

/-! ### combine_max -/

theorem aset_absent (a : List (String × Int)) (k : String) (v : Int) (hk : alookup a k = none) : aset a k v = a ++ [(k, v)] := by
  induction a with
  | nil => rfl
  | cons p t ih =>
    simp only [alookup] at hk
    simp only [aset]
    split at hk
    · cases hk
    · rename_i hne
      simp only [hne, if_false, List.cons_append, ih hk]

theorem insMissing_spec (acc : Nat) (items : D) : ∀ h : Heap, acc < h.dicts.length →
    (insMissing h acc items).recs = h.recs ∧ (insMissing h acc items).dicts.length = h.dicts.length ∧
    (insMissing h acc items).dict acc = extraFirst (h.dict acc) items ∧
    (∀ r : Nat, r ≠ acc → (insMissing h acc items).dict r = h.dict r) := by
  induction items with
  | nil => intro h _; exact ⟨rfl, rfl, rfl, fun _ _ => rfl⟩
  | cons kv t ih =>
    intro h hacc
    have step : insMissing h acc (kv :: t)
        = insMissing (if (alookup (h.dict acc) kv.1).isSome then h else setItem h acc kv.1 kv.2) acc t := rfl
    have stepF : extraFirst (h.dict acc) (kv :: t)
        = extraFirst (if (alookup (h.dict acc) kv.1).isSome then h.dict acc else h.dict acc ++ [kv]) t := rfl
    rw [step, stepF]
    by_cases hk : (alookup (h.dict acc) kv.1).isSome = true
    · rw [if_pos hk, if_pos hk]
      exact ih h hacc
    · rw [if_neg hk, if_neg hk]
      have hk' : alookup (h.dict acc) kv.1 = none := by simpa using hk
      obtain ⟨a1, a2, a3, a4⟩ := ih (setItem h acc kv.1 kv.2) (by simpa using hacc)
      have hd : (setItem h acc kv.1 kv.2).dict acc = h.dict acc ++ [kv] := by
        rw [dict_setItem_eq h acc _ _ hacc, aset_absent _ _ _ hk']
      refine ⟨a1, ?_, ?_, ?_⟩
      · rw [a2]; exact dictsLen_setItem _ _ _ _
      · rw [a3, hd]
      · intro r hr
        rw [a4 r hr]
        exact dict_setItem_ne h acc r _ _ (Ne.symm hr)

/-- the invariant of the loop of `combine_max`: only the accumulator object (index `m`) differs from the heap at entry -/
structure CInv (h0 h : Heap) (F A : R) : Prop where
  recs : h.recs = h0.recs
  len : h.dicts.length = h0.dicts.length + 1
  old : ∀ r : Nat, r < h0.dicts.length → h.dict r = h0.dict r
  acc : A = { F with extra := h.dict h0.dicts.length }

theorem combFold_inv (h0 : Heap) (wf : WF h0) (l : List Nat) (hl : ∀ o ∈ l, o < h0.recs.length) :
    ∀ (h : Heap) (F A : R), CInv h0 h F A →
      CInv h0 (l.foldl (combStepH h0.dicts.length) (h, F)).1 (l.foldl (combStepH h0.dicts.length) (h, F)).2
        ((l.map (view h0)).foldl combineStep A) := by
  induction l with
  | nil => intro h F A i; exact i
  | cons o t ih =>
    intro h F A i
    simp only [List.foldl_cons, List.map_cons]
    apply ih (fun o' ho' => hl o' (by simp [ho']))
    have ho : o < h0.recs.length := hl o (by simp)
    have hobj : h.obj o = h0.obj o := by simp only [Heap.obj, i.recs]
    have hitems : h.dict (h0.obj o).ex = h0.dict (h0.obj o).ex := i.old _ (wf o ho)
    obtain ⟨a1, a2, a3, a4⟩ := insMissing_spec h0.dicts.length (h0.dict (h0.obj o).ex) h (by rw [i.len]; exact Nat.lt_succ_self _)
    simp only [hobj, hitems]
    refine ⟨a1.trans i.recs, a2.trans i.len, ?_, ?_⟩
    · intro r hr
      rw [a4 r (Nat.ne_of_lt hr)]; exact i.old r hr
    · rw [a3, i.acc]; rfl

theorem combineMaxH_spec (h : Heap) (wf : WF h) (l : List Nat) (hl : ∀ o ∈ l, o < h.recs.length) :
    Ext h (combineMaxH h l).2 ∧
    (combineMaxH h l).1 = (mk? (combineMax (l.map (view h)))).map (fun _ => h.recs.length) ∧
    FreshRes h (combineMaxH h l).2 h.recs.length ∧
    view (combineMaxH h l).2 h.recs.length = combineMax (l.map (view h)) := by
  cases l with
  | nil =>
    obtain ⟨c1, c2, c3, c4, c5⟩ := construct_none h {}
    simp only [combineMaxH]
    refine ⟨c1, ?_, ⟨Nat.le_refl _, by omega, ?_, ?_⟩, ?_⟩
    · rw [c4]; rfl
    · rw [c5]; exact Nat.le_refl _
    · rw [c5, c3]; simp
    · simp only [view, c5, Heap.dict, c3]
      have := getD_append_len h.dicts ([] : D) []
      rw [this]; rfl
  | cons o t =>
    have i0 : CInv h (newDict h []).2 {} {} :=
      ⟨rfl, by simp, fun r hr => dict_newDict_lt h [] r hr, by rw [dict_newDict_new]⟩
    have i := combFold_inv h wf (o :: t) hl _ _ _ i0
    have hout : combineMaxH h (o :: t) =
        construct ((o :: t).foldl (combStepH h.dicts.length) ((newDict h []).2, {})).1
          ((o :: t).foldl (combStepH h.dicts.length) ((newDict h []).2, {})).2 (some h.dicts.length) := rfl
    rw [hout]
    generalize (o :: t).foldl (combStepH h.dicts.length) ((newDict h []).2, {}) = st at i
    obtain ⟨c1, c2, c3, c4, c5⟩ := construct_some st.1 st.2 h.dicts.length
    rw [i.recs] at c2 c4 c5
    have hA : combineMax ((o :: t).map (view h)) = { st.2 with extra := st.1.dict h.dicts.length } := i.acc
    have e0 : Ext h st.1 := ⟨by rw [i.recs]; exact Nat.le_refl _, by rw [i.len]; exact Nat.le_succ _,
      fun o' _ => by simp only [Heap.obj, i.recs], i.old⟩
    refine ⟨e0.trans c1, ?_, ⟨Nat.le_refl _, by omega, ?_, ?_⟩, ?_⟩
    · rw [c4, hA]; simp only [mk?, valid_with_extra]; by_cases hv : Valid st.2 = true <;> simp [hv]
    · rw [c5]; exact Nat.le_refl _
    · rw [c5, c3, i.len]; exact Nat.lt_succ_self _
    · rw [hA]; simp only [view, c5, Heap.dict, c3]

end PF.ResH
