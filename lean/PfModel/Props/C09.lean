import PfModel.Lemmas.PipeCache
import PfModel.Props.C02
/-!
C09 — Caching never changes what a pipeline returns.

`PF.PipeCache.runC/runTopC/histC` mirror `Pipeline._run/run` with the cache layer (with the two repairs DF-18 (a), (d));
`PF.Pipe.runTop`/`histU` is the identical pipeline without a cache; `compose` is the specification both refine.
The cache container is any `Policy` (entries only come from `put`; eviction allowed); `h` is `to_hashable`, assumed injective (C15).
-/
namespace PF.C09
open PF PF.Pipe PF.PipeCache

/-- **One call.**  If every resident entry is right for the pipeline as it is now (`Inv`), a call that succeeds without
    a cache is evaluated successfully with the cache — whatever subset of functions is cached, whatever the container
    evicts, with or without `full_output`, with or without supplied intermediates — and yields the equal value; every
    entry of the `full_output` dictionary that is not a supplied keyword is the composition's value (as it is for the
    uncached run, `C02_full_output`); and the invariant holds of the cache afterwards. -/
theorem C09_call {H C} (P : Policy H C) (h : Val → H) (hinj : ∀ a b, h a = h b → a = b) (cached : Func → Bool)
    (fs : List Func) (rank : String → Nat) (wf : WF fs rank) (c : C) (kw : List (String × Val)) (full : Bool) (o : String)
    (u : Outcome) (hi : Inv P h fs c) (htw : runTop fs kw (.name o) = .ok u) :
    ∃ out, runTopC P cached (computeKey h fs) fs c kw full o = .ok out ∧ out.value = u.value ∧ Inv P h fs out.cache ∧
      ∀ q w, alookup kw q = none → alookup out.full q = some w → ∃ k, compose fs kw k q = .ok w := by
  unfold runTop at htw
  simp only at htw
  split at htw
  · cases htw
  · next hko =>
    have hko' : alookup kw o = none := by
      cases hx : alookup kw o with
      | none => rfl
      | some x => simp [hx] at hko
    split at htw
    · cases htw
    · next v s hrun =>
      have huv : u.value = v := by
        split at htw
        · injection htw with e; rw [← e]
        · cases htw
      obtain ⟨k, hk⟩ := C02.C02_run_eq_compose fs kw (unique_of_wf fs rank wf) (fuelFor fs) o v s hko' hrun
      have hg0 : GoodC fs kw (initC kw c : CSt H C) := by
        intro p w hp hw
        simp only [initC] at hw
        rw [hp] at hw; cases hw
      obtain ⟨s', hs', hg', hi', _⟩ := runC_complete P h cached fs rank kw full hinj wf (fuelFor fs) o (initC kw c) k v hko' hk
        (wf.depth o) hg0 hi
      refine ⟨_, by simp only [runTopC, hko, Bool.false_eq_true, ↓reduceIte, hs']; rfl, ?_, hi', ?_⟩
      · simp only [huv]
      · intro q w hq hw
        exact hg' q w hq hw

/-- the uncached twin and the cached pipeline agree, step by step, up to the first call that fails without a cache -/
def Agrees {H C} : List (Option (Except Err Outcome)) → List (Option (Except Err (COutcome H C))) → Prop
  | [], cs => cs = []
  | none :: us, cs => ∃ rest, cs = none :: rest ∧ Agrees us rest
  | some (.error _) :: _, _ => True
  | some (.ok u) :: us, cs => ∃ out rest, cs = some (.ok out) :: rest ∧ out.value = u.value ∧ Agrees us rest

/-- the pipeline is well-formed whenever it is called -/
def WFHist : List Func → List Step → Prop
  | _, [] => True
  | fs, .mutate m :: rest => WFHist (applyMut fs m) rest
  | fs, .call _ _ _ :: rest => (∃ rank, WF fs rank) ∧ WFHist fs rest

/-- the hypothesis of the known findings KF-C09-update-bound / KF-C09-replace, semantically: no mutation invalidates an
    entry that is resident when it happens (so no entry put before a mutation and invalidated by it can be hit after it) -/
def MutSafe {H C} (P : Policy H C) (h : Val → H) (cached : Func → Bool) : List Func → C → List Step → Prop
  | _, _, [] => True
  | fs, c, .mutate m :: rest => Inv P h (applyMut fs m) c ∧ MutSafe P h cached (applyMut fs m) c rest
  | fs, c, .call o kw full :: rest =>
    match runTopC P cached (computeKey h fs) fs c kw full o with
    | .error _ => True
    | .ok out => MutSafe P h cached fs out.cache rest

/-- **Histories with mutations, partial.**  For every history of calls and `update_defaults`/`update_bound`/`replace`
    mutations in which no mutation invalidates a resident entry, every call up to the first one that fails without a cache
    is evaluated successfully with the cache and yields the equal value.
    Missing for the full statement: (1) the hypothesis `MutSafe` — false on the pinned and on the repaired code for
    `update_bound` and `replace` (witnesses below; known findings); it is stronger than "no stale entry is hit later";
    (2) the final surplus-keyword check of `Pipeline.run` (`UnusedParametersError`) is not covered: the theorem is about
    the evaluation and its value (`COutcome.value`); (3) steps after a call that fails without a cache. -/
theorem C09_transparent_partial {H C} (P : Policy H C) (h : Val → H) (hinj : ∀ a b, h a = h b → a = b) (cached : Func → Bool) :
    ∀ (steps : List Step) (fs : List Func) (c : C), WFHist fs steps → Inv P h fs c → MutSafe P h cached fs c steps →
      Agrees (histU fs steps) (histC P cached (fun fs => computeKey h fs) fs c steps) := by
  intro steps
  induction steps with
  | nil => intro fs c _ _ _; simp [histU, histC, Agrees]
  | cons st rest ih =>
    intro fs c hwf hi hs
    cases st with
    | mutate m =>
      simp only [histU, histC, Agrees]
      simp only [WFHist] at hwf
      simp only [MutSafe] at hs
      exact ⟨_, rfl, ih _ _ hwf hs.1 hs.2⟩
    | call o kw full =>
      simp only [WFHist] at hwf
      obtain ⟨⟨rank, wf⟩, hwf'⟩ := hwf
      simp only [histU]
      cases htw : runTop fs kw (.name o) with
      | error e => simp [Agrees]
      | ok u =>
        obtain ⟨out, hout, hv, hi', _⟩ := C09_call P h hinj cached fs rank wf c kw full o u hi htw
        simp only [MutSafe, hout] at hs
        simp only [histC, hout, Agrees]
        exact ⟨out, _, rfl, hv, ih _ _ hwf' hi' hs⟩

def callsOnly : List Step → Bool
  | [] => true
  | .call _ _ _ :: r => callsOnly r
  | .mutate _ :: _ => false

theorem C09_mutSafe_of_callsOnly {H C} (P : Policy H C) (h : Val → H) (cached : Func → Bool) :
    ∀ (steps : List Step) (fs : List Func) (c : C), callsOnly steps = true → MutSafe P h cached fs c steps := by
  intro steps
  induction steps with
  | nil => intro _ _ _; simp [MutSafe]
  | cons st rest ih =>
    intro fs c hc
    cases st with
    | mutate m => simp [callsOnly] at hc
    | call o kw full =>
      simp only [callsOnly] at hc
      simp only [MutSafe]
      split
      · trivial
      · exact ih _ _ hc

/-- **Caching is transparent (histories of calls).**  For every well-formed pipeline, every subset of cached functions,
    every cache container, every history of calls (any output, any argument cut incl. supplied intermediates, any values,
    `full_output` or not) starting from a cache whose entries are right (e.g. the empty cache): every call up to the first
    one that fails without a cache is evaluated successfully with the cache and yields the equal value. -/
theorem C09_transparent {H C} (P : Policy H C) (h : Val → H) (hinj : ∀ a b, h a = h b → a = b) (cached : Func → Bool)
    (steps : List Step) (fs : List Func) (c : C) (hcalls : callsOnly steps = true) (hwf : WFHist fs steps) (hi : Inv P h fs c) :
    Agrees (histU fs steps) (histC P cached (fun fs => computeKey h fs) fs c steps) :=
  C09_transparent_partial P h hinj cached steps fs c hwf hi (C09_mutSafe_of_callsOnly P h cached steps fs c hcalls)

/-- the empty `SimpleCache` satisfies the invariant -/
theorem C09_empty_inv {H} [DecidableEq H] (h : Val → H) (fs : List Func) : Inv (simplePolicy H) h fs [] := by
  intro K r hr
  simp [simplePolicy, mapGet] at hr

/-- **No re-execution.**  A call (without `full_output`) whose requested output is produced by a cached function whose key
    is found in the cache executes no function at all. -/
theorem C09_no_reexecution {H C} (P : Policy H C) (cached : Func → Bool) (ck : List (String × Val) → Func → String → Option (Key H))
    (fs : List Func) (c : C) (kw : List (String × Val)) (o : String) (f : Func) (K : Key H) (r : Val) (c' : C)
    (hf : producer fs o = some f) (hc : cached f = true) (hk : ck kw f o = some K) (hget : P.get c K = some (r, c'))
    (hko : alookup kw o = none) (out : COutcome H C) (hrun : runTopC P cached ck fs c kw false o = .ok out) :
    out.calls = [] ∧ out.unused = [] ∧ out.hits = [K] := by
  simp only [runTopC, hko, Option.isSome_none, Bool.false_eq_true, ↓reduceIte, fuelFor] at hrun
  rw [runC_succ] at hrun
  simp only [initC, hko, hf, hc, ↓reduceIte, hk, lookupC, hget, Bool.false_eq_true] at hrun
  cases hm : alookup (unpack f r ++ kw) o with
  | none => simp [hm] at hrun
  | some v =>
    simp only [hm, Except.ok.injEq] at hrun
    subst hrun
    simp

/-! ### `Pipeline.map` -/

/-- **The per-element cache of `map` is transparent, under every schedule.**  Push the element computations of a map run
    through a shared cache in any order (`es` is any list — sequential order or any interleaving of a parallel run whose
    cache operations are atomic).  If equal keys mean equal calls (`hdet`: the key is the function's output name and its own
    selected keyword arguments, C15) and the entries resident at the start are right, every element receives exactly the
    value its own call computes. -/
theorem C09_map_transparent {H C} (P : Policy H C) (h : Val → H) :
    ∀ (es : List Elem) (c : C), (∀ e ∈ es, ∀ e' ∈ es, elemKey h e = elemKey h e' → e.value = e'.value) →
      (∀ e ∈ es, ∀ v, P.res c (elemKey h e) = some v → v = e.value) →
      (runElems P h c es).1.map (·.1) = es.map (·.value) := by
  intro es
  induction es with
  | nil => intro c _ _; simp [runElems]
  | cons e es ih =>
    intro c hdet hinv
    have hdet' : ∀ a ∈ es, ∀ b ∈ es, elemKey h a = elemKey h b → a.value = b.value :=
      fun a ha b hb => hdet a (List.mem_cons_of_mem _ ha) b (List.mem_cons_of_mem _ hb)
    simp only [runElems, getOrSet]
    cases hg : P.get c (elemKey h e) with
    | some vc =>
      obtain ⟨v, c'⟩ := vc
      have hv : v = e.value := hinv e (by simp) v (P.get_res _ _ _ _ hg)
      have hinv' : ∀ a ∈ es, ∀ w, P.res c' (elemKey h a) = some w → w = a.value :=
        fun a ha w hw => hinv a (List.mem_cons_of_mem _ ha) w (P.get_sub _ _ _ _ hg _ _ hw)
      have := ih c' hdet' hinv'
      simp only [List.map_cons, hv, this]
    | none =>
      have hinv' : ∀ a ∈ es, ∀ w, P.res (P.put c (elemKey h e) e.value) (elemKey h a) = some w → w = a.value := by
        intro a ha w hw
        rcases P.put_sub _ _ _ _ _ hw with ⟨e1, e2⟩ | hold
        · rw [e2]; exact (hdet a (List.mem_cons_of_mem _ ha) e (by simp) e1).symm
        · exact hinv a (List.mem_cons_of_mem _ ha) w hold
      have := ih _ hdet' hinv'
      simp only [List.map_cons, this]

/-- an element whose key is found in the cache does not execute its function -/
theorem C09_map_no_reexecution {H C} (P : Policy H C) (c : C) (k : Key H) (v compute : Val) (c' : C)
    (hget : P.get c k = some (v, c')) : getOrSet P c k compute = (v, false, c') := by
  simp [getOrSet, hget]


/-! ### closed witnesses and non-vacuity -/

/-- `to_hashable` on the string values the closed examples use -/
def hS : Val → String
  | .str s => s
  | _ => ""

def gB : Func := ⟨"g", [("a", "a"), ("b", "b")], ["c"], [], [("b", .str "B0")]⟩
def gA : Func := ⟨"g", [("a", "a")], ["c"], [], []⟩
def g2 : Func := ⟨"g2", [("a", "a")], ["c"], [], []⟩
def fD : Func := ⟨"f", [("c", "c"), ("a", "a")], ["d"], [], []⟩
def gX : Func := ⟨"g", [("x", "x")], ["c"], [], []⟩
def fX : Func := ⟨"f", [("x", "x"), ("c", "c")], ["d"], [], [("x", .str "X5")]⟩

/-- the values a fully cached pipeline (`SimpleCache`, key computation `ck`) returns along a history -/
def valsC (ck : List Func → List (String × Val) → Func → String → Option (Key String)) (fs : List Func) (steps : List Step) :
    List (Option Val) :=
  (histC (simplePolicy String) (fun _ => true) ck fs [] steps).map fun r =>
    match r with | some (.ok o) => some o.value | _ => none

/-- the values the uncached twin returns along the same history -/
def valsU (fs : List Func) (steps : List Step) : List (Option Val) :=
  (histU fs steps).map fun r => match r with | some (.ok o) => some o.value | _ => none

def hBound : List Step :=
  [.call "d" [("a", .str "1")] false, .mutate (.updateBound ["c"] [("b", .str "B1")]), .call "d" [("a", .str "1")] false]
def hReplace : List Step :=
  [.call "d" [("a", .str "1")] false, .mutate (.replace g2), .call "d" [("a", .str "1")] false]
def hPoison : List Step := [.call "d" [("c", .str "CC"), ("a", .str "1")] false, .call "d" [("a", .str "1")] false]
def hPoisoned : List Step := [.call "d" [("a", .str "1")] false, .call "d" [("c", .str "CC"), ("a", .str "1")] false]
def hShadow : List Step := [.call "d" [("x", .str "1")] false, .call "d" [("x", .str "2")] false]

/-- **Known finding KF-C09-update-bound** (faithful model of the repaired code): after `update_bound` of the upstream
    function the cached pipeline still returns the value computed with the old bound value `B0`; the twin returns `B1`. -/
theorem C09_stale_after_update_bound :
    valsC (fun fs => computeKey hS fs) [gB, fD] hBound =
      [some (.app "f" [("c", .app "g" [("a", .str "1"), ("b", .str "B0")]), ("a", .str "1")]), none,
       some (.app "f" [("c", .app "g" [("a", .str "1"), ("b", .str "B0")]), ("a", .str "1")])] ∧
    valsU [gB, fD] hBound =
      [some (.app "f" [("c", .app "g" [("a", .str "1"), ("b", .str "B0")]), ("a", .str "1")]), none,
       some (.app "f" [("c", .app "g" [("a", .str "1"), ("b", .str "B1")]), ("a", .str "1")])] := by
  constructor <;> rfl

/-- **Known finding KF-C09-replace**: after `replace` of the upstream function `g` by `g2` the cached pipeline still
    returns the value computed by `g`. -/
theorem C09_stale_after_replace :
    valsC (fun fs => computeKey hS fs) [gA, fD] hReplace =
      [some (.app "f" [("c", .app "g" [("a", .str "1")]), ("a", .str "1")]), none,
       some (.app "f" [("c", .app "g" [("a", .str "1")]), ("a", .str "1")])] ∧
    valsU [gA, fD] hReplace =
      [some (.app "f" [("c", .app "g" [("a", .str "1")]), ("a", .str "1")]), none,
       some (.app "f" [("c", .app "g2" [("a", .str "1")]), ("a", .str "1")])] := by
  constructor <;> rfl

/-- the two value lists differ: caching is not transparent across `update_bound` -/
theorem C09_update_bound_not_transparent :
    valsC (fun fs => computeKey hS fs) [gB, fD] hBound ≠ valsU [gB, fD] hBound := by
  rw [C09_stale_after_update_bound.1, C09_stale_after_update_bound.2]
  simp

/-- **DF-18 (a), pinned code** (`computeKeyLegacy`): `p('d', c='CC', a=1)` then `p('d', a=1)` returns the value computed from `'CC'` … -/
theorem C09_intermediate_poisons :
    valsC (fun fs => computeKeyLegacy hS fs) [gA, fD] hPoison =
      [some (.app "f" [("c", .str "CC"), ("a", .str "1")]), some (.app "f" [("c", .str "CC"), ("a", .str "1")])] ∧
    valsU [gA, fD] hPoison =
      [some (.app "f" [("c", .str "CC"), ("a", .str "1")]), some (.app "f" [("c", .app "g" [("a", .str "1")]), ("a", .str "1")])] := by
  constructor <;> rfl

/-- … and in the reverse order the call that supplies `c='CC'` is served the entry computed from `g(a=1)`. -/
theorem C09_intermediate_poisoned :
    valsC (fun fs => computeKeyLegacy hS fs) [gA, fD] hPoisoned =
      [some (.app "f" [("c", .app "g" [("a", .str "1")]), ("a", .str "1")]), some (.app "f" [("c", .app "g" [("a", .str "1")]), ("a", .str "1")])] ∧
    valsU [gA, fD] hPoisoned =
      [some (.app "f" [("c", .app "g" [("a", .str "1")]), ("a", .str "1")]), some (.app "f" [("c", .str "CC"), ("a", .str "1")])] := by
  constructor <;> rfl

/-- **DF-18 (d), pinned code**: `f` is bound to `x='X5'` while `g(x)` upstream receives the keyword; the legacy key holds
    the bound value, so `p('d', x=1)` and `p('d', x=2)` share one entry. -/
theorem C09_bound_shadows_keyword :
    valsC (fun fs => computeKeyLegacy hS fs) [gX, fX] hShadow =
      [some (.app "f" [("x", .str "X5"), ("c", .app "g" [("x", .str "1")])]), some (.app "f" [("x", .str "X5"), ("c", .app "g" [("x", .str "1")])])] ∧
    valsU [gX, fX] hShadow =
      [some (.app "f" [("x", .str "X5"), ("c", .app "g" [("x", .str "1")])]), some (.app "f" [("x", .str "X5"), ("c", .app "g" [("x", .str "2")])])] := by
  constructor <;> rfl

/-- the repaired key on the same three histories: the cached pipeline returns what the twin returns -/
theorem C09_repaired_examples :
    valsC (fun fs => computeKey hS fs) [gA, fD] hPoison = valsU [gA, fD] hPoison ∧
    valsC (fun fs => computeKey hS fs) [gA, fD] hPoisoned = valsU [gA, fD] hPoisoned ∧
    valsC (fun fs => computeKey hS fs) [gX, fX] hShadow = valsU [gX, fX] hShadow := by
  refine ⟨?_, ?_, ?_⟩ <;> rfl

/-- non-vacuity: the chain `g(a)→c`, `f(c,a)→d` is well-formed … -/
theorem C09_wf_example : WF [gA, fD] (fun o => if o = "d" then 1 else 0) where
  uniq := by
    intro f hf g hg o ho ho'
    simp only [List.mem_cons, List.mem_nil_iff, or_false] at hf hg
    rcases hf with rfl | rfl <;> rcases hg with rfl | rfl <;> simp_all [gA, fD]
  cons := by
    intro f hf g hg p v w hv hw
    simp only [List.mem_cons, List.mem_nil_iff, or_false] at hf
    rcases hf with rfl | rfl <;> simp [gA, fD] at hv
  ranked := by
    intro o f hp pq hpq hb hprod
    obtain ⟨hf, ho⟩ := producer_mem _ o f hp
    simp only [List.mem_cons, List.mem_nil_iff, or_false] at hf
    rcases hf with rfl | rfl
    · simp only [gA, List.mem_cons, List.mem_nil_iff, or_false] at hpq
      subst hpq
      simp [producer, gA, fD] at hprod
    · simp only [fD, List.mem_cons, List.mem_nil_iff, or_false] at hpq ho
      subst ho
      rcases hpq with rfl | rfl
      · simp
      · simp [producer, gA, fD] at hprod
  depth := by
    intro o
    simp only [fuelFor, List.length_cons, List.length_nil]
    split <;> omega

/-- … so the hypotheses of `C09_transparent` hold of a history on it that hits the cache, starting from the empty cache -/
example : WFHist [gA, fD] hPoisoned ∧ callsOnly hPoisoned = true ∧ Inv (simplePolicy String) hS [gA, fD] [] :=
  ⟨⟨⟨_, C09_wf_example⟩, ⟨_, C09_wf_example⟩, trivial⟩, rfl, C09_empty_inv hS _⟩

/-- and the second call of the history `d(a=1), d(a=1)` is a hit that executes nothing -/
example : (histC (simplePolicy String) (fun _ => true) (fun fs => computeKey hS fs) [gA, fD] []
    [.call "d" [("a", .str "1")] false, .call "d" [("a", .str "1")] false]).map
      (fun r => match r with | some (.ok o) => some (o.calls, o.hits.length) | _ => none) = [some (["g", "f"], 0), some ([], 1)] := by
  rfl

end PF.C09
