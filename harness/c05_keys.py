"""C05, key <-> linear-index stream: the real storages against `lean/PfModel/Model/ResumeKey.lean`.

The crash model (`Model/ResumeFS.lean`) names a stored element by its LINEAR index; the storages name it by a tuple key
(`DictArray._dict[key]`) or by the file number computed from the key (`FileArray._key_to_file`), and a resumed run asks by
linear index (`mask_linear`, `has_index`, `get_from_index`).  This stream drives that conversion on the real classes for
multi-axis shapes and ARBITRARY stored subsets (not only the row-major prefixes a killed sequential run leaves behind):

  run 1   `Storage(folder, shape)`; `dump(_shape_to_key(shape, li), v)` for the chosen cells in the chosen order (the helper and
          the call the runner makes, `map/_run.py:_update_array`); `persist()` for the dict storages;
  resume  a NEW storage object on the same folder (what `RunInfo.init_store` does) answers `has_index`/`get_from_index`/
          `mask_linear` for every linear index.

Compared with the Lean driver: `dict.store` (the dict in insertion order / the files after the dumps), `dict.view` on the
persisted dict's items (has / get / mask / loadable cells / values in `sorted(key)` order, which is what
`c05_crashfs.decode` uses), `key.of_index` against `_shape_to_key` and `np.unravel_index`, `key.file_of` against
`FileArray._key_to_file`.  Values are distinct per element, so reading another element's value is visible.
"""
import pfimport  # noqa: F401  (first)

import os
import pathlib
import re
import shutil
import time

import numpy as np

from pipefunc._utils import load
from pipefunc.map._mapspec import _shape_to_key
from pipefunc.map._storage_array._dict import DictArray, SharedMemoryDictArray
from pipefunc.map._storage_array._file import FileArray

MISSING = "missing"


def enc(v):
    if v is None:
        return None
    if isinstance(v, str):
        return {"s": v}
    return int(v)


def dec(j):
    if j is None:
        return None
    if isinstance(j, dict):
        return j["s"]
    return j


# ------------------------------------------------------------------------------------------------ generation
def gen_shape(rng):
    rank = rng.choice([1, 2, 2, 2, 3, 3])
    while True:
        shape = [rng.choice([1, 2, 2, 3, 3, 4]) for _ in range(rank)]
        if rank == 1 or len(set(shape)) > 1 or rng.random() < 0.15:      # mostly non-square
            return shape


def gen_values(rng, n):
    """n distinct values, falsy ones included (0, "", None at most once each)."""
    salt = rng.randrange(1, 50)
    vals = []
    for li in range(n):
        kind = rng.random()
        vals.append(f"v{li}" if kind < 0.3 else 1000 * salt + li)
    for falsy in (0, "", None):
        if n and rng.random() < 0.25:
            i = rng.randrange(n)
            if vals[i] not in (0, "", None):
                vals[i] = falsy
    return vals


def pattern_kind(n, idx):
    s = sorted(idx)
    if not s:
        return "empty"
    if len(s) == n:
        return "complete"
    return "prefix" if s == list(range(len(s))) else "non-prefix"


def gen_case(rng, storage, want=None):
    shape = gen_shape(rng)
    n = int(np.prod(shape))
    vals = gen_values(rng, n)
    want = want or rng.choice(["non-prefix", "non-prefix", "non-prefix", "prefix", "complete", "empty"])
    if want == "empty":
        idx = []
    elif want == "complete":
        idx = list(range(n))
    elif want == "prefix":
        idx = list(range(rng.randrange(0, n + 1)))
    else:
        for _ in range(8):                                             # a real non-prefix subset when the size allows one
            idx = [i for i in range(n) if rng.random() < 0.5]
            if pattern_kind(n, idx) == "non-prefix":
                break
    if rng.random() < 0.6:
        rng.shuffle(idx)                                               # dump order is not index order
    return {"shape": shape, "cells": [[li, enc(vals[li])] for li in idx], "storage": storage, "history": [{"kind": "keys"}]}


CORPUS = [
    # the seeded column-major unravel: [2,3], elements 1 and 3 stored
    {"shape": [2, 3], "cells": [[1, 10], [3, 30]], "storage": "dict", "history": [{"kind": "keys"}]},
    {"shape": [2, 3], "cells": [[3, 30], [1, 10]], "storage": "file_array", "history": [{"kind": "keys"}]},
    {"shape": [3, 1, 2], "cells": [[4, {"s": "a"}], [1, None], [2, 0]], "storage": "dict", "history": [{"kind": "keys"}]},
    {"shape": [1, 4], "cells": [[2, {"s": ""}]], "storage": "file_array", "history": [{"kind": "keys"}]},
    {"shape": [2, 2, 3], "cells": [[li, 100 + li] for li in (11, 0, 7, 5, 6)], "storage": "file_array", "history": [{"kind": "keys"}]},
]


# ------------------------------------------------------------------------------------------------ the real side
def _obs(fn):
    try:
        return fn()
    except Exception as e:  # noqa: BLE001
        return {"exc": pfimport.exc_enum(e)}


def _get(arr, li):
    try:
        return [enc(arr.get_from_index(li))]
    except (KeyError, FileNotFoundError):
        return MISSING
    except Exception as e:  # noqa: BLE001
        return {"exc": pfimport.exc_enum(e)}


def real(case, folder, manager=None):
    """Both runs on the real classes.  Everything the implementation raises becomes an observation."""
    shape, storage = tuple(case["shape"]), case["storage"]
    n = int(np.prod(shape))
    out = {"n": n}
    mk = {"dict": lambda: DictArray(folder, shape),
          "shared_memory_dict": lambda: SharedMemoryDictArray(folder, shape, mapping=manager.dict()),
          "file_array": lambda: FileArray(folder, shape)}[storage]
    try:
        a = mk()
        keys = {}
        for li, v in case["cells"]:
            key = _shape_to_key(shape, li)
            keys[li] = [int(k) for k in key]
            a.dump(key, dec(v))
        out["keys"] = [[int(k) for k in _shape_to_key(shape, li)] for li in range(n)]
        out["np_keys"] = [[int(k) for k in np.unravel_index(li, shape)] for li in range(n)]
        if storage == "file_array":
            out["key_files"] = [a._key_to_file(tuple(k)).name for k in out["keys"]]
            names = sorted(os.listdir(folder))
            files = []
            for nm in names:
                m = re.fullmatch(r"__(\d+)__\.pickle", nm)
                if not m:
                    out.setdefault("stray", []).append(nm)
                    continue
                files.append([int(m.group(1)), enc(load(pathlib.Path(folder) / nm))])
            out["files"] = sorted(files, key=lambda f: f[0])
        else:
            out["dict1"] = [[[int(x) for x in k], enc(v)] for k, v in a._dict.items()]
            a.persist()
        b = mk()                                                       # the resumed run's storage object
        if storage != "file_array":
            obj = dict(b._dict.items())
            out["persisted"] = [[[int(x) for x in k], enc(v)] for k, v in obj.items()]
            out["sorted"] = [enc(obj[k]) for k in sorted(obj)]        # the glue of c05_crashfs.decode
        out["has"] = [_obs(lambda li=li: bool(b.has_index(li))) for li in range(n)]
        out["get"] = [_get(b, li) for li in range(n)]
        out["mask"] = _obs(lambda: [bool(x) for x in b.mask_linear()])
    except Exception as e:  # noqa: BLE001
        out["exc"] = pfimport.exc_enum(e)
    return out


def requests(case, obs):
    shape, n = case["shape"], obs["n"]
    rs = [{"m": "dict.store", "a": {"shape": shape, "cells": case["cells"]}}]
    if case["storage"] != "file_array":
        rs.append({"m": "dict.view", "a": {"shape": shape, "dict": obs.get("persisted", [])}})
    rs += [{"m": "key.of_index", "a": {"shape": shape, "li": li}} for li in range(n)]
    if case["storage"] == "file_array":
        rs += [{"m": "key.file_of", "a": {"shape": shape, "key": k}} for k in obs.get("keys", [])]
    return rs


def judge(case, obs, resp):
    """→ (property-level complaint | None, correspondence complaint | None, impl, model)."""
    shape, n, storage = case["shape"], obs["n"], case["storage"]
    if "exc" in obs:
        return None, f"the storage raised {obs['exc']}", obs, None
    stored = {li: v for li, v in case["cells"]}
    prop = None
    for li in range(n):
        g, h = obs["get"][li], obs["has"][li]
        m = obs["mask"][li] if isinstance(obs["mask"], list) and len(obs["mask"]) == n else None
        if li in stored:
            if isinstance(g, list) and g != [stored[li]]:
                prop = prop or f"element {li} of shape {shape} ({storage}) was stored as {stored[li]!r} and the resumed storage's get_from_index({li}) is {g[0]!r}: another element's value"
            elif g == MISSING or h is False or m is True:
                prop = prop or f"element {li} of shape {shape} ({storage}) was stored and the resumed storage reports it missing (has_index={h}, mask_linear={m}, get={g})"
        elif isinstance(g, list) or h is True or m is False:
            prop = prop or f"element {li} of shape {shape} ({storage}) was never stored and the resumed storage reports it present (has_index={h}, mask_linear={m}, get={g})"
    store = resp[0]["r"]
    model = {"store": store}
    bad = []
    k0 = 1
    if storage == "file_array":
        mfiles = sorted(store["files"], key=lambda f: f[0])
        if obs.get("stray"):
            bad.append(f"unexpected files {obs['stray']}")
        if obs["files"] != mfiles:
            bad.append("files on disk differ from fStore")
        look = {f[0]: f[1] for f in store["files"]}
        m_has = [li in look for li in range(n)]
        m_get = [[look[li]] if li in look else MISSING for li in range(n)]
        m_mask = [not x for x in m_has]
    else:
        view = resp[1]["r"]
        model["view"] = view
        k0 = 2
        if obs["dict1"] != store["dict"]:
            bad.append("dict after the dumps differs from kStore (keys, values or insertion order)")
        if {tuple(k): repr(v) for k, v in obs["persisted"]} != {tuple(k): repr(v) for k, v in store["dict"]}:
            bad.append("persisted dict differs from the dict of the first run")
        m_has, m_mask = view["has"], view["mask"]
        m_get = [g if g else MISSING for g in view["get"]]
        if view["sorted"] != obs["sorted"]:
            bad.append("values in sorted(key) order differ from sortedValues")
        cells = [[li, obs["get"][li][0]] for li in range(n) if isinstance(obs["get"][li], list)]
        if view["cells"] != cells:
            bad.append("loadable cells differ from kLoadCells")
        if len(stored) == n and [[v] for v in view["sorted"]] != view["get"]:
            bad.append("complete dict: sortedValues is not the values by linear index (C05_key_sorted_complete)")
    if obs["has"] != m_has:
        bad.append("has_index differs")
    if obs["get"] != m_get:
        bad.append("get_from_index differs")
    if obs["mask"] != m_mask:
        bad.append("mask_linear differs")
    mkeys = [r["r"] for r in resp[k0:k0 + n]]
    if obs["keys"] != mkeys:
        bad.append("_shape_to_key differs from shapeToKey")
    if obs["np_keys"] != mkeys:
        bad.append("np.unravel_index differs from shapeToKey")
    if storage == "file_array":
        mnames = [f"__{r['r']}__.pickle" for r in resp[k0 + n:k0 + 2 * n]]
        if obs["key_files"] != mnames:
            bad.append("_key_to_file differs from fileOfKey")
        if [r["r"] for r in resp[k0 + n:k0 + 2 * n]] != list(range(n)):
            bad.append("fileOfKey (shapeToKey li) is not li")
    return prop, ("; ".join(bad) or None), {k: obs[k] for k in ("has", "get", "mask") if k in obs}, model


# ------------------------------------------------------------------------------------------------ the stream
def _run_cases(ctx, lab, cases):
    manager, t0 = None, time.time()
    base = lab.slot()
    os.makedirs(base, exist_ok=True)
    try:
        if any(c["storage"] == "shared_memory_dict" for c in cases):
            import multiprocessing
            manager = multiprocessing.Manager()
        obs = []
        for i, c in enumerate(cases):
            folder = os.path.join(base, f"k{i:04d}")
            os.makedirs(folder, exist_ok=True)
            obs.append(real(c, folder, manager))
    finally:
        if manager is not None:
            manager.shutdown()
        shutil.rmtree(base, ignore_errors=True)
    reqs, spans = [], []
    for c, o in zip(cases, obs):
        rs = requests(c, o)
        spans.append((len(reqs), len(reqs) + len(rs)))
        reqs += rs
    t1 = time.time()
    resp = ctx.lean(reqs)
    ctx.notes.append(f"keys: real side {t1 - t0:.1f}s, driver {time.time() - t1:.1f}s, {len(reqs)} requests")
    return [(c, o, resp[a:b]) for c, o, (a, b) in zip(cases, obs, spans)]


def stream(ctx, lab, quick):
    rng = ctx.rng
    cases = [dict(c) for c in CORPUS]
    n_gen = 40 if quick else 1500
    for k in range(n_gen):
        storage = ("dict", "file_array", "dict", "file_array", "shared_memory_dict")[k % 5] if (k < 10 or not quick or k % 5 != 4) else "dict"
        if storage == "shared_memory_dict" and k >= (10 if quick else 200):
            storage = "dict"                                           # manager round trips are slow: a bounded share
        cases.append(gen_case(rng, storage, want=("non-prefix", "complete", "prefix", "empty")[k] if k < 4 else None))
    for case, obs, resp in _run_cases(ctx, lab, cases):
        n = obs["n"]
        kind = pattern_kind(n, [c[0] for c in case["cells"]])
        ctx.count(f"keys:rank:{len(case['shape'])}")
        ctx.count(f"keys:pattern:{kind}")
        ctx.count(f"keys:storage:{case['storage']}")
        ctx.count("keys:size1-axis" if 1 in case["shape"] else "keys:no-size1-axis")
        if [c[0] for c in case["cells"]] != sorted(c[0] for c in case["cells"]):
            ctx.count("keys:dump-order-shuffled")
        prop, corr, impl, model = judge(case, obs, resp)
        ctx.record(case, len(case["shape"]) >= 2 and kind == "non-prefix", validated=False)
        if prop:
            ctx.violation(case, prop, impl=impl, model=model, key="keys: resumed storage reads the wrong element")
        elif corr:
            ctx.violation(case, "key/linear-index correspondence: " + corr, found_input=False, item="correspondence:keys", impl=impl, model=model,
                          key="keys correspondence")


def replay(ctx, lab, rec):
    case = {"shape": rec["shape"], "cells": rec["cells"], "storage": rec["storage"], "history": rec.get("history")}
    (case, obs, resp), = _run_cases(ctx, lab, [case])
    prop, corr, impl, model = judge(case, obs, resp)
    import json
    print("case:", json.dumps(case))
    print("real storages:", json.dumps(obs, default=str)[:3000])
    print("model:", json.dumps(model)[:3000])
    print("property-level:", prop)
    print("correspondence:", corr)
    return prop or corr
