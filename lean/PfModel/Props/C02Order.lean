import PfModel.Props.C02Needed
import PfModel.Props.C02Entries
import PfModel.Lemmas.PipelineOrder
/-!
C02, the clause "the value does not depend on the order in which functions were listed" at user level.

`C02_order_independent` (Props/C02.lean) states it for the memo-free specification `compose` only.  Here it is stated for
what the user calls: `Pipeline.run` itself (`runTop`: value, `full_output` memo, call log *in order*, and every refusal),
for the memoised recursion from any state, for `pipeline[o]`, and for the well-formedness hypothesis `WFp` all other C02
theorems take — so each of them transfers to every re-listing.  The hypothesis `ConsistentDefaults` is shown necessary.
-/
namespace PF.C02
open PF PF.Pipe

/-- **`Pipeline.run` does not depend on the listing order** — not only its value: the whole outcome (value, every
    intermediate value returned by `full_output=True`, the call log in order) and, when the call is refused, the very
    same refusal.  For every pair of listings of the same functions with unique output names and consistent defaults,
    every keyword dictionary and every request (a name, or the non-empty tuple of names of a whole function).
    No acyclicity is needed: on a cyclic pipeline both listings run out of fuel alike. -/
theorem C02_run_order_independent (fs fs' : List Func) (hperm : fs.Perm fs') (hu : UniqueOut fs)
    (hc : ConsistentDefaults fs) (kw : List (String × Val)) (req : Req) (hne : ∀ os, req = .whole os → os ≠ []) :
    runTop fs kw req = runTop fs' kw req :=
  runTop_congr fs fs' kw hperm.length_eq (producer_perm fs fs' hperm hu) (pdefault_perm fs fs' hperm hu hc) req
    (fun os h => findWhole_perm fs fs' hperm hu os (hne os h))

/-- The same for the memoised recursion `_run` from *any* state (memo, log, used set) and any depth bound. -/
theorem C02_run_state_order_independent (fs fs' : List Func) (hperm : fs.Perm fs') (hu : UniqueOut fs)
    (hc : ConsistentDefaults fs) (kw : List (String × Val)) (n : Nat) (o : String) (s : St) :
    run fs kw n o s = run fs' kw n o s :=
  run_congr fs fs' kw (producer_perm fs fs' hperm hu) (pdefault_perm fs fs' hperm hu hc) n o s

/-- `pipeline[o]` (and `pipeline[(o1, o2)]`) hands out the same function under every listing. -/
theorem C02_getitem_order_independent (fs fs' : List Func) (hperm : fs.Perm fs') (hu : UniqueOut fs) (req : Req)
    (hne : ∀ os, req = .whole os → os ≠ []) : getItem fs req = getItem fs' req := by
  cases req with
  | name o => exact producer_perm fs fs' hperm hu o
  | whole os => exact findWhole_perm fs fs' hperm hu os (hne os rfl)

/-- **`pipeline(**kw)` without an output name** (the unique leaf) answers the same under every listing — the same outcome,
    the same refusal, incl. the `ValueError` counting the leaves — provided no function has an empty output tuple. -/
theorem C02_call_leaf_order_independent (fs fs' : List Func) (hperm : fs.Perm fs') (hu : UniqueOut fs)
    (hc : ConsistentDefaults fs) (hout : ∀ f ∈ fs, f.outputs ≠ []) (kw : List (String × Val)) :
    callLeaf fs kw = callLeaf fs' kw :=
  callLeaf_perm fs fs' hperm kw fun f hf =>
    C02_run_order_independent fs fs' hperm hu hc kw (reqOf f) (reqOf_whole_ne f (hout f hf))

/-- **Well-formedness is a property of the set of functions, not of the listing**: the hypothesis `WFp fs rank` of
    `C02_each_once_deps_first`, `C02_exactly_needed`, `C02_used_parameters`, `C02_unused_iff`, `C02_run_succeeds`,
    `C02_arg_combinations…` holds for every re-listing with the same rank. -/
theorem C02_wf_order_independent (fs fs' : List Func) (rank : String → Nat) (hperm : fs.Perm fs') (hw : WFp fs rank) :
    WFp fs' rank := hw.perm hperm

/-- The clause at user level, chained: for a well-formed pipeline with consistent defaults, a successful
    `Pipeline.run(o, kwargs=kw)` on ANY listing returns the composition along the DAG computed from the original listing,
    having called exactly the functions needed *there*, each once — and the original listing answers identically. -/
theorem C02_relisted_run_is_compose (fs fs' : List Func) (rank : String → Nat) (hperm : fs.Perm fs') (hw : WFp fs rank)
    (hc : ConsistentDefaults fs) (kw : List (String × Val)) (o : String) (out : Outcome)
    (h : runTop fs' kw (.name o) = .ok out) :
    runTop fs kw (.name o) = .ok out ∧ (∃ k, compose fs kw k o = .ok out.value) ∧
      out.calls.Nodup ∧ (∀ nm, nm ∈ out.calls ↔ needed fs kw o nm) := by
  have heq := C02_run_order_independent fs fs' hperm hw.uniq hc kw (.name o) (fun os e => by cases e)
  rw [← heq] at h
  refine ⟨h, ?_⟩
  have ho : alookup kw o = none := by
    cases hk : alookup kw o with
    | none => rfl
    | some w => rw [C02_output_in_kwargs fs kw o w hk] at h; cases h
  simp only [runTop, ho, Option.isSome_none, Bool.false_eq_true, ↓reduceIte] at h
  split at h
  · cases h
  · next v s hr =>
    split at h
    · injection h with h; subst h
      exact ⟨C02_run_eq_compose fs kw (unique_of_uniqueOut fs hw.uniq) _ o v s ho hr,
        (C02_each_once_deps_first fs kw rank hw _ o v s hr).1, C02_exactly_needed fs kw rank hw _ o v s hr⟩
    · cases h

/-! ### `ConsistentDefaults` is necessary (and `validate_consistent_defaults` enforces it when a pipeline is built) -/


/-- Without consistent defaults the listing order decides: `Pipeline.defaults` is a dict comprehension in which the
    later function's entry wins, so `pipeline("w")` is `g2(x=2, u=g1(x=2))` under one listing and `g2(x=1, u=g1(x=1))`
    under the other — everything else (unique outputs, unique names, acyclic) being in order. -/
theorem C02_inconsistent_defaults_order_matters :
    (runTop [gU, gW] [] (.name "w")).toOption.map (·.value) =
      some (.app "g2" [("x", .int 2), ("u", .app "g1" [("x", .int 2)])]) ∧
    (runTop [gW, gU] [] (.name "w")).toOption.map (·.value) =
      some (.app "g2" [("x", .int 1), ("u", .app "g1" [("x", .int 1)])]) ∧
    runTop [gU, gW] [] (.name "w") ≠ runTop [gW, gU] [] (.name "w") ∧
    ¬ ConsistentDefaults [gU, gW] ∧ (∃ rank, WFp [gU, gW] rank) := by
  refine ⟨rfl, rfl, ?_, ?_, ?_⟩
  · intro h
    have h2 := congrArg (fun r => r.toOption.map (·.value)) h
    have e1 : (runTop [gU, gW] [] (.name "w")).toOption.map (·.value) =
      some (.app "g2" [("x", .int 2), ("u", .app "g1" [("x", .int 2)])]) := rfl
    have e2 : (runTop [gW, gU] [] (.name "w")).toOption.map (·.value) =
      some (.app "g2" [("x", .int 1), ("u", .app "g1" [("x", .int 1)])]) := rfl
    simp only [e1, e2] at h2
    simp at h2
  · intro hc
    have := hc gU (by simp) gW (by simp) "x" (.int 1) (.int 2) (by simp [gU]) (by simp [gW])
    simp at this
  · refine ⟨fun nm => if nm = "g1" then 0 else 1, ?_, ?_, ?_⟩
    · intro f hf g hg e; simp [gU, gW] at hf hg; rcases hf with rfl | rfl <;> rcases hg with rfl | rfl <;> simp_all
    · intro f hf g hg o h1 h2; simp [gU, gW] at hf hg; rcases hf with rfl | rfl <;> rcases hg with rfl | rfl <;> simp_all
    · intro f hf p hp g hg hb
      simp [gU, gW] at hf
      rcases hf with rfl | rfl <;> simp at hp <;> (try rcases hp with rfl | rfl) <;>
        simp [producer, gU, gW] at hg <;> subst hg <;> simp

/-! ### non-vacuity -/

theorem C02_diamond_perm : [fD, fB, fA].Perm [fA, fD, fB] := List.perm_append_comm (l₁ := [fD, fB]) (l₂ := [fA])

theorem C02_diamond_consistent : ConsistentDefaults [fD, fB, fA] := by
  intro f hf g hg p v w h1 h2
  simp [fD, fB, fA] at hf hg
  rcases hf with rfl | rfl | rfl <;> rcases hg with rfl | rfl | rfl <;> simp_all

/-- the hypotheses hold on the diamond of Props/C02.lean and a re-listing of it; the conclusion is then an equation
    between two runs that evaluate three functions, with a supplied root and a default -/
example (kw : List (String × Val)) (o : String) :
    runTop [fD, fB, fA] kw (.name o) = runTop [fA, fD, fB] kw (.name o) :=
  C02_run_order_independent _ _ C02_diamond_perm wf_diamond.uniq C02_diamond_consistent kw _ (fun os e => by cases e)

example (kw : List (String × Val)) :
    runTop [fD, fB, fA] kw (.whole ["b", "c"]) = runTop [fA, fD, fB] kw (.whole ["b", "c"]) :=
  C02_run_order_independent _ _ C02_diamond_perm wf_diamond.uniq C02_diamond_consistent kw _
    (fun os e => by cases e; simp)

example : (runTop [fA, fD, fB] [("x", .int 1)] (.name "d")).toOption.map (·.calls) = some ["fa", "fb", "fd"] := by decide

example (n : Nat) (o : String) (s : St) (kw : List (String × Val)) :
    run [fD, fB, fA] kw n o s = run [fA, fD, fB] kw n o s :=
  C02_run_state_order_independent _ _ C02_diamond_perm wf_diamond.uniq C02_diamond_consistent kw n o s

example : getItem [fD, fB, fA] (.whole ["b", "c"]) = getItem [fA, fD, fB] (.whole ["b", "c"]) :=
  C02_getitem_order_independent _ _ C02_diamond_perm wf_diamond.uniq _ (fun os e => by cases e; simp)

example (kw : List (String × Val)) : callLeaf [fD, fB, fA] kw = callLeaf [fA, fD, fB] kw :=
  C02_call_leaf_order_independent _ _ C02_diamond_perm wf_diamond.uniq C02_diamond_consistent
    (by intro f hf; simp [fD, fB, fA] at hf; rcases hf with rfl | rfl | rfl <;> simp) kw
example : (callLeaf [fA, fD, fB] [("x", .int 1)]).toOption.map (·.calls) = some ["fa", "fb", "fd"] := by decide

example : WFp [fA, fD, fB] rankD := C02_wf_order_independent _ _ rankD C02_diamond_perm wf_diamond

/-- `C02_relisted_run_is_compose` at work: the run on the re-listing exists, so the theorem speaks about a real outcome -/
example : ∃ out, runTop [fA, fD, fB] [("x", .int 1)] (.name "d") = .ok out ∧
    runTop [fD, fB, fA] [("x", .int 1)] (.name "d") = .ok out ∧ out.calls.Nodup := by
  obtain ⟨out, h⟩ : ∃ out, runTop [fA, fD, fB] [("x", .int 1)] (.name "d") = .ok out := ⟨_, rfl⟩
  have := C02_relisted_run_is_compose _ _ rankD C02_diamond_perm wf_diamond C02_diamond_consistent _ "d" out h
  exact ⟨out, h, this.1, this.2.2.1⟩

/-- the empty tuple request is the one excluded request: two output-less functions would be told apart by position only -/
example : (getItem [⟨"p", [], [], [], []⟩, ⟨"q", [], [], [], []⟩] (.whole [])).map (·.name) = some "p" := by decide
example : (getItem [⟨"q", [], [], [], []⟩, ⟨"p", [], [], [], []⟩] (.whole [])).map (·.name) = some "q" := by decide

end PF.C02
