import PfModel.Lemmas.XLabelRankConf
import PfModel.Props.C19Sel
import PfModel.Props.C01Total
import PfModel.Props.C01Axes
/-!
C19 (proof round) — the two hypotheses that `C19_sel_run` left open (`hdata`: the variable's data is an array; `hrank`: of the rank
of its dimensions — REPORT round 9, "Hypotheses that stay … not derived from the run model") are derived from the run:
`C19_run_output_array` (what `runMap` returns for an output of a function mapped over inputs), `C19_var_array` (every variable with
dimensions of either constructor's dataset), `C19_sel_run_closed` (the sel clause of the property text without `hdata`/`hrank`),
`C19_rankWF_of_conforms` / `C19_sel_valid_request` (the well-formedness is part of C01's `Conforms`, under which the run exists:
the sel clause for EVERY valid map request, no hypothesis on run or data left), `C19_consistent_iff_validate` (the hypothesis
`Consistent` of `C19_dims_in_order` is exactly what C01's model of `validate_consistent_axes` accepts — decidable), and a `decide`
witness that the `generators` clause of `RankWF` cannot be dropped.
-/
namespace PF.C19
open PF PF.Map PF.XLabel PF.RIC

/-- **What a run returns for an output of a function mapped over inputs** (distinct output names): an array of the shape
    `map_shapes` recorded for the function, with one axis per output index of the function's own MapSpec. -/
theorem C19_run_output_array (fs : List MFunc) (inputs : List (String × Val)) (ui : List (String × List Nat)) (r : MapResult)
    (h : runMap fs inputs ui = .ok r) (hn : (allOutputs fs).Nodup) (f : MFunc) (hf : f ∈ fs) (ms : MSpec)
    (hms : f.mapspec = some ms) (hin : ms.inputs.isEmpty = false) (o : String) (ho : o ∈ f.outputs) (v : Val)
    (hv : alookup r.outputs o = some v) :
    ∃ sh elems, v = .arr sh elems ∧ sh.length = ms.outputIndices.length ∧
      ∃ hd, f.outputs.head? = some hd ∧ alookup r.shapes hd = some sh :=
  runMap_output_array fs inputs ui r h hn f hf ms hms hin o ho v hv

/-- **Every variable with dimensions holds an array of exactly that rank** — `hdata` and `hrank` of `C19_sel_run`, for every run of a
    well-formed pipeline (`RankWF`), either constructor, `load_intermediate` on/off, MapSpec outputs (mapped over inputs or produced
    by a `... -> v[j]` function) and outputs without MapSpec alike. -/
theorem C19_var_array (fs : List MFunc) (inputs : List (String × Val)) (ui : List (String × List Nat))
    (r : MapResult) (hrun : runMap fs inputs ui = .ok r) (wf : RankWF fs) (viaFolder li : Bool) (ds : Dataset)
    (h : (if viaFolder then fromFolder (pipelineMapspecs fs) (effectiveInputs fs inputs) r li
          else fromResults (pipelineMapspecs fs) (effectiveInputs fs inputs) r li) = .ok ds)
    (var : Var) (hvar : var ∈ ds.vars) (dims : List (Option String)) (hd : var.dims = some dims) (hne : dims ≠ []) :
    ∃ dsh elems, var.data = .arr dsh elems ∧ dsh.length = dims.length := by
  have hres : fromResults (pipelineMapspecs fs) (effectiveInputs fs inputs) r li = .ok ds := by
    cases viaFolder
    · simpa using h
    · have h' : fromFolder (pipelineMapspecs fs) (effectiveInputs fs inputs) r li = .ok ds := by simpa using h
      unfold fromFolder at h'
      rw [runMap_stored_eq_outputs fs inputs ui r hrun] at h'
      exact h'
  unfold fromResults at hres
  obtain ⟨_, hload, hkind⟩ := C19_vars_sound _ _ _ _ li ds hres var hvar
  rcases hkind with ⟨hms, dims', hd', hax⟩ | ⟨_, hsd⟩
  · rw [hd] at hd'; cases hd'
    unfold msOutOf at hms
    obtain ⟨hms, _⟩ := List.mem_filter.mp hms
    obtain ⟨ms, hmsmem, hnm⟩ := List.mem_flatMap.mp hms
    obtain ⟨a, ha, hname⟩ := List.mem_map.mp hnm
    obtain ⟨f, hfl, hfm⟩ := List.mem_filterMap.mp hmsmem
    have hf : f ∈ fs := generations_mem fs f hfl
    have ho : var.name ∈ f.outputs := by
      rw [← wf.spec_outputs f hf ms hfm, ← hname]; exact List.mem_map.mpr ⟨a, ha, rfl⟩
    obtain ⟨names, hnamed, hhead⟩ := wf.named f hf ms hfm a ha
    have hamem : a ∈ allSpecs (pipelineMapspecs fs) := by
      unfold allSpecs
      exact List.mem_flatMap.mpr ⟨ms, hmsmem, List.mem_append_right _ ha⟩
    have hax' := mapspecAxes_named _ a names wf.consistent hamem hnamed
    rw [hname, hax] at hax'
    cases hax'
    have hlen := outputIndices_len ms a ha names hnamed hhead
    cases hin : ms.inputs.isEmpty with
    | false =>
      obtain ⟨sh, elems, hv, hl, _⟩ := runMap_output_array fs inputs ui r hrun wf.outputs_nodup f hf ms hfm hin var.name ho var.data hload
      exact ⟨sh, elems, hv, by rw [hl, hlen]⟩
    | true =>
      obtain ⟨sh, hret, hl⟩ := wf.generators f hf ms hfm hin
      obtain ⟨_, houts⟩ := runMap_outs fs inputs ui r hrun
      obtain ⟨g, hg, hog, hk⟩ := houts (var.name, var.data) (alookup_some_mem _ _ _ hload)
      have hgf : g = f := outputs_unique fs wf.outputs_nodup g (generations_mem fs g hg) f hf var.name hog ho
      subst hgf
      rcases hk with ⟨ms', _, _, _, hms', hin', _⟩ | ⟨_, args, hval⟩
      · rw [hfm] at hms'; cases hms'; rw [hin] at hin'; cases hin'
      · simp only [outVal, hret] at hval
        exact ⟨sh, _, hval, by rw [hl, hlen]⟩
  · rw [hd] at hsd
    cases hdat : var.data with
    | arr sh es =>
      rw [hdat] at hsd
      simp only [singleDims] at hsd
      split at hsd
      · cases hsd
      · cases hsd
        exact ⟨sh, es, rfl, by simp⟩
    | _ =>
      rw [hdat] at hsd
      simp only [singleDims] at hsd
      cases hsd
      exact absurd rfl hne

/-- **Selecting by coordinate value returns the elements computed from that value — with no hypothesis on the data left.**
    `C19_sel_run` for every run of a well-formed pipeline: the variable's data IS an array `dsh`/`elems` of the rank of its
    dimensions (derived, not assumed), `ds[var].sel({c: xs[p]})` is an array `s`, and every element of `s` is the element of the
    run's output at the full index with `p` at axis `q`. -/
theorem C19_sel_run_closed (eq : Val → Val → Bool) (fs : List MFunc) (inputs : List (String × Val)) (ui : List (String × List Nat))
    (r : MapResult) (hrun : runMap fs inputs ui = .ok r) (wf : RankWF fs) (viaFolder li : Bool) (ds : Dataset)
    (h : (if viaFolder then fromFolder (pipelineMapspecs fs) (effectiveInputs fs inputs) r li
          else fromResults (pipelineMapspecs fs) (effectiveInputs fs inputs) r li) = .ok ds)
    (var : Var) (hvar : var ∈ ds.vars) (dims : List (Option String)) (hd : var.dims = some dims) (h2 : 2 ≤ dims.length)
    (c : Coord) (hc : c ∈ ds.coords) (a : String) (sh : List Nat) (xs : List Val) (hcd : c.dims = [a])
    (hcv : c.val = .plain (.arr sh xs)) (q : Nat) (hq : dims.findIdx? (· = some a) = some q)
    (p : Nat) (hp : p < xs.length) (hrefl : eq xs[p] xs[p] = true)
    (hdist : ∀ i (_ : i < xs.length), i < p → eq xs[p] xs[i] = false) :
    specMap fs inputs ui = .ok r ∧ alookup r.outputs var.name = some var.data ∧
    ∃ dsh elems, var.data = .arr dsh elems ∧ dsh.length = dims.length ∧
    ∃ da s, dsArray ds var = some da ∧ sel eq da c.name xs[p] = some s ∧
      ∀ F e, InRange dsh F → F[q]? = some p → indexVal var.data (F.map some) = some e →
        indexVal s ((F.eraseIdx q).map some) = some e := by
  obtain ⟨dsh, elems, hdata, hrank⟩ := C19_var_array fs inputs ui r hrun wf viaFolder li ds h var hvar dims hd
    (by intro e; rw [e] at h2; simp at h2)
  obtain ⟨h1, h2', da, s, h3, h4, h5⟩ := C19_sel_run eq fs inputs ui r hrun viaFolder li ds h var hvar dims hd dsh elems hdata hrank h2
    c hc a sh xs hcd hcv q hq p hp hrefl hdist
  exact ⟨h1, h2', dsh, elems, hdata, hrank, da, s, h3, h4, h5⟩

/-- **`Consistent` — the hypothesis of `C19_dims_in_order` ("dimensions are the MapSpec axes in order") — is exactly what
    `validate_consistent_axes` accepts** (C01's model `PF.MapAxes.validate`, compared with the real function by C01Axes): it holds
    for every pipeline `map` runs at all, and is decidable.  No hypotheses. -/
theorem C19_consistent_iff_validate (mss : List MSpec) :
    Consistent (allSpecs mss) ↔ PF.MapAxes.validate mss = .ok () := by
  rw [PF.C01.C01_consistent_axes_model_specs, consistent_iff_agree]
  rfl

/-- **C01's valid map requests are rank-well-formed**: `RankWF` (all five clauses, including the contract of `... -> v[j]`
    functions) follows from `Conforms fs inputs ui` — the predicate under which `C01_never_refused` proves that the run exists. -/
theorem C19_rankWF_of_conforms (fs : List MFunc) (inputs : List (String × Val)) (ui : List (String × List Nat))
    (h : PF.C01.Conforms fs inputs ui = true) : RankWF fs :=
  rankWF_of_conforms fs inputs ui h

/-- **The sel clause for every valid map request** (property text: "Selecting by coordinate value therefore returns the element
    computed from that input value"), chained from C01: the request conforms ⇒ the run returns `r` = its denotation; for either
    constructor, every variable of rank ≥ 2, every plain 1-D coordinate of the dataset on one of its dimensions and every value
    that occurs once up to `p`: the variable is the run's output, its data is an array of the rank of its dimensions, `sel` returns an
    array whose elements are the run's elements at the full indices with `p` at that axis.  No hypothesis on the run or the data. -/
theorem C19_sel_valid_request (eq : Val → Val → Bool) (fs : List MFunc) (inputs : List (String × Val)) (ui : List (String × List Nat))
    (hvalid : PF.C01.Conforms fs inputs ui = true) :
    ∃ r, runMap fs inputs ui = .ok r ∧ specMap fs inputs ui = .ok r ∧
    ∀ (viaFolder li : Bool) (ds : Dataset),
      (if viaFolder then fromFolder (pipelineMapspecs fs) (effectiveInputs fs inputs) r li
       else fromResults (pipelineMapspecs fs) (effectiveInputs fs inputs) r li) = .ok ds →
    ∀ var ∈ ds.vars, ∀ dims, var.dims = some dims → 2 ≤ dims.length →
    ∀ c ∈ ds.coords, ∀ (a : String) (sh : List Nat) (xs : List Val), c.dims = [a] → c.val = .plain (.arr sh xs) →
    ∀ q, dims.findIdx? (· = some a) = some q →
    ∀ (p : Nat) (hp : p < xs.length), eq xs[p] xs[p] = true → (∀ i (_ : i < xs.length), i < p → eq xs[p] xs[i] = false) →
      alookup r.outputs var.name = some var.data ∧
      ∃ dsh elems, var.data = .arr dsh elems ∧ dsh.length = dims.length ∧
      ∃ da s, dsArray ds var = some da ∧ sel eq da c.name xs[p] = some s ∧
        ∀ F e, InRange dsh F → F[q]? = some p → indexVal var.data (F.map some) = some e →
          indexVal s ((F.eraseIdx q).map some) = some e := by
  obtain ⟨r, hrun⟩ := PF.C01.C01_never_refused fs inputs ui hvalid
  refine ⟨r, hrun, C19_values fs inputs ui r hrun, ?_⟩
  intro viaFolder li ds h var hvar dims hd h2 c hc a sh xs hcd hcv q hq p hp hrefl hdist
  exact (C19_sel_run_closed eq fs inputs ui r hrun (rankWF_of_conforms fs inputs ui hvalid) viaFolder li ds h var hvar dims hd h2
    c hc a sh xs hcd hcv q hq p hp hrefl hdist).2

/-! ### non-vacuity -/

/-- `x0[i], x1[j] -> y[i, j]` (mapped over inputs), `... -> v[k]` (called once; returns arrays of shape `ret`), a plain `z = h(y)`
    returning a 2 × 2 array -/
def rkF : MFunc := { name := "f", params := [("x0", "x0"), ("x1", "x1")], outputs := ["y"], mapspec := some ⟨[⟨"x0", [some "i"]⟩, ⟨"x1", [some "j"]⟩], [⟨"y", [some "i", some "j"]⟩]⟩, ret := none, internal := none, defaults := [], bound := [] }
def rkG (ret : Option (List Nat)) : MFunc := { name := "g", params := [], outputs := ["v"], mapspec := some ⟨[], [⟨"v", [some "k"]⟩]⟩, ret := ret, internal := some [2], defaults := [], bound := [] }
def rkZ : MFunc := { name := "h", params := [("y", "y")], outputs := ["z"], mapspec := none, ret := some [2, 2], internal := none, defaults := [], bound := [] }
def rkFs : List MFunc := [rkF, rkG (some [2]), rkZ]
def rkBad : List MFunc := [rkF, rkG none, rkZ]
def rkIns : List (String × Val) := [("x0", .arr [2] [.int 5, .int 3]), ("x1", .arr [3] [.int 7, .int 8, .int 9])]
/-- the dataset of `xarray_dataset_from_results` after the run -/
def rkDs (fs : List MFunc) (li : Bool) : Option Dataset :=
  (runMap fs rkIns []).toOption.bind fun r => (fromResults (pipelineMapspecs fs) (effectiveInputs fs rkIns) r li).toOption
/-- `0` for data that is not an array, else `1 + rank` -/
def rkRank (v : Var) : Nat := match v.data with | .arr sh _ => 1 + sh.length | _ => 0

/-- the hypothesis of `C19_rankWF_of_conforms` / `C19_sel_valid_request` holds for this request … -/
example : PF.C01.Conforms rkFs rkIns [] = true := by decide
/-- … hence `RankWF` (hypothesis of `C19_var_array`, `C19_sel_run_closed`) … -/
example : RankWF rkFs := C19_rankWF_of_conforms rkFs rkIns [] (by decide)
/-- … the run exists, returns `y`, `v`, `z` and records rank-2 shapes (hypotheses of `C19_run_output_array` for `f`, `y`) … -/
example : (runMap rkFs rkIns []).toOption.map (fun r => (akeys r.outputs, r.shapes)) =
    some (["y", "v", "z"], [("x0", [2]), ("x1", [3]), ("y", [2, 3]), ("v", [2])]) := by decide
example : (allOutputs rkFs).Nodup ∧ rkF ∈ rkFs ∧ rkF.mapspec.map (·.inputs.isEmpty) = some false ∧ "y" ∈ rkF.outputs :=
  ⟨by decide, List.mem_cons_self .., by decide, by decide⟩
/-- … and the dataset has variables with dimensions of every kind (mapped over inputs, `... -> v[k]`, no MapSpec), each an array of
    the rank of its dimensions, and plain 1-D coordinates on both dimensions of `y` (rank 2: the premises of `C19_sel_valid_request`
    are met by `var = y`, `c = x0` / `x1`, every position — the values 5, 3 / 7, 8, 9 are pairwise different). -/
example : (rkDs rkFs true).map (fun ds => ds.vars.map fun v => (v.name, v.dims.getD [])) =
    some [("y", [some "i", some "j"]), ("v", [some "k"]), ("z", [some "z_dim_0", some "z_dim_1"])] := by decide
example : (rkDs rkFs true).map (fun ds => (ds.vars.map rkRank, ds.coords.map fun c => (c.name, c.dims))) =
    some ([3, 2, 3], [("x0", ["i"]), ("x1", ["j"])]) := by decide
example : PF.MapAxes.validate (pipelineMapspecs rkFs) = .ok () := by decide
example : Consistent (allSpecs (pipelineMapspecs rkFs)) := (C19_consistent_iff_validate _).mpr (by decide)
/-- `x[i, j] -> a[i, j]` next to `x[j, i] -> b[j, i]`: refused by `validate_consistent_axes`, so not `Consistent` -/
example : ¬ Consistent (allSpecs [⟨[⟨"x", [some "i", some "j"]⟩], [⟨"a", [some "i", some "j"]⟩]⟩,
    ⟨[⟨"x", [some "j", some "i"]⟩], [⟨"b", [some "j", some "i"]⟩]⟩]) := by
  rw [C19_consistent_iff_validate]; decide
/-- **The `generators` clause of `RankWF` cannot be dropped** (when `hdata` of `C19_sel_run` fails): the same pipeline with a
    `... -> v[k]` function that returns a bare term (`ret = none`) is not a valid request (C01), yet the model's run succeeds, the
    dataset has the variable `v` with dimensions `[k]` — and its data is not an array. -/
example : PF.C01.Conforms rkBad rkIns [] = false ∧
    (rkDs rkBad true).map (fun ds => ds.vars.map fun v => (v.name, v.dims.getD [])) =
      some [("y", [some "i", some "j"]), ("v", [some "k"]), ("z", [some "z_dim_0", some "z_dim_1"])] ∧
    (rkDs rkBad true).map (fun ds => ds.vars.map rkRank) = some [3, 0, 3] := by decide

end PF.C19
