import PfModel.Lemmas.CachePolicyShared
import PfModel.Props.C14
/-!
C14, last sentence: "With shared=True the same holds for operations issued from several processes."

`PF.Cache.Shared` (Model/CachePolicyShared.lean) models the processes: every public operation is
`prelude ; with lock: container accesses ; epilogue`, an arbitrary scheduler interleaves the micro-steps of any number of
processes, `acquire` blocks while another process holds the lock.  The theorems: every such execution is *linearisable* — it is
explained by the sequential history of the same operations in the order in which their critical sections were entered — and
therefore clauses (a)–(d), proved for sequential histories in `Props/C14.lean`, hold for concurrent ones.

ASSUMED about the implementation, CHECKED by the preemption stream of `harness/props/c14.py` (not proved): each operation of
`LRUCache`/`HybridCache` touches the shared containers only inside one `with self._cache_lock:` block, and the manager's lock
is a mutual-exclusion lock.  (Until the repair DF-C14-unlocked-len-in, `__len__`/`__contains__` did not take the lock.)
-/
namespace PF.C14
open PF.Cache PF.Cache.Shared

/-- Linearisability.  For every container `M` with representation invariant `Inv`, every decomposition `B` of its operations
    into critical sections of container accesses, every start state and EVERY schedule of any number of processes: the sequential
    history `c.lin` (operations in the order their critical sections were entered) runs without raising from `s0`; every result
    that an operation has returned is the result of that operation in the sequential run; whenever the lock is free the shared
    state is the state of the sequential run; and at most one process is inside a critical section. -/
theorem C14_shared_linearisable {σ L : Type} (B : Body σ L) (M : Sem σ) (Inv : σ → Prop) (hL : Lawful M Inv)
    (hB : Implements B M Inv Op.WF) (s0 : σ) (h0 : Inv s0) (sch : List (Pid × Op)) (hwf : ∀ ev ∈ sch, ev.2.WF) :
    let c := exec B (Config.init s0) sch
    ∃ s os, M.run s0 (c.lin.map (·.2)) = .ok (s, os) ∧ Inv s ∧ os.length = c.lin.length ∧
      (∀ t p op o, (t, p, op, o) ∈ c.log → c.lin[t]? = some (p, op) ∧ os[t]? = some o) ∧
      (c.lock = none → c.shared = s) ∧
      (∀ p q, (c.procs p).isCrit = true → (c.procs q).isCrit = true → p = q ∧ c.lock = some p) := by
  intro c
  obtain ⟨hist, s, os, g⟩ := good_exec B M Inv hL hB s0 sch (Config.init s0) [] s0 [] (good_init B M Inv s0 h0) hwf
  obtain ⟨s', os', h1, h2, h3, h4, h5⟩ := good_lin B M Inv hL s0 _ hist s os g
  exact ⟨s', os', h1, h2, h3, h4, h5, fun p q hp hq => good_mutex B M Inv s0 _ hist s os g p q hp hq⟩

/-- Every operation of a concurrent execution is ONE atomic step of the sequential model, taken from a state that satisfies the
    representation invariant (the state the operations linearised before it lead to) — so the per-operation theorems of
    `Props/C14.lean` (`C14_lru_refines`, `C14_lru_evicts_front`, `C14_hybrid_evicts_min`, …) apply to it — and what the
    operation returned to its process is the answer of that step. -/
theorem C14_shared_steps {σ L : Type} (B : Body σ L) (M : Sem σ) (Inv : σ → Prop) (hL : Lawful M Inv)
    (hB : Implements B M Inv Op.WF) (s0 : σ) (h0 : Inv s0) (sch : List (Pid × Op)) (hwf : ∀ ev ∈ sch, ev.2.WF) :
    let c := exec B (Config.init s0) sch
    ∀ t p op, c.lin[t]? = some (p, op) →
      ∃ st ost st1 o, M.run s0 ((c.lin.take t).map (·.2)) = .ok (st, ost) ∧ Inv st ∧ M.step st op = .ok (st1, o) ∧ Inv st1 ∧
        ∀ p' op' o', (t, p', op', o') ∈ c.log → o' = o := by
  intro c t p op ht
  obtain ⟨s, os, hr, _, _, hlog, _, _⟩ := C14_shared_linearisable B M Inv hL hB s0 h0 sch hwf
  obtain ⟨hlt, hget⟩ := List.getElem?_eq_some_iff.mp ht
  have hsplit : c.lin = c.lin.take t ++ (p, op) :: c.lin.drop (t + 1) := by
    have := List.take_append_drop t c.lin
    rw [← hget]
    conv => lhs; rw [← this]
    rw [List.drop_eq_getElem_cons hlt]
  have hmap : c.lin.map (·.2) = (c.lin.take t).map (·.2) ++ op :: (c.lin.drop (t + 1)).map (·.2) := by
    conv => lhs; rw [hsplit]
    simp
  change M.run s0 (c.lin.map (·.2)) = .ok (s, os) at hr
  rw [hmap] at hr
  obtain ⟨st, ost, st1, o, e1, e2, e3⟩ := run_split M _ op _ s0 s os hr
  have hwfl : ∀ op' ∈ (c.lin.take t).map (·.2), op'.WF := by
    intro op' hm
    -- every linearised operation was scheduled, hence well-formed
    exact (lin_wf B M Inv hL hB s0 h0 sch hwf) op' (by
      simp only [List.mem_map] at hm ⊢
      obtain ⟨e, he, rfl⟩ := hm
      exact ⟨e, List.mem_of_mem_take he, rfl⟩)
  obtain ⟨st', ost', hrun', hi', _⟩ := hL.run_ok _ s0 h0 hwfl
  rw [e1] at hrun'
  cases hrun'
  have hopwf : op.WF := (lin_wf B M Inv hL hB s0 h0 sch hwf) op (by
    simp only [List.mem_map]; exact ⟨(p, op), List.mem_of_getElem? ht, rfl⟩)
  obtain ⟨st1', o', hs', hi1⟩ := hL.total st op hi' hopwf
  rw [e2] at hs'
  cases hs'
  refine ⟨st, ost, st1, o, e1, hi', e2, hi1, ?_⟩
  intro p' op' o' hm
  have := (hlog t p' op' o' hm).2
  have hlen : ((c.lin.take t).map (·.2)).length = t := by simp; omega
  rw [hlen] at e3
  rw [e3] at this
  cases this
  rfl

/-! ### clauses (a)–(d) for concurrent executions of the two shared containers -/

/-- `LRUCache(shared=True)`, the critical sections taken statement by statement (`lruBody`): for EVERY schedule of any number
    of processes (a) the linearisation runs without raising and every returned result is the sequential one; (b) the state the
    processes share whenever the lock is free has `len ≤ max_size` and its queue lists exactly the resident keys once;
    (c) there, `k in cache` is `true` exactly when `cache.get(k)` is a value, and that value is the most recent `put` of `k` in the
    linearisation. -/
theorem C14_shared_lru (max : Nat) (hmax : 0 < max) (sch : List (Pid × Op)) (hwf : ∀ ev ∈ sch, ev.2.WF) :
    let c := exec lruBody (Config.init (LRU.empty max)) sch
    ∃ s os, lruSem.run (LRU.empty max) (c.lin.map (·.2)) = .ok (s, os) ∧
      (∀ t p op o, (t, p, op, o) ∈ c.log → c.lin[t]? = some (p, op) ∧ os[t]? = some o) ∧
      (c.lock = none → c.shared = s) ∧
      s.dict.length ≤ max ∧ s.queue.Nodup ∧ (∀ k, k ∈ s.queue ↔ has s.dict k = true) ∧
      (∀ k, ∃ b o s2, s.step (.has k) = .ok (s, .bool b) ∧ s.step (.get k) = .ok (s2, .val o) ∧ b = o.isSome ∧
        ∀ x, o = some x → lastPut (c.lin.map (·.2)) k = some x) := by
  intro c
  have h0 := LRU.inv_empty max hmax
  obtain ⟨s, os, hr, hi, _, hlog, hfree, _⟩ := C14_shared_linearisable lruBody lruSem LRU.Inv lru_lawful lru_implements _ h0 sch hwf
  have hlwf := lin_wf lruBody lruSem LRU.Inv lru_lawful lru_implements _ h0 sch hwf
  have hm : s.max = max := lru_run_max _ (LRU.empty max) s os h0 hlwf hr
  obtain ⟨_, hsame, _, hle⟩ := C14_lru_len_le s hi
  refine ⟨s, os, hr, hlog, hfree, hm ▸ hle, hi.qnodup, hsame, ?_⟩
  intro k
  obtain ⟨s', os', hr', hrest⟩ := C14_present_iff_get_lru max hmax _ hlwf k
  change lruSem.run (LRU.empty max) (c.lin.map (·.2)) = .ok (s, os) at hr
  rw [hr] at hr'
  cases hr'
  exact hrest

/-- `HybridCache(shared=True)` (critical sections taken whole): the same three clauses -/
theorem C14_shared_hybrid (max wa wd : Nat) (hmax : 0 < max) (sch : List (Pid × Op)) (hwf : ∀ ev ∈ sch, ev.2.WF) :
    let c := exec (Body.ofSem hybSem) (Config.init (Hyb.empty max wa wd)) sch
    ∃ s os, hybSem.run (Hyb.empty max wa wd) (c.lin.map (·.2)) = .ok (s, os) ∧
      (∀ t p op o, (t, p, op, o) ∈ c.log → c.lin[t]? = some (p, op) ∧ os[t]? = some o) ∧
      (c.lock = none → c.shared = s) ∧
      s.dict.length ≤ max ∧ keys s.ac = keys s.dict ∧ keys s.du = keys s.dict ∧
      (∀ k, ∃ b o s2, s.step (.has k) = .ok (s, .bool b) ∧ s.step (.get k) = .ok (s2, .val o) ∧ b = o.isSome ∧
        ∀ x, o = some x → lastPut (c.lin.map (·.2)) k = some x) := by
  intro c
  have h0 := Hyb.inv_empty max wa wd hmax
  have hB := ofSem_implements hybSem Hyb.Inv hyb_lawful
  obtain ⟨s, os, hr, hi, _, hlog, hfree, _⟩ := C14_shared_linearisable (Body.ofSem hybSem) hybSem Hyb.Inv hyb_lawful hB _ h0 sch hwf
  have hlwf := lin_wf (Body.ofSem hybSem) hybSem Hyb.Inv hyb_lawful hB _ h0 sch hwf
  have hm : s.max = max := hyb_run_max _ (Hyb.empty max wa wd) s os h0 hlwf hr
  obtain ⟨hle, hac, hdu⟩ := C14_hybrid_len_le s hi
  refine ⟨s, os, hr, hlog, hfree, hm ▸ hle, hac, hdu, ?_⟩
  intro k
  obtain ⟨s', os', hr', hrest⟩ := C14_present_iff_get_hybrid max wa wd hmax _ hlwf k
  change hybSem.run (Hyb.empty max wa wd) (c.lin.map (·.2)) = .ok (s, os) at hr
  rw [hr] at hr'
  cases hr'
  exact hrest

/-- (d) for concurrent `LRUCache` executions: the `t`-th linearised operation, when it is a `put`, acts on the recency list of
    the state before it exactly as the policy says (`Recency.put`: to the back; the front — the least recently used entry —
    leaves when the list would exceed `max_size`), whatever the other processes were doing meanwhile. -/
theorem C14_shared_lru_evicts (max : Nat) (hmax : 0 < max) (sch : List (Pid × Op)) (hwf : ∀ ev ∈ sch, ev.2.WF) :
    let c := exec lruBody (Config.init (LRU.empty max)) sch
    ∀ t p k v d, c.lin[t]? = some (p, .put k v d) →
      ∃ st ost st1, lruSem.run (LRU.empty max) ((c.lin.take t).map (·.2)) = .ok (st, ost) ∧ st.put k v = .ok st1 ∧
        st1.abs = Recency.put st.max st.abs k v ∧ st.abs.length ≤ st.max := by
  intro c t p k v d ht
  obtain ⟨st, ost, st1, o, hr, hi, hs, _, _⟩ :=
    C14_shared_steps lruBody lruSem LRU.Inv lru_lawful lru_implements _ (LRU.inv_empty max hmax) sch hwf t p (.put k v d) ht
  obtain ⟨_, hput, _⟩ := C14_lru_refines st hi
  obtain ⟨s', hp, habs, _⟩ := hput k v
  refine ⟨st, ost, s', hr, hp, habs, ?_⟩
  rw [LRU.abs_length]; exact hi.bound

/-- (d) for concurrent `HybridCache` executions: the `t`-th linearised `put` removes, from the state before it, the entry
    `C14_hybrid_evicts_min` designates (first entry of minimal score) — or nothing when there is room. -/
theorem C14_shared_hybrid_evicts (max wa wd : Nat) (hmax : 0 < max) (sch : List (Pid × Op)) (hwf : ∀ ev ∈ sch, ev.2.WF) :
    let c := exec (Body.ofSem hybSem) (Config.init (Hyb.empty max wa wd)) sch
    ∀ t p k v d, c.lin[t]? = some (p, .put k v d) →
      ∃ st ost st1 ev, hybSem.run (Hyb.empty max wa wd) ((c.lin.take t).map (·.2)) = .ok (st, ost) ∧ st.Inv ∧
        st.put k v d = .ok (st1, ev) ∧
        (st.dict.length < st.max → ev = none) ∧
        (st.dict.length = st.max → ∃ e sc, ev = some e ∧ has st.dict e = true ∧
          (∀ q ∈ st.ac, sc ≤ Hyb.score st.wa st.wd (total st.ac) (total st.du) q.2 ((lookup st.du q.1).getD 0)) ∧
          ∃ pre post, Hyb.scores st = pre ++ (e, sc) :: post ∧ ∀ q ∈ pre, sc < q.2) := by
  intro c t p k v d ht
  have hB := ofSem_implements hybSem Hyb.Inv hyb_lawful
  obtain ⟨st, ost, st1, o, hr, hi, hs, _, _⟩ :=
    C14_shared_steps (Body.ofSem hybSem) hybSem Hyb.Inv hyb_lawful hB _ (Hyb.inv_empty max wa wd hmax) sch hwf t p (.put k v d) ht
  obtain ⟨s', ev, hp, h1, h2⟩ := C14_hybrid_evicts_min st k v d hi
  refine ⟨st, ost, s', ev, hr, hi, hp, fun h => (h1 h).1, ?_⟩
  intro hfull
  obtain ⟨e, sc, he, hhas, _, hmin, hfirst⟩ := h2 hfull
  exact ⟨e, sc, he, hhas, hmin, hfirst⟩

/-! ### non-vacuity: a real interleaving -/

/-- two processes on `LRUCache(max_size=1, shared=True)`: process 0 starts `put(0, 10)`, process 1 starts `put(1, 11)` and is
    scheduled while process 0 is inside its critical section (it blocks), then both finish, then process 0 asks `in` for both
    keys.  Tickets 0..3, results as in the sequential history `put 0; put 1; has 0; has 1`. -/
def demoSchedule : List (Pid × Op) :=
  [(0, .put 0 10 0), (0, .len), (0, .len), (1, .put 1 11 0), (1, .len), (0, .len), (1, .len), (0, .len), (0, .len), (0, .len), (0, .len),
   (1, .len), (1, .len), (1, .len), (1, .len), (1, .len), (1, .len), (1, .len), (0, .len), (1, .len),
   (0, .has 0), (0, .len), (0, .len), (0, .len), (0, .len), (0, .has 1), (0, .len), (0, .len), (0, .len), (0, .len)]

example : ∀ ev ∈ demoSchedule, ev.2.WF := by simp [demoSchedule, Op.WF]

example : ((exec lruBody (Config.init (LRU.empty 1)) demoSchedule).log.map fun e => (e.1, e.2.1, e.2.2.2)) =
    [(0, 0, .unit), (1, 1, .unit), (2, 0, .bool false), (3, 0, .bool true)] := by decide

example : (exec lruBody (Config.init (LRU.empty 1)) demoSchedule).lin.map (·.1) = [0, 1, 0, 0] := by decide

/-- the second process really was blocked: scheduled in `ready` while process 0 held the lock, nothing moved -/
example : let c := exec lruBody (Config.init (LRU.empty 1)) (demoSchedule.take 5)
    (c.lock, c.lin.map (·.1), (c.procs 0).isCrit, (c.procs 1).isCrit) = (some 0, [0], true, false) := by decide

example : Implements lruBody lruSem LRU.Inv Op.WF := lru_implements
example : Implements (Body.ofSem hybSem) hybSem Hyb.Inv Op.WF := ofSem_implements hybSem Hyb.Inv hyb_lawful

/-! ### DiskCache from several processes: what is and what is not promised (finding KF-C14-disk-put-not-atomic) -/

/-- Without interleaving, the three steps of `DiskCache.put` (write the file; `lru_cache.put`; evict) are the model's `Disk.put`. -/
theorem C14_disk_put_steps (s : Disk) (k : Key) (v : Val) :
    s.put k v = (match diskPutLru (diskPutFile s k v) k v with | .error e => .error e | .ok s' => .ok (diskPutEvict s')) := by
  unfold Disk.put diskPutLru diskPutFile diskPutEvict Disk.writeFile
  cases s.lru with
  | none => rfl
  | some l =>
    simp only
    cases l.put k v with
    | error e => rfl
    | ok l' => rfl

/-- Witness of the finding: `DiskCache(dir, lru_cache_size=1, lru_shared=True)` holding key 0; process A runs `put(0, 201)` and
    process B runs `clear()` after A has written the file and before A's `lru_cache.put`.  Afterwards key 0 is answered (from the
    LRU) while the directory holds no file: `0 in cache` and `len(cache) == 0`.  Neither sequential order ends like that
    (`put; clear`: absent, 0 files — `clear; put`: present, 1 file), so the execution is not linearisable.  Nothing raises. -/
theorem C14_disk_put_clear_not_atomic :
    let s0 := (Disk.empty none (some 1)).put 0 101
    let obs : Disk → Bool × Nat := fun s => (s.contains 0, s.files.length)
    (s0 >>= fun s => (diskPutLru (diskPutFile s 0 201).clear 0 201).map fun s' => obs (diskPutEvict s')).toOption = some (true, 0) ∧
    (s0 >>= fun s => (s.put 0 201).map fun s' => obs s'.clear).toOption = some (false, 0) ∧
    (s0 >>= fun s => (s.clear.put 0 201).map obs).toOption = some (true, 1) := by decide

/-- Linearisability of `DiskCache` operations issued from several processes, PARTIAL: proved for executions in which every
    operation is one critical section (`Body.ofSem diskSem`).  The implementation does not provide that — `DiskCache` has no lock
    that spans its file and LRU steps (`C14_disk_put_clear_not_atomic`; finding KF-C14-disk-put-not-atomic) — so for DiskCache
    the last sentence of the property holds only for operations that do not overlap in time. -/
theorem C14_shared_disk_partial (m l : Option Nat) (hm : m ≠ some 0) (hl : l ≠ some 0) (sch : List (Pid × Op))
    (hwf : ∀ ev ∈ sch, ev.2.WF) :
    let c := exec (Body.ofSem diskSem) (Config.init (Disk.empty m l)) sch
    ∃ s os, diskSem.run (Disk.empty m l) (c.lin.map (·.2)) = .ok (s, os) ∧ s.Inv ∧
      (∀ t p op o, (t, p, op, o) ∈ c.log → c.lin[t]? = some (p, op) ∧ os[t]? = some o) ∧
      (c.lock = none → c.shared = s) := by
  intro c
  obtain ⟨s, os, hr, hi, _, hlog, hfree, _⟩ := C14_shared_linearisable (Body.ofSem diskSem) diskSem Disk.Inv disk_lawful
    (ofSem_implements diskSem Disk.Inv disk_lawful) _ (Disk.inv_empty m l hm hl) sch hwf
  exact ⟨s, os, hr, hi, hlog, hfree⟩

end PF.C14
