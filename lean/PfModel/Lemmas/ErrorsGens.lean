import PfModel.Lemmas.Errors
import PfModel.Lemmas.ErrorsAsync
/-!
Kahn layers (`PF.Map.layers`, `PF.Map.generations`): the layers are pairwise disjoint by function name, and every producer of
a function of a layer is in an earlier layer (or already done).  Used by `Props/C13Gens.lean` to state "no function of a later
generation is invoked" for the pipeline's own generations and in terms of the DAG.
-/
namespace PF.Errors
open PF PF.Map

/-- the functions of `rest` whose producers are all done -/
def readyOf (fs : List MFunc) (done : List String) (rest : List MFunc) : List MFunc :=
  rest.filter fun f => (upstream fs f).all fun g => done.contains g

/-- what is left once `ready` has been scheduled -/
def restOf (ready rest : List MFunc) : List MFunc := rest.filter fun f => !(ready.any (·.name = f.name))

theorem layers_succ (fs : List MFunc) (fuel : Nat) (done : List String) (rest : List MFunc) :
    layers fs (fuel + 1) done rest =
      if rest.isEmpty then [] else
      if (readyOf fs done rest).isEmpty then [] else
      readyOf fs done rest ::
        layers fs fuel (done ++ (readyOf fs done rest).map (·.name)) (restOf (readyOf fs done rest) rest) := rfl

theorem mem_readyOf {fs : List MFunc} {done : List String} {rest : List MFunc} {f : MFunc} (h : f ∈ readyOf fs done rest) :
    f ∈ rest ∧ ∀ n ∈ upstream fs f, n ∈ done := by
  simp only [readyOf, List.mem_filter, List.all_eq_true] at h
  refine ⟨h.1, ?_⟩
  intro n hn
  have := h.2 n hn
  exact List.contains_iff_mem.mp this

theorem mem_restOf {ready rest : List MFunc} {h : MFunc} (hm : h ∈ restOf ready rest) :
    h ∈ rest ∧ ∀ f ∈ ready, f.name ≠ h.name := by
  simp only [restOf, List.mem_filter] at hm
  refine ⟨hm.1, ?_⟩
  intro f hf e
  have : ready.any (·.name = h.name) = true := List.any_eq_true.mpr ⟨f, hf, by simpa using e⟩
  simp [this] at hm

/-- every function of every layer is drawn from `rest` -/
theorem layers_mem_rest (fs : List MFunc) :
    ∀ (fuel : Nat) (done : List String) (rest : List MFunc) (j : Nat) (b : List MFunc) (h : MFunc),
      (layers fs fuel done rest)[j]? = some b → h ∈ b → h ∈ rest := by
  intro fuel
  induction fuel with
  | zero => intro done rest j b h e; simp [layers] at e
  | succ fuel ih =>
    intro done rest j b h e hm
    rw [layers_succ] at e
    split at e
    · simp at e
    · split at e
      · simp at e
      · cases j with
        | zero =>
          simp only [List.getElem?_cons_zero, Option.some.injEq] at e
          subst e
          exact (mem_readyOf hm).1
        | succ j =>
          simp only [List.getElem?_cons_succ] at e
          exact (mem_restOf (ih _ _ j b h e hm)).1

/-- every function of every layer has a name that is not done, provided no remaining function has -/
theorem layers_not_done (fs : List MFunc) (fuel : Nat) (done : List String) (rest : List MFunc) (j : Nat) (b : List MFunc)
    (h : MFunc) (hrest : ∀ f ∈ rest, f.name ∉ done) (e : (layers fs fuel done rest)[j]? = some b) (hm : h ∈ b) :
    h.name ∉ done := hrest h (layers_mem_rest fs fuel done rest j b h e hm)

/-- **L1**: the layers are pairwise disjoint by function name -/
theorem layers_names_disjoint (fs : List MFunc) :
    ∀ (fuel : Nat) (done : List String) (rest : List MFunc) (i j : Nat) (a b : List MFunc) (f h : MFunc),
      i < j → (layers fs fuel done rest)[i]? = some a → (layers fs fuel done rest)[j]? = some b → f ∈ a → h ∈ b →
      f.name ≠ h.name := by
  intro fuel
  induction fuel with
  | zero => intro done rest i j a b f h _ e; simp [layers] at e
  | succ fuel ih =>
    intro done rest i j a b f h hij ea eb hf hh
    rw [layers_succ] at ea eb
    split at ea
    · simp at ea
    · split at ea
      · simp at ea
      · rename_i h1 h2
        cases j with
        | zero => omega
        | succ j =>
          simp only [if_neg h1, if_neg h2, List.getElem?_cons_succ] at eb
          cases i with
          | zero =>
            simp only [List.getElem?_cons_zero, Option.some.injEq] at ea
            subst ea
            exact (mem_restOf (layers_mem_rest fs _ _ _ j b h eb hh)).2 f hf
          | succ i =>
            simp only [List.getElem?_cons_succ] at ea
            exact ih _ _ i j a b f h (by omega) ea eb hf hh

/-- **L2**: every producer of a function of layer `j` is done, or is (by name) a function of an earlier layer -/
theorem layers_upstream_earlier (fs : List MFunc) :
    ∀ (fuel : Nat) (done : List String) (rest : List MFunc) (j : Nat) (b : List MFunc) (h : MFunc) (n : String),
      (layers fs fuel done rest)[j]? = some b → h ∈ b → n ∈ upstream fs h →
      n ∈ done ∨ ∃ i, i < j ∧ ∃ a, (layers fs fuel done rest)[i]? = some a ∧ ∃ f ∈ a, f.name = n := by
  intro fuel
  induction fuel with
  | zero => intro done rest j b h n e; simp [layers] at e
  | succ fuel ih =>
    intro done rest j b h n e hm hn
    rw [layers_succ] at e ⊢
    split at e
    · simp at e
    · split at e
      · simp at e
      · rename_i h1 h2
        simp only [if_neg h1, if_neg h2]
        cases j with
        | zero =>
          simp only [List.getElem?_cons_zero, Option.some.injEq] at e
          subst e
          exact Or.inl ((mem_readyOf hm).2 n hn)
        | succ j =>
          simp only [List.getElem?_cons_succ] at e
          rcases ih _ _ j b h n e hm hn with hd | ⟨i, hi, a, ea, f, hf, hfn⟩
          · rcases List.mem_append.mp hd with hd | hd
            · exact Or.inl hd
            · obtain ⟨f, hf, hfn⟩ := List.mem_map.mp hd
              exact Or.inr ⟨0, by omega, _, rfl, f, hf, hfn⟩
          · exact Or.inr ⟨i + 1, by omega, a, by simpa using ea, f, hf, hfn⟩

/-! ### the pipeline's own generations -/

theorem generations_names_disjoint (fs : List MFunc) (i j : Nat) (a b : List MFunc) (f h : MFunc) (hij : i < j)
    (ea : (generations fs)[i]? = some a) (eb : (generations fs)[j]? = some b) (hf : f ∈ a) (hh : h ∈ b) : f.name ≠ h.name :=
  layers_names_disjoint fs _ _ _ i j a b f h hij ea eb hf hh

/-- a log that only holds functions of the generations `≤ g` holds no function (by name) of a generation `> g` -/
theorem log_not_later (fs : List MFunc) (g : Nat) (log : List Task)
    (hlog : ∀ u ∈ log, ∃ j gen, j ≤ g ∧ (generations fs)[j]? = some gen ∧ u.f ∈ gen) :
    ∀ j gen h, g < j → (generations fs)[j]? = some gen → h ∈ gen → ∀ u ∈ log, u.f.name ≠ h.name := by
  intro j gen h hj e hm u hu
  obtain ⟨i, a, hi, ea, hf⟩ := hlog u hu
  exact generations_names_disjoint fs i j a gen u.f h (by omega) ea e hf hm

/-- a function that consumes an output of a function of generation `g` is of a later generation -/
theorem consumer_later (fs : List MFunc) (g : Nat) (gen : List MFunc) (p : MFunc)
    (eg : (generations fs)[g]? = some gen) (hp : p ∈ gen) :
    ∀ h ∈ (generations fs).flatten, p.name ∈ upstream fs h → ∃ j b, g < j ∧ (generations fs)[j]? = some b ∧ h ∈ b := by
  intro h hh hup
  obtain ⟨b, hb, hhb⟩ := List.mem_flatten.mp hh
  obtain ⟨j, ej⟩ := List.getElem?_of_mem hb
  refine ⟨j, b, ?_, ej, hhb⟩
  rcases layers_upstream_earlier fs _ _ _ j b h p.name ej hhb hup with hd | ⟨i, hi, a, ea, f, hf, hfn⟩
  · cases hd
  · false_or_by_contra
    rename_i hng
    by_cases hig : i = g
    · omega
    · by_cases hlt : i < g
      · exact generations_names_disjoint fs i g a gen f p hlt ea eg hf hp hfn
      · omega

end PF.Errors
