"""C07 — Every storage backend behaves as a masked n-d object array.

Correspondence: the public methods of every class in `storage_registry` (`DictArray`, `FileArray`,
`SharedMemoryDictArray`; the zarr classes cannot be imported in this image) are driven through operation sequences
(dump / __getitem__ / to_array / mask / mask_linear / has_index / get_from_index / persist-then-reopen) and compared, per
operation, with

  * the operational Lean model of that backend (`PF.St.dStep` for the dict classes, `PF.St.fStep` for `FileArray`),
  * an independent reference written here with NumPy itself (a masked object array over the full shape, indexed by NumPy),
    which is what the property statement names; a deviation from it is a property violation with the sequence as replay,
  * each other (directly, where the reference is not consulted).

The Lean specification `PF.St.aStep` is evaluated by the driver on the same sequence and must coincide with both model
backends on every in-domain operation (that is what `C07_dict_refines` / `C07_file_refines` prove).
"""
from __future__ import annotations

import copy
import itertools
import os
import shutil
import tempfile

import numpy as np

import pfimport  # noqa: F401
from pfimport import exc_enum
from pipefunc.map._storage_array._base import storage_registry

PID = "C07"
PROPS = ["PfModel.Props.C07", "PfModel.Props.C07Ext", "PfModel.Props.C07Geom", "PfModel.Props.C07Conc", "PfModel.Props.C07Sess",
         "PfModel.Props.C07Keys", "PfModel.Props.C07Hist"]
DRIVER = "C07"
RULE = ("a case is one geometry (external/internal sizes 1..3, total rank <= 3, any of the 2^rank masks) and one operation "
        "sequence run on every sampled backend; corpus first, then (a) per small geometry an exhaustive sweep of all key tuples over "
        "ints in [-n-1, n] and a fixed slice set, for reads and dumps, after sampled prefixes, (b) seeded random sequences "
        "(length <= 12 quick / <= 24 thorough, mostly valid keys), (c) a separate malformed stream (wrong rank, far out of range, "
        "step 0, out-of-range linear indices), (d) constructor arguments (well-formed or not) and the runner's `_init_arrays` call "
        "against `PF.St.construct` / `initArrays`, (e) the registry and the class flags the runner reads against `PF.St.registry`, "
        "(f) several processes dumping into one FileArray folder (distinct cells / same cell / one writer killed) with a concurrent "
        "reader, (g) sessions on one run folder: operation sequences with `persist()` and re-opening (a new object on the folder) as "
        "SEPARATE steps in any order, re-opening without a persist included, against `PF.St.dsStep` / `fsStep` (C07_sess_*). Non-trivial: at least one successful dump followed by a read. Distinct by JSON digest.")
ASSUMPTIONS = [
    "NumPy is trusted for: element[I] = row-major position of I, .flat/reshape row-major, assignment through tuple indices",
    "cloudpickle round-trips the stored atoms and object arrays (persist/reopen, FileArray files, the Manager of SharedMemoryDictArray)",
    "stored values are atoms (opaque hashable objects, ints, strings) or, with an internal shape, object arrays of exactly that shape",
    "a result is compared as shape + row-major cells with numpy.ma.masked (by identity) or a set mask bit read as 'masked', plus, "
    "for every array-shaped result, its container type and dtype ('MaskedArray[object]', 'MaskedArray[bool]'; `Obs.container`)",
    "get_from_index of an absent element: KeyError (dict) and FileNotFoundError (file) are both read as 'Missing'",
    "linear indices outside 0 <= i < size: the reference is ndarray.flat[i] WITHOUT NumPy's wrap-around of negative indices "
    "(IndexError for every i outside the range; the storage classes never wrapped linear indices)",
    "concurrent writers: one dump of one element is one atomic event on the folder (temporary file + os.replace); the harness "
    "observes this on the local file system only (no NFS), with a reader polling while 2-4 forked writers dump",
    "constructor arguments are modelled for non-negative sizes only; geometries that the constructors accept although they are "
    "not well formed (C07_construct_accepts_non_wf) are outside the property's quantifier and are only counted",
    "sessions: re-opening = constructing a new object of the same class on the same folder in the same process (the old object is "
    "dropped); a history in which something was dumped after the last persist() and then re-opened is outside the property's "
    "'persist-then-reopen' (C07_sess_unpersisted_witness): there each class is compared with its own session model only",
    "zarr-backed classes are not importable here and are not covered (registry ids starting with 'zarr' are skipped explicitly)",
]

MODEL_OF = {"dict": "dict", "shared_memory_dict": "dict", "file_array": "file"}
SLICES = [(None, None, None), (None, None, -1), (1, None, None), (None, 1, None), (None, -1, None), (-2, None, None),
          (None, None, 2), (None, None, -2), (2, 0, -1)]


# ------------------------------------------------------------------------------------------------ values
class Atom:
    """An opaque, hashable, picklable stored value (no __len__/__iter__: NumPy never unpacks it)."""
    __slots__ = ("n",)

    def __init__(self, n):
        self.n = n

    def __eq__(self, o):
        return type(o) is Atom and o.n == self.n

    def __hash__(self):
        return hash(("Atom", self.n))

    def __repr__(self):
        return f"Atom({self.n})"

    def __reduce__(self):
        return (Atom, (self.n,))


# every fifth element id stands for a FALSY stored value (None, False, "", 0.0): the values on which `item is None` / `if not item`
# short-cuts in a backend go wrong.  Several ids share one such value, so both sides are compared through `lab`.
FALSY = [None, False, "", 0.0]


def lab(n):
    return f"F{(n // 5) % 4}" if isinstance(n, int) and not isinstance(n, bool) and n % 5 == 0 else n


def relabel(o):
    """a model observation with element ids -> the same with falsy ids replaced by their label"""
    if isinstance(o, dict):
        return {k: (relabel_v(v) if k in ("v", "flat") else v) for k, v in o.items()}
    return o


def relabel_v(v):
    if isinstance(v, list):
        return [relabel_v(x) for x in v]
    return lab(v)


def atom(n: int):
    if n % 5 == 0:
        return FALSY[(n // 5) % 4]
    k = n % 3
    return Atom(n) if k == 0 else (n if k == 1 else f"s{n}")


def atom_id(x):
    if x is np.ma.masked:
        return "masked"
    if type(x) is Atom:
        return x.n
    if x is None:
        return "F0"
    if x is False:
        return "F1"
    if isinstance(x, str) and x == "":
        return "F2"
    if isinstance(x, float) and x == 0.0:
        return "F3"
    if isinstance(x, (bool, np.bool_)):
        return f"?bool:{x}"
    if isinstance(x, (int, np.integer)):
        return int(x)
    if isinstance(x, str) and x[:1] == "s" and x[1:].lstrip("-").isdigit():
        return int(x[1:])
    return f"?{type(x).__name__}:{x!r}"[:60]


def mk_value(ids, internal):
    if not internal:
        return atom(ids[0])
    a = np.empty(tuple(internal), dtype=object)
    for j, I in enumerate(itertools.product(*map(range, internal))):
        a[I] = atom(ids[j])
    return a


def sel(mask, a, b):
    a, b = iter(a), iter(b)
    return tuple(next(a) if m else next(b) for m in mask)


def py_key(key):
    return tuple(slice(*k[1:]) if isinstance(k, list) else k for k in key)


# ------------------------------------------------------------------------------------------------ canonical observations
def canon_elem(x, internal):
    """a whole stored element -> atom id (no internal shape) or the row-major list of atom ids"""
    if x is np.ma.masked:
        return "masked"
    if not internal:
        return atom_id(x)
    arr = np.asarray(x, dtype=object) if not isinstance(x, np.ndarray) else x
    if tuple(arr.shape) != tuple(internal):
        return f"?elem-shape:{arr.shape}"
    return [atom_id(v) for v in arr.ravel().tolist()] if arr.dtype != object else [atom_id(v) for v in arr.ravel()]


def container(r):
    """container type + dtype of an array-shaped result, as the Lean driver names `Obs.container`"""
    dt = "object" if r.dtype == object else str(r.dtype)
    return f"{'MaskedArray' if isinstance(r, np.ma.MaskedArray) else type(r).__name__}[{dt}]"


def canon_array(r, cell):
    if r is np.ma.masked:
        return {"v": "masked"}
    if isinstance(r, np.ndarray):
        m = np.ma.getmaskarray(r) if isinstance(r, np.ma.MaskedArray) else np.zeros(r.shape, dtype=bool)
        data = r.data if isinstance(r, np.ma.MaskedArray) else r
        flat = []
        for idx in np.ndindex(*r.shape):
            flat.append("masked" if m[idx] else cell(data[idx]))
        return {"shape": list(r.shape), "flat": flat, "c": container(r)}
    return {"v": cell(r)}


def observe(kind, fn, internal):
    try:
        r = fn()
    except IndexError as e:
        return {"err": exc_enum(e)}
    except ValueError as e:
        return {"err": exc_enum(e)}
    except (KeyError, FileNotFoundError) as e:
        return {"err": "Missing" if kind == "at" else exc_enum(e)}
    except Exception as e:  # noqa: BLE001
        return {"err": exc_enum(e)}
    if kind in ("dump", "persist_reopen"):
        return "ok" if r is None else {"v": f"?returned:{type(r).__name__}"}
    if kind == "get":
        return canon_array(r, atom_id if internal else (lambda x: canon_elem(x, internal)))
    if kind == "to_array_flat":
        return canon_array(r, atom_id if internal else (lambda x: canon_elem(x, internal)))
    if kind == "to_array_elems":
        return canon_array(r, lambda x: canon_elem(x, internal))
    if kind == "mask":
        if not isinstance(r, np.ndarray):
            return {"v": f"?{type(r).__name__}"}
        data = np.asarray(r.data if isinstance(r, np.ma.MaskedArray) else r)
        if data.dtype != bool:
            return {"v": f"?mask-dtype:{data.dtype}"}
        if isinstance(r, np.ma.MaskedArray) and not np.array_equal(np.ma.getmaskarray(r), data):
            return {"v": "?mask-data-and-mask-differ"}
        return {"shape": list(r.shape), "flat": [bool(x) for x in data.ravel()], "c": container(r)}
    if kind == "mask_linear":
        if not isinstance(r, list) or not all(isinstance(x, (bool, np.bool_)) for x in r):
            return {"v": f"?{type(r).__name__}"}
        return {"list": [bool(x) for x in r]}
    if kind == "has":
        return {"b": bool(r)} if isinstance(r, (bool, np.bool_)) else {"v": f"?{type(r).__name__}"}
    if kind == "at":
        return {"v": canon_elem(r, internal)}
    raise AssertionError(kind)


# ------------------------------------------------------------------------------------------------ the implementation
def new_array(backend, folder, g):
    cls = storage_registry[backend]
    return cls(folder, tuple(g["shape"]), tuple(g["internal"]), tuple(g["mask"]))


def model_op(op):
    """the op as the NumPy REFERENCE reads it (a bare key indexes like the 1-tuple of it).  The Lean driver gets the op as it is:
    wrapping a bare key is `PF.St.RawKey.wrap` (round 9; it was done here before)."""
    if op[0] == "get_bare":
        return ["get", [op[1]]]
    if op[0] == "dump_bare":
        return ["dump", [op[1]], op[2]]
    return op


def to_array_kind(g, splat):
    s = bool(g["internal"]) if splat is None else splat
    return "to_array_flat" if s else "to_array_elems"


def run_impl(backend, g, ops, folder):
    """one fresh array of `backend` in `folder` (must not exist yet), all ops, canonical observations"""
    internal = g["internal"]
    out = []
    try:
        arr = new_array(backend, folder, g)
    except Exception as e:  # noqa: BLE001
        return [{"err": f"constructor:{exc_enum(e)}"}] * len(ops)
    for op in ops:
        t = op[0]
        if t in ("dump", "dump_bare"):
            key = py_key(op[1]) if t == "dump" else (slice(*op[1][1:]) if isinstance(op[1], list) else op[1])
            v = mk_value(op[2], internal)
            out.append(observe("dump", lambda: arr.dump(key, v), internal))
        elif t in ("get", "get_bare"):
            key = py_key(op[1]) if t == "get" else (slice(*op[1][1:]) if isinstance(op[1], list) else op[1])
            out.append(observe("get", lambda: arr[key], internal))
        elif t == "to_array":
            kw = {} if op[1] is None else {"splat_internal": op[1]}
            out.append(observe(to_array_kind(g, op[1]), lambda: arr.to_array(**kw), internal))
        elif t == "mask":
            out.append(observe("mask", lambda: arr.mask, internal))
        elif t == "mask_linear":
            out.append(observe("mask_linear", arr.mask_linear, internal))
        elif t == "has":
            out.append(observe("has", lambda: arr.has_index(op[1]), internal))
        elif t == "at":
            out.append(observe("at", lambda: arr.get_from_index(op[1]), internal))
        elif t == "persist":
            out.append(observe("persist_reopen", lambda: arr.persist(), internal))
        elif t == "reopen":
            def ro():
                nonlocal arr
                arr = new_array(backend, folder, g)
            out.append(observe("persist_reopen", ro, internal))
        elif t == "persist_reopen":
            def pr():
                nonlocal arr
                arr.persist()
                arr = new_array(backend, folder, g)
            out.append(observe("persist_reopen", pr, internal))
        else:
            raise AssertionError(op)
    return out


# ------------------------------------------------------------------------------------------------ the NumPy reference
class Ref:
    """The reference of the property statement: a masked NumPy object array over the full shape; every key is interpreted
    by NumPy's own indexing (negative indices, slices, bounds); only the rank is checked here, because the storage
    classes demand one entry per axis."""

    def __init__(self, g):
        self.shape, self.internal, self.mask = tuple(g["shape"]), tuple(g["internal"]), tuple(g["mask"])
        self.full_shape = sel(self.mask, self.shape, self.internal)
        self.lin = np.arange(int(np.prod(self.shape, dtype=int))).reshape(self.shape)
        self.elems = {}

    def full(self):
        a = np.ma.masked_all(self.full_shape, dtype=object)
        for t, ids in self.elems.items():
            E = tuple(int(x) for x in np.unravel_index(t, self.shape)) if self.shape else ()
            for j, I in enumerate(itertools.product(*map(range, self.internal))):
                a[sel(self.mask, E, I)] = ids[j]
        return a

    def step(self, op):
        t = op[0]
        n = self.lin.size
        if t == "dump":
            key = py_key(op[1])
            if len(key) != len(self.shape):
                return {"err": "IndexError"}
            try:
                targets = np.atleast_1d(self.lin[key]).ravel().tolist()
            except IndexError:
                return {"err": "IndexError"}
            except ValueError:
                return {"err": "ValueError"}
            for x in targets:
                self.elems[x] = list(op[2])
            return "ok"
        if t == "get":
            key = py_key(op[1])
            if len(key) != len(self.full_shape):
                return {"err": "IndexError"}
            try:
                r = self.full()[key]
            except IndexError:
                return {"err": "IndexError"}
            except ValueError:
                return {"err": "ValueError"}
            if r is np.ma.masked:
                return {"v": "masked"}
            if isinstance(r, np.ndarray):
                m = np.ma.getmaskarray(r)
                return {"shape": list(r.shape), "flat": ["masked" if m[i] else r.data[i] for i in np.ndindex(*r.shape)], "c": container(r)}
            return {"v": r}
        if t == "to_array":
            splat = bool(self.internal) if op[1] is None else op[1]
            if splat:
                if not self.internal:
                    return {"err": "ValueError"}
                r = self.full()
                m = np.ma.getmaskarray(r)
                return {"shape": list(r.shape), "flat": ["masked" if m[i] else r.data[i] for i in np.ndindex(*r.shape)], "c": container(r)}
            flat = []
            for x in range(n):
                ids = self.elems.get(x)
                flat.append("masked" if ids is None else (ids if self.internal else ids[0]))
            return {"shape": list(self.shape), "flat": flat, "c": "MaskedArray[object]"}     # a masked object array of whole elements
        if t == "mask":
            return {"shape": list(self.shape), "flat": [x not in self.elems for x in range(n)],
                    "c": container(np.ma.getmaskarray(self.lin).view(np.ma.MaskedArray))}
        if t == "mask_linear":
            return {"list": [x not in self.elems for x in range(n)]}
        if t == "has":
            # a linear index outside the array: `ndarray.flat[i]` raises IndexError
            return {"b": op[1] in self.elems} if 0 <= op[1] < n else {"err": "IndexError"}
        if t == "at":
            if not 0 <= op[1] < n:
                return {"err": "IndexError"}
            ids = self.elems.get(op[1])
            return {"err": "Missing"} if ids is None else {"v": ids if self.internal else ids[0]}
        if t in ("persist_reopen", "persist", "reopen"):
            return "ok"      # the reference is a durable masked array: saving it and looking at it again change nothing
        raise AssertionError(op)


def key_problems(op, g):
    """kinds of malformation in an op's key: the reference is consulted only when there is at most one kind, because the
    order in which NumPy and normalize_key discover two different problems is not part of the property"""
    if op[0] not in ("dump", "get"):
        return set()
    sizes = g["shape"] if op[0] == "dump" else list(sel(g["mask"], g["shape"], g["internal"]))
    probs = set()
    if len(op[1]) != len(sizes):
        probs.add("rank")
    for k, n in zip(op[1], sizes):
        if isinstance(k, list):
            if k[3] == 0:
                probs.add("step0")
        elif not -n <= k < n:
            probs.add("range")
    return probs


def in_domain(op, g):
    """every operation is compared with the reference and across backends (linear indices outside 0 <= i < size included
    since the DF-C07-linear repair: `C07_refines_all_indices` needs no domain hypothesis any more)"""
    return True


def lin_in_range(op, g):
    size = 1
    for d in g["shape"]:
        size *= d
    return 0 <= op[1] < size


# ------------------------------------------------------------------------------------------------ generators
def all_geoms(max_rank=3, max_size=3):
    out = []
    for rank in range(1, max_rank + 1):
        for mask in itertools.product([True, False], repeat=rank):
            for dims in itertools.product(range(1, max_size + 1), repeat=rank):
                out.append({"shape": [d for d, m in zip(dims, mask) if m], "internal": [d for d, m in zip(dims, mask) if not m],
                            "mask": list(mask)})
    return out


class Gen:
    def __init__(self, rng):
        self.rng = rng
        self.next_id = 1

    def value(self, g):
        k = 1
        for d in g["internal"]:
            k *= d
        ids = list(range(self.next_id, self.next_id + k))
        self.next_id += k
        return ids

    def entry(self, n, p_bad=0.06, p_slice=0.35):
        r = self.rng.random()
        if r < p_slice:
            if self.rng.random() < 0.6:
                return ["s", *self.rng.choice(SLICES)]
            c = [None, -n - 1, -n, -2, -1, 0, 1, 2, n - 1, n, n + 1]
            return ["s", self.rng.choice(c), self.rng.choice(c), self.rng.choice([None, None, 1, -1, 2, -2, 3, -3])]
        if r < p_slice + p_bad:
            return self.rng.choice([-n - 1, n, n + 1, -n - 2])
        return self.rng.randint(-n, n - 1)

    def key(self, sizes, p_bad=0.06, p_slice=0.35, p_rank=0.03):
        key = [self.entry(n, p_bad, p_slice) for n in sizes]
        if self.rng.random() < p_rank:
            if key and self.rng.random() < 0.5:
                key.pop(self.rng.randrange(len(key)))
            else:
                key.insert(self.rng.randint(0, len(key)), self.rng.choice([0, -1, ["s", None, None, None]]))
        return key

    def op(self, g, malformed=False):
        full = list(sel(g["mask"], g["shape"], g["internal"]))
        size = 1
        for d in g["shape"]:
            size *= d
        pb, pr = (0.35, 0.25) if malformed else (0.06, 0.03)
        t = self.rng.choices(["dump", "get", "to_array", "mask", "mask_linear", "has", "at", "persist_reopen"],
                             [30, 32, 8, 4, 4, 8, 8, 4])[0]
        if t == "dump":
            key = self.key(g["shape"], pb, 0.25, pr)
            if malformed and self.rng.random() < 0.2 and key:
                key[self.rng.randrange(len(key))] = ["s", self.rng.choice([None, 0, 1]), self.rng.choice([None, 1, 2]), 0]
            if len(key) == 1 and self.rng.random() < 0.15:
                return ["dump_bare", key[0], self.value(g)]
            return ["dump", key, self.value(g)]
        if t == "get":
            key = self.key(full, pb, 0.35, pr)
            if malformed and self.rng.random() < 0.2 and key:
                key[self.rng.randrange(len(key))] = ["s", self.rng.choice([None, 0, 1]), self.rng.choice([None, 1, 2]), 0]
            if len(key) == 1 and self.rng.random() < 0.15:
                return ["get_bare", key[0]]
            return ["get", key]
        if t == "to_array":
            return ["to_array", self.rng.choice([None, None, True, False])]
        if t in ("has", "at"):
            if self.rng.random() < (0.6 if malformed else 0.12):
                return [t, self.rng.choice([-1, -size, -size - 1, size, size + 1, size * 2 + 3])]
            return [t, self.rng.randrange(size)]
        return [t]

    def sequence(self, g, length, malformed=False):
        ops = [self.op(g, malformed) for _ in range(length)]
        if not malformed and g["shape"] and self.rng.random() < 0.3:
            # overwrite an element between two persists: the second persist must write the new value
            # (a persist that is skipped because the element count did not change would reopen the old one)
            key = [self.rng.randrange(d) for d in g["shape"]]
            ops += [["dump", key, self.value(g)], ["persist_reopen"], ["dump", key, self.value(g)], ["persist_reopen"],
                    ["to_array", None], ["mask_linear"]]
        return ops


def sweep_entries(n):
    return list(range(-n - 1, n + 1)) + [["s", *s] for s in SLICES]


def sweep_case(gen, g, reads_only_after):
    """exhaustive key sweep for one small geometry: every dump key (each followed by mask_linear), then every read key on the
    state reached after a sampled prefix of dumps"""
    ops = []
    full = list(sel(g["mask"], g["shape"], g["internal"]))
    for key in itertools.product(*[sweep_entries(n) for n in g["shape"]]):
        ops.append(["dump", list(key), gen.value(g)])
        ops.append(["mask_linear"])
    prefix = gen.sequence(g, reads_only_after)
    prefix = [o for o in prefix if o[0] in ("dump", "dump_bare")]
    reads = [["get", list(key)] for key in itertools.product(*[sweep_entries(n) for n in full])]
    size = 1
    for d in g["shape"]:
        size *= d
    tail = [["to_array", None], ["to_array", False], ["to_array", True], ["mask"], ["mask_linear"]] + \
           [[t, i] for i in range(-1, size + 1) for t in ("has", "at")] + [["persist_reopen"]]
    return [{"geom": g, "ops": reads + tail}, {"geom": g, "ops": prefix + reads + tail + reads[: len(reads) // 3]},
            {"geom": g, "ops": ops + tail}]


# ------------------------------------------------------------------------------------------------ corpus
G_LEAD = {"shape": [3], "internal": [2], "mask": [False, True]}
G_LEAD23 = {"shape": [2], "internal": [3], "mask": [False, True]}
G_TRAIL = {"shape": [2], "internal": [2], "mask": [True, False]}
CORPUS = [
    # DF-11: dump key checked against the internal axis that precedes the external one
    {"geom": G_LEAD, "ops": [["dump", [2], [1, 2]], ["mask_linear"], ["get", [0, 2]], ["get", [1, 2]], ["to_array", None]]},
    {"geom": G_LEAD, "ops": [["dump", [-3], [1, 2]], ["has", 0], ["at", 0]]},
    {"geom": G_LEAD23, "ops": [["dump", [2], [1, 2, 3]], ["mask"], ["to_array", None], ["mask_linear"]]},          # out of range accepted
    {"geom": G_LEAD23, "ops": [["dump", [-3], [1, 2, 3]], ["mask_linear"], ["to_array", False]]},
    # DF-11, FileArray._slice_indices(for_dump=True): slice resolved against the internal axis
    {"geom": G_LEAD, "ops": [["dump", [["s", None, None, None]], [5, 6]], ["mask_linear"], ["to_array", None], ["get", [1, 2]]]},
    {"geom": {"shape": [1, 3], "internal": [2], "mask": [True, False, True]},
     "ops": [["dump", [0, ["s", None, None, None]], [5, 6]], ["mask_linear"], ["dump", [0, 2], [7, 8]], ["to_array", None]]},
    {"geom": {"shape": [3, 2], "internal": [1], "mask": [False, True, True]},
     "ops": [["dump", [2, 1], [4]], ["dump", [["s", None, None, -1], 0], [5]], ["mask"], ["to_array", None]]},
    # DF-24: DictArray reads an absent element of an array with an internal shape as None / an unmasked array
    {"geom": G_TRAIL, "ops": [["get", [-1, ["s", None, 1, None]]], ["get", [0, 0]], ["get", [["s", None, None, None], ["s", None, None, None]]]]},
    {"geom": G_TRAIL, "ops": [["dump", [0], [10, 11]], ["get", [["s", None, None, None], 1]], ["get", [1, 1]], ["get", [1, -1]]]},
    # DF-13: persist pickled the manager proxy of SharedMemoryDictArray; the reopened array died with the writer
    {"geom": {"shape": [3, 2], "internal": [], "mask": [True, True]},
     "ops": [["dump", [0, 0], [1]], ["persist_reopen"], ["get", [0, 0]], ["dump", [1, 1], [2]], ["persist_reopen"], ["mask_linear"], ["to_array", None]]},
    {"geom": G_TRAIL, "ops": [["persist_reopen"], ["dump", [1], [4, 5]], ["persist_reopen"], ["persist_reopen"], ["get", [1, ["s", None, None, -1]]], ["at", 1]]},
    # DF-C07-shape0: all-internal geometry (external shape ())
    {"geom": {"shape": [], "internal": [2], "mask": [False]}, "ops": [["get", [0]], ["mask"], ["dump", [], [1, 2]], ["get", [1]],
                                                                      ["to_array", None], ["to_array", False], ["has", 0], ["at", 0], ["mask_linear"]]},
    # slices with negative steps and clamping, persist in between
    {"geom": {"shape": [3, 2], "internal": [], "mask": [True, True]},
     "ops": [["dump", [["s", None, None, -2], 1], [3]], ["persist_reopen"], ["get", [["s", 5, -5, -1], ["s", -1, None, None]]], ["to_array", None],
             ["to_array", True], ["get", [["s", 1, 1, None], 0]], ["get", [3, 0]], ["get", [-4, 0]], ["get", [0]], ["get", [0, 0, 0]], ["at", 1], ["at", 0]]},
    # DF-C07-linear: linear indices outside the array (dict: ValueError, file: False / FileNotFoundError on the pinned tree)
    {"geom": {"shape": [2], "internal": [], "mask": [True]}, "ops": [["has", 2], ["at", 2], ["at", 1], ["has", -1], ["at", -1], ["dump", [1], [1]],
                                                                    ["has", 1], ["has", 2], ["at", -2], ["at", 3]]},
    {"geom": G_LEAD, "ops": [["dump", [2], [1, 2]], ["has", 3], ["at", 3], ["has", -3], ["has", 2], ["at", 2]]},
    {"geom": {"shape": [], "internal": [2], "mask": [False]}, "ops": [["has", 1], ["at", 1], ["has", -1], ["dump", [], [1, 2]], ["has", 0], ["at", 1]]},
    # DF-C07-container: DictArray.__getitem__ with a slice key returned a plain ndarray (FileArray: MaskedArray)
    {"geom": {"shape": [2, 3], "internal": [], "mask": [True, True]},
     "ops": [["get", [["s", None, None, None], 0]], ["dump", [0, 0], [1]], ["get", [["s", None, None, None], ["s", None, None, None]]],
             ["get", [["s", 1, 1, None], 0]], ["dump", [["s", None, None, None], ["s", None, None, None]], [2]], ["get", [0, ["s", None, None, -1]]]]},
    {"geom": G_TRAIL, "ops": [["dump", [1], [3, 4]], ["get", [["s", None, None, None], 1]], ["get", [1, ["s", None, None, None]]], ["to_array", None],
                              ["to_array", False], ["mask"]]},
    # falsy stored values (ids 20, 5, 10, 15 = None, False, "", 0.0): a written None / False is not "missing" (seeded change C07-s2-A)
    {"geom": {"shape": [2, 2], "internal": [], "mask": [True, True]},
     "ops": [["dump", [0, 0], [20]], ["dump", [0, 1], [5]], ["dump", [1, 0], [10]], ["to_array", None], ["to_array", False], ["mask"], ["mask_linear"],
             ["get", [0, 0]], ["at", 0], ["has", 0], ["get", [["s", None, None, None], 0]], ["dump", [1, 1], [15]], ["persist_reopen"], ["to_array", None],
             ["get", [["s", None, None, None], ["s", None, None, None]]], ["at", 3]]},
    {"geom": G_TRAIL, "ops": [["dump", [0], [20, 5]], ["to_array", None], ["to_array", False], ["get", [0, 0]], ["get", [0, ["s", None, None, None]]],
                              ["at", 0], ["mask_linear"], ["persist_reopen"], ["to_array", True]]},
]


# ------------------------------------------------------------------------------------------------ checking
def backends_for(ctx, idx, backends, label=""):
    """SharedMemoryDictArray costs a Manager process (~50 ms) per array: sampled thinly in quick (always in the corpus)"""
    if label == "corpus":
        return list(backends)
    if ctx.tier == "quick":
        return [b for b in backends if b != "shared_memory_dict" or idx % 10 == 0]
    return [b for b in backends if b != "shared_memory_dict" or idx % 4 == 0]


def evaluate(case, base, tag, backends):
    g, ops = case["geom"], case["ops"]
    impl = {}
    for b in backends:
        impl[b] = run_impl(b, g, ops, os.path.join(base, f"{tag}-{b}"))
    ref, robs = Ref(g), []
    for op in ops:
        mop = model_op(op)
        robs.append(relabel(ref.step(mop)) if len(key_problems(mop, g)) <= 1 else None)
    return impl, robs


WORKERS = int(os.environ.get("VERIF_WORKERS", "16"))


def _eval_job(job):
    case, base, tag, backends = job
    return evaluate(case, base, tag, backends)


def first_clause_failure(case, impl, robs):
    """(index, backend, text) of the first operation where the implementation's own answer violates the property"""
    g, ops = case["geom"], case["ops"]
    for i, op in enumerate(ops):
        if not in_domain(op, g):
            continue
        for b, obs in impl.items():
            if robs[i] is not None and obs[i] != robs[i]:
                return i, b, f"{b}: {op[0]} differs from the reference masked array"
        bs = list(impl)
        for b in bs[1:]:
            if impl[b][i] != impl[bs[0]][i]:
                return i, b, f"backends {bs[0]} and {b} disagree on {op[0]}"
    return None


def shrink(case, base, backends, counter):
    """prefix up to the failing op, then greedy removal of earlier ops while some clause still fails"""
    def fails(c):
        counter[0] += 1
        impl, robs = evaluate(c, base, f"shrink{counter[0]}", backends)
        return first_clause_failure(c, impl, robs)
    f = fails(case)
    if f is None:
        return case, None
    cur = {"geom": case["geom"], "ops": case["ops"][: f[0] + 1]}
    i = 0
    while i < len(cur["ops"]) - 1 and counter[0] < 60:
        cand = {"geom": cur["geom"], "ops": cur["ops"][:i] + cur["ops"][i + 1:]}
        if fails(cand) is not None:
            cur = cand
        else:
            i += 1
    return cur, fails(cur)


def nontrivial(case, model_obs):
    seen_dump = False
    for op, o in zip(case["ops"], model_obs):
        if op[0] in ("dump", "dump_bare") and o == "ok":
            seen_dump = True
        elif seen_dump and op[0] not in ("dump", "dump_bare", "persist_reopen"):
            return True
    return False


def check_cases(ctx, cases, base, label):
    backends_all = sorted(storage_registry)
    for b in backends_all:
        if b not in MODEL_OF:
            ctx.skip(f"backend-without-model:{b}")
    backends_all = [b for b in backends_all if b in MODEL_OF]
    reqs, kept = [], []
    jobs = [(case, base, f"{label}{idx}", backends_for(ctx, idx, backends_all, label)) for idx, case in enumerate(cases)]
    if ctx.tier == "thorough" and len(jobs) >= 64:
        # the Manager processes of SharedMemoryDictArray dominate the wall time: shard over worker processes
        # (ProcessPoolExecutor workers are not daemonic, so they may start Managers)
        import concurrent.futures
        import multiprocessing
        with concurrent.futures.ProcessPoolExecutor(max_workers=WORKERS, mp_context=multiprocessing.get_context("fork")) as ex:
            results = list(ex.map(_eval_job, jobs, chunksize=8))
    else:
        results = [_eval_job(j) for j in jobs]
    for (case, _, _, _), (impl, robs) in zip(jobs, results):
        reqs.append({"m": "storage.run", "a": {"geom": case["geom"], "ops": case["ops"]}})
        kept.append((case, impl, robs))
    outs = ctx.lean(reqs)
    shrink_counter = [0]
    for (case, impl, robs), resp in zip(kept, outs):
        model = {k: [relabel(o) for o in v] for k, v in resp["r"].items()}
        g, ops = case["geom"], case["ops"]
        ctx.count(f"stream:{label}")
        ctx.count("mask:" + "".join("E" if m else "I" for m in g["mask"]))
        for b in impl:
            ctx.count(f"backend:{b}")
        for i, op in enumerate(ops):
            o = model["dict"][i]
            ctx.count(f"op:{op[0]}")
            if op[0] in ("has", "at") and not lin_in_range(op, g):
                ctx.count("linear-index:out-of-range")
            if isinstance(o, dict) and "c" in o:
                ctx.count(f"container:{op[0]}:{o['c']}")
            if isinstance(o, dict) and "err" in o:
                ctx.count(f"model:{op[0]}:{o['err']}")
            elif op[0] in ("get", "get_bare"):
                ctx.count("model:get:" + ("scalar-masked" if o == {"v": "masked"} else "scalar" if "v" in o else
                                          "array-empty" if not o["flat"] else "array-some-masked" if "masked" in o["flat"] else "array"))
            if op[0] in ("get", "dump"):
                for k in op[1]:
                    if isinstance(k, list):
                        ctx.count("key:slice-neg-step" if (k[3] or 1) < 0 else "key:slice")
                    elif k < 0:
                        ctx.count("key:negative")
        ctx.record(case, nontrivial(case, model["dict"]))
        # (1) the model's specification and its two operational backends coincide (what the refinement theorems say)
        for i, op in enumerate(ops):
            if in_domain(op, g) and not (model["dict"][i] == model["file"][i] == model["spec"][i]):
                ctx.violation({"geom": g, "ops": ops[: i + 1]}, f"Lean model: dict/file/spec differ on {op[0]} (contradicts C07_*_refines)",
                              found_input=False, item="model:refinement", model={k: v[i] for k, v in model.items()})
                break
        # (2) property clauses on the implementation's own answers
        f = first_clause_failure(case, impl, robs)
        if f is not None:
            small, f2 = (shrink(case, base, list(impl), shrink_counter) if shrink_counter[0] < 200 else (case, f))
            if f2 is None:
                small, f2 = {"geom": g, "ops": ops[: f[0] + 1]}, f
            simpl, srobs = evaluate(small, base, f"rep{shrink_counter[0]}-{len(ctx.violations)}", list(impl))
            shrink_counter[0] += 1
            j = f2[0] if f2[0] < len(small["ops"]) else len(small["ops"]) - 1
            ctx.violation(small, f2[2], impl={b: o[j] for b, o in simpl.items()}, model={"reference": srobs[j]},
                          key=f"{f2[1]}:{small['ops'][j][0]}")
            continue
        # (3) correspondence with the operational model of each backend
        for b, obs in impl.items():
            mo = model[MODEL_OF[b]]
            for i, op in enumerate(ops):
                if obs[i] != mo[i]:
                    ctx.violation({"geom": g, "ops": ops[: i + 1], "backend": b},
                                  f"{b} and its model disagree on {op[0]} (the property's clauses hold on this input)",
                                  found_input=False, item=f"correspondence:{b}:{op[0]}", impl=obs[i], model=mo[i])
                    break


def gen_cases(ctx):
    rng = ctx.rng
    gen = Gen(rng)
    geoms = all_geoms()
    small = [g for g in geoms if len(g["mask"]) <= 2 and all(d <= 2 for d in g["shape"] + g["internal"])]
    streams = {}
    # (a) exhaustive key sweeps on small geometries (all of them in thorough, a seeded sample in quick)
    sw = small if ctx.tier == "thorough" else rng.sample(small, 5)
    streams["sweep"] = [c for g in sw for c in sweep_case(gen, g, 4)]
    if ctx.tier == "thorough":
        mid = [g for g in geoms if len(g["mask"]) == 2 and g not in small]
        streams["sweep"] += [c for g in rng.sample(mid, 12) for c in sweep_case(gen, g, 5)]
    # (b) random, mostly valid; every geometry appears
    n = ctx.n(450, 28000)
    maxlen = 12 if ctx.tier == "quick" else 24
    order = geoms[:]
    rng.shuffle(order)
    streams["random"] = [{"geom": order[i % len(order)], "ops": gen.sequence(order[i % len(order)], rng.randint(1, maxlen))} for i in range(n)]
    # (c) malformed
    m = ctx.n(120, 6000)
    streams["malformed"] = [{"geom": (g := rng.choice(geoms)), "ops": gen.sequence(g, rng.randint(1, 8), malformed=True)} for _ in range(m)]
    return streams


def run(ctx):
    base = tempfile.mkdtemp(prefix="verif-c07-")
    try:
        import time
        import c07_geom
        import c07_conc
        import c07_sess
        t = [time.monotonic()]

        def lap(name):
            ctx.count(f"wall-ms:{name}", int((time.monotonic() - t[0]) * 1000))
            t[0] = time.monotonic()
        check_cases(ctx, [copy.deepcopy(c) for c in CORPUS], base, "corpus")
        lap("corpus")
        for label, cases in gen_cases(ctx).items():
            check_cases(ctx, cases, base, label)
            shutil.rmtree(base, ignore_errors=True)
            os.makedirs(base, exist_ok=True)
            lap(label)
        # the extension streams share one batch of Lean requests (a driver start costs 1-4 s)
        parts = [(c07_geom.prepare_registry, c07_geom.finish_registry, "registry"),
                 (c07_geom.prepare_construct, c07_geom.finish_construct, "construct"),
                 (c07_sess.prepare, c07_sess.finish, "session"),
                 (c07_conc.prepare, c07_conc.finish, "conc")]
        prepared = [p(ctx) for p, _, _ in parts]
        outs = ctx.lean([r for reqs, _ in prepared for r in reqs])
        lap("ext-lean")
        k = 0
        for (reqs, state), (_, fin, name) in zip(prepared, parts):
            fin(ctx, base, state, outs[k: k + len(reqs)])
            k += len(reqs)
            shutil.rmtree(base, ignore_errors=True)
            os.makedirs(base, exist_ok=True)
            lap(name)
    finally:
        shutil.rmtree(base, ignore_errors=True)


def replay(ctx, case):
    base = tempfile.mkdtemp(prefix="verif-c07-")
    try:
        if case.get("stream") in ("construct", "init_arrays", "registry", "update_array"):
            import c07_geom
            return c07_geom.replay(ctx, case, base)
        if case.get("stream") == "session":
            import c07_sess
            return c07_sess.replay(ctx, case, base)
        if case.get("stream") == "conc":
            import c07_conc
            return c07_conc.replay(ctx, case, base)
        case = {"geom": case["geom"], "ops": case["ops"]}
        backends = [b for b in sorted(storage_registry) if b in MODEL_OF]
        impl, robs = evaluate(case, base, "replay", backends)
        model = ctx.lean([{"m": "storage.run", "a": {"geom": case["geom"], "ops": case["ops"]}}])[0]["r"]
        for i, op in enumerate(case["ops"]):
            print(f"op {i}: {op}")
            print("   reference (NumPy masked array):", robs[i])
            for b in impl:
                print(f"   {b:20s} impl : {impl[b][i]}")
                print(f"   {'':20s} model: {model[MODEL_OF[b]][i]}")
            print("   specification (Lean aStep)    :", model["spec"][i])
        print("first failing clause:", first_clause_failure(case, impl, robs))
    finally:
        shutil.rmtree(base, ignore_errors=True)
