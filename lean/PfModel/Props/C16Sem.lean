import PfModel.Lemmas.TypingSemGen
/-!
C16 (extension) — "is_type_compatible(A, B) holds exactly when every value of type A is acceptable where B is required under
covariant generics": the converse direction (semantic completeness) for covariant generics without unions below generics.
`UFTop` (`Lemmas/TypingSemGen.lean`): classes (incl. the user classes `clsB ≤ clsA`), `Any`, parametrised `list / set / dict /
tuple[...]` and `Array[...]` nested to any depth, and unions of such annotations at top level.
-/
namespace PF.C16
open PF.Typing

/-- Semantic completeness for covariant generics without unions below generics: if every value of `A` is acceptable where `B`
    is required, `is_type_compatible(A, B)` holds.  (`C16_semantic_complete_partial` is the special case of classes, `Any` and
    unions of classes.) -/
theorem C16_semantic_complete_generics (a b : Ty) (ha : UFTop a = true) (hb : UFTop b = true)
    (h : ∀ v, HasTy a v → HasTy b v) : compat a b = true := uftop_complete a b ha hb h

/-- On that fragment `is_type_compatible` holds EXACTLY when every value of `A` is acceptable where `B` is required. -/
theorem C16_semantic_iff_generics (a b : Ty) (ha : UFTop a = true) (hb : UFTop b = true) :
    compat a b = true ↔ ∀ v, HasTy a v → HasTy b v :=
  ⟨fun h => compat_sem a b h (uftop_clean a ha), uftop_complete a b ha hb⟩

/-- Unions below generics are the only obstruction in the grammar of classes, `Any`, parametrised generics, `Array` and unions:
    the rejected inclusion of `C16_union_below_generic_witness` has a union below `tuple[...]` in its source (so it is outside
    `UFTop`), its target is inside, and replacing the union below the generic by either member puts the pair inside the fragment,
    where `C16_semantic_iff_generics` applies and the pair is accepted. -/
theorem C16_union_below_generic_only_obstruction :
    UFTop (.gen .tuple [.union [.base .int, .base .str]]) = false ∧
    UFTop (.union [.gen .tuple [.base .int], .gen .tuple [.base .str]]) = true ∧
    UFTop (.gen .tuple [.base .int]) = true ∧
    compat (.gen .tuple [.base .int]) (.union [.gen .tuple [.base .int], .gen .tuple [.base .str]]) = true := by
  refine ⟨by simp [UFTop, UF, UFL, arityOk], by simp [UFTop, UF, UFL, arityOk], by simp [UFTop, UF, UFL, arityOk], ?_⟩
  exact compat_union_r (b := .gen .tuple [.base .int]) (by simp) (compat_refl _)

/-- non-vacuity: a depth-3 pair of the fragment that is an inclusion (`bool ≤ int`, `clsB ≤ clsA`) -/
example : UFTop (.gen .list [.gen .dict [.base .str, .gen .tuple [.base .bool, .array (.base .clsB)]]]) = true ∧
    UFTop (.union [.gen .list [.gen .dict [.base .str, .gen .tuple [.base .int, .array (.base .clsA)]]], .base .none]) = true ∧
    compat (.gen .list [.gen .dict [.base .str, .gen .tuple [.base .bool, .array (.base .clsB)]]])
      (.union [.gen .list [.gen .dict [.base .str, .gen .tuple [.base .int, .array (.base .clsA)]]], .base .none]) = true := by
  refine ⟨by simp [UFTop, UF, UFL, arityOk], by simp [UFTop, UF, UFL, arityOk], ?_⟩
  simp [compat, compatAny, compatZip, Base.sub]

end PF.C16
