import PfModel.Lemmas.MapPiecesInternal
import PfModel.Props.C06Sub
/-!
C06, round 3 — `fixed_indices` on an axis that is only ever INTERNAL (generated inside a function, `internal_shape`).
Before the repair DF-C06-internal-axis such an index passed `_validate_fixed_indices` (a known axis, no input carries it,
nothing reduces it) and was then ignored by every function, because `_mask_fixed_axes` selects on external axes only: an
out-of-range integer was never rejected and a valid one did not restrict the run.  The repaired validation refuses every axis
that no MapSpec has among its input indices (`PF.Pieces.validateFixed`, `mappedAxes`; clause (4) of `C06_reject`).
-/
namespace PF.C06
open PF PF.Map PF.Pieces

/-- **An index on an internal-only axis is refused.**  If no function of the pipeline maps over the axis of some entry of
    `fixed_indices` (the axis is among the input indices of no MapSpec — it can then only be an internal axis of outputs),
    `_validate_fixed_indices` refuses the request, whatever the index is (valid for the internal shape or out of range) and
    whatever else the dictionary holds; the partial run is refused whatever the run folder holds, before any function runs. -/
theorem C06_internal_only_axis_refused (fs : List MFunc) (inputs : List (String × Val)) (ui : List (String × List Nat))
    (fx : List (String × Sel)) (old : List (String × Slot)) (kv : String × Sel) (hkv : kv ∈ fx)
    (hint : ∀ f ∈ fs, ∀ ms, f.mapspec = some ms → kv.1 ∉ ms.inputIndices) :
    (∃ e, validateFixed fs inputs (some fx) = .error e) ∧ (∃ e, runPart fs inputs ui (some fx) old = .error e) := by
  have hnot : kv.1 ∉ mappedAxes fs := by
    intro hm
    obtain ⟨f, hf, hm⟩ := List.mem_flatMap.mp hm
    cases hms : f.mapspec with
    | none => rw [hms] at hm; cases hm
    | some ms => rw [hms] at hm; exact hint f hf ms hms hm
  have hv : ∃ e, validateFixed fs inputs (some fx) = .error e := by
    cases h : validateFixed fs inputs (some fx) with
    | error e => exact ⟨e, rfl⟩
    | ok u => exact absurd ((C06_reject fs inputs fx).mp h).2.2.2 (fun h4 => hnot (h4 kv hkv))
  obtain ⟨e, he⟩ := hv
  exact ⟨⟨e, he⟩, C06_run_rejects fs inputs ui (some fx) old e he⟩

/-- **Why such a request cannot be honoured: no function would see it.**  With the shape and mask `MapSpec.shape` computes
    (`mspecShape`: an output axis is external exactly when some input of the MapSpec carries it), the selection
    `_mask_fixed_axes` builds for a function depends only on the entries of `fixed_indices` for axes the function maps over:
    two dictionaries that agree on those give the same mask (or the same error). -/
theorem C06_mask_depends_on_mapped_axes (ms : MSpec) (shapes internal : List (String × List Nat)) (sh : List Nat) (mk : List Bool)
    (h : mspecShape ms shapes internal = .ok (sh, mk)) (fx fx' : List (String × Sel))
    (hag : ∀ a, a ∈ ms.inputIndices → fixedLookup fx a = fixedLookup fx' a) :
    fixedMask (some fx) ms sh mk = fixedMask (some fx') ms sh mk :=
  fixedMask_agree ms shapes internal sh mk h fx fx' hag

/-- … in particular the entry of an axis the function does not map over (an internal axis of its output, or an axis it does
    not have) can be dropped: before the repair an index on an internal-only axis was ignored by EVERY function (the universal
    form of the former witness `C06_internal_axis_index_ignored_witness`); accepted requests (`C06_reject`, clause 4) name
    only axes that at least one function sees. -/
theorem C06_internal_axis_unseen (ms : MSpec) (shapes internal : List (String × List Nat)) (sh : List Nat) (mk : List Bool)
    (h : mspecShape ms shapes internal = .ok (sh, mk)) (fx : List (String × Sel)) (a : String) (ha : a ∉ ms.inputIndices) :
    fixedMask (some fx) ms sh mk = fixedMask (some (dropAxis fx a)) ms sh mk := by
  apply fixedMask_agree ms shapes internal sh mk h
  intro b hb
  exact (fixedLookup_dropAxis fx a b (fun e => ha (e ▸ hb))).symm

/-- **Every accepted fixed axis is seen by some function**: a request that passes `_validate_fixed_indices` names only axes
    that some function of the pipeline maps over. -/
theorem C06_accepted_axis_is_mapped (fs : List MFunc) (inputs : List (String × Val)) (fx : List (String × Sel))
    (h : validateFixed fs inputs (some fx) = .ok ()) (kv : String × Sel) (hkv : kv ∈ fx) :
    ∃ f ∈ fs, ∃ ms, f.mapspec = some ms ∧ kv.1 ∈ ms.inputIndices := by
  have hm := ((C06_reject fs inputs fx).mp h).2.2.2 kv hkv
  obtain ⟨f, hf, hm⟩ := List.mem_flatMap.mp hm
  cases hms : f.mapspec with
  | none => rw [hms] at hm; cases hm
  | some ms => rw [hms] at hm; exact ⟨f, hf, ms, hms, hm⟩

/-! ### witnesses -/

private instance {ε α : Type} [DecidableEq ε] [DecidableEq α] : DecidableEq (Except ε α)
  | .ok a, .ok b => if h : a = b then isTrue (by rw [h]) else isFalse (by intro e; cases e; exact h rfl)
  | .error a, .error b => if h : a = b then isTrue (by rw [h]) else isFalse (by intro e; cases e; exact h rfl)
  | .ok _, .error _ => isFalse (by intro e; cases e)
  | .error _, .ok _ => isFalse (by intro e; cases e)

private def fK : MFunc := { name := "f", params := [("x", "x")], outputs := ["y"], mapspec := some { inputs := [⟨"x", [some "i"]⟩], outputs := [⟨"y", [some "i", some "k"]⟩] }, ret := some [2], internal := some [2], defaults := [], bound := [] }
private def fKZ : MFunc := { name := "g", params := [("y", "y")], outputs := ["z"], mapspec := some { inputs := [⟨"y", [some "i", some "k"]⟩], outputs := [⟨"z", [some "i", some "k"]⟩] }, ret := none, internal := none, defaults := [], bound := [] }
private def xK : List (String × Val) := [("x", .arr [3] [.int 0, .int 1, .int 2])]
private def internalErr : Err := .value "axis is internal only (no function maps over it) and cannot be in fixed_indices"

/-- **Witness (DF-C06-internal-axis, the repaired behaviour).**  `x[i] -> y[i, k]` with `internal_shape=(2,)`, three inputs,
    nothing downstream: `{"k": 99}` (out of range), `{"k": 0}` (in range) and `{"i": 0, "k": 99}` are all refused with a
    `ValueError` by the validation — although the mask of `f` would ignore the entry (`[true, true, true]` = everything:
    what the unrepaired code computed). -/
theorem C06_internal_axis_refused_witness :
    validateFixed [fK] xK (some [("k", .idx 99)]) = .error internalErr ∧
    validateFixed [fK] xK (some [("k", .idx 0)]) = .error internalErr ∧
    validateFixed [fK] xK (some [("i", .idx 0), ("k", .idx 99)]) = .error internalErr ∧
    (runPart [fK] xK [] (some [("k", .idx 0)]) []).map (fun r => r.res.calls.map (·.name)) = .error internalErr ∧
    fixedMask (some [("k", .idx 99)]) { inputs := [⟨"x", [some "i"]⟩], outputs := [⟨"y", [some "i", some "k"]⟩] } [3, 2] [true, false] =
      .ok (some [true, true, true]) := by decide

/-- **Witness (requests that stay valid).**  When a downstream function maps over the axis (`y[i, k] -> z[i, k]`: `k` is
    internal in `y`, external in `z`), `{"k": 0}` is accepted: `f` ignores the entry and computes all of `y` (3 calls), `g`
    computes the 3 elements `z[:, 0]` of its 6; an out-of-range `{"k": 99}` passes the validation (no input carries `k`) and
    is rejected late, by the mask of `g` (`C06_reject_late`), with NumPy's `IndexError`. -/
theorem C06_internal_axis_mapped_downstream_witness :
    validateFixed [fK, fKZ] xK (some [("k", .idx 0)]) = .ok () ∧
    (runPart [fK, fKZ] xK [] (some [("k", .idx 0)]) []).map (fun r => r.res.calls.map (·.name)) = .ok ["f", "f", "f", "g", "g", "g"] ∧
    validateFixed [fK, fKZ] xK (some [("k", .idx 99)]) = .ok () ∧
    (runPart [fK, fKZ] xK [] (some [("k", .idx 99)]) []).map (fun r => r.res.calls.map (·.name)) =
      .error (.index "index 99 is out of bounds for axis with size 2") := by decide

/-! ### non-vacuity -/

/-- the hypotheses of `C06_internal_only_axis_refused` hold for the witness pipeline and `{"k": 1}` -/
example : (∃ e, validateFixed [fK] xK (some [("k", .idx 1)]) = .error e) ∧ (∃ e, runPart [fK] xK [] (some [("k", .idx 1)]) [] = .error e) :=
  C06_internal_only_axis_refused [fK] xK [] [("k", .idx 1)] [] ("k", .idx 1) List.mem_cons_self (by
    intro f hf ms hms
    simp only [List.mem_singleton] at hf
    subst hf
    simp only [fK, Option.some.injEq] at hms
    subst hms
    decide)

/-- the hypotheses of `C06_mask_depends_on_mapped_axes` / `C06_internal_axis_unseen` hold: `MapSpec.shape` of `x[i] -> y[i, k]`
    is `([3, 2], [true, false])`, `k` is not an input index, and the masks with and without the entry are `[true, false, false]` -/
example : mspecShape { inputs := [⟨"x", [some "i"]⟩], outputs := [⟨"y", [some "i", some "k"]⟩] } [("x", [3])] [("y", [2])] = .ok ([3, 2], [true, false]) ∧
    "k" ∉ MSpec.inputIndices { inputs := [⟨"x", [some "i"]⟩], outputs := [⟨"y", [some "i", some "k"]⟩] } ∧
    fixedMask (some [("i", .idx 0), ("k", .idx 99)]) { inputs := [⟨"x", [some "i"]⟩], outputs := [⟨"y", [some "i", some "k"]⟩] } [3, 2] [true, false] =
      .ok (some [true, false, false]) ∧
    dropAxis [("i", .idx 0), ("k", .idx 99)] "k" = [("i", .idx 0)] := by decide

/-- `C06_accepted_axis_is_mapped`'s hypothesis holds: `{"k": 0}` is accepted by the two-function pipeline -/
example : ∃ f ∈ [fK, fKZ], ∃ ms, f.mapspec = some ms ∧ "k" ∈ ms.inputIndices :=
  C06_accepted_axis_is_mapped [fK, fKZ] xK [("k", .idx 0)] (by decide) ("k", .idx 0) List.mem_cons_self

end PF.C06
