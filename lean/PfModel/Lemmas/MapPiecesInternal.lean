import PfModel.Model.MapPieces
/-!
C06, round 3 — internal axes and `fixed_indices`.  The mask `MapSpec.shape` computes (`mspecShape`) is `true` at an output axis
only when some input of the MapSpec carries the axis (`go_ext_agree`); `_mask_fixed_axes` (`fixedMask`) keeps the key's entries
at `true` positions only, so what a function selects depends only on the entries of `fixed_indices` for axes the function maps
over (`fixedMask_agree`).  An entry for an axis nobody maps over is seen by no function — the reason `_validate_fixed_indices`
has to refuse it (`validateFixed`'s last check).
-/
namespace PF.Pieces
open PF PF.Map

theorem filterMapM_none {α β : Type} (g : α → M (Option β)) (l : List α) (h : ∀ a ∈ l, g a = .ok none) :
    l.filterMapM g = .ok [] := by
  induction l with
  | nil => simp [List.filterMapM_nil, pure, Except.pure]
  | cons a as ih =>
    rw [List.filterMapM_cons, h a List.mem_cons_self]
    simp only [bind, Except.bind]
    exact ih (fun x hx => h x (List.mem_cons_of_mem _ hx))

theorem idxOf_none (l : List (Option String)) (n : String) (h : n ∉ l.filterMap id) : idxOf l n = none := by
  unfold idxOf
  rw [List.findIdx?_eq_none_iff]
  intro x hx
  simp only [decide_eq_false_iff_not]
  intro e
  subst e
  exact h (List.mem_filterMap.mpr ⟨some n, hx, rfl⟩)

/-- an index no input of the MapSpec carries has no common dimension: it is an internal axis -/
theorem commonDim_internal (ms : MSpec) (ix : String) (S : List (String × List Nat)) (h : ix ∉ ms.inputIndices) :
    commonDim ms ix S = .ok none := by
  unfold commonDim
  rw [filterMapM_none]
  · rfl
  · intro a ha
    have : ix ∉ a.axes.filterMap id := by
      intro hm
      exact h (List.mem_flatMap.mpr ⟨a, ha, hm⟩)
    rw [idxOf_none a.axes ix this]
    rfl

/-- the mask bit of an output axis is `true` only for an axis some input carries -/
theorem commonDim_some_mem (ms : MSpec) (ix : String) (S : List (String × List Nat)) (d : Nat)
    (h : commonDim ms ix S = .ok (some d)) : ix ∈ ms.inputIndices := by
  apply Classical.byContradiction
  intro hn
  rw [commonDim_internal ms ix S hn] at h
  cases h

/-- two keys that agree on the axes the MapSpec maps over have the same external part under the mask of `MapSpec.shape` -/
theorem go_ext_agree {γ : Type} (ms : MSpec) (S internal : List (String × List Nat)) (out : ASpec) (g g' : String → γ)
    (hag : ∀ a, a ∈ ms.inputIndices → g a = g' a) :
    ∀ (axes : List String) (k : Nat) (sh : List Nat) (mk : List Bool), mspecShape.go ms S internal out axes k = .ok (sh, mk) →
      extOf mk (axes.map g) = extOf mk (axes.map g') := by
  intro axes
  induction axes with
  | nil =>
    intro k sh mk h
    simp only [mspecShape.go, pure, Except.pure, Except.ok.injEq, Prod.mk.injEq] at h
    obtain ⟨_, rfl⟩ := h
    rfl
  | cons ix rest ih =>
    intro k sh mk h
    rw [mspecShape.go] at h
    simp only [bind, Except.bind] at h
    cases hc : commonDim ms ix S with
    | error e => rw [hc] at h; cases h
    | ok od =>
      rw [hc] at h
      cases od with
      | some d =>
        simp only [] at h
        cases hr : mspecShape.go ms S internal out rest k with
        | error e => rw [hr] at h; cases h
        | ok r =>
          obtain ⟨s, m⟩ := r
          rw [hr] at h
          simp only [pure, Except.pure, Except.ok.injEq, Prod.mk.injEq] at h
          obtain ⟨_, rfl⟩ := h
          simp only [List.map_cons, extOf]
          rw [hag ix (commonDim_some_mem ms ix S d hc), ih k s m hr]
      | none =>
        simp only [] at h
        cases hi : alookup internal out.name with
        | none => rw [hi] at h; cases h
        | some ish =>
          rw [hi] at h
          simp only [] at h
          cases hk : ish[k]? with
          | none => rw [hk] at h; cases h
          | some d =>
            rw [hk] at h
            simp only [] at h
            cases hr : mspecShape.go ms S internal out rest (k + 1) with
            | error e => rw [hr] at h; cases h
            | ok r =>
              obtain ⟨s, m⟩ := r
              rw [hr] at h
              simp only [pure, Except.pure, Except.ok.injEq, Prod.mk.injEq] at h
              obtain ⟨_, rfl⟩ := h
              simp only [List.map_cons, extOf]
              exact ih (k + 1) s m hr

theorem mspecShape_ext_agree {γ : Type} (ms : MSpec) (S internal : List (String × List Nat)) (sh : List Nat) (mk : List Bool)
    (h : mspecShape ms S internal = .ok (sh, mk)) (g g' : String → γ) (hag : ∀ a, a ∈ ms.inputIndices → g a = g' a) :
    extOf mk (ms.outputIndices.map g) = extOf mk (ms.outputIndices.map g') := by
  unfold mspecShape at h
  simp only [bind, Except.bind] at h
  split at h
  · cases h
  · exact go_ext_agree ms S internal _ g g' hag _ 0 sh mk h

/-- **what a function selects depends only on the entries for axes it maps over** -/
theorem fixedMask_agree (ms : MSpec) (S internal : List (String × List Nat)) (sh : List Nat) (mk : List Bool)
    (h : mspecShape ms S internal = .ok (sh, mk)) (fx fx' : List (String × Sel))
    (hag : ∀ a, a ∈ ms.inputIndices → fixedLookup fx a = fixedLookup fx' a) :
    fixedMask (some fx) ms sh mk = fixedMask (some fx') ms sh mk := by
  unfold fixedMask
  simp only []
  rw [mspecShape_ext_agree ms S internal sh mk h (fixedLookup fx) (fixedLookup fx') hag]

/-- removing the entry of one axis from a `fixed_indices` dictionary -/
def dropAxis (fx : List (String × Sel)) (a : String) : List (String × Sel) := fx.filter fun kv => kv.1 ≠ a

theorem fixedLookup_dropAxis (fx : List (String × Sel)) (a b : String) (hne : b ≠ a) :
    fixedLookup (dropAxis fx a) b = fixedLookup fx b := by
  unfold fixedLookup dropAxis
  congr 1
  induction fx with
  | nil => rfl
  | cons kv r ih =>
    obtain ⟨k, v⟩ := kv
    simp only [List.filter_cons]
    by_cases hk : k = a
    · subst hk
      simp only [ne_eq, not_true_eq_false, decide_false, Bool.false_eq_true, ↓reduceIte, alookup]
      rw [if_neg (fun e => hne e.symm)]
      exact ih
    · simp only [ne_eq, hk, not_false_eq_true, decide_true, ↓reduceIte, alookup]
      split
      · rfl
      · exact ih

end PF.Pieces
