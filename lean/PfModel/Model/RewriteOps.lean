/-
Further structural operations of a pipeline, used by the C10 histories as rewrites (on a copy) and as in-place
mutations of ONE object of the environment: selective `Pipeline.update_scope(scope, inputs, outputs, exclude)`
(`pipefunc/_pipeline/_base.py:1006-1082`, `PipeFunc.update_scope` `_pipefunc.py:430-499`, `validate_scopes`
`_pipeline/_validation.py:84-92`), `Pipeline.drop/add/replace` (`_base.py:218-317`).  Built on `PF.Rw` (Model/Rewrite.lean).
-/
import PfModel.Model.Rewrite
namespace PF.Rw
open PF PF.Pipe

/-- the `inputs=` / `outputs=` argument of `update_scope`: `None`, `"*"`, or a set of names (`_base.py:1059-1062`) -/
inductive Sel
  | none
  | all
  | names (l : List String)

/-- `set(sel) & univ` with `"*"` standing for all of `univ` and `None` for nothing (`_base.py:1059-1078`) -/
def Sel.pick (s : Sel) (univ : List String) : List String :=
  match s with
  | .none => []
  | .all => univ
  | .names l => l.filter univ.contains

/-- the names `Pipeline.update_scope(scope, inputs, outputs, exclude)` renames (`_base.py:1057-1080`): the selected ROOT
    arguments (`inputs & parameters & all_inputs`) and the selected outputs wherever they occur, as outputs or as
    parameters (`outputs & all_names & all_outputs`), minus `exclude`.  A parameter that is bound wherever it occurs is
    not a root argument, so it is never renamed; one that is bound in one function and free in another is renamed in both. -/
def scopeSelNames (inputs outputs : Sel) (exclude : List String) (fs : List RFunc) : List String :=
  (inputs.pick (rootArgs fs) ++ outputs.pick (allOutputs fs)).filter fun n => !exclude.contains n

/-- the renaming of `Pipeline.update_scope(scope, inputs, outputs, exclude)` (`_prepend_name_with_scope`, `_pipefunc.py:1391-1402`) -/
def scopeSelRho (scope : Option String) (inputs outputs : Sel) (exclude : List String) (fs : List RFunc) : String → String :=
  fun n => if (scopeSelNames inputs outputs exclude fs).contains n then prependScope scope n else n

/-- `validate_scopes(functions, new_scope)` (`_validation.py:84-92`): a parameter scope (or the new scope) is also a
    parameter or output name -/
def scopesClash (scope : Option String) (fs : List RFunc) : Bool :=
  (scopesOf fs ++ scope.toList).any (allNames fs).contains

/-- `PipeFunc.update_scope`'s own check (`_pipefunc.py:473-477`) on the functions that `Pipeline.update_scope` calls it
    for (those with a selected name, `_base.py:1079-1080`): the scope equals an un-scoped parameter or an output -/
def funcScopeClash (s : String) (sel : List String) (fs : List RFunc) : Bool :=
  fs.any fun f =>
    (f.core.params.any (fun q => sel.contains q.1) || f.core.outputs.any sel.contains) &&
    (f.core.params.any (fun q => (match dotSplit q.1 with | some (_, u) => u | none => q.1) = s) || f.core.outputs.contains s)

/-- the same for `scope=None` (removing a scope): `PipeFunc.update_scope` checks nothing (`_pipefunc.py:473`) -/
def funcScopeClashO (scope : Option String) (sel : List String) (fs : List RFunc) : Bool :=
  match scope with
  | some s => funcScopeClash s sel fs
  | none => false

/-- `PipeFunc._validate_names` (`_pipefunc.py:571-576`): an output name that is also a parameter of the same function -/
def outputIsParam (fs : List RFunc) : Bool :=
  fs.any fun f => f.core.params.any fun q => f.core.outputs.contains q.1

/-- `ArraySpec.__post_init__` (`pipefunc/map/_mapspec.py:52-63`): an array name of a MapSpec is `name` or `scope.name`
    with identifiers on both sides, so a name with two dots (a nested scope) is refused when `update_renames` rebuilds
    the MapSpec (`_pipefunc.py:421-423`) -/
def badSpecName (fs : List RFunc) : Bool :=
  fs.any fun f => match f.mapspec with
    | none => false
    | some ms => (ms.inputs ++ ms.outputs).any fun a =>
        match dotSplit a.name with
        | some (_, u) => (dotSplit u).isSome
        | none => false

/-- `Pipeline.update_scope(scope, inputs, outputs, exclude)` (`_base.py:1006-1082`) -/
def updateScopeSel (scope : Option String) (inputs outputs : Sel) (exclude : List String) (fs : List RFunc) : Except Err (List RFunc) :=
  if scopesClash scope fs then .error (.missing "scope is a parameter") else
  if funcScopeClashO scope (scopeSelNames inputs outputs exclude fs) fs then .error (.missing "scope is a parameter") else
  if outputIsParam (renameAll (scopeSelRho scope inputs outputs exclude fs) fs) then .error (.missing "output is a parameter") else
  if badSpecName (renameAll (scopeSelRho scope inputs outputs exclude fs) fs) then .error (.missing "array name") else
  if scopesClash none (renameAll (scopeSelRho scope inputs outputs exclude fs) fs) then .error (.missing "scope is a parameter") else
  .ok (renameAll (scopeSelRho scope inputs outputs exclude fs) fs)

/-- `Pipeline._validate` (`_base.py:1143-1149`) as far as the call model sees it: `validate_scopes`, `validate_consistent_defaults` -/
def validateP (fs : List RFunc) : Except Err (List RFunc) :=
  if scopesClash none fs then .error (.missing "scope is a parameter") else
  if !consistentDefaults fs then .error (.missing "inconsistent defaults") else .ok fs

/-- `Pipeline.drop(output_name=o)` (`_base.py:266-297`): `output_to_func[o]` (a `KeyError` when nothing produces `o`) is
    removed — the whole function, also when `o` is one name of a tuple output — and the rest is re-validated; the
    dropped outputs that are still consumed become root arguments -/
def dropF (o : String) (fs : List RFunc) : Except Err (List RFunc) :=
  match rproducer fs o with
  | none => .error (.noFunc o)
  | some f => validateP (fs.filter fun g => !(sameF g f))

/-- `Pipeline.add(f)` (`_base.py:218-264`): `validate_unique_output_names`, append, `_validate` -/
def addF (nf : RFunc) (fs : List RFunc) : Except Err (List RFunc) :=
  if nf.core.outputs.any (allOutputs fs).contains then .error (.missing "duplicate output") else
  if outputIsParam [nf] then .error (.missing "output is a parameter") else
  validateP (fs ++ [nf])

/-- `output_to_func[new.output_name]` (`_base.py:320-340`): a single name finds its producer (also inside a tuple
    output), a tuple only the function with exactly that tuple -/
def producerOfName (fs : List RFunc) (outs : List String) : Option RFunc :=
  match outs with
  | [o] => rproducer fs o
  | os => fs.find? fun f => f.core.outputs = os

/-- `Pipeline.replace(new)` (`_base.py:299-317`): `drop(output_name=new.output_name)`, then `add(new)` -/
def replaceF (nf : RFunc) (fs : List RFunc) : Except Err (List RFunc) :=
  match producerOfName fs nf.core.outputs with
  | none => .error (.noFunc (nf.core.outputs.headD ""))
  | some f =>
    match validateP (fs.filter fun g => !(sameF g f)) with
    | .error e => .error e
    | .ok r => addF nf r

end PF.Rw
