import PfModel.Props.C20
import PfModel.Model.ResourcesPipe
/-!
C20 — resources of nested functions and pipeline defaults (`Model/ResourcesPipe.lean`): a `NestedPipeFunc` asks for at least as much as every
child, and `Pipeline(default_resources=…)` never overrides what a function set — also when the function's resources are a callable.
-/
namespace PF.C20
open PF.Res PF.ResPipe

/-- `NestedPipeFunc.resources` computed from the children (nothing given): whenever some child sets resources, the nested function's are at
    least every child's in cpus, gpus, memory (by size) and time (by duration) — for one such child they ARE that child's. -/
theorem C20_nested_ge (l : List R) (hv : ∀ r ∈ l, Valid r = true) (w : R) (hw : maxOfChildren l = some w) :
    (∀ r ∈ l, ∀ c, r.cpus = some c → ∃ c', w.cpus = some c' ∧ c ≤ c') ∧
    (∀ r ∈ l, ∀ g, r.gpus = some g → ∃ g', w.gpus = some g' ∧ g ≤ g') ∧
    (∀ r ∈ l, ∀ m, r.memory = some m → ∃ m', w.memory = some m' ∧ MemLe m m') ∧
    (∀ r ∈ l, ∀ t, r.time = some t → ∃ t', w.time = some t' ∧ TimeLe t t') := by
  match l, hw with
  | [r], hw =>
    simp only [maxOfChildren, Option.some.injEq] at hw
    subst hw
    have vr := hv r (by simp)
    refine ⟨?_, ?_, ?_, ?_⟩ <;> intro r' hr' x hx <;> simp only [List.mem_singleton] at hr' <;> subst hr'
    · exact ⟨x, hx, Int.le_refl _⟩
    · exact ⟨x, hx, Int.le_refl _⟩
    · obtain ⟨v, hv'⟩ := Option.isSome_iff_exists.mp (valid_memory vr x hx)
      exact ⟨x, hx, v, v, hv', hv', Rat.le_refl⟩
    · obtain ⟨v, hv'⟩ := Option.isSome_iff_exists.mp (valid_time vr x hx)
      exact ⟨x, hx, v, v, hv', hv', Nat.le_refl _⟩
  | a :: b :: t, hw =>
    simp only [maxOfChildren, Option.some.injEq] at hw
    subst hw
    exact C20_combine_ge (a :: b :: t) hv

/-- which children count, and when the nested function has resources at all: with nothing given and no callable child, the result is
    `maxOfChildren` of the children that set resources (`None` exactly when none does); a given instance wins outright. -/
theorem C20_nested_resources {κ} (children : List (Option (PRes κ))) (h2 : 2 ≤ children.length) (r : R) :
    (children.any isCall = false → nestedResources (Arg.none) children = .ok (maxOfChildren (children.filterMap instOf))) ∧
    (children.any isCall = true → nestedResources (Arg.none) children = .error .valueError) ∧
    nestedResources (Arg.inst r) children = .ok (some r) ∧
    (∀ g, nestedResources (Arg.callable g) children = .error .typeError) := by
  have : ¬ children.length < 2 := by omega
  refine ⟨?_, ?_, ?_, ?_⟩
  · intro h; simp [nestedResources, this, h]
  · intro h; simp [nestedResources, this, h]
  · simp [nestedResources, this]
  · intro g; simp [nestedResources, this]

/-- `Pipeline(default_resources=d)` never overrides what the function set: for an instance AND for a callable (evaluated on any kwargs `k`),
    every quantity the function's resources set is kept and only unset ones are filled from `d`. -/
theorem C20_pipeline_defaults_keep {κ} (p p' : PRes κ) (d : R)
    (h : maybeWithDefaults (some p) (some d) = some (some p')) (k : κ) (x w : R)
    (hx : p.eval k = some x) (hw : p'.eval k = some w) :
    w.cpus = (x.cpus <|> d.cpus) ∧ w.cpusPerNode = (x.cpusPerNode <|> d.cpusPerNode) ∧ w.nodes = (x.nodes <|> d.nodes) ∧
    w.memory = (x.memory <|> d.memory) ∧ w.gpus = (x.gpus <|> d.gpus) ∧ w.time = (x.time <|> d.time) ∧
    w.partition = (x.partition <|> d.partition) ∧ w.extra = x.extra ∧ w.mode = x.mode := by
  cases p with
  | inst r =>
    simp only [maybeWithDefaults, Option.map_eq_some_iff] at h
    obtain ⟨w', hw', e⟩ := h
    simp only [Option.some.injEq] at e
    subst e
    simp only [PRes.eval, Option.some.injEq] at hx hw
    subst hx; subst hw
    exact C20_with_defaults _ _ _ hw'
  | call g =>
    simp only [maybeWithDefaults, Option.some.injEq] at h
    subst h
    simp only [PRes.eval] at hx hw
    rw [hx] at hw
    exact C20_with_defaults _ _ _ hw

/-- the remaining paths of `Pipeline.add`: no defaults → the function's own resources, untouched (the very object); function without
    resources, or a plain callable → the defaults themselves. -/
theorem C20_pipeline_defaults_paths {κ} (p : PRes κ) (d : R) :
    pipelineAdd false (some p) none = some (some p) ∧
    pipelineAdd false (none : Option (PRes κ)) (some d) = some (some (.inst d)) ∧
    pipelineAdd false (none : Option (PRes κ)) none = some none ∧
    pipelineAdd true (some p) (some d) = some (some (.inst d)) := by
  refine ⟨?_, rfl, rfl, rfl⟩
  cases p <;> rfl

/-- non-vacuity: two children, one with a longer time and one with more cpus; a callable function whose result sets cpus under defaults that
    set cpus and memory. -/
example :
    let l : List R := [{ cpus := some 1, time := some "10:00:00" }, { cpus := some 4, time := some "2:00:00" }]
    (∀ r ∈ l, Valid r = true) ∧ (maxOfChildren l).map (·.cpus) = some (some 4) ∧
    (maxOfChildren l).map (·.time) = some (some "10:00:00") := by decide

example : 2 ≤ ([none, some (.inst { cpus := some 1 })] : List (Option (PRes Unit))).length ∧
    nestedResources Arg.none ([none, some (.inst { cpus := some 1 })] : List (Option (PRes Unit)))
      = .ok (some { cpus := some 1 }) := ⟨by decide, rfl⟩

example :
    let p : PRes Nat := .call fun k => some { cpus := some (Int.ofNat k) }
    let d : R := { cpus := some 8, memory := some "1GB" }
    ∃ p', maybeWithDefaults (some p) (some d) = some (some p') ∧
      (p'.eval 2).map (·.cpus) = some (some 2) ∧ (p'.eval 2).map (·.memory) = some (some "1GB") := by
  refine ⟨_, rfl, ?_, ?_⟩ <;> decide

end PF.C20
