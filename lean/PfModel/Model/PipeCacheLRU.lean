/-
C09, extension: a *bounded* container for the pipeline-cache model — `LRUCache(max_size=n)` of `pipefunc/cache.py` seen from
`Pipeline._run` — so that the model predicts hits and misses under eviction.  It is C14's abstract LRU policy
(`PF.Cache.Recency`, which `C14_lru_refines` proves the `LRUCache` model refines) with the key and value types of the
pipeline cache: a recency list of `(key, raw result)`, most recent last; a hit moves the entry to the back; a `put` moves /
appends the entry and, when the list is longer than `max`, drops the front.  Core Lean only.
-/
import PfModel.Model.PipeCache
namespace PF.PipeCache
open PF PF.Pipe

variable {H : Type} [DecidableEq H]

/-- remove every entry of the key -/
def eraseK : List (Key H × Val) → Key H → List (Key H × Val)
  | [], _ => []
  | (k, v) :: r, x => if k = x then eraseK r x else (k, v) :: eraseK r x

theorem mapGet_eraseK_self (c : List (Key H × Val)) (k : Key H) : mapGet (eraseK c k) k = none := by
  induction c with
  | nil => rfl
  | cons e r ih =>
    obtain ⟨a, v⟩ := e
    simp only [eraseK]
    split
    · exact ih
    · next ne => simp only [mapGet, ne, ↓reduceIte]; exact ih

theorem mapGet_eraseK_ne (c : List (Key H × Val)) (k k' : Key H) (hne : k' ≠ k) : mapGet (eraseK c k) k' = mapGet c k' := by
  induction c with
  | nil => rfl
  | cons e r ih =>
    obtain ⟨a, v⟩ := e
    simp only [eraseK]
    split
    · next e => subst e; simp only [mapGet, Ne.symm hne, ↓reduceIte]; exact ih
    · simp only [mapGet]; split
      · rfl
      · exact ih

theorem mapGet_append (a b : List (Key H × Val)) (x : Key H) :
    mapGet (a ++ b) x = match mapGet a x with | some v => some v | none => mapGet b x := by
  induction a with
  | nil => rfl
  | cons e r ih =>
    obtain ⟨k, v⟩ := e
    simp only [List.cons_append, mapGet]
    split
    · rfl
    · exact ih

/-- moving / appending an entry: the other keys answer as before -/
theorem mapGet_touch (c : List (Key H × Val)) (k : Key H) (v : Val) (k' : Key H) (w : Val)
    (h : mapGet (eraseK c k ++ [(k, v)]) k' = some w) : (k' = k ∧ w = v) ∨ mapGet c k' = some w := by
  rw [mapGet_append] at h
  by_cases e : k' = k
  · subst e
    rw [mapGet_eraseK_self] at h
    simp only [mapGet, ↓reduceIte, Option.some.injEq] at h
    exact Or.inl ⟨rfl, h.symm⟩
  · rw [mapGet_eraseK_ne c k k' e] at h
    cases hm : mapGet c k' with
    | some x => rw [hm] at h; simp only at h; exact Or.inr (by rw [← h])
    | none =>
      rw [hm] at h
      simp only [mapGet] at h
      split at h
      · next e' => exact absurd e'.symm e
      · cases h

/-- `LRUCache.__contains__` + `LRUCache.get`: a hit moves the entry to the back of the queue -/
def lruGet (c : List (Key H × Val)) (k : Key H) : Option (Val × List (Key H × Val)) :=
  match mapGet c k with
  | none => none
  | some v => some (v, eraseK c k ++ [(k, v)])

/-- dropping the least recently used entry (the front) -/
def lruEvict : List (Key H × Val) → List (Key H × Val)
  | [] => []
  | (a, _) :: rest => eraseK rest a

/-- `LRUCache.put`: the entry goes to the back with its new value; over capacity the front leaves -/
def lruPut (max : Nat) (c : List (Key H × Val)) (k : Key H) (v : Val) : List (Key H × Val) :=
  if max < (eraseK c k ++ [(k, v)]).length then lruEvict (eraseK c k ++ [(k, v)]) else eraseK c k ++ [(k, v)]

theorem mapGet_evict (c : List (Key H × Val)) (k' : Key H) (w : Val) (h : mapGet (lruEvict c) k' = some w) :
    mapGet c k' = some w := by
  cases c with
  | nil => exact h
  | cons e rest =>
    obtain ⟨a, x⟩ := e
    simp only [lruEvict] at h
    by_cases e : k' = a
    · subst e; rw [mapGet_eraseK_self] at h; cases h
    · rw [mapGet_eraseK_ne rest a k' e] at h
      simp only [mapGet]
      split
      · next e' => exact absurd e'.symm e
      · exact h

/-- `LRUCache(max_size=max)` as a cache policy -/
def lruPolicy (H : Type) [DecidableEq H] (max : Nat) : Policy H (List (Key H × Val)) where
  get := lruGet
  put := lruPut max
  res := mapGet
  get_res := by
    intro c k v c' h
    unfold lruGet at h
    cases hm : mapGet c k with
    | none => simp [hm] at h
    | some w => simp [hm] at h; rw [h.1]
  get_sub := by
    intro c k v c' h k' w hw
    unfold lruGet at h
    cases hm : mapGet c k with
    | none => simp [hm] at h
    | some x =>
      simp only [hm, Option.some.injEq, Prod.mk.injEq] at h
      obtain ⟨rfl, rfl⟩ := h
      rcases mapGet_touch c k x k' w hw with ⟨e1, e2⟩ | hold
      · rw [e1, e2]; exact hm
      · exact hold
  put_sub := by
    intro c k v k' w h
    unfold lruPut at h
    split at h
    · exact mapGet_touch c k v k' w (mapGet_evict _ k' w h)
    · exact mapGet_touch c k v k' w h

end PF.PipeCache
