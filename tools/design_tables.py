#!/usr/bin/env python3
"""Regenerate the machine-written tables of DESIGN.md (between the BEGIN/END markers) from MANIFEST.json, evidence/*.json,
known_findings.json, seeded/*/meta.json and the Lean sources."""
import json
import pathlib
import re
import subprocess

V = pathlib.Path(__file__).resolve().parent.parent
man = json.loads((V / "MANIFEST.json").read_text())
claimed = {c["property_id"]: c for c in man["checks"]}
props = [json.loads(l) for l in open(V / "properties.jsonl")]
kf = json.loads((V / "known_findings.json").read_text())["findings"]


def lines_of(globpat):
    return sum(len(p.read_text().splitlines()) for p in (V / "lean").glob(globpat))


def status_table():
    out = ["| prop | claimed | theorems (audited) | quick: cases / distinct non-trivial / wall | fixes in /repo | known findings | seeded changes caught |",
           "|---|---|---|---|---|---|---|"]
    seeds = {}
    sd = V / "seeded"
    if sd.exists():
        for d in sorted(sd.iterdir()):
            m = json.loads((d / "meta.json").read_text())
            db = m.get("detected_by") or {}
            seeds.setdefault(m["property"], []).append((d.name, db.get("exit"), db.get("with_concrete_replay")))
    for p in props:
        pid = p["id"]
        ev = V / "evidence" / f"{pid}.json"
        th = cases = "–"
        if ev.exists():
            e = json.loads(ev.read_text())
            c = e["coverage"]
            th = f"{c.get('discharged')}/{c.get('obligations')}"
            cases = f"{c.get('evaluations')} / {c.get('distinct_nontrivial')} / {e.get('wall_s')} s"
        fx = [f["id"] for f in kf if f["property"] == pid and f["status"] == "fixed"]
        fi = [f["id"] for f in kf if f["property"] == pid and f["status"] == "finding"]
        sl = seeds.get(pid, [])
        caught = sum(1 for s in sl if s[1] == 1)
        out.append(f"| {pid} | {'yes' if pid in claimed else 'no'} | {th} | {cases} | {', '.join(fx) or '–'} | {', '.join(fi) or '–'} | "
                   f"{caught}/{len(sl)}" + (f" ({', '.join(n for n, ex, _ in sl if ex != 1)} missed)" if any(ex != 1 for _, ex, _ in sl) else "") + " |")
    return "\n".join(out)


def sizes():
    return (f"Lean: Core {lines_of('PfModel/Core/*.lean')} lines, Model {lines_of('PfModel/Model/*.lean')}, Lemmas {lines_of('PfModel/Lemmas/*.lean')}, "
            f"Props {lines_of('PfModel/Props/*.lean')}, Driver {lines_of('Driver/*.lean')} + driver libraries; "
            f"Python harness: {sum(len(p.read_text().splitlines()) for p in (V / 'harness').rglob('*.py'))} lines.")


def findings_table():
    out = ["| id | prop | status | commit | site | what |", "|---|---|---|---|---|---|"]
    for f in sorted(kf, key=lambda f: (f["property"], f["id"])):
        what = re.sub(r"^fixed: property=\S+ \S+ ", "", f["what"])
        out.append(f"| {f['id']} | {f['property']} | {f['status']} | {f.get('commit', '–')} | `{f.get('site', '')}` | {what[:260]} |")
    return "\n".join(out)


def seeded_table():
    out = ["| seeded change | prop | what it breaks | what it needs | detected by (quick, seeds 0 1) |", "|---|---|---|---|---|"]
    sd = V / "seeded"
    if sd.exists():
        for d in sorted(sd.iterdir()):
            m = json.loads((d / "meta.json").read_text())
            db = m.get("detected_by") or {}
            verdict = "not run" if not db else ("**missed**" if db.get("exit") != 1 else
                                                f"caught: {db.get('with_concrete_replay')} concrete replay(s) of {db.get('violation_lines')} VIOLATION line(s)")
            out.append(f"| {d.name} | {m['property']} | {str(m.get('breaks'))[:150]} | {str(m.get('needs'))[:200]} | {verdict} |")
    return "\n".join(out)


blocks = {"STATUS": status_table() + "\n\n" + sizes(), "FINDINGS": findings_table(), "SEEDED": seeded_table()}
f = V / "DESIGN.md"
s = f.read_text()
for k, body in blocks.items():
    a, b = f"<!-- BEGIN:{k} -->", f"<!-- END:{k} -->"
    if a in s and b in s:
        s = s[:s.index(a) + len(a)] + "\n" + body + "\n" + s[s.index(b):]
f.write_text(s)
print("DESIGN.md tables regenerated")
