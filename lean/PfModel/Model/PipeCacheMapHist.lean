/-
C09, round 9: HISTORIES of `Pipeline.map` runs on one pipeline object.  `pipeline.cache` outlives a map run
(`pipefunc/map/_run.py:160, 304`: every run passes the same `pipeline.cache` to `_get_or_set_cache`), so the element
computations of the 2nd, 3rd, … run meet the entries the earlier runs stored.  A run is the list of its element
computations in the order in which they reach the cache (`runElems` of `Model/PipeCache.lean`); a history is a list of runs.

The key of an element is built from the LOADED selected keyword arguments (`_select_kwargs` ends with `_load_arrays(selected)`,
`_run.py:398-400`; `_execute_single` loads before `_get_or_set_cache`, `_run.py:800`): a whole upstream storage array
enters the key by its values (`elemKey h`, `h` = `to_hashable`).  `shapeOnly` is what the key sees when the load happens
only inside `compute_fn` (seeded change C09-s4-B): a `FileArray` pickles to its folder and shape, not to its content —
used by the closed witnesses only.  Core Lean only.
-/
import PfModel.Model.PipeCache
namespace PF.PipeCache
open PF PF.Pipe

/-- the element computations of successive map runs pushed through the one cache of the pipeline object -/
def runRuns {H C} (P : Policy H C) (h : Val → H) : C → List (List Elem) → List (List (Val × Bool)) × C
  | c, [] => ([], c)
  | c, r :: rs =>
    match runElems P h c r with
    | (out, c') =>
      match runRuns P h c' rs with
      | (outs, c'') => (out :: outs, c'')

/-- which of a sequence of keys are met for the first time, given the keys already seen (resident) -/
def firstOcc {K} [DecidableEq K] (seen : List K) : List K → List Bool
  | [] => []
  | k :: ks => (!decide (k ∈ seen)) :: firstOcc (k :: seen) ks

/-- `firstOcc` run by run: the keys of a run are `seen` by the later runs -/
def firstOccRuns {K} [DecidableEq K] (seen : List K) : List (List K) → List (List Bool)
  | [] => []
  | r :: rs => firstOcc seen r :: firstOccRuns (r.reverse ++ seen) rs

/-- A container that keeps what was put ("the entry is still resident": `SimpleCache`; the bounded containers while they
    are below their size limit): membership is residency, a hit changes no residency, a `put` makes its key resident
    and leaves every other key as it was. -/
structure Retains {H C} (P : Policy H C) : Prop where
  get_none : ∀ c k, P.get c k = none ↔ P.res c k = none
  get_keep : ∀ c k v c', P.get c k = some (v, c') → ∀ k', P.res c' k' = P.res c k'
  put_self : ∀ c k v, P.res (P.put c k v) k = some v
  put_keep : ∀ c k v k', k' ≠ k → P.res (P.put c k v) k' = P.res c k'

/-- the key a `FileArray` argument contributes when it is hashed before it is loaded: its shape, not its elements
    (`FileArray.__getstate__`-less pickle: folder + shape + masks); applied to the top-level arguments of an element -/
def shapeOnly : Val → Val
  | .arr s _ => .arr s []
  | v => v

end PF.PipeCache

namespace PF.PipeCache
open PF PF.Pipe

/-! ### closed witnesses: `a[i] -> sq[i]`, then `w[j] -> share[j]` for `share(w, sq)` (demo of seeded change C09-s4-B) -/

/-- `to_hashable` on the values of the witnesses: strings, and arrays of strings by their elements -/
def hArr : Val → List String
  | .str s => ["s", s]
  | .arr _ es => "a" :: es.map fun e => match e with | .str s => s | _ => ""
  | _ => []

/-- the element call `share(w=w, sq=<the whole upstream array>)` -/
def shareElem (w : String) (sq : List String) : Elem :=
  elemOfCall (fun _ => ["share"]) { name := "share", args := [("w", .str w), ("sq", .arr [sq.length] (sq.map .str))] }

/-- the element call `sq(a=a)` -/
def sqElem (a : String) : Elem := elemOfCall (fun _ => ["sq"]) { name := "sq", args := [("a", .str a)] }

/-- one map run of the demo pipeline with `a = as`, `w = ws` (the squares are named after their argument) -/
def demoRun (as ws : List String) : List Elem := as.map sqElem ++ ws.map fun w => shareElem w (as.map fun a => a ++ "^2")

end PF.PipeCache
