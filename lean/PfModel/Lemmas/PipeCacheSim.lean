import PfModel.Lemmas.PipeCacheUncached
import PfModel.Lemmas.PipelineNeeded
/-!
C09, extension: a cached run that never returns early from a hit (every call with `full_output`; every call without any
hit) is a *lock-step refinement* of the uncached run `PF.Pipe.run`: the same value, the same used-parameter list, a memo
(`all_results`) with the same lookups, and a call log that is the uncached one minus the functions whose key was found.

The only difference between the two runs is that a hit under `full_output` puts the cached outputs of `f` into the memo
*before* the arguments of `f` are evaluated.  Those names (`OpenOut`) are never consulted while the frame is open because
the pipeline is acyclic (`WFp.acyc`, rank on function names).
-/
namespace PF.PipeCache
open PF PF.Pipe

variable {H C : Type}

/-- the name of the function whose output tuple is `outs` (hit keys carry `func.output_name`) -/
def nameOfOuts (fs : List Func) (outs : List String) : String :=
  match fs.find? (fun f => f.outputs = outs) with
  | some f => f.name
  | none => ""

/-- the functions (by name) whose results were taken from the cache, in the order of the hits -/
def hitNames (fs : List Func) (hits : List (Key H)) : List String := hits.map fun K => nameOfOuts fs K.outs

theorem nameOfOuts_self (fs : List Func) (hu : UniqueOut fs) (f : Func) (hf : f ∈ fs) (o : String) (ho : o ∈ f.outputs) :
    nameOfOuts fs f.outputs = f.name := by
  unfold nameOfOuts
  cases hx : fs.find? (fun g => g.outputs = f.outputs) with
  | none =>
    have := List.find?_eq_none.mp hx f hf
    simp at this
  | some g =>
    have hg : g ∈ fs := List.mem_of_find?_eq_some hx
    have hgo : g.outputs = f.outputs := by simpa using List.find?_some hx
    have : g = f := hu g hg f hf o (by rw [hgo]; exact ho) ho
    rw [this]

theorem hitNames_snoc (fs : List Func) (hits : List (Key H)) (K : Key H) :
    hitNames fs (hits ++ [K]) = hitNames fs hits ++ [nameOfOuts fs K.outs] := by
  simp [hitNames]

theorem count_cons' (a x : String) (l : List String) : (x :: l).count a = [x].count a + l.count a := by
  rw [← List.count_append]; rfl

theorem alookup_unpack_none (f : Func) (r : Val) (q : String) (hq : q ∉ f.outputs) : alookup (unpack f r) q = none := by
  cases hx : alookup (unpack f r) q with
  | none => rfl
  | some w => exact absurd (unpack_keys f r q w hx) hq

theorem alookup_outVals_none (f : Func) (args : List (String × Val)) (q : String) (hq : q ∉ f.outputs) :
    alookup (outVals f args) q = none := by
  cases hx : alookup (outVals f args) q with
  | none => rfl
  | some w => exact absurd (outVals_mem f args q w hx) hq

/-- `q` is an output of a function whose cache hit (under `full_output`) is still evaluating its arguments -/
def OpenOut (fs : List Func) (opn : List String) (q : String) : Prop := ∃ g ∈ fs, g.name ∈ opn ∧ q ∈ g.outputs

/-- how the cached state and the uncached state correspond while the frames named `opn` are open -/
structure Rel (fs : List Func) (opn : List String) (sC : CSt H C) (sU : St) : Prop where
  memo : ∀ q, ¬ OpenOut fs opn q → alookup sC.memo q = alookup sU.memo q
  used : sC.used = sU.used
  calls : ∀ a, sU.calls.count a + opn.count a = sC.calls.count a + (hitNames fs sC.hits).count a

structure SimPost (P : Policy H C) (h : Val → H) (fs : List Func) (kw : List (String × Val)) (opn : List String)
    (sC sC' : CSt H C) (sU' : St) : Prop where
  rel : Rel fs opn sC' sU'
  good : Good fs kw sU'
  inv : Inv P h fs sC'.cache
  frame : ∀ q, OpenOut fs opn q → alookup sC'.memo q = alookup sC.memo q

section Sim
variable (P : Policy H C) (h : Val → H) (cached : Func → Bool)
  (fs : List Func) (rank : String → Nat) (rk : String → Nat) (kw : List (String × Val)) (full : Bool)

def RecSim (rC : String → CSt H C → Except Err (Val × CSt H C)) (rU : String → St → Except Err (Val × St)) : Prop :=
  ∀ o sC v sC' sU opn f, rC o sC = .ok (v, sC') → sC'.hit = false → producer fs o = some f →
    (∀ nm ∈ opn, rk f.name < rk nm) → Rel fs opn sC sU → Good fs kw sU → Inv P h fs sC.cache →
    ∃ sU', rU o sU = .ok (v, sU') ∧ SimPost P h fs kw opn sC sC' sU'

theorem argsWithC_sim (hw : WFp fs rk) (rC : String → CSt H C → Except Err (Val × CSt H C))
    (rU : String → St → Except Err (Val × St)) (hr : RecSim P h fs rk kw rC rU) (hh : RecHit full rC) (f : Func) (hf : f ∈ fs) :
    ∀ ps : List (String × String), (∀ pq ∈ ps, pq ∈ f.params) → ∀ (sC : CSt H C) args sC' sU opn,
      argsWithC rC fs kw f ps sC = .ok (args, sC') → sC'.hit = false → (∀ nm ∈ opn, rk f.name ≤ rk nm) →
      Rel fs opn sC sU → Good fs kw sU → Inv P h fs sC.cache →
      ∃ sU', argsWith rU fs kw f ps sU = .ok (args, sU') ∧ SimPost P h fs kw opn sC sC' sU' := by
  intro ps
  induction ps with
  | nil =>
    intro _ sC args sC' sU opn hrun _ _ hrel hg hi
    simp only [argsWithC, Except.ok.injEq, Prod.mk.injEq] at hrun
    obtain ⟨rfl, rfl⟩ := hrun
    exact ⟨sU, by simp [argsWith], hrel, hg, hi, fun _ _ => rfl⟩
  | cons pq ps ih =>
    obtain ⟨p, orig⟩ := pq
    intro hsub sC args sC' sU opn hrun hnh hrk hrel hg hi
    have hsub' : ∀ pq ∈ ps, pq ∈ f.params := fun pq hpq => hsub pq (List.mem_cons_of_mem _ hpq)
    simp only [argsWithC] at hrun
    simp only [argsWith]
    cases hres : resolve fs kw f p with
    | missing => simp [hres] at hrun
    | val v =>
      simp only [hres] at hrun ⊢
      cases hrest : argsWithC rC fs kw f ps { sC with used := sC.used ++ [p] } with
      | error e => simp [hrest] at hrun
      | ok r =>
        obtain ⟨rest, s2⟩ := r
        simp only [hrest, Except.ok.injEq, Prod.mk.injEq] at hrun
        obtain ⟨rfl, rfl⟩ := hrun
        have hrel1 : Rel fs opn ({ sC with used := sC.used ++ [p] } : CSt H C) { sU with used := sU.used ++ [p] } :=
          ⟨hrel.memo, by show sC.used ++ [p] = sU.used ++ [p]; rw [hrel.used], hrel.calls⟩
        obtain ⟨sU', hU, post⟩ := ih hsub' _ _ _ _ opn hrest hnh hrk hrel1 hg hi
        exact ⟨sU', by simp only [hU], post.rel, post.good, post.inv, post.frame⟩
    | upstream =>
      simp only [hres] at hrun ⊢
      obtain ⟨hb, hkp, hpp⟩ := PF.PipeCache.resolve_upstream fs kw f p hres
      obtain ⟨g, hgp⟩ := Option.isSome_iff_exists.mp hpp
      cases hrp : rC p sC with
      | error e => simp [hrp] at hrun
      | ok r1 =>
        obtain ⟨v, s1⟩ := r1
        simp only [hrp] at hrun
        cases hrest : argsWithC rC fs kw f ps { s1 with used := s1.used ++ [p] } with
        | error e => simp [hrest] at hrun
        | ok r =>
          obtain ⟨rest, s2⟩ := r
          simp only [hrest, Except.ok.injEq, Prod.mk.injEq] at hrun
          obtain ⟨rfl, rfl⟩ := hrun
          have hlt : rk g.name < rk f.name := hw.acyc f hf (p, orig) (hsub _ (by simp)) g hgp hb
          have hh2 := argsWithC_hit full rC hh fs kw f ps _ _ _ hrest
          have hnh1 : s1.hit = false := by
            cases hx : s1.hit with
            | false => rfl
            | true => have := hh2.keep hx; rw [hnh] at this; cases this
          obtain ⟨sU1, hU1, post1⟩ := hr p sC v s1 sU opn g hrp hnh1 hgp
            (fun nm hnm => Nat.lt_of_lt_of_le hlt (hrk nm hnm)) hrel hg hi
          have hrel1 : Rel fs opn ({ s1 with used := s1.used ++ [p] } : CSt H C) { sU1 with used := sU1.used ++ [p] } :=
            ⟨post1.rel.memo, by show s1.used ++ [p] = sU1.used ++ [p]; rw [post1.rel.used], post1.rel.calls⟩
          obtain ⟨sU', hU, post⟩ := ih hsub' _ _ _ _ opn hrest hnh hrk hrel1 post1.good post1.inv
          exact ⟨sU', by simp only [hU1, hU], post.rel, post.good, post.inv,
            fun q hq => (post.frame q hq).trans (post1.frame q hq)⟩

/-- **the refinement**: a cached evaluation that ends with the hit flag unset is an uncached evaluation -/
theorem runC_sim (hinj : ∀ a b, h a = h b → a = b) (wf : WF fs rank) (hw : WFp fs rk) :
    ∀ n, RecSim P h fs rk kw (runC P cached (computeKey h fs) fs kw full n) (run fs kw n) := by
  intro n
  induction n with
  | zero => intro o sC v sC' sU opn f hrun; simp [runC] at hrun
  | succ n ihn =>
    intro o sC v sC' sU opn f hrun hnh hf hrk hrel hg hi
    have hu : Unique fs := unique_of_wf fs rank wf
    obtain ⟨hfm, hof⟩ := PF.PipeCache.producer_mem fs o f hf
    have hnotopen : ∀ q, q ∈ f.outputs → ¬ OpenOut fs opn q := by
      rintro q hq ⟨g, hgm, hgn, hgq⟩
      have : g = f := hw.uniq g hgm f hfm q hgq hq
      subst this
      exact Nat.lt_irrefl _ (hrk _ hgn)
    have hmemo : alookup sU.memo o = alookup sC.memo o := (hrel.memo o (hnotopen o hof)).symm
    rw [runC_succ] at hrun
    cases hm : alookup sC.memo o with
    | some w =>
      simp only [hm, Except.ok.injEq, Prod.mk.injEq] at hrun
      obtain ⟨rfl, rfl⟩ := hrun
      exact ⟨sU, by rw [run_succ, hmemo, hm], hrel, hg, hi, fun _ _ => rfl⟩
    | none =>
      simp only [hm, hf] at hrun
      have hkey : ∀ K, (if cached f then computeKey h fs kw f o else none) = some K → computeKey h fs kw f o = some K := by
        intro K hK
        cases hcf : cached f <;> simp [hcf] at hK
        exact hK
      generalize (if cached f then computeKey h fs kw f o else none) = key at hkey hrun
      cases hl : lookupC P key sC.cache with
      | some hit =>
        obtain ⟨K, r, c'⟩ := hit
        simp only [hl] at hrun
        obtain ⟨hK, hget⟩ := lookupC_some P key sC.cache K r c' hl
        have hck := hkey K hK
        by_cases hfull : full = true
        · rw [if_pos hfull] at hrun
          cases hargs : argsWithC (runC P cached (computeKey h fs) fs kw full n) fs kw f f.params
              { sC with memo := unpack f r ++ sC.memo, cache := c', hits := sC.hits ++ [K] } with
          | error e => simp [hargs] at hrun
          | ok r2 =>
            obtain ⟨args0, s2⟩ := r2
            simp only [hargs] at hrun
            cases hx : alookup s2.memo o with
            | none => simp [hx] at hrun
            | some w =>
              simp only [hx, Except.ok.injEq, Prod.mk.injEq] at hrun
              obtain ⟨rfl, rfl⟩ := hrun
              have hvalid : Valid h fs K r := hi K r (P.get_res _ _ _ _ hget)
              have hi1 : Inv P h fs c' := fun K' r' hr' => hi K' r' (P.get_sub _ _ _ _ hget K' r' hr')
              have hKo : K.outs = f.outputs := (computeKey_some h fs kw f o K hck).2.2
              have hname : nameOfOuts fs K.outs = f.name := by rw [hKo]; exact nameOfOuts_self fs hw.uniq f hfm o hof
              have hrel1 : Rel fs (f.name :: opn)
                  ({ sC with memo := unpack f r ++ sC.memo, cache := c', hits := sC.hits ++ [K] } : CSt H C) sU := by
                refine ⟨?_, hrel.used, ?_⟩
                · intro q hq
                  have hqf : q ∉ f.outputs := fun hx => hq ⟨f, hfm, by simp, hx⟩
                  have hqo : ¬ OpenOut fs opn q := fun ⟨g, hgm, hgn, hgq⟩ => hq ⟨g, hgm, List.mem_cons_of_mem _ hgn, hgq⟩
                  show alookup (unpack f r ++ sC.memo) q = alookup sU.memo q
                  rw [alookup_append, alookup_unpack_none f r q hqf]; exact hrel.memo q hqo
                · intro a
                  show sU.calls.count a + (f.name :: opn).count a = sC.calls.count a + (hitNames fs (sC.hits ++ [K])).count a
                  have := hrel.calls a
                  rw [count_cons', hitNames_snoc, List.count_append, hname]; omega
              obtain ⟨sU2, hU2, post2⟩ := argsWithC_sim P h fs rk kw full hw _ _ ihn (runC_hit P cached _ fs kw full n) f hfm
                f.params (fun _ x => x) _ args0 s2 sU (f.name :: opn) hargs hnh
                (by
                  intro nm hnm
                  rcases List.mem_cons.mp hnm with e | e
                  · rw [e]; exact Nat.le_refl _
                  · exact Nat.le_of_lt (hrk nm e)) hrel1 hg hi1
              obtain ⟨w0, hw0⟩ := outVals_has f args0 o hof
              obtain ⟨⟨k, hk⟩, _⟩ := argsWith_sound fs kw _ (run_sound fs kw hu n) f f.params sU args0 sU2 hg hU2
              have hall := outputs_compose fs rank kw wf f hfm k args0 hk
              have hunp : ∀ q, alookup (unpack f r) q = alookup (outVals f args0) q := by
                intro q
                by_cases hq : q ∈ f.outputs
                · obtain ⟨w', hw'⟩ := outVals_has f args0 q hq
                  have hpq := producer_of_mem fs rank wf f hfm q hq
                  have hckq : computeKey h fs kw f q = some K := by
                    rw [computeKey_congr_out h fs kw f q o (by rw [hpq, hf])]; exact hck
                  rw [hw']; exact hvalid f q kw (k+1) w' hpq hckq (hall q w' hw')
                · rw [alookup_unpack_none f r q hq, alookup_outVals_none f args0 q hq]
              have hfr : ∀ q, q ∈ f.outputs → alookup s2.memo q = alookup (outVals f args0) q := by
                intro q hq
                rw [post2.frame q ⟨f, hfm, by simp, hq⟩]
                show alookup (unpack f r ++ sC.memo) q = _
                obtain ⟨w', hw'⟩ := outVals_has f args0 q hq
                rw [alookup_append, hunp q, hw']
              have hvw : w = w0 := by
                have := hfr o hof; rw [hx, hw0] at this; injection this
              subst hvw
              have hrunU : run fs kw (n+1) o sU =
                  .ok (w, { sU2 with memo := outVals f args0 ++ sU2.memo, calls := sU2.calls ++ [f.name] }) := by
                rw [run_succ, hmemo, hm]; simp only [hf, hU2, hw0]
              refine ⟨_, hrunU, ?_, (run_sound fs kw hu (n+1) o sU w _ hg hrunU).2, post2.inv, ?_⟩
              · refine ⟨?_, post2.rel.used, ?_⟩
                · intro q hq
                  show alookup s2.memo q = alookup (outVals f args0 ++ sU2.memo) q
                  by_cases hqf : q ∈ f.outputs
                  · obtain ⟨w', hw'⟩ := outVals_has f args0 q hqf
                    rw [hfr q hqf, alookup_append, hw']
                  · have hq' : ¬ OpenOut fs (f.name :: opn) q := by
                      rintro ⟨g, hgm, hgn, hgq⟩
                      rcases List.mem_cons.mp hgn with e | e
                      · have : g = f := hw.names g hgm f hfm e
                        subst this; exact hqf hgq
                      · exact hq ⟨g, hgm, e, hgq⟩
                    rw [alookup_append, alookup_outVals_none f args0 q hqf]; exact post2.rel.memo q hq'
                · intro a
                  show (sU2.calls ++ [f.name]).count a + opn.count a = s2.calls.count a + (hitNames fs s2.hits).count a
                  have := post2.rel.calls a
                  rw [count_cons'] at this
                  rw [List.count_append]; omega
              · intro q hq
                have hqf : q ∉ f.outputs := fun hx => hnotopen q hx hq
                obtain ⟨g, hgm, hgn, hgq⟩ := hq
                rw [post2.frame q ⟨g, hgm, List.mem_cons_of_mem _ hgn, hgq⟩]
                show alookup (unpack f r ++ sC.memo) q = alookup sC.memo q
                rw [alookup_append, alookup_unpack_none f r q hqf]
        · rw [if_neg hfull] at hrun
          cases hx : alookup (unpack f r ++ sC.memo) o with
          | none => simp [hx] at hrun
          | some w =>
            simp only [hx, Except.ok.injEq, Prod.mk.injEq] at hrun
            rw [← hrun.2] at hnh
            cases hnh
      | none =>
        simp only [hl] at hrun
        cases hargs : argsWithC (runC P cached (computeKey h fs) fs kw full n) fs kw f f.params sC with
        | error e => simp [hargs] at hrun
        | ok r =>
          obtain ⟨args, s'⟩ := r
          simp only [hargs] at hrun
          cases hov : alookup (outVals f args) o with
          | none => simp [hov] at hrun
          | some w =>
            simp only [hov, Except.ok.injEq, Prod.mk.injEq] at hrun
            obtain ⟨rfl, rfl⟩ := hrun
            have hnh' : s'.hit = false := hnh
            obtain ⟨sU1, hU1, post1⟩ := argsWithC_sim P h fs rk kw full hw _ _ ihn (runC_hit P cached _ fs kw full n) f hfm
              f.params (fun _ x => x) sC args s' sU opn hargs hnh' (fun nm hnm => Nat.le_of_lt (hrk nm hnm)) hrel hg hi
            have hrunU : run fs kw (n+1) o sU =
                .ok (w, { sU1 with memo := outVals f args ++ sU1.memo, calls := sU1.calls ++ [f.name] }) := by
              rw [run_succ, hmemo, hm]; simp only [hf, hU1, hov]
            obtain ⟨⟨k, hk⟩, _⟩ := argsWith_sound fs kw _ (run_sound fs kw hu n) f f.params sU args sU1 hg hU1
            refine ⟨_, hrunU, ?_, (run_sound fs kw hu (n+1) o sU w _ hg hrunU).2, ?_, ?_⟩
            · refine ⟨?_, post1.rel.used, ?_⟩
              · intro q hq
                show alookup (outVals f args ++ s'.memo) q = alookup (outVals f args ++ sU1.memo) q
                rw [alookup_append, alookup_append, post1.rel.memo q hq]
              · intro a
                show (sU1.calls ++ [f.name]).count a + opn.count a = (s'.calls ++ [f.name]).count a + (hitNames fs s'.hits).count a
                have := post1.rel.calls a
                rw [List.count_append, List.count_append]; omega
            · intro K' r' hr'
              cases key with
              | none => exact post1.inv K' r' hr'
              | some K =>
                simp only [storeC] at hr'
                rcases P.put_sub _ _ _ _ _ hr' with ⟨e1, e2⟩ | hold
                · subst e1; subst e2
                  exact valid_put h hinj fs rank wf f o kw K' k args hf (hkey K' rfl) hk
                · exact post1.inv K' r' hold
            · intro q hq
              have hqf : q ∉ f.outputs := fun hx => hnotopen q hx hq
              show alookup (outVals f args ++ s'.memo) q = alookup sC.memo q
              rw [alookup_append, alookup_outVals_none f args q hqf]; exact post1.frame q hq

end Sim

end PF.PipeCache
