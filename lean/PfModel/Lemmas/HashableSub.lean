import PfModel.Model.HashableSub
import PfModel.Lemmas.Hashable
/-! Helper lemmas for the subclass extension of C15 (`Model/HashableSub.lean`). -/
namespace PF.Hashable

/-- induction over wide values, with the hypothesis for children and grandchildren (the values inside item tuples) -/
theorem WV.ind {P : WV → Prop} (hatom : ∀ a, P (.atom a))
    (hnode : ∀ k s xs, (∀ x ∈ xs, P x) → P (.node k s xs)) : ∀ v, P v := by
  intro v
  refine WV.rec (motive_1 := P) (motive_2 := fun xs => ∀ x ∈ xs, P x) hatom (fun k s xs ih => hnode k s xs ih) ?_ ?_ v
  · intro x hx; cases hx
  · intro x xs hx hxs y hy
    cases hy with
    | head => exact hx
    | tail _ h => exact hxs y h

theorem WV.ind2 {P : WV → Prop} (hatom : ∀ a, P (.atom a))
    (hnode : ∀ k s xs, (∀ x ∈ xs, P x) → (∀ x ∈ xs, ∀ k' s' ys, x = .node k' s' ys → ∀ y ∈ ys, P y) → P (.node k s xs)) :
    ∀ v, P v := by
  have h : ∀ v, P v ∧ (∀ k' s' ys, v = .node k' s' ys → ∀ y ∈ ys, P y) := by
    intro v
    induction v using WV.ind with
    | hatom a => exact ⟨hatom a, by intro k' s' ys h; cases h⟩
    | hnode k s xs ih =>
      refine ⟨hnode k s xs (fun x hx => (ih x hx).1) (fun x hx => (ih x hx).2), ?_⟩
      intro k' s' ys h y hy
      cases h
      exact (ih y hy).1
  exact fun v => (h v).1

theorem WV.plainL_iff {xs : List WV} : WV.plainL xs = true ↔ ∀ x ∈ xs, x.plain = true := by
  induction xs with
  | nil => simp [WV.plainL]
  | cons x xs ih => simp [WV.plainL, ih]

/-! ### the shape of `wkey` on a node -/
theorem wkey_node_eq (esc : Bool) (k : Kind) (s : Option Nat) (xs : List WV) :
    wkey esc (.node k s xs) =
      if hashable (.node k (WV.baseL xs)) && !(esc && markerHeaded (.node k (WV.baseL xs))) then .ok (.node k (WV.baseL xs))
      else match wconv esc k.mode xs with
        | .ok cs => wfinish k s cs
        | .error e => .error e := by
  conv => lhs; unfold wkey
  split
  · rfl
  · cases hm : k.mode with
    | elem => simp only [wconv, bind, Except.bind]; cases wconvElems esc xs <;> rfl
    | item => simp only [wconv, bind, Except.bind]; cases wconvItems esc xs <;> rfl
    | rawItem => simp only [wconv, bind, Except.bind]; cases rawItems (WV.baseL xs) <;> rfl
    | rawAtom => simp only [wconv, bind, Except.bind]; cases rawAtoms (WV.baseL xs) <;> rfl
    | leaf =>
      cases xs with
      | nil => simp [wconv]
      | cons x xs => simp [wconv]

/-- a key is the base value itself (returned as it is) or the tuple tagged with the instance's own class -/
theorem wkey_node (esc : Bool) (k : Kind) (s : Option Nat) (xs : List WV) (r : PV) (h : wkey esc (.node k s xs) = .ok r) :
    ((hashable (.node k (WV.baseL xs)) && !(esc && markerHeaded (.node k (WV.baseL xs)))) = true ∧ r = .node k (WV.baseL xs)) ∨
    ((hashable (.node k (WV.baseL xs)) && !(esc && markerHeaded (.node k (WV.baseL xs)))) = false ∧
      ∃ cs srt, wconv esc k.mode xs = .ok cs ∧ sortIf k cs = .ok srt ∧ r = tagged (clsOf k s) (k.wrap (srt.map Prod.snd))) := by
  rw [wkey_node_eq] at h
  split at h
  · rename_i hraw; left; cases h; exact ⟨hraw, rfl⟩
  · rename_i hraw
    right
    refine ⟨by simpa using hraw, ?_⟩
    cases hc : wconv esc k.mode xs with
    | error e => rw [hc] at h; cases h
    | ok cs =>
      rw [hc] at h
      simp only [wfinish] at h
      cases hs : sortIf k cs with
      | error e => rw [hs] at h; cases h
      | ok srt => rw [hs] at h; cases h; exact ⟨cs, srt, rfl, hs, rfl⟩

/-! ### plain children are converted as the core model converts them -/
theorem wconvElems_plain (esc : Bool) : ∀ xs : List WV, (∀ x ∈ xs, wkey esc x = key esc x.base) →
    wconvElems esc xs = convElems esc (WV.baseL xs)
  | [], _ => rfl
  | x :: xs, h => by
    simp only [wconvElems, convElems, WV.baseL, h x (List.mem_cons_self ..),
      wconvElems_plain esc xs (fun y hy => h y (List.mem_cons_of_mem _ hy))]

theorem wconvItems_plain (esc : Bool) : ∀ xs : List WV,
    (∀ x ∈ xs, ∀ k' s' ys, x = .node k' s' ys → ∀ y ∈ ys, wkey esc y = key esc y.base) →
    wconvItems esc xs = convItems esc (WV.baseL xs)
  | [], _ => rfl
  | x :: xs, h => by
    have ih := wconvItems_plain esc xs (fun y hy => h y (List.mem_cons_of_mem _ hy))
    cases x with
    | atom a => simp [wconvItems, convItems, WV.baseL, WV.base]
    | node k s ys =>
      cases k <;> try (simp [wconvItems, convItems, WV.baseL, WV.base]; done)
      case tuple =>
        rcases ys with _ | ⟨a, _ | ⟨b, _ | ⟨c, r⟩⟩⟩
        · simp [wconvItems, convItems, WV.baseL, WV.base]
        · simp [wconvItems, convItems, WV.baseL, WV.base]
        · have hb := h (.node .tuple s [a, b]) (List.mem_cons_self ..) _ _ _ rfl b (by simp)
          simp only [wconvItems, convItems, WV.baseL, WV.base, hb, ih]
        · simp [wconvItems, convItems, WV.baseL, WV.base]

theorem wconv_plain (esc : Bool) (m : Mode) (xs : List WV) (h1 : ∀ x ∈ xs, wkey esc x = key esc x.base)
    (h2 : ∀ x ∈ xs, ∀ k' s' ys, x = .node k' s' ys → ∀ y ∈ ys, wkey esc y = key esc y.base) :
    wconv esc m xs = mapE (conv1 esc m) (WV.baseL xs) := by
  cases m with
  | elem => simp only [wconv, wconvElems_plain esc xs h1, convElems_eq]
  | item => simp only [wconv, wconvItems_plain esc xs h2, convItems_eq]
  | rawItem => simp only [wconv, rawItems_eq (esc := esc)]
  | rawAtom => simp only [wconv, rawAtoms_eq (esc := esc)]
  | leaf =>
    cases xs with
    | nil => simp [wconv, WV.baseL, mapE]
    | cons x xs => simp [wconv, WV.baseL, mapE, conv1]

theorem wfinish_none (k : Kind) (cs : List (PV × PV)) : wfinish k none cs = finish k cs := rfl

/-- the key of a value without subclass instances is the key of the core model -/
theorem wkey_plain (esc : Bool) : ∀ w : WV, w.plain = true → wkey esc w = key esc w.base := by
  intro w
  induction w using WV.ind2 with
  | hatom a => intro _; simp [wkey, key, WV.base]
  | hnode k s xs ih ih2 =>
    intro hp
    simp only [WV.plain, Bool.and_eq_true, Option.isNone_iff_eq_none] at hp
    obtain ⟨hs, hxs⟩ := hp
    subst hs
    have hall := WV.plainL_iff.1 hxs
    have h1 : ∀ x ∈ xs, wkey esc x = key esc x.base := fun x hx => ih x hx (hall x hx)
    have h2 : ∀ x ∈ xs, ∀ k' s' ys, x = .node k' s' ys → ∀ y ∈ ys, wkey esc y = key esc y.base := by
      intro x hx k' s' ys he y hy
      refine ih2 x hx k' s' ys he y hy ?_
      have := hall x hx
      subst he
      simp only [WV.plain, Bool.and_eq_true] at this
      exact WV.plainL_iff.1 this.2 y hy
    rw [wkey_node_eq, WV.base, key_node_eq, wconv_plain esc k.mode xs h1 h2]
    rfl

/-- children of the core model embedded: the key of a root-level subclass instance in terms of core conversions -/
theorem wkey_root (esc : Bool) (k : Kind) (s : Option Nat) (xs : List WV) (hp : WV.plainL xs = true) :
    wkey esc (.node k s xs) =
      if hashable (.node k (WV.baseL xs)) && !(esc && markerHeaded (.node k (WV.baseL xs))) then .ok (.node k (WV.baseL xs))
      else match mapE (conv1 esc k.mode) (WV.baseL xs) with
        | .ok cs => wfinish k s cs
        | .error e => .error e := by
  have hall := WV.plainL_iff.1 hp
  have h1 : ∀ x ∈ xs, wkey esc x = key esc x.base := fun x hx => wkey_plain esc x (hall x hx)
  have h2 : ∀ x ∈ xs, ∀ k' s' ys, x = .node k' s' ys → ∀ y ∈ ys, wkey esc y = key esc y.base := by
    intro x hx k' s' ys he y hy
    have := hall x hx
    subst he
    simp only [WV.plain, Bool.and_eq_true] at this
    exact wkey_plain esc y (WV.plainL_iff.1 this.2 y hy)
  rw [wkey_node_eq, wconv_plain esc k.mode xs h1 h2]

theorem wfinish_ok {k : Kind} {s : Option Nat} {cs : List (PV × PV)} {r : PV} (h : wfinish k s cs = .ok r) :
    ∃ P, finish k cs = .ok (tagged k.cls P) ∧ r = tagged (clsOf k s) P := by
  simp only [wfinish] at h
  cases hs : sortIf k cs with
  | error e => rw [hs] at h; cases h
  | ok srt => rw [hs] at h; cases h; exact ⟨_, by simp [finish, hs], rfl⟩

theorem finish_wfinish {k : Kind} (s : Option Nat) {cs : List (PV × PV)} {P : PV} (h : finish k cs = .ok (tagged k.cls P)) :
    wfinish k s cs = .ok (tagged (clsOf k s) P) := by
  simp only [finish] at h
  simp only [wfinish]
  cases hs : sortIf k cs with
  | error e => rw [hs] at h; cases h
  | ok srt =>
    rw [hs] at h
    simp only [Except.ok.injEq] at h
    simp only [(tagged_inj h).2]

/-- an unhashable root-level subclass instance over core children: its key is the core key of the base value with the tag
    replaced by the instance's class -/
theorem wkey_root_unhashable {k : Kind} {s : Option Nat} {xs : List WV} (hp : WV.plainL xs = true)
    (hu : hashable (.node k (WV.baseL xs)) = false) (r : PV) :
    wkey true (.node k s xs) = .ok r ↔
      ∃ P, key true (.node k (WV.baseL xs)) = .ok (tagged k.cls P) ∧ r = tagged (clsOf k s) P := by
  rw [wkey_root true k s xs hp, key_node_eq]
  simp only [hu, Bool.false_and, Bool.false_eq_true, if_false]
  cases hc : mapE (conv1 true k.mode) (WV.baseL xs) with
  | error e => simp
  | ok cs =>
    simp only
    constructor
    · intro h
      exact wfinish_ok h
    · rintro ⟨P, h1, h2⟩
      rw [h2]
      exact finish_wfinish s h1

theorem clsOf_eq {k k' : Kind} {s s' : Option Nat} (hk : k.mode ≠ .leaf) (hk' : k'.mode ≠ .leaf)
    (subBase : Nat → Cls) (hb : ∀ n, s = some n → k.cls = subBase n) (hb' : ∀ n, s' = some n → k'.cls = subBase n)
    (h : clsOf k s = clsOf k' s') : s = s' ∧ k.cls = k'.cls := by
  cases s with
  | none =>
    cases s' with
    | none => exact ⟨rfl, h⟩
    | some n' =>
      exfalso
      simp only [clsOf] at h
      cases k <;> simp [Kind.cls, Kind.mode] at h hk
  | some n =>
    cases s' with
    | none =>
      exfalso
      simp only [clsOf] at h
      cases k' <;> simp [Kind.cls, Kind.mode] at h hk'
    | some n' =>
      simp only [clsOf, Cls.other.injEq] at h
      subst h
      exact ⟨rfl, (hb n rfl).trans (hb' n rfl).symm⟩

end PF.Hashable
