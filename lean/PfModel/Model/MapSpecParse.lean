/-
Model of `MapSpec.from_string` (`pipefunc/map/_mapspec.py:252-264, 295-314`): the split at `->`, the regular
expression `(\w+(?:\.\w+)?\w*)\[(.+?)\]` of `_parse_indexed_arrays` as an explicit left-to-right scanner
(`re.findall`), and `_parse_index_string`.  ASCII only.
-/
import PfModel.Model.MapSpec
namespace PF.MS

/-- ASCII characters removed by Python's `str.strip()` -/
def isSpace (c : Char) : Bool :=
  c == ' ' || c == '\t' || c == '\n' || c == '\r' || c == '\x0b' || c == '\x0c' ||
  c == '\x1c' || c == '\x1d' || c == '\x1e' || c == '\x1f'

def span (p : Char → Bool) : List Char → List Char × List Char
  | [] => ([], [])
  | c :: cs => if p c then let (a, b) := span p cs; (c :: a, b) else ([], c :: cs)

/-- `\w+(?:\.\w+)?\w*\[` at the head of the text; returns (name, rest after `[`).  For a fixed start there is only
    one place where `[` can follow (after the maximal word run, or after word-run `.` word-run). -/
def matchName (xs : List Char) : Option (List Char × List Char) :=
  match span isWord xs with
  | ([], _) => none
  | (w1, '[' :: r) => some (w1, r)
  | (w1, '.' :: r) =>
      match span isWord r with
      | ([], _) => none
      | (w2, '[' :: r2) => some (w1 ++ '.' :: w2, r2)
      | _ => none
  | _ => none

/-- scan up to the first `]`; `.` does not match a newline -/
def scanIdx (acc : List Char) : List Char → Option (List Char × List Char)
  | [] => none
  | d :: r => if d == ']' then some (acc.reverse, r) else if d == '\n' then none else scanIdx (d :: acc) r

/-- `(.+?)\]`: at least one non-newline character, then the first `]` after it -/
def matchIdx : List Char → Option (List Char × List Char)
  | [] => none
  | c :: cs => if c == '\n' then none else scanIdx [c] cs

/-- `s.split(",")` -/
def splitComma (cur : List Char) : List Char → List (List Char)
  | [] => [cur.reverse]
  | c :: r => if c == ',' then cur.reverse :: splitComma [] r else splitComma (c :: cur) r

def lstrip (xs : List Char) : List Char := xs.dropWhile isSpace
/-- `str.strip()` -/
def strip (xs : List Char) : List Char := (lstrip (lstrip xs).reverse).reverse

/-- `_parse_index_string` (`_mapspec.py:295-297`) -/
def parseIdx (s : List Char) : List (Option String) :=
  (splitComma [] s).map fun t => let t := strip t; if t = [':'] then none else some (String.ofList t)

/-- `re.findall(array_pattern, expr)` mapped to `ArraySpec`s (before their validation).  Every step consumes one
    unit of fuel and at least one character; `findAll xs.length xs` is the whole scan (`findAll_fuel`). -/
def findAll : Nat → List Char → List ArraySpec
  | 0, _ => []
  | _, [] => []
  | fuel+1, c :: cs =>
    match matchName (c :: cs) with
    | some (name, r) =>
      match matchIdx r with
      | some (idx, r') => ⟨String.ofList name, parseIdx idx⟩ :: findAll fuel r'
      | none => findAll fuel cs
    | none => findAll fuel cs

/-- `_parse_indexed_arrays` (`_mapspec.py:300-314`) -/
def parseSide (xs : List Char) : Except Err (List ArraySpec) :=
  if strip xs = ['.', '.', '.'] then .ok []
  else if !(xs.contains '[' && xs.contains ']') then .error .valueError
  else
    let specs := findAll xs.length xs
    if specs.all arrayOK then .ok specs else .error .valueError

/-- `expr.split("->")` -/
def splitArrow (cur : List Char) : List Char → List (List Char)
  | [] => [cur.reverse]
  | '-' :: '>' :: r => cur.reverse :: splitArrow [] r
  | c :: r => splitArrow (c :: cur) r

/-- `MapSpec.from_string` (`_mapspec.py:252-264`) on characters -/
def parseChars (xs : List Char) : Except Err MapSpec :=
  match splitArrow [] xs with
  | [a, b] =>
    match parseSide a with
    | .error e => .error e
    | .ok ins =>
      match parseSide b with
      | .error e => .error e
      | .ok outs =>
        match postInit ⟨ins, outs⟩ with
        | .error e => .error e
        | .ok () => .ok ⟨ins, outs⟩
  | _ => .error .valueError

def parse (s : String) : Except Err MapSpec := parseChars s.toList

/-- the same with the pinned (pre-DF-10) `__post_init__`; used by no property theorem -/
def parseLegacy (s : String) : Except Err MapSpec :=
  match splitArrow [] s.toList with
  | [a, b] =>
    match parseSide a with
    | .error e => .error e
    | .ok ins =>
      match parseSide b with
      | .error e => .error e
      | .ok outs =>
        match postInitLegacy ⟨ins, outs⟩ with
        | .error e => .error e
        | .ok () => .ok ⟨ins, outs⟩
  | _ => .error .valueError

end PF.MS
