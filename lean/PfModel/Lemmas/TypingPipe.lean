import PfModel.Model.TypingPipe
/-!
Lemmas for the edge-visiting loop of C16 (`Model/TypingPipe.lean`): dictionaries, the exact set of visited triples, and
"each triple at most once".
-/
namespace PF.Typing

def keys {β} (d : List (String × β)) : List String := d.map Prod.fst

/-! ### `dinsert` / `mkDict` -/

theorem keys_dinsert {β} (k : String) (v : β) (d : List (String × β)) :
    ∀ x, x ∈ keys (dinsert k v d) ↔ x = k ∨ x ∈ keys d := by
  induction d with
  | nil => intro x; simp [dinsert, keys]
  | cons kv r ih =>
    intro x
    obtain ⟨k', v'⟩ := kv
    simp only [dinsert]
    split
    · rename_i h; subst h; simp [keys]
    · have := ih x
      simp only [keys, List.map_cons, List.mem_cons] at this ⊢
      rw [this]
      constructor
      · rintro (h | h | h) <;> simp [h]
      · rintro (h | h | h) <;> simp [h]

theorem dinsert_of_not_mem {β} (k : String) (v : β) (d : List (String × β)) (h : k ∉ keys d) :
    dinsert k v d = d ++ [(k, v)] := by
  induction d with
  | nil => rfl
  | cons kv r ih =>
    obtain ⟨k', v'⟩ := kv
    simp only [keys, List.map_cons, List.mem_cons, not_or] at h
    simp only [dinsert]
    rw [if_neg (fun e => h.1 e.symm), ih (by simpa [keys] using h.2)]
    rfl

theorem mem_dinsert {β} {k : String} {v : β} {d : List (String × β)} {x : String × β} :
    x ∈ dinsert k v d → x = (k, v) ∨ x ∈ d := by
  induction d with
  | nil => simp [dinsert]
  | cons kv r ih =>
    obtain ⟨k', v'⟩ := kv
    simp only [dinsert]
    split
    · rename_i h; subst h
      simp only [List.mem_cons]
      rintro (h | h)
      · exact Or.inl h
      · exact Or.inr (Or.inr h)
    · simp only [List.mem_cons]
      rintro (h | h)
      · exact Or.inr (Or.inl h)
      · rcases ih h with h | h
        · exact Or.inl h
        · exact Or.inr (Or.inr h)

theorem nodup_keys_dinsert {β} (k : String) (v : β) (d : List (String × β)) (h : (keys d).Nodup) :
    (keys (dinsert k v d)).Nodup := by
  induction d with
  | nil => simp [dinsert, keys]
  | cons kv r ih =>
    obtain ⟨k', v'⟩ := kv
    simp only [keys, List.map_cons, List.nodup_cons] at h
    simp only [dinsert]
    split
    · simpa [keys] using h
    · rename_i hne
      simp only [keys, List.map_cons, List.nodup_cons]
      refine ⟨?_, ih h.2⟩
      intro hm
      rcases (keys_dinsert k v r k').mp hm with e | e
      · exact hne e
      · exact h.1 e

theorem foldl_dinsert_nodup {β} (l : List (String × β)) :
    ∀ d : List (String × β), (keys d).Nodup → (keys (l.foldl (fun d kv => dinsert kv.1 kv.2 d) d)).Nodup := by
  induction l with
  | nil => intro d h; exact h
  | cons kv r ih => intro d h; exact ih _ (nodup_keys_dinsert _ _ _ h)

/-- a dict has every key once -/
theorem nodup_keys_mkDict {β} (l : List (String × β)) : (keys (mkDict l)).Nodup :=
  foldl_dinsert_nodup l [] (by simp [keys])

theorem foldl_dinsert_mem {β} (l : List (String × β)) :
    ∀ (d : List (String × β)) x, x ∈ l.foldl (fun d kv => dinsert kv.1 kv.2 d) d → x ∈ d ∨ x ∈ l := by
  induction l with
  | nil => intro d x h; exact Or.inl h
  | cons kv r ih =>
    intro d x h
    rcases ih _ x h with h | h
    · rcases mem_dinsert h with e | e
      · exact Or.inr (by simp [e])
      · exact Or.inl e
    · exact Or.inr (List.mem_cons_of_mem _ h)

/-- every item of a dict is one of the pairs it was built from -/
theorem mem_mkDict {β} {l : List (String × β)} {x : String × β} (h : x ∈ mkDict l) : x ∈ l := by
  rcases foldl_dinsert_mem l [] x h with h | h
  · cases h
  · exact h

theorem foldl_dinsert_keys {β} (l : List (String × β)) :
    ∀ (d : List (String × β)) x, x ∈ keys (l.foldl (fun d kv => dinsert kv.1 kv.2 d) d) ↔ x ∈ keys d ∨ x ∈ keys l := by
  induction l with
  | nil => intro d x; simp [keys]
  | cons kv r ih =>
    intro d x
    rw [List.foldl_cons, ih, keys_dinsert]
    simp only [keys, List.map_cons, List.mem_cons]
    constructor
    · rintro ((h | h) | h) <;> simp [h]
    · rintro (h | h | h) <;> simp [h]

/-- the keys of a dict are the keys of the pairs -/
theorem keys_mkDict {β} (l : List (String × β)) (x : String) : x ∈ keys (mkDict l) ↔ x ∈ keys l := by
  unfold mkDict; rw [foldl_dinsert_keys]; simp [keys]

theorem foldl_dinsert_of_nodup {β} (l : List (String × β)) :
    ∀ d : List (String × β), (keys (d ++ l)).Nodup → l.foldl (fun d kv => dinsert kv.1 kv.2 d) d = d ++ l := by
  induction l with
  | nil => intro d _; simp
  | cons kv r ih =>
    intro d h
    have hk : kv.1 ∉ keys d := by
      intro hm
      simp only [keys, List.map_append, List.map_cons] at h hm
      have := (List.nodup_append.mp h).2.2 _ hm kv.1 (by simp)
      exact this rfl
    rw [List.foldl_cons, dinsert_of_not_mem _ _ _ hk, ih _ (by simpa using h)]
    simp

/-- pairs with distinct keys are a dict already -/
theorem mkDict_of_nodup {β} (l : List (String × β)) (h : (keys l).Nodup) : mkDict l = l := by
  unfold mkDict; rw [foldl_dinsert_of_nodup l [] (by simpa using h)]; simp

/-! ### `alookup` on lists with unique keys -/

theorem alookup_some_mem {β} {k : String} {v : β} {d : List (String × β)} (h : alookup k d = some v) : (k, v) ∈ d := by
  induction d with
  | nil => simp [alookup] at h
  | cons kv r ih =>
    obtain ⟨k', v'⟩ := kv
    simp only [alookup] at h
    split at h
    · rename_i e; subst e; simp at h; subst h; simp
    · exact List.mem_cons_of_mem _ (ih h)

theorem alookup_of_mem_nodup {β} {k : String} {v : β} {d : List (String × β)} (hn : (keys d).Nodup) (h : (k, v) ∈ d) :
    alookup k d = some v := by
  induction d with
  | nil => cases h
  | cons kv r ih =>
    obtain ⟨k', v'⟩ := kv
    simp only [keys, List.map_cons, List.nodup_cons] at hn
    simp only [alookup]
    rcases List.mem_cons.mp h with e | e
    · cases e; simp
    · split
      · rename_i e'; subst e'
        exact absurd (List.mem_map.mpr ⟨(k', v), e, rfl⟩) hn.1
      · exact ih hn.2 e

theorem alookup_none_iff {β} {k : String} {d : List (String × β)} : alookup k d = none ↔ k ∉ keys d := by
  induction d with
  | nil => simp [alookup, keys]
  | cons kv r ih =>
    obtain ⟨k', v'⟩ := kv
    simp only [alookup, keys, List.map_cons, List.mem_cons, not_or]
    split
    · rename_i e; subst e; simp
    · rename_i e
      rw [ih]
      exact ⟨fun h => ⟨fun e' => e e'.symm, h⟩, fun h => h.2⟩

/-! ### the visited triples -/

/-- the loop compares `node = fs[i]`, `dep = fs[j]`, `parameter_name = p` with annotations `o` and `t`:
    `dep` is another function that takes an unbound parameter from `node`, `p` is annotated in `dep` (after renames), is an
    output of `node` with an annotation entry, and is not bound in `dep` -/
structure Visited (fs : List Func) (c : CEdge) : Prop where
  ex : ∃ f g, fs[c.prod]? = some f ∧ fs[c.cons]? = some g ∧ c.cons ≠ c.prod ∧ feeds f g = true ∧
        (c.param, c.inp) ∈ paramAnnotations g ∧ alookup c.param (outputAnnotation f) = some c.out ∧
        g.bound.contains c.param = false ∧ c.pm = f.mapspec ∧ c.cm = g.mapspec

theorem mem_visitParams {i j : Nat} {f g : Func} {c : CEdge} :
    c ∈ visitParams i j f g ↔
      c.prod = i ∧ c.cons = j ∧ (c.param, c.inp) ∈ paramAnnotations g ∧ alookup c.param (outputAnnotation f) = some c.out ∧
      g.bound.contains c.param = false ∧ c.pm = f.mapspec ∧ c.cm = g.mapspec := by
  unfold visitParams
  simp only [List.mem_filterMap]
  constructor
  · rintro ⟨⟨p, t⟩, hm, h⟩
    simp only at h
    split at h
    · cases h
    · rename_i o ho
      split at h
      · cases h
      · rename_i hb
        simp only [Option.some.injEq] at h
        subst h
        exact ⟨rfl, rfl, hm, ho, by simpa using hb, rfl, rfl⟩
  · rintro ⟨h1, h2, hm, ho, hb, h3, h4⟩
    refine ⟨(c.param, c.inp), hm, ?_⟩
    simp only [ho, hb]
    obtain ⟨a, b, p, o, t, pm, cm⟩ := c
    simp_all

theorem mem_visitNode {fs : List Func} {i : Nat} {f : Func} {c : CEdge} :
    c ∈ visitNode fs i f ↔
      ∃ g, fs[c.cons]? = some g ∧ c.cons ≠ i ∧ feeds f g = true ∧ c ∈ visitParams i c.cons f g := by
  unfold visitNode
  simp only [List.mem_flatMap, List.mem_filter, List.mem_range]
  constructor
  · rintro ⟨j, ⟨hj, hc⟩, h⟩
    cases hg : fs[j]? with
    | none => simp [hg] at h
    | some g =>
      simp only [hg] at h hc
      have hj' : c.cons = j := (mem_visitParams.mp h).2.1
      subst hj'
      simp only [Bool.and_eq_true, bne_iff_ne, ne_eq] at hc
      exact ⟨g, hg, hc.1, hc.2, h⟩
  · rintro ⟨g, hg, hne, hf, h⟩
    refine ⟨c.cons, ⟨?_, ?_⟩, ?_⟩
    · have := List.getElem?_eq_some_iff.mp hg
      exact this.1
    · simp [hg, hf, hne]
    · simpa [hg] using h

/-- `visit` enumerates exactly the triples described by `Visited` -/
theorem mem_visit {fs : List Func} {c : CEdge} : c ∈ visit fs ↔ Visited fs c := by
  unfold visit
  simp only [List.mem_flatMap, List.mem_range]
  constructor
  · rintro ⟨i, hi, h⟩
    cases hf : fs[i]? with
    | none => simp [hf] at h
    | some f =>
      simp only [hf] at h
      obtain ⟨g, hg, hne, hfd, hp⟩ := mem_visitNode.mp h
      obtain ⟨h1, _, hm, ho, hb, h3, h4⟩ := mem_visitParams.mp hp
      subst h1
      exact ⟨f, g, hf, hg, hne, hfd, hm, ho, hb, h3, h4⟩
  · rintro ⟨f, g, hf, hg, hne, hfd, hm, ho, hb, h3, h4⟩
    refine ⟨c.prod, (List.getElem?_eq_some_iff.mp hf).1, ?_⟩
    simp only [hf]
    exact mem_visitNode.mpr ⟨g, hg, hne, hfd, mem_visitParams.mpr ⟨rfl, rfl, hm, ho, hb, h3, h4⟩⟩

/-! ### each triple at most once -/

def CEdge.key (c : CEdge) : Nat × Nat × String := (c.prod, c.cons, c.param)

theorem visitParams_pairwise (i j : Nat) (f g : Func) :
    (visitParams i j f g).Pairwise (fun a b => a.key ≠ b.key) := by
  unfold visitParams
  rw [List.pairwise_filterMap]
  have hn := nodup_keys_mkDict (g.phints.map (fun kv => (renamed g.renames kv.1, kv.2)))
  unfold keys at hn
  rw [List.nodup_iff_pairwise_ne, List.pairwise_map] at hn
  refine hn.imp ?_
  intro a b hab c hc d hd
  split at hc
  · cases hc
  · split at hc
    · cases hc
    · split at hd
      · cases hd
      · split at hd
        · cases hd
        · simp only [Option.some.injEq] at hc hd
          subst hc hd
          simp only [CEdge.key, ne_eq, Prod.mk.injEq, true_and]
          exact hab

theorem visitNode_pairwise (fs : List Func) (i : Nat) (f : Func) :
    (visitNode fs i f).Pairwise (fun a b => a.key ≠ b.key) := by
  unfold visitNode
  rw [List.pairwise_flatMap]
  constructor
  · intro j _
    cases fs[j]? with
    | none => simp
    | some g => exact visitParams_pairwise i j f g
  · refine (List.Pairwise.filter _ List.nodup_range).imp ?_
    intro j k hjk a ha b hb
    cases hg : fs[j]? with
    | none => simp [hg] at ha
    | some g =>
      cases hg' : fs[k]? with
      | none => simp [hg'] at hb
      | some g' =>
        simp only [hg] at ha
        simp only [hg'] at hb
        have h1 := (mem_visitParams.mp ha).2.1
        have h2 := (mem_visitParams.mp hb).2.1
        intro e
        simp only [CEdge.key, Prod.mk.injEq] at e
        exact hjk (by rw [← h1, ← h2, e.2.1])

/-- no (producer, consumer, parameter) triple is compared twice -/
theorem visit_pairwise (fs : List Func) : (visit fs).Pairwise (fun a b => a.key ≠ b.key) := by
  unfold visit
  rw [List.pairwise_flatMap]
  constructor
  · intro i _
    cases fs[i]? with
    | none => simp
    | some f => exact visitNode_pairwise fs i f
  · refine List.nodup_range.imp ?_
    intro i k hik a ha b hb
    cases hf : fs[i]? with
    | none => simp [hf] at ha
    | some f =>
      cases hf' : fs[k]? with
      | none => simp [hf'] at hb
      | some f' =>
        simp only [hf] at ha
        simp only [hf'] at hb
        obtain ⟨_, _, _, _, h1⟩ := mem_visitNode.mp ha
        obtain ⟨_, _, _, _, h2⟩ := mem_visitNode.mp hb
        have e1 := (mem_visitParams.mp h1).1
        have e2 := (mem_visitParams.mp h2).1
        intro e
        simp only [CEdge.key, Prod.mk.injEq] at e
        exact hik (by rw [← e1, ← e2, e.1])

theorem visit_keys_nodup (fs : List Func) : ((visit fs).map CEdge.key).Nodup := by
  rw [List.nodup_iff_pairwise_ne, List.pairwise_map]
  exact visit_pairwise fs

/-! ### edges of the pipeline -/

/-- `p` is an edge of the pipeline from `fs[i] = f` to `fs[j] = g`: an output of `f` that `g` takes as an unbound parameter -/
structure Wired (fs : List Func) (i j : Nat) (p : String) (f g : Func) : Prop where
  hf : fs[i]? = some f
  hg : fs[j]? = some g
  ne : j ≠ i
  out : p ∈ f.outs
  par : p ∈ g.params
  unbound : g.bound.contains p = false

/-- the annotated names of the callable are parameters of the `PipeFunc` (true of functions, methods, classes, dataclasses and
    pydantic models; a `NestedPipeFunc` has the single hint `kwargs: Any`, which is not a parameter) -/
def hintsAreParams (g : Func) : Prop := ∀ k ∈ keys g.phints, renamed g.renames k ∈ g.params

theorem keys_outputAnnotation {f : Func} {x : String} (h : x ∈ keys (outputAnnotation f)) : x ∈ f.outs := by
  have hm : ∀ (h : String → Hint), x ∈ keys (mkDict (f.outs.map (fun n => (n, h n)))) → x ∈ f.outs := by
    intro h hx
    rw [keys_mkDict] at hx
    simpa [keys] using hx
  unfold outputAnnotation at h
  split at h
  · exact hm _ h
  · exact hm _ h
  · exact hm _ h
  · exact hm _ h
  · split at h <;> exact hm _ h
  · split at h
    · rw [keys_mkDict] at h
      simp only [keys, List.map_map, List.mem_map, Function.comp] at h
      obtain ⟨⟨a, b⟩, hab, rfl⟩ := h
      exact (List.of_mem_zip hab).1
    · exact hm _ h
    · exact hm _ h

theorem pairwise_key_unique {l : List CEdge} (h : l.Pairwise (fun a b => a.key ≠ b.key)) :
    ∀ a ∈ l, ∀ b ∈ l, a.key = b.key → a = b := by
  induction h with
  | nil => intro a ha; cases ha
  | cons hx _ ih =>
    intro a ha b hb e
    rcases List.mem_cons.mp ha with rfl | ha' <;> rcases List.mem_cons.mp hb with rfl | hb'
    · rfl
    · exact absurd e (hx _ hb')
    · exact absurd e.symm (hx _ ha')
    · exact ih a ha' b hb' e

theorem zip_fst_sublist {α β} : ∀ (l : List α) (m : List β), List.Sublist ((l.zip m).map Prod.fst) l
  | [], _ => by simp
  | _ :: _, [] => by simp
  | a :: l, b :: m => by simpa using (zip_fst_sublist l m).cons_cons a


end PF.Typing
