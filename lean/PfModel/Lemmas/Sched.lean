import PfModel.Model.Sched
import PfModel.Lemmas.MapRun
/-! Helper lemmas for `Props/C03.lean`: a body reads only earlier generations, closed form of a run of bodies. -/
namespace PF.Sched
open PF PF.Map

/-- `planOf` is the case analysis of `runFuncWith` -/
theorem runFuncWith_plan (arr : MFunc → List Nat → List Bool → (Nat → List (String × Val)) → String → Val)
    (fs : List MFunc) (shapes : List (String × List Nat)) (masks : List (String × List Bool)) (env : Env) (f : MFunc) :
    runFuncWith arr fs shapes masks env f =
      match planOf shapes masks f with
      | .mapped ms sh mk => runMappedWith arr fs env f ms sh mk
      | .single => runSingle fs env f
      | .bad e => throw e := by
  unfold runFuncWith planOf
  cases hm : f.mapspec with
  | none => rfl
  | some ms =>
    simp only []
    by_cases he : ms.inputs.isEmpty = true
    · simp only [he, ↓reduceIte]
    · simp only [he]
      cases ho : f.outputs.head? with
      | none => rfl
      | some o =>
        simp only []
        cases hs : alookup shapes o with
        | none => rfl
        | some sh =>
          cases hk : alookup masks o with
          | none => rfl
          | some mk =>
            simp only []
            by_cases hl : sh.length = mk.length
            · simp [hl]
            · simp [hl]

theorem klookup_append {κ β} [DecidableEq κ] (l1 l2 : List (κ × β)) (x : κ) :
    klookup (l1 ++ l2) x = match klookup l1 x with | some v => some v | none => klookup l2 x := by
  induction l1 with
  | nil => simp [klookup]
  | cons e es ih => obtain ⟨k, v⟩ := e; simp only [List.cons_append, klookup]; split <;> simp_all

/-- look-up in a graph `[(a, g a) | a ∈ l]` -/
theorem klookup_graph {κ β} [DecidableEq κ] (l : List κ) (g : κ → β) (x : κ) :
    klookup (l.map fun a => (a, g a)) x = if x ∈ l then some (g x) else none := by
  induction l with
  | nil => simp [klookup]
  | cons a as ih =>
    simp only [List.map_cons, klookup, List.mem_cons]
    by_cases h : a = x
    · subst h; simp
    · have h' : ¬ x = a := fun e => h e.symm
      simp [h, h', ih]

/-- if some entry has key `c` and every entry with key `c` carries `v`, the look-up returns `v` -/
theorem klookup_all {κ β} [DecidableEq κ] (l : List (κ × β)) (c : κ) (v : β)
    (hex : ∃ w, (c, w) ∈ l) (hall : ∀ w, (c, w) ∈ l → w = v) : klookup l c = some v := by
  induction l with
  | nil => obtain ⟨w, hw⟩ := hex; simp at hw
  | cons e es ih =>
    obtain ⟨k, u⟩ := e
    simp only [klookup]
    by_cases h : k = c
    · subst h; simp [hall u (by simp)]
    · simp only [h, ↓reduceIte]
      apply ih
      · obtain ⟨w, hw⟩ := hex
        rcases List.mem_cons.mp hw with e | e
        · cases e; exact absurd rfl h
        · exact ⟨w, e⟩
      · intro w hw; exact hall w (List.mem_cons_of_mem _ hw)

theorem mapM_congr' {α β} (g h : α → M β) : ∀ (l : List α), (∀ x ∈ l, g x = h x) → l.mapM g = l.mapM h := by
  intro l
  induction l with
  | nil => intro _; rfl
  | cons a as ih =>
    intro hh
    rw [List.mapM_cons, List.mapM_cons, hh a List.mem_cons_self, ih (fun x hx => hh x (List.mem_cons_of_mem _ hx))]

/-- the partial arrays of the running generation are named by outputs of that generation -/
theorem partialSlots_keys (shapes : List (String × List Nat)) (masks : List (String × List Bool)) (gen : List MFunc) (D : Dumps)
    (p : String) (hp : p ∈ akeys (partialSlots shapes masks gen D)) : ∃ h ∈ gen, p ∈ h.outputs := by
  unfold partialSlots akeys at hp
  simp only [List.mem_map, List.mem_flatMap, List.mem_filterMap] at hp
  obtain ⟨⟨k, s⟩, ⟨h, hh, o, ho, hs⟩, rfl⟩ := hp
  refine ⟨h, hh, ?_⟩
  split at hs
  · simp only [Option.some.injEq, Prod.mk.injEq] at hs; rw [← hs.1]; exact ho
  · cases hs

/-- **a body reads only earlier generations** (parameter level) -/
theorem argWhole_view (fs : List MFunc) (shapes : List (String × List Nat)) (masks : List (String × List Bool)) (env : Env)
    (gen : List MFunc) (D : Dumps) (f : MFunc) (p : String)
    (h : alookup f.bound p = none → ∀ h ∈ gen, p ∉ h.outputs) :
    argWhole fs (viewEnv shapes masks env gen D) f p = argWhole fs env f p := by
  unfold argWhole
  cases hb : alookup f.bound p with
  | some v => rfl
  | none =>
    have hk : alookup (partialSlots shapes masks gen D) p = none := by
      rw [alookup_none_iff]
      intro hm
      obtain ⟨g, hg, hpo⟩ := partialSlots_keys shapes masks gen D p hm
      exact h hb g hg hpo
    simp only [viewEnv, alookup_append, hk]
    cases alookup env.inputs p <;> cases alookup env.store p <;> rfl

/-- **a body reads only earlier generations**: what a body computes does not depend on what the workers of its own
    generation have dumped so far -/
theorem bodyRun_view (fs : List MFunc) (shapes : List (String × List Nat)) (masks : List (String × List Bool)) (env : Env)
    (gen : List MFunc) (D : Dumps) (f : MFunc) (hf : f ∈ gen) (hind : GenIndep gen) (plan : Plan) (k : Nat) :
    bodyRun fs (viewEnv shapes masks env gen D) f plan k = bodyRun fs env f plan k := by
  have key : ∀ q ∈ f.params, argWhole fs (viewEnv shapes masks env gen D) f q.1 = argWhole fs env f q.1 := by
    intro q hq
    apply argWhole_view
    intro hb h hh
    exact hind f hf h hh q.1 (List.mem_map.mpr ⟨q, hq, rfl⟩) hb
  cases plan with
  | mapped ms sh mk =>
    simp only [bodyRun, selectArgs]
    apply mapM_congr'
    intro q hq
    obtain ⟨p, orig⟩ := q
    simp only [key (p, orig) hq]
  | single =>
    simp only [bodyRun]
    apply mapM_congr'
    intro q hq
    obtain ⟨p, orig⟩ := q
    simp only [key (p, orig) hq]
  | bad e => rfl


/-! ### closed form of a run of bodies -/

def validId (pg : List (MFunc × Plan)) (id : TaskId) : Prop :=
  ∃ fp, pg[id.1]? = some fp ∧ id.2 < nFut fp.2

/-- what the future `id` resolves to, computed from the store of the earlier generations alone -/
def resOf (fs : List MFunc) (env : Env) (pg : List (MFunc × Plan)) (id : TaskId) : M Args :=
  match pg[id.1]? with
  | some (f, plan) => bodyRun fs env f plan id.2
  | none => throw .fuel

def wdOf (dumpSub : String → Bool) (fs : List MFunc) (env : Env) (pg : List (MFunc × Plan)) (id : TaskId) : Dumps :=
  match pg[id.1]? with
  | some (f, plan) => workerDumps dumpSub f plan id.2 (bodyRun fs env f plan id.2)
  | none => []

theorem runBodies_closed (fs : List MFunc) (shapes : List (String × List Nat)) (masks : List (String × List Bool))
    (dumpSub : String → Bool) (env : Env) (gen : List MFunc) (pg : List (MFunc × Plan))
    (hpg : ∀ (j : Nat) (fp : MFunc × Plan), pg[j]? = some fp → fp.1 ∈ gen) (hind : GenIndep gen) :
    ∀ (order : List TaskId) (st : GState), (∀ id ∈ order, validId pg id) →
      runBodies fs shapes masks dumpSub env gen pg order st =
        { dumps := st.dumps ++ order.flatMap (wdOf dumpSub fs env pg),
          futs := st.futs ++ order.map (fun id => (id, resOf fs env pg id)),
          ran := st.ran ++ order } := by
  intro order
  induction order with
  | nil => intro st _; simp [runBodies]
  | cons id rest ih =>
    intro st hv
    obtain ⟨fp, hfp, hlt⟩ := hv id List.mem_cons_self
    obtain ⟨f, plan⟩ := fp
    have hf : f ∈ gen := hpg _ _ hfp
    have hstep : stepBody fs shapes masks dumpSub env gen pg st id =
        { dumps := st.dumps ++ wdOf dumpSub fs env pg id, futs := st.futs ++ [(id, resOf fs env pg id)], ran := st.ran ++ [id] } := by
      simp only [stepBody, hfp, wdOf, resOf]
      simp only at hlt
      simp only [hlt, ↓reduceIte, bodyRun_view fs shapes masks env gen st.dumps f hf hind plan id.2]
    simp only [runBodies, List.foldl_cons] at ih ⊢
    rw [hstep, ih _ (fun x hx => hv x (List.mem_cons_of_mem _ hx))]
    simp [List.append_assoc]


theorem filterMap_some_eq_map {α β} (g : α → Option β) (h : α → β) (l : List α) (e : ∀ x ∈ l, g x = some (h x)) :
    l.filterMap g = l.map h := by
  induction l with
  | nil => rfl
  | cons a as ih =>
    simp only [List.filterMap_cons, e a List.mem_cons_self, List.map_cons]
    rw [ih (fun x hx => e x (List.mem_cons_of_mem _ hx))]

/-- positions of a generation's functions are determined by any of their output names -/
def PosDisjoint (pg : List (MFunc × Plan)) : Prop :=
  ∀ (j j' : Nat) (fp fp' : MFunc × Plan), pg[j]? = some fp → pg[j']? = some fp' →
    ∀ o, o ∈ fp.1.outputs → o ∈ fp'.1.outputs → j = j'

/-- every worker-side dump found in the store after all bodies ran is the element of the task that owns the cell -/
theorem readBack_eq (dumpSub : String → Bool) (fs : List MFunc) (env : Env) (pg : List (MFunc × Plan)) (order : List TaskId)
    (hdis : PosDisjoint pg) (j : Nat) (f : MFunc) (ms : MSpec) (sh : List Nat) (mk : List Bool)
    (hj : pg[j]? = some (f, .mapped ms sh mk))
    (hmem : ∀ k, k < prod (extOf mk sh) → (j, k) ∈ order)
    (argsAt : List Args)
    (hm : (List.range (prod (extOf mk sh))).mapM (fun k => selectArgs fs env f ms (shapeToKey (extOf mk sh) k)) = .ok argsAt)
    (o : String) (ho : o ∈ f.outputs) (hs : dumpSub o = true) :
    readBack (order.flatMap (wdOf dumpSub fs env pg)) o (prod (extOf mk sh)) =
      cellsOf f (prod (extOf mk sh)) (fun li => argsAt.getD li []) o := by
  have hlen := mapM_ok_length _ _ _ hm
  simp only [List.length_range] at hlen
  unfold readBack cellsOf
  apply filterMap_some_eq_map
  intro li hli
  have hlt : li < prod (extOf mk sh) := List.mem_range.mp hli
  have hget := mapM_ok_get _ _ _ hm li (by simpa using hlt) (by omega)
  simp only [List.getElem_range] at hget
  have hgd : argsAt.getD li [] = argsAt[li]'(by omega) := by simp [List.getD, List.getElem?_eq_getElem (by omega : li < argsAt.length)]
  have : klookup (order.flatMap (wdOf dumpSub fs env pg)) (o, li) = some (outVal f (argsAt[li]'(by omega)) o) := by
    apply klookup_all
    · refine ⟨outVal f (argsAt[li]'(by omega)) o, List.mem_flatMap.mpr ⟨(j, li), hmem li hlt, ?_⟩⟩
      simp only [wdOf, hj, bodyRun, hget, workerDumps, List.mem_map, List.mem_filter]
      exact ⟨o, ⟨ho, hs⟩, rfl⟩
    · intro w hw
      obtain ⟨id', _, hw'⟩ := List.mem_flatMap.mp hw
      unfold wdOf at hw'
      cases hp : pg[id'.1]? with
      | none => simp [hp] at hw'
      | some fp' =>
        obtain ⟨f', plan'⟩ := fp'
        simp only [hp] at hw'
        cases plan' with
        | single => simp [workerDumps] at hw'
        | bad e => simp [workerDumps] at hw'
        | mapped ms' sh' mk' =>
          cases hb : bodyRun fs env f' (.mapped ms' sh' mk') id'.2 with
          | error e => simp [hb, workerDumps] at hw'
          | ok a' =>
            simp only [hb, workerDumps, List.mem_map, List.mem_filter] at hw'
            obtain ⟨o', ⟨ho', _⟩, he⟩ := hw'
            simp only [Prod.mk.injEq] at he
            obtain ⟨⟨rfl, hk⟩, rfl⟩ := he
            have hjj : j = id'.1 := hdis j id'.1 _ _ hj hp o' ho ho'
            rw [← hjj, hj] at hp
            simp only [Option.some.injEq, Prod.mk.injEq, Plan.mapped.injEq] at hp
            obtain ⟨rfl, rfl, rfl, rfl⟩ := hp
            simp only [bodyRun, hk, hget] at hb
            cases hb
            rfl
  simp only [this, Option.map_some]
  rw [hgd]


theorem await_eq (fs : List MFunc) (env : Env) (pg : List (MFunc × Plan)) (order : List TaskId) (id : TaskId) (h : id ∈ order) :
    await (order.map (fun id => (id, resOf fs env pg id))) id = resOf fs env pg id := by
  unfold await
  rw [klookup_graph order (resOf fs env pg) id]
  simp [h]

/-- the sequential runner on a planned function -/
def seqOf (fs : List MFunc) (env : Env) (f : MFunc) : Plan → M FuncResult
  | .mapped ms sh mk => runMappedWith opArray fs env f ms sh mk
  | .single => runSingle fs env f
  | .bad e => throw e

theorem runFuncWith_seqOf (fs : List MFunc) (shapes : List (String × List Nat)) (masks : List (String × List Bool)) (env : Env) (f : MFunc) :
    runFuncWith opArray fs shapes masks env f = seqOf fs env f (planOf shapes masks f) := by
  rw [runFuncWith_plan]; cases planOf shapes masks f <;> rfl

/-- parent-side processing of one function after all bodies ran gives what the sequential runner computes for it -/
theorem processFunc_eq (dumpSub : String → Bool) (fs : List MFunc) (env : Env) (pg : List (MFunc × Plan)) (order : List TaskId)
    (st : GState) (hfut : st.futs = order.map (fun id => (id, resOf fs env pg id)))
    (hd : st.dumps = order.flatMap (wdOf dumpSub fs env pg)) (hdis : PosDisjoint pg)
    (hmem : ∀ id, validId pg id → id ∈ order) (j : Nat) (f : MFunc) (plan : Plan) (hj : pg[j]? = some (f, plan)) :
    processFunc dumpSub st j f plan = seqOf fs env f plan := by
  cases plan with
  | bad e => rfl
  | single =>
    have hv : validId pg (j, 0) := ⟨_, hj, by simp [nFut]⟩
    simp only [processFunc, seqOf, runSingle, hfut, await_eq fs env pg order _ (hmem _ hv)]
    simp only [resOf, hj, bodyRun]
  | mapped ms sh mk =>
    have hv : ∀ k, k < prod (extOf mk sh) → validId pg (j, k) := fun k hk => ⟨_, hj, by simpa [nFut] using hk⟩
    have hmm : (List.range (prod (extOf mk sh))).mapM (fun k => await st.futs (j, k)) =
        (List.range (prod (extOf mk sh))).mapM (fun li => selectArgs fs env f ms (shapeToKey (extOf mk sh) li)) := by
      apply mapM_congr'
      intro k hk
      have hk' := List.mem_range.mp hk
      rw [hfut, await_eq fs env pg order _ (hmem _ (hv k hk'))]
      simp only [resOf, hj, bodyRun]
    simp only [processFunc, seqOf, runMappedWith, hmm]
    cases hm : (List.range (prod (extOf mk sh))).mapM (fun li => selectArgs fs env f ms (shapeToKey (extOf mk sh) li)) with
    | error e => simp [bind, Except.bind]
    | ok argsAt =>
      simp only [bind, Except.bind, pure, Except.pure]
      congr 2
      apply List.map_congr_left
      intro o ho
      by_cases hs : dumpSub o = true
      · simp only [hs, ↓reduceIte, hd]
        rw [readBack_eq dumpSub fs env pg order hdis j f ms sh mk hj (fun k hk => hmem _ (hv k hk)) argsAt hm o ho hs]
      · simp [hs]


theorem mem_idsFrom : ∀ (pg : List (MFunc × Plan)) (j0 : Nat) (id : TaskId),
    id ∈ idsFrom j0 pg ↔ ∃ fp, j0 ≤ id.1 ∧ pg[id.1 - j0]? = some fp ∧ id.2 < nFut fp.2 := by
  intro pg
  induction pg with
  | nil => intro j0 id; simp [idsFrom]
  | cons fp rest ih =>
    intro j0 id
    obtain ⟨a, b⟩ := id
    simp only [idsFrom, List.mem_append, List.mem_map, List.mem_range, Prod.mk.injEq, ih]
    constructor
    · rintro (⟨k, hk, rfl, rfl⟩ | ⟨fp', hle, hget, hlt⟩)
      · exact ⟨fp, Nat.le_refl _, by simp, hk⟩
      · refine ⟨fp', by omega, ?_, hlt⟩
        have : a - j0 = (a - (j0 + 1)) + 1 := by omega
        rw [this, List.getElem?_cons_succ]; exact hget
    · rintro ⟨fp', hle, hget, hlt⟩
      by_cases he : a = j0
      · subst he
        simp only [Nat.sub_self, List.getElem?_cons_zero, Option.some.injEq] at hget
        subst hget
        exact Or.inl ⟨b, hlt, rfl, rfl⟩
      · right
        refine ⟨fp', by omega, ?_, hlt⟩
        have : a - j0 = (a - (j0 + 1)) + 1 := by omega
        rw [this, List.getElem?_cons_succ] at hget; exact hget

theorem mem_ids_iff_valid (pg : List (MFunc × Plan)) (id : TaskId) : id ∈ idsFrom 0 pg ↔ validId pg id := by
  rw [mem_idsFrom]; simp [validId]

theorem processGen_eq (dumpSub : String → Bool) (fs : List MFunc) (shapes : List (String × List Nat)) (masks : List (String × List Bool))
    (env : Env) (pg : List (MFunc × Plan)) (order : List TaskId)
    (st : GState) (hfut : st.futs = order.map (fun id => (id, resOf fs env pg id)))
    (hd : st.dumps = order.flatMap (wdOf dumpSub fs env pg)) (hdis : PosDisjoint pg)
    (hmem : ∀ id, validId pg id → id ∈ order) :
    ∀ (rest : List MFunc) (j0 : Nat), (∀ i, pg[j0 + i]? = (planned shapes masks rest)[i]?) →
      processGen dumpSub st j0 (planned shapes masks rest) = runGenWith (runFuncWith opArray fs shapes masks) env rest := by
  intro rest
  induction rest with
  | nil => intro j0 _; rfl
  | cons f rest ih =>
    intro j0 hs
    have h0 : pg[j0]? = some (f, planOf shapes masks f) := by simpa [planned] using hs 0
    have ht : ∀ i, pg[j0 + 1 + i]? = (planned shapes masks rest)[i]? := by
      intro i
      have := hs (i + 1)
      simp only [planned, List.map_cons, List.getElem?_cons_succ] at this ⊢
      rw [← this]; congr 1; omega
    simp only [planned, List.map_cons, processGen, runGenWith]
    rw [processFunc_eq dumpSub fs env pg order st hfut hd hdis hmem j0 f _ h0, ← runFuncWith_seqOf]
    have := ih (j0 + 1) ht
    simp only [planned] at this
    rw [this]

theorem posDisjoint_of_pairwise (shapes : List (String × List Nat)) (masks : List (String × List Bool)) (gen : List MFunc)
    (h : gen.Pairwise fun a b => ∀ o, o ∈ a.outputs → o ∉ b.outputs) : PosDisjoint (planned shapes masks gen) := by
  intro j j' fp fp' hj hj' o ho ho'
  simp only [planned, List.getElem?_map, Option.map_eq_some_iff] at hj hj'
  obtain ⟨f, hf, rfl⟩ := hj
  obtain ⟨f', hf', rfl⟩ := hj'
  obtain ⟨hjl, rfl⟩ := List.getElem?_eq_some_iff.mp hf
  obtain ⟨hjl', rfl⟩ := List.getElem?_eq_some_iff.mp hf'
  rw [List.pairwise_iff_getElem] at h
  rcases Nat.lt_trichotomy j j' with hlt | heq | hgt
  · exact absurd ho' (h j j' hjl hjl' hlt o ho)
  · exact heq
  · exact absurd ho (h j' j hjl' hjl hgt o ho')

/-- **one generation, any schedule**: the results are those of the sequential runner -/
theorem runGenSched_results (fs : List MFunc) (shapes : List (String × List Nat)) (masks : List (String × List Bool))
    (dumpSub : String → Bool) (env : Env) (gen : List MFunc) (order : List TaskId)
    (hperm : order.Perm (idsFrom 0 (planned shapes masks gen)))
    (hind : GenIndep gen) (hdis : gen.Pairwise fun a b => ∀ o, o ∈ a.outputs → o ∉ b.outputs) :
    (runGenSched fs shapes masks dumpSub env gen order).map (·.1) = runGenWith (runFuncWith opArray fs shapes masks) env gen := by
  have hpg : ∀ (j : Nat) (fp : MFunc × Plan), (planned shapes masks gen)[j]? = some fp → fp.1 ∈ gen := by
    intro j fp h
    simp only [planned, List.getElem?_map, Option.map_eq_some_iff] at h
    obtain ⟨f, hf, rfl⟩ := h
    exact List.mem_of_getElem? hf
  have hval : ∀ id ∈ order, validId (planned shapes masks gen) id := fun id h =>
    (mem_ids_iff_valid _ id).mp (hperm.mem_iff.mp h)
  have hmem : ∀ id, validId (planned shapes masks gen) id → id ∈ order := fun id h =>
    hperm.mem_iff.mpr ((mem_ids_iff_valid _ id).mpr h)
  have hcl := runBodies_closed fs shapes masks dumpSub env gen (planned shapes masks gen) hpg hind order {} hval
  have hpe := processGen_eq dumpSub fs shapes masks env (planned shapes masks gen) order
    (runBodies fs shapes masks dumpSub env gen (planned shapes masks gen) order {})
    (by rw [hcl]; simp) (by rw [hcl]; simp) (posDisjoint_of_pairwise shapes masks gen hdis) hmem gen 0 (by intro i; simp)
  unfold runGenSched
  simp only [planned] at hpe
  simp only [bind, Except.bind, hpe]
  cases runGenWith (runFuncWith opArray fs shapes masks) env gen <;> rfl


/-! ### Kahn layers: nobody consumes an output of its own generation -/

theorem pairwise_eq_of_mem {α} {R : α → α → Prop} : ∀ (l : List α), l.Pairwise R → ∀ a b, a ∈ l → b ∈ l → ¬ R a b → ¬ R b a → a = b := by
  intro l h
  induction h with
  | nil => intro a b ha; simp at ha
  | cons hx _ ih =>
    intro a b ha hb hab hba
    rcases List.mem_cons.mp ha with rfl | ha' <;> rcases List.mem_cons.mp hb with rfl | hb'
    · rfl
    · exact absurd (hx b hb') hab
    · exact absurd (hx a ha') hba
    · exact ih a b ha' hb' hab hba

theorem producer_of_output (fs : List MFunc) (huo : UniqueOutputs fs) (h : MFunc) (hh : h ∈ fs) (p : String) (hp : p ∈ h.outputs) :
    producer fs p = some h := by
  unfold producer
  cases hf : fs.find? (fun f => decide (p ∈ f.outputs)) with
  | none =>
    have := List.find?_eq_none.mp hf h hh
    simp [hp] at this
  | some g =>
    have hg := List.find?_some hf
    have hgm := List.mem_of_find?_eq_some hf
    simp only [decide_eq_true_eq] at hg
    have : g = h := pairwise_eq_of_mem fs huo g h hgm hh (fun r => r p hg hp) (fun r => r p hp hg)
    rw [this]

theorem layers_props (fs : List MFunc) (huo : UniqueOutputs fs) : ∀ (fuel : Nat) (done : List String) (rest : List MFunc),
    rest.Sublist fs → (∀ f ∈ rest, f.name ∉ done) →
    ∀ gen ∈ layers fs fuel done rest, gen.Sublist fs ∧ GenIndep gen := by
  intro fuel
  induction fuel with
  | zero => intro done rest _ _ gen hg; simp [layers] at hg
  | succ fuel ih =>
    intro done rest hsub hinv gen hg
    simp only [layers] at hg
    split at hg
    · simp at hg
    · split at hg
      · simp at hg
      · rcases List.mem_cons.mp hg with rfl | hg'
        · refine ⟨(List.filter_sublist).trans hsub, ?_⟩
          intro f hf h hh p hp hb hpo
          simp only [List.mem_filter, List.all_eq_true] at hf hh
          have hhfs : h ∈ fs := hsub.subset hh.1
          have hprod := producer_of_output fs huo h hhfs p hpo
          obtain ⟨q, hq, rfl⟩ := List.mem_map.mp hp
          have hup : h.name ∈ upstream fs f := by
            unfold upstream
            simp only [List.mem_filterMap]
            refine ⟨q, hq, ?_⟩
            simp [hb, hprod]
          have := hf.2 h.name hup
          exact hinv h hh.1 (by simpa using this)
        · refine ih _ _ ((List.filter_sublist).trans hsub) ?_ gen hg'
          intro f hf
          simp only [List.mem_filter, Bool.not_eq_eq_eq_not, Bool.not_true, List.any_eq_false, decide_eq_true_eq] at hf
          intro hmem
          rcases List.mem_append.mp hmem with h1 | h2
          · exact hinv f hf.1 h1
          · obtain ⟨g, hg2, hn⟩ := List.mem_map.mp h2
            exact hf.2 g (List.mem_filter.mp hg2) hn

theorem generations_props (fs : List MFunc) (huo : UniqueOutputs fs) :
    ∀ gen ∈ generations fs, GenIndep gen ∧ gen.Pairwise fun a b => ∀ o, o ∈ a.outputs → o ∉ b.outputs := by
  intro gen hg
  obtain ⟨hs, hi⟩ := layers_props fs huo _ [] fs (List.Sublist.refl _) (by simp) gen hg
  exact ⟨hi, List.Pairwise.sublist hs huo⟩


theorem runGensSched_results (fs : List MFunc) (shapes : List (String × List Nat)) (masks : List (String × List Bool))
    (dumpSub : String → Bool) (sched : Scheds) (hs : ValidScheds sched) :
    ∀ (gens : List (List MFunc)) (g : Nat) (env : Env),
      (∀ gen ∈ gens, GenIndep gen ∧ gen.Pairwise fun a b => ∀ o, o ∈ a.outputs → o ∉ b.outputs) →
      (runGensSched fs shapes masks dumpSub sched g gens env).map (fun r => (r.1, r.2.1)) =
        runGensWith (runFuncWith opArray fs shapes masks) gens env := by
  intro gens
  induction gens with
  | nil => intro g env _; rfl
  | cons gen rest ih =>
    intro g env hp
    obtain ⟨hi, hd⟩ := hp gen List.mem_cons_self
    have hres := runGenSched_results fs shapes masks dumpSub env gen
      (sched g (idsFrom 0 (planned shapes masks gen))) (hs g _) hi hd
    simp only [runGensSched, runGensWith]
    simp only [planned] at hres
    cases hrg : runGenSched fs shapes masks dumpSub env gen (sched g (idsFrom 0 (List.map (fun f => (f, planOf shapes masks f)) gen))) with
    | error e =>
      rw [hrg] at hres
      simp only [Except.map] at hres
      simp only [bind, Except.bind, ← hres, Except.map]
    | ok v =>
      obtain ⟨rs, tr⟩ := v
      rw [hrg] at hres
      simp only [Except.map] at hres
      have ih' := ih (g + 1) { env with store := env.store ++ rs.flatMap (·.slots) } (fun x hx => hp x (List.mem_cons_of_mem _ hx))
      simp only [bind, Except.bind, ← hres]
      cases hrr : runGensSched fs shapes masks dumpSub sched (g + 1) rest { env with store := env.store ++ rs.flatMap (·.slots) } with
      | error e =>
        rw [hrr] at ih'
        simp only [Except.map] at ih'
        simp only [← ih', Except.map]
      | ok w =>
        obtain ⟨more, envF, trs⟩ := w
        rw [hrr] at ih'
        simp only [Except.map] at ih'
        simp only [← ih', Except.map, pure, Except.pure]


/-! ### traces -/

theorem idsFrom_nodup : ∀ (pg : List (MFunc × Plan)) (j0 : Nat), (idsFrom j0 pg).Nodup := by
  intro pg
  induction pg with
  | nil => intro j0; simp [idsFrom]
  | cons fp rest ih =>
    intro j0
    simp only [idsFrom]
    rw [List.nodup_append]
    refine ⟨?_, ih (j0 + 1), ?_⟩
    · refine List.Pairwise.map _ ?_ List.nodup_range
      intro a b h e; exact h (by simpa using e)
    · intro a ha b hb
      obtain ⟨k, _, rfl⟩ := List.mem_map.mp ha
      obtain ⟨fp', hle, _, _⟩ := (mem_idsFrom rest (j0 + 1) b).mp hb
      intro e; rw [← e] at hle; simp only at hle; omega

/-- what a successful generation leaves in its trace -/
theorem runGenSched_trace (fs : List MFunc) (shapes : List (String × List Nat)) (masks : List (String × List Bool))
    (dumpSub : String → Bool) (env : Env) (gen : List MFunc) (order : List TaskId)
    (hperm : order.Perm (idsFrom 0 (planned shapes masks gen))) (hind : GenIndep gen)
    (rs : List FuncResult) (tr : GenTrace) (h : runGenSched fs shapes masks dumpSub env gen order = .ok (rs, tr)) :
    tr.ids = idsFrom 0 (planned shapes masks gen) ∧ tr.ran = order ∧
    tr.dumps = workerEvs (order.flatMap (wdOf dumpSub fs env (planned shapes masks gen)))
                ++ (planned shapes masks gen).flatMap (fun fp => parentDumps dumpSub fp.1 fp.2) ∧
    tr.calls = callsOf (planned shapes masks gen) (order.map fun id => (id, resOf fs env (planned shapes masks gen) id)) := by
  have hpg : ∀ (j : Nat) (fp : MFunc × Plan), (planned shapes masks gen)[j]? = some fp → fp.1 ∈ gen := by
    intro j fp h
    simp only [planned, List.getElem?_map, Option.map_eq_some_iff] at h
    obtain ⟨f, hf, rfl⟩ := h
    exact List.mem_of_getElem? hf
  have hval : ∀ id ∈ order, validId (planned shapes masks gen) id := fun id h =>
    (mem_ids_iff_valid _ id).mp (hperm.mem_iff.mp h)
  have hcl := runBodies_closed fs shapes masks dumpSub env gen (planned shapes masks gen) hpg hind order {} hval
  unfold runGenSched at h
  simp only [planned] at hcl
  simp only [bind, Except.bind, hcl] at h
  split at h
  · cases h
  · simp only [pure, Except.pure, Except.ok.injEq, Prod.mk.injEq] at h
    obtain ⟨_, rfl⟩ := h
    simp [planned]

/-- lift a property of successful generations to all traces of a run -/
theorem runGensSched_traces (P : GenTrace → Prop) (Q : List MFunc → Prop) (fs : List MFunc) (shapes : List (String × List Nat))
    (masks : List (String × List Bool)) (dumpSub : String → Bool) (sched : Scheds)
    (hP : ∀ g env gen rs tr, Q gen →
      runGenSched fs shapes masks dumpSub env gen (sched g (idsFrom 0 (planned shapes masks gen))) = .ok (rs, tr) → P tr) :
    ∀ (gens : List (List MFunc)) (g : Nat) (env : Env) (r : List FuncResult × Env × List GenTrace),
      (∀ gen ∈ gens, Q gen) → runGensSched fs shapes masks dumpSub sched g gens env = .ok r → ∀ tr ∈ r.2.2, P tr := by
  intro gens
  induction gens with
  | nil =>
    intro g env r _ h tr htr
    simp only [runGensSched, pure, Except.pure, Except.ok.injEq] at h
    subst h; simp at htr
  | cons gen rest ih =>
    intro g env r hq h tr htr
    simp only [runGensSched, bind, Except.bind] at h
    split at h
    · cases h
    · next v hv =>
      obtain ⟨rs, tr0⟩ := v
      simp only at h
      split at h
      · cases h
      · next w hw =>
        obtain ⟨more, envF, trs⟩ := w
        simp only [pure, Except.pure, Except.ok.injEq] at h
        subst h
        simp only [List.mem_cons] at htr
        rcases htr with rfl | htr
        · exact hP g env gen rs _ (hq gen List.mem_cons_self) (by simpa [planned] using hv)
        · exact ih (g + 1) _ _ (fun x hx => hq x (List.mem_cons_of_mem _ hx)) hw tr htr

/-- the execution log is ordered by generation: an entry of generation `g+1` comes after every entry of generation `g` -/
theorem runLog_barrier : ∀ (trs : List GenTrace) (g0 g : Nat) (id : TaskId) (l1 l2 : List (Nat × TaskId)),
    runLog g0 trs = l1 ++ (g + 1, id) :: l2 → g0 ≤ g → ∀ tr, trs[g - g0]? = some tr → ∀ id' ∈ tr.ran, (g, id') ∈ l1 := by
  intro trs
  induction trs with
  | nil => intro g0 g id l1 l2 h; simp [runLog] at h
  | cons tr0 rest ih =>
    intro g0 g id l1 l2 h hle tr htr id' hid'
    simp only [runLog] at h
    rcases List.append_eq_append_iff.mp h with ⟨a', h1, h2⟩ | ⟨c', h1, h2⟩
    · -- l1 = block ++ a'
      subst h1
      by_cases he : g = g0
      · subst he
        simp only [Nat.sub_self, List.getElem?_cons_zero, Option.some.injEq] at htr
        subst htr
        exact List.mem_append_left _ (List.mem_map.mpr ⟨id', hid', rfl⟩)
      · have : g - g0 = (g - (g0 + 1)) + 1 := by omega
        rw [this, List.getElem?_cons_succ] at htr
        exact List.mem_append_right _ (ih (g0 + 1) g id a' l2 h2 (by omega) tr htr id' hid')
    · -- the entry would lie inside the block of generation g0 ≤ g
      cases c' with
      | nil =>
        simp only [List.nil_append] at h2
        simp only [List.append_nil] at h1
        subst h1
        by_cases he : g = g0
        · subst he
          simp only [Nat.sub_self, List.getElem?_cons_zero, Option.some.injEq] at htr
          subst htr
          exact List.mem_map.mpr ⟨id', hid', rfl⟩
        · have : g - g0 = (g - (g0 + 1)) + 1 := by omega
          rw [this, List.getElem?_cons_succ] at htr
          have := ih (g0 + 1) g id [] l2 (by simpa using h2.symm) (by omega) tr htr id' hid'
          simp at this
      | cons c cs =>
        have hm : (g + 1, id) ∈ List.map (fun id => (g0, id)) tr0.ran := by
          rw [h1]; simp only [List.cons_append] at h2; injection h2 with h2a _; rw [h2a]; simp
        obtain ⟨x, _, hx⟩ := List.mem_map.mp hm
        simp only [Prod.mk.injEq] at hx
        omega


/-! ### the execution-order call log is a permutation of the sequential call list -/

theorem range_map_getD {α β} (l : List α) (d : α) (g : α → β) :
    (List.range l.length).map (fun k => g (l.getD k d)) = l.map g := by
  apply List.ext_getElem
  · simp
  · intro i h1 h2
    simp only [List.length_map, List.length_range] at h1
    simp [List.getD, List.getElem?_eq_getElem h1]

/-- the call a resolved future contributes to the log -/
def callOf (fs : List MFunc) (env : Env) (pg : List (MFunc × Plan)) (id : TaskId) : Option Call :=
  match pg[id.1]?, resOf fs env pg id with
  | some (f, _), .ok a => some { name := f.name, args := a }
  | _, _ => none

theorem callsOf_graph (fs : List MFunc) (env : Env) (pg : List (MFunc × Plan)) (order : List TaskId) :
    callsOf pg (order.map fun id => (id, resOf fs env pg id)) = order.filterMap (callOf fs env pg) := by
  unfold callsOf
  rw [List.filterMap_map]
  congr 1

theorem processGen_calls (dumpSub : String → Bool) (fs : List MFunc) (env : Env) (pg : List (MFunc × Plan)) (order : List TaskId)
    (st : GState) (hfut : st.futs = order.map (fun id => (id, resOf fs env pg id)))
    (hmem : ∀ id, validId pg id → id ∈ order) :
    ∀ (rest : List (MFunc × Plan)) (j0 : Nat) (rs : List FuncResult), (∀ i, pg[j0 + i]? = rest[i]?) →
      processGen dumpSub st j0 rest = .ok rs →
      (idsFrom j0 rest).filterMap (callOf fs env pg) = rs.flatMap (·.calls) := by
  intro rest
  induction rest with
  | nil =>
    intro j0 rs _ h
    simp only [processGen, pure, Except.pure, Except.ok.injEq] at h
    subst h; simp [idsFrom]
  | cons fp rest ih =>
    intro j0 rs hs h
    obtain ⟨f, plan⟩ := fp
    have h0 : pg[j0]? = some (f, plan) := by simpa using hs 0
    have ht : ∀ i, pg[j0 + 1 + i]? = rest[i]? := by
      intro i
      have := hs (i + 1)
      simp only [List.getElem?_cons_succ] at this
      rw [← this]; congr 1; omega
    simp only [processGen, bind, Except.bind] at h
    split at h
    · cases h
    · next r hr =>
      split at h
      · cases h
      · next rs' hrs =>
        simp only [pure, Except.pure, Except.ok.injEq] at h
        subst h
        simp only [idsFrom, List.filterMap_append, List.flatMap_cons, ih (j0 + 1) rs' ht hrs]
        congr 1
        -- the calls of the function at position j0
        have haw : ∀ k, k < nFut plan → await st.futs (j0, k) = resOf fs env pg (j0, k) := by
          intro k hk
          rw [hfut, await_eq fs env pg order _ (hmem _ ⟨_, h0, hk⟩)]
        rw [List.filterMap_map]
        cases plan with
        | bad e => simp [processFunc] at hr
        | single =>
          simp only [processFunc, bind, Except.bind, haw 0 (by simp [nFut])] at hr
          split at hr
          · cases hr
          · next args ha =>
            simp only [pure, Except.pure, Except.ok.injEq] at hr
            subst hr
            simp [nFut, List.range_succ, callOf, h0, ha]
        | mapped ms sh mk =>
          simp only [processFunc, bind, Except.bind] at hr
          split at hr
          · cases hr
          · next argsAt hm =>
            simp only [pure, Except.pure, Except.ok.injEq] at hr
            subst hr
            have hlen := mapM_ok_length _ _ _ hm
            simp only [List.length_range] at hlen
            simp only [nFut]
            rw [← hlen, ← range_map_getD argsAt [] (fun a => ({ name := f.name, args := a } : Call))]
            apply filterMap_some_eq_map
            intro k hk
            have hk' : k < argsAt.length := List.mem_range.mp hk
            have hget := mapM_ok_get _ _ _ hm k (by simpa [hlen] using hk') hk'
            simp only [List.getElem_range] at hget
            rw [haw k (by simpa [nFut, ← hlen] using hk')] at hget
            simp [callOf, h0, hget, List.getD, List.getElem?_eq_getElem hk']

theorem runGenSched_calls_perm (fs : List MFunc) (shapes : List (String × List Nat)) (masks : List (String × List Bool))
    (dumpSub : String → Bool) (env : Env) (gen : List MFunc) (order : List TaskId)
    (hperm : order.Perm (idsFrom 0 (planned shapes masks gen))) (hind : GenIndep gen)
    (rs : List FuncResult) (tr : GenTrace) (h : runGenSched fs shapes masks dumpSub env gen order = .ok (rs, tr)) :
    tr.calls.Perm (rs.flatMap (·.calls)) := by
  obtain ⟨_, _, _, hc⟩ := runGenSched_trace fs shapes masks dumpSub env gen order hperm hind rs tr h
  have hpg : ∀ (j : Nat) (fp : MFunc × Plan), (planned shapes masks gen)[j]? = some fp → fp.1 ∈ gen := by
    intro j fp h
    simp only [planned, List.getElem?_map, Option.map_eq_some_iff] at h
    obtain ⟨f, hf, rfl⟩ := h
    exact List.mem_of_getElem? hf
  have hval : ∀ id ∈ order, validId (planned shapes masks gen) id := fun id h =>
    (mem_ids_iff_valid _ id).mp (hperm.mem_iff.mp h)
  have hmem : ∀ id, validId (planned shapes masks gen) id → id ∈ order := fun id h =>
    hperm.mem_iff.mpr ((mem_ids_iff_valid _ id).mpr h)
  have hcl := runBodies_closed fs shapes masks dumpSub env gen (planned shapes masks gen) hpg hind order {} hval
  rw [hc, callsOf_graph]
  unfold runGenSched at h
  simp only [bind, Except.bind] at h
  split at h
  · cases h
  · next rs0 hrs =>
    simp only [pure, Except.pure, Except.ok.injEq, Prod.mk.injEq] at h
    obtain ⟨rfl, _⟩ := h
    have := processGen_calls dumpSub fs env (planned shapes masks gen) order
      (runBodies fs shapes masks dumpSub env gen (planned shapes masks gen) order {}) (by rw [hcl]; simp) hmem
      (planned shapes masks gen) 0 rs0 (by intro i; simp) (by simpa [planned] using hrs)
    rw [← this]
    exact hperm.filterMap _


theorem runGensSched_calls_perm (fs : List MFunc) (shapes : List (String × List Nat)) (masks : List (String × List Bool))
    (dumpSub : String → Bool) (sched : Scheds) (hs : ValidScheds sched) :
    ∀ (gens : List (List MFunc)) (g : Nat) (env : Env) (r : List FuncResult × Env × List GenTrace),
      (∀ gen ∈ gens, GenIndep gen) → runGensSched fs shapes masks dumpSub sched g gens env = .ok r →
      (r.2.2.flatMap (·.calls)).Perm (r.1.flatMap (·.calls)) := by
  intro gens
  induction gens with
  | nil =>
    intro g env r _ h
    simp only [runGensSched, pure, Except.pure, Except.ok.injEq] at h
    subst h; simp
  | cons gen rest ih =>
    intro g env r hq h
    simp only [runGensSched, bind, Except.bind] at h
    split at h
    · cases h
    · next v hv =>
      obtain ⟨rs, tr0⟩ := v
      simp only at h
      split at h
      · cases h
      · next w hw =>
        obtain ⟨more, envF, trs⟩ := w
        simp only [pure, Except.pure, Except.ok.injEq] at h
        subst h
        simp only [List.flatMap_cons, List.flatMap_append]
        exact (runGenSched_calls_perm fs shapes masks dumpSub env gen _ (hs g _) (hq gen List.mem_cons_self) rs tr0
          (by simpa [planned] using hv)).append (ih (g + 1) _ _ (fun x hx => hq x (List.mem_cons_of_mem _ hx)) hw)

end PF.Sched
