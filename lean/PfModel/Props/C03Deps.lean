import PfModel.Lemmas.SchedDeps
import PfModel.Props.C03Count
/-!
C03 (proof round 7) — "… and never before all values it consumes are complete", at user level.

Until now the clause was carried by two statements that a reader had to chain by hand, with a gap between them:
`C03_layer_independent` (nobody consumes an output of its *own* generation) and `C03_barrier` (every body of generation `g+1`
is preceded by every task of generation `g` — *adjacent* generations only).  Neither says where the producer of a consumed
value actually sits, nor that a body of generation `g` comes after the tasks of a generation `g' < g` that is not `g - 1`
(a function of generation 2 that consumes an output of generation 0).  Here:

* `C03_producer_earlier` — Kahn layering, by *function* (not by name): in a pipeline that passes the run's own acyclicity
  check, the producer of every value a function consumes (through a parameter that is not bound) sits in a strictly earlier
  generation.  (Connects C03's model to the layer lemmas of the error-path property, `PF.Errors.layers_upstream_earlier`,
  on which the barrier argument silently relied.)
* `C03_barrier_any` — the barrier between any two generations `g' < g`.
* `C03_log_entry_is_task` — every entry of the execution log is a submitted future of a function of its generation.
* `C03_consumed_complete` — the clause: in every successful run, under every family of schedules and every
  `dump_in_subprocess` assignment, whenever the body `(g, (j, k))` starts, then for every parameter of its function that is
  not bound and is an output of some function `h` of the pipeline, `h` sits in a generation `g' < g` and **every** task of
  `h` (one per external index, one in total if un-mapped: `demanded`) has already run — hence, with `C03_single_dump` /
  `C03_map_eq_sequential`, every element of the consumed value is complete.  A parameter that no function produces is a
  pipeline input / default (complete before the run starts); a bound parameter is a constant.
-/
namespace PF.C03
open PF PF.Map PF.Sched PF.SchedC PF.SchedD

/-- **Producers are earlier (Kahn layers, by function).** Unique output names and the run's own check
    `generations.flatten.length = fs.length` (else `runMapSched` refuses with "cyclic pipeline"): the producer `h` of a value
    that `f` (of generation `g`) consumes through a parameter that is not bound is a member of a generation `g' < g`. -/
theorem C03_producer_earlier (fs : List MFunc) (huo : UniqueOutputs fs) (hc : (generations fs).flatten.length = fs.length)
    (g : Nat) (gen : List MFunc) (f : MFunc) (eg : (generations fs)[g]? = some gen) (hf : f ∈ gen)
    (p : String) (hp : p ∈ f.params.map (·.1)) (hb : alookup f.bound p = none)
    (h : MFunc) (hh : h ∈ fs) (hpo : p ∈ h.outputs) :
    ∃ (g' : Nat) (gen' : List MFunc) (j' : Nat), g' < g ∧ (generations fs)[g']? = some gen' ∧ gen'[j']? = some h := by
  obtain ⟨g', gen', hlt, eg', hm⟩ := producer_earlier fs huo hc g gen f eg hf p hp hb h hh hpo
  obtain ⟨j', hj'⟩ := List.getElem?_of_mem hm
  exact ⟨g', gen', j', hlt, eg', hj'⟩

/-- **Barrier between any two generations** (`C03_barrier` is the case `g = g' + 1`). -/
theorem C03_barrier_any (fs : List MFunc) (inputs : List (String × Val)) (ui : List (String × List Nat))
    (dumpSub : String → Bool) (sched : Scheds) (hs : ValidScheds sched) (huo : UniqueOutputs fs)
    (res : MapResult) (trs : List GenTrace) (h : runMapSched fs inputs ui dumpSub sched = .ok (res, trs))
    (g' g : Nat) (hlt : g' < g) (id : TaskId) (l1 l2 : List (Nat × TaskId)) (hlog : runLog 0 trs = l1 ++ (g, id) :: l2)
    (tr : GenTrace) (htr : trs[g']? = some tr) : ∀ id' ∈ tr.ids, (g', id') ∈ l1 := by
  intro id' hid'
  have hp := (C03_once_map fs inputs ui dumpSub sched hs huo res trs h tr (List.mem_of_getElem? htr)).1
  exact runLog_before trs g' g id l1 l2 hlog hlt tr htr id' (hp.mem_iff.mpr hid')

/-- **Every entry of the execution log is a submitted future**: entry `(g, (j, k))` ⇒ generation `g` exists, has a function
    `f` at position `j`, and `k` is below the number of futures demanded for `f`. -/
theorem C03_log_entry_is_task (fs : List MFunc) (inputs : List (String × Val)) (ui : List (String × List Nat))
    (dumpSub : String → Bool) (sched : Scheds) (hs : ValidScheds sched) (huo : UniqueOutputs fs)
    (res : MapResult) (trs : List GenTrace) (h : runMapSched fs inputs ui dumpSub sched = .ok (res, trs))
    (g j k : Nat) (hmem : (g, (j, k)) ∈ runLog 0 trs) :
    ∃ gen f, (generations fs)[g]? = some gen ∧ gen[j]? = some f ∧ k < demanded res.shapes res.masks f := by
  obtain ⟨_, rs, env, hg⟩ := runMapSched_ok' fs inputs ui dumpSub sched res trs h
  obtain ⟨hlen, hat⟩ := runGensSched_trace_at fs res.shapes res.masks dumpSub sched hs (generations fs) 0 _ _
    (fun gen hgen => (C03_layer_independent fs huo gen hgen).1) hg
  obtain ⟨_, tr, htr, hid⟩ := runLog_mem_inv trs 0 g (j, k) hmem
  simp only [Nat.sub_zero] at htr
  have hgl : g < (generations fs).length := by
    have := (List.getElem?_eq_some_iff.mp htr).1
    simp only at hlen; omega
  obtain ⟨hids, hperm⟩ := hat g _ tr (List.getElem?_eq_getElem hgl) htr
  have hv := (mem_ids_iff_valid _ _).mp (hids ▸ hperm.mem_iff.mp hid)
  simp only [validId, planned, List.getElem?_map, Option.map_eq_some_iff] at hv
  obtain ⟨fp, ⟨f, hf, rfl⟩, hk⟩ := hv
  exact ⟨_, f, List.getElem?_eq_getElem hgl, hf, hk⟩

/-- **C03, "never before all values it consumes are complete".** In every successful run — every pipeline with unique output
    names, all inputs, every family of schedules (permutations of the submitted futures), every `dump_in_subprocess`
    assignment — at the moment the body of future `k` of the function at position `j` of generation `g` starts (`l1` = the
    bodies that ran before it): that function `f` exists, `k` is one of its demanded futures, and for every parameter `p` of
    `f` that is not bound and every function `h` of the pipeline that outputs `p`: `h` is a member of a generation `g' < g`
    and all `demanded h` bodies of `h` — one per external index, one in total without MapSpec — are in `l1`. -/
theorem C03_consumed_complete (fs : List MFunc) (inputs : List (String × Val)) (ui : List (String × List Nat))
    (dumpSub : String → Bool) (sched : Scheds) (hs : ValidScheds sched) (huo : UniqueOutputs fs)
    (res : MapResult) (trs : List GenTrace) (h : runMapSched fs inputs ui dumpSub sched = .ok (res, trs))
    (g j k : Nat) (l1 l2 : List (Nat × TaskId)) (hlog : runLog 0 trs = l1 ++ (g, (j, k)) :: l2) :
    ∃ gen f, (generations fs)[g]? = some gen ∧ gen[j]? = some f ∧ k < demanded res.shapes res.masks f ∧
      ∀ p ∈ f.params.map (·.1), alookup f.bound p = none → ∀ hf ∈ fs, p ∈ hf.outputs →
        ∃ (g' : Nat) (gen' : List MFunc) (j' : Nat), g' < g ∧ (generations fs)[g']? = some gen' ∧ gen'[j']? = some hf ∧
          ∀ k', k' < demanded res.shapes res.masks hf → (g', (j', k')) ∈ l1 := by
  obtain ⟨gen, f, eg, ej, hk⟩ := C03_log_entry_is_task fs inputs ui dumpSub sched hs huo res trs h g j k
    (by rw [hlog]; simp)
  refine ⟨gen, f, eg, ej, hk, ?_⟩
  intro p hp hb hf hhf hpo
  obtain ⟨hc, rs, env, hg⟩ := runMapSched_ok' fs inputs ui dumpSub sched res trs h
  obtain ⟨hlen, hat⟩ := runGensSched_trace_at fs res.shapes res.masks dumpSub sched hs (generations fs) 0 _ _
    (fun gen hgen => (C03_layer_independent fs huo gen hgen).1) hg
  obtain ⟨g', gen', j', hlt, eg', ej'⟩ := C03_producer_earlier fs huo hc g gen f eg (List.mem_of_getElem? ej) p hp hb hf hhf hpo
  refine ⟨g', gen', j', hlt, eg', ej', ?_⟩
  intro k' hk'
  have hgl : g' < trs.length := by
    have := (List.getElem?_eq_some_iff.mp eg').1
    simp only at hlen; omega
  obtain ⟨hids, _⟩ := hat g' gen' _ eg' (List.getElem?_eq_getElem hgl)
  refine C03_barrier_any fs inputs ui dumpSub sched hs huo res trs h g' g hlt (j, k) l1 l2 hlog _ (List.getElem?_eq_getElem hgl)
    (j', k') ?_
  rw [hids, mem_ids_iff_valid]
  exact ⟨(hf, planOf res.shapes res.masks hf), by simp [planned, ej'], hk'⟩

/-! ### non-vacuity: a consumer two generations after its producer, reversed schedules -/

private def el (n : String) (ins : List String) (out : String) : MFunc :=
  { name := n, params := ins.map fun p => (p, p), outputs := [out],
    mapspec := some { inputs := ins.map fun p => ⟨p, [some "i"]⟩, outputs := [⟨out, [some "i"]⟩] },
    ret := none, internal := none, defaults := [], bound := [] }

/-- `t` (generation 2) zips `y` (generation 0) with `z` (generation 1); listed consumer first -/
private def exFs : List MFunc := [el "t" ["y", "z"] "s", el "g" ["y"] "z", el "f" ["x"] "y"]
private def exIn : List (String × Val) := [("x", .arr [2] [.int 1, .int 2])]
private def revSched : Scheds := fun _ ids => ids.reverse

example : UniqueOutputs exFs := by simp [UniqueOutputs, exFs, el]
example : ValidScheds revSched := fun _ ids => List.reverse_perm ids
example : (generations exFs).flatten.length = exFs.length := by decide
example : (generations exFs).map (fun gen => gen.map (·.name)) = [["f"], ["g"], ["t"]] := by decide

/-- the hypotheses of `C03_consumed_complete` hold on a concrete run: it succeeds, and its log splits at the body of index 1
    of `t` (generation 2), which ran before the body of index 0 -/
example : ∃ res trs, runMapSched exFs exIn [] (fun o => o == "y") revSched = .ok (res, trs) ∧
    runLog 0 trs = [(0, (0, 1)), (0, (0, 0)), (1, (0, 1)), (1, (0, 0))] ++ (2, (0, 1)) :: [(2, (0, 0))] := by
  have hd : ((runMapSched exFs exIn [] (fun o => o == "y") revSched).toOption.map fun r => runLog 0 r.2) =
      some [(0, (0, 1)), (0, (0, 0)), (1, (0, 1)), (1, (0, 0)), (2, (0, 1)), (2, (0, 0))] := by decide
  cases hr : runMapSched exFs exIn [] (fun o => o == "y") revSched with
  | error e => rw [hr] at hd; simp [Except.toOption] at hd
  | ok r =>
    rw [hr] at hd
    simp only [Except.toOption, Option.map_some, Option.some.injEq] at hd
    exact ⟨r.1, r.2, rfl, by rw [hd]; rfl⟩

/-- … and the conclusion there, spelled out: `t` consumes `y` of `f` (generation 0, not adjacent) and `z` of `g`; both bodies
    of each are in the prefix -/
example : ((runMapSched exFs exIn [] (fun o => o == "y") revSched).toOption.map fun r =>
      (demanded r.1.shapes r.1.masks (el "f" ["x"] "y"), demanded r.1.shapes r.1.masks (el "g" ["y"] "z"))) = some (2, 2) := by decide

/-- the acyclicity check is needed for `C03_producer_earlier`: in a two-cycle no function is ever ready, the generations are
    empty (and `runMapSched` refuses the pipeline) -/
example : generations [el "a" ["q"] "p", el "b" ["p"] "q"] = [] := by decide
example : (runMapSched [el "a" ["q"] "p", el "b" ["p"] "q"] [] [] (fun _ => false) revSched).toOption.isNone = true := by decide

end PF.C03
