/-
Lemmas for the index-map clauses of C08 (`input_keys`), and for `rename` / `add_axes`.
-/
import PfModel.Lemmas.MapSpec
namespace PF.MS

/-- position of the first occurrence of an index name -/
def posOf (ax : String) : List String → Nat
  | [] => 0
  | a :: r => if a = ax then 0 else posOf ax r + 1

/-- what `input_keys` must put at one axis: the whole slice for `:`, else the component of the output position
    `pos` at the place of that index name among the external indices `ext` -/
def selectC (ext : List String) (pos : List Nat) : Option String → Option Nat
  | none => none
  | some ax => some (pos.getD (posOf ax ext) 0)

theorem mem_indices (a : ArraySpec) (i : String) : i ∈ indices a ↔ some i ∈ a.axes := by
  simp [indices, List.mem_filterMap]

theorem lookupLast_none (ax : String) : ∀ (ext : List String) (pos : List Nat), ax ∉ ext →
    lookupLast ax (List.zip ext pos) = none
  | [], _, _ => by simp [lookupLast]
  | _ :: _, [], _ => by simp [lookupLast]
  | a :: r, p :: ps, h => by
      have h1 : a ≠ ax := fun e => h (e ▸ List.mem_cons_self)
      have h2 : ax ∉ r := fun e => h (List.mem_cons_of_mem _ e)
      simp [List.zip_cons_cons, lookupLast, lookupLast_none ax r ps h2, h1]

theorem lookupLast_zip (ax : String) : ∀ (ext : List String) (pos : List Nat), ext.Nodup → ext.length = pos.length →
    ax ∈ ext → lookupLast ax (List.zip ext pos) = some (pos.getD (posOf ax ext) 0)
  | [], _, _, _, h => by simp at h
  | _ :: _, [], _, hl, _ => by simp at hl
  | a :: r, p :: ps, hn, hl, h => by
      have hn' := List.nodup_cons.mp hn
      simp only [List.zip_cons_cons, lookupLast, posOf]
      by_cases e : a = ax
      · subst e
        rw [lookupLast_none a r ps hn'.1]
        simp
      · have hr : ax ∈ r := by
          rcases List.mem_cons.mp h with h' | h'
          · exact absurd h'.symm e
          · exact h'
        rw [lookupLast_zip ax r ps hn'.2 (by simpa using hl) hr]
        simp [e]

theorem keyOf_ok (ids : List (String × Nat)) (ext : List String) (pos : List Nat)
    (hids : ∀ ax ∈ ext, lookupLast ax ids = some (pos.getD (posOf ax ext) 0)) :
    ∀ (axes : List (Option String)), (∀ ax, some ax ∈ axes → ax ∈ ext) →
      keyOf ids axes = .ok (axes.map (selectC ext pos))
  | [], _ => rfl
  | none :: r, h => by
      simp only [keyOf, keyOf_ok ids ext pos hids r (fun ax hax => h ax (List.mem_cons_of_mem _ hax)), List.map, selectC]
  | some ax :: r, h => by
      simp only [keyOf, hids ax (h ax List.mem_cons_self),
        keyOf_ok ids ext pos hids r (fun ax hax => h ax (List.mem_cons_of_mem _ hax)), List.map, selectC]

theorem keysOf_ok (ids : List (String × Nat)) (ext : List String) (pos : List Nat)
    (hids : ∀ ax ∈ ext, lookupLast ax ids = some (pos.getD (posOf ax ext) 0)) :
    ∀ (l : List ArraySpec), (∀ x ∈ l, ∀ ax, some ax ∈ x.axes → ax ∈ ext) →
      keysOf ids l = .ok (l.map fun x => (x.name, x.axes.map (selectC ext pos)))
  | [], _ => rfl
  | x :: r, h => by
      simp only [keysOf, keyOf_ok ids ext pos hids x.axes (h x List.mem_cons_self),
        keysOf_ok ids ext pos hids r (fun y hy => h y (List.mem_cons_of_mem _ hy)), List.map]

theorem length_shapeToKey (s : List Nat) (i : Nat) : (PF.shapeToKey s i).length = s.length := by
  induction s with
  | nil => simp [PF.shapeToKey, PF.strides]
  | cons d ds ih => rw [PF.shapeToKey_cons]; simp [ih]

/-- in a valid spec every named input axis is an external index -/
theorem valid_axis_external (m : MapSpec) (hv : Valid m) (x : ArraySpec) (hx : x ∈ m.inputs) (ax : String)
    (hax : some ax ∈ x.axes) : ax ∈ externalIndices m := by
  have hi : ax ∈ indices x := (mem_indices x ax).mpr hax
  unfold externalIndices
  rw [List.mem_filter]
  refine ⟨hv.in_sub x hx ax hi, ?_⟩
  exact List.contains_iff_mem.mpr ((mem_inputIndexList m ax).mpr ⟨x, hx, hi⟩)

theorem inputKeys_select (m : MapSpec) (hv : Valid m) (hd : (externalIndices m).Nodup) (s : List Nat) (i : Nat)
    (hs : s.length = (externalIndices m).length) :
    inputKeys m s i = .ok (m.inputs.map fun x =>
      (x.name, x.axes.map (selectC (externalIndices m) (PF.shapeToKey s i)))) := by
  unfold inputKeys
  rw [if_neg (by simp [hs])]
  apply keysOf_ok
  · intro ax hax
    exact lookupLast_zip ax _ _ hd (by rw [length_shapeToKey, hs]) hax
  · intro x hx ax hax
    exact valid_axis_external m hv x hx ax hax

/-! ### rename -/

theorem renameName_id (ρ : List (String × String)) (n : String) (h : (keys ρ).contains n = false) :
    renameName ρ n = n := by
  unfold renameName
  have : lookup n ρ = none := by
    induction ρ with
    | nil => rfl
    | cons p r ih =>
      obtain ⟨k, v⟩ := p
      simp only [keys, List.map_cons, List.contains_cons, Bool.or_eq_false_iff] at h
      simp only [lookup]
      have hk : ¬ k = n := by
        intro e; subst e; simp at h
      rw [if_neg hk]
      exact ih h.2
  rw [this]; rfl

theorem indices_renameSpec (ρ : List (String × String)) (a : ArraySpec) : indices (renameSpec ρ a) = indices a := rfl

theorem outputIndices_rename (ρ : List (String × String)) (m : MapSpec) :
    outputIndices ⟨m.inputs.map (renameSpec ρ), m.outputs.map (renameSpec ρ)⟩ = outputIndices m := by
  unfold outputIndices
  cases m.outputs <;> rfl

theorem inputIndexList_rename (ρ : List (String × String)) (m : MapSpec) :
    inputIndexList ⟨m.inputs.map (renameSpec ρ), m.outputs.map (renameSpec ρ)⟩ = inputIndexList m := by
  unfold inputIndexList
  simp only
  induction m.inputs with
  | nil => rfl
  | cons x r ih => simp only [List.map_cons, List.flatMap_cons, ih, indices_renameSpec]

theorem valid_rename (ρ : List (String × String)) (m : MapSpec) (hv : Valid m)
    (hρ : ∀ a ∈ m.inputs ++ m.outputs, nameOKChars (renameName ρ a.name).toList = true) :
    Valid ⟨m.inputs.map (renameSpec ρ), m.outputs.map (renameSpec ρ)⟩ where
  names := by
    intro a ha
    simp only [← List.map_append, List.mem_map] at ha
    obtain ⟨b, hb, rfl⟩ := ha
    exact ⟨hρ b hb, (hv.names b hb).2⟩
  out_ne := by simpa using hv.out_ne
  no_colon := by
    intro o ho
    simp only [List.mem_map] at ho
    obtain ⟨b, hb, rfl⟩ := ho
    exact hv.no_colon b hb
  same_idx := by
    intro o ho
    simp only [List.mem_map] at ho
    obtain ⟨b, hb, rfl⟩ := ho
    rw [outputIndices_rename, indices_renameSpec]
    exact hv.same_idx b hb
  in_sub := by
    intro x hx i hi
    simp only [List.mem_map] at hx
    obtain ⟨b, hb, rfl⟩ := hx
    rw [outputIndices_rename]
    exact hv.in_sub b hb i hi

theorem rename_unmentioned (ρ : List (String × String)) (m : MapSpec)
    (h : ((inputNames m ++ outputNames m).any fun n => (keys ρ).contains n) = false) :
    (⟨m.inputs.map (renameSpec ρ), m.outputs.map (renameSpec ρ)⟩ : MapSpec) = m := by
  have hall : ∀ a ∈ m.inputs ++ m.outputs, renameSpec ρ a = a := by
    intro a ha
    have : (keys ρ).contains a.name = false := by
      cases hc : (keys ρ).contains a.name with
      | false => rfl
      | true =>
        have : ((inputNames m ++ outputNames m).any fun n => (keys ρ).contains n) = true := by
          apply List.any_eq_true.mpr
          refine ⟨a.name, ?_, hc⟩
          simp only [inputNames, outputNames, ← List.map_append]
          exact List.mem_map.mpr ⟨a, ha, rfl⟩
        rw [h] at this; cases this
    cases a
    simp only [renameSpec, renameName_id ρ _ this]
  have e1 : m.inputs.map (renameSpec ρ) = m.inputs := by
    conv => rhs; rw [← List.map_id m.inputs]
    exact List.map_congr_left fun a ha => hall a (List.mem_append_left _ ha)
  have e2 : m.outputs.map (renameSpec ρ) = m.outputs := by
    conv => rhs; rw [← List.map_id m.outputs]
    exact List.map_congr_left fun a ha => hall a (List.mem_append_right _ ha)
  rw [e1, e2]

theorem rename_ok (ρ : List (String × String)) (m : MapSpec) (hv : Valid m)
    (hρ : ∀ a ∈ m.inputs ++ m.outputs, nameOKChars (renameName ρ a.name).toList = true) :
    rename ρ m = .ok ⟨m.inputs.map (renameSpec ρ), m.outputs.map (renameSpec ρ)⟩ := by
  unfold rename
  cases h : ((inputNames m ++ outputNames m).any fun n => (keys ρ).contains n) with
  | false =>
    simp only [Bool.not_false, ↓reduceIte]
    rw [rename_unmentioned ρ m h]
  | true =>
    simp only [Bool.not_true, Bool.false_eq_true, ↓reduceIte]
    exact construct_valid _ (valid_rename ρ m hv hρ)

theorem externalIndices_rename (ρ : List (String × String)) (m : MapSpec) :
    externalIndices ⟨m.inputs.map (renameSpec ρ), m.outputs.map (renameSpec ρ)⟩ = externalIndices m := by
  unfold externalIndices
  rw [outputIndices_rename, inputIndexList_rename]

theorem keysOf_rename (ρ : List (String × String)) (ids : List (String × Nat)) :
    ∀ (l : List ArraySpec) (ks : List (String × List (Option Nat))), keysOf ids l = .ok ks →
      keysOf ids (l.map (renameSpec ρ)) = .ok (ks.map fun p => (renameName ρ p.1, p.2))
  | [], ks, h => by simp only [keysOf] at h; injection h with h; subst h; rfl
  | x :: r, ks, h => by
      simp only [keysOf] at h
      split at h
      · cases h
      · next k hk =>
        split at h
        · cases h
        · next ks' hks =>
          injection h with h; subst h
          simp only [List.map_cons, keysOf, renameSpec, hk, keysOf_rename ρ ids r ks' hks]

/-! ### add_axes -/

/-- the new axes: all named, identifiers, and not yet used by any array of the spec -/
structure FreshAxes (axis : List String) (m : MapSpec) : Prop where
  ident : ∀ a ∈ axis, isIdent a = true
  fresh : ∀ a ∈ axis, ∀ x ∈ m.inputs ++ m.outputs, some a ∉ x.axes

theorem indices_extendSpec (axis : List String) (a : ArraySpec) :
    indices (extendSpec (axis.map some) a) = indices a ++ axis := by
  simp only [indices, extendSpec, List.filterMap_append]
  congr 1
  induction axis with
  | nil => rfl
  | cons x r ih => simp [ih]

theorem outputIndices_extend (axis : List String) (m : MapSpec) (hne : m.outputs ≠ []) :
    outputIndices ⟨m.inputs.map (extendSpec (axis.map some)), m.outputs.map (extendSpec (axis.map some))⟩ =
      outputIndices m ++ axis := by
  unfold outputIndices
  cases h : m.outputs with
  | nil => exact absurd h hne
  | cons o r => simp only [List.map_cons]; exact indices_extendSpec axis o

theorem clashes_false (axis : List String) (m : MapSpec) (hf : FreshAxes axis m) :
    (m.inputs ++ m.outputs).any (clashes (axis.map some)) = false := by
  cases h : (m.inputs ++ m.outputs).any (clashes (axis.map some)) with
  | false => rfl
  | true =>
    obtain ⟨x, hx, hc⟩ := List.any_eq_true.mp h
    unfold clashes at hc
    obtain ⟨ax, hax, hc⟩ := List.any_eq_true.mp hc
    obtain ⟨a, ha, rfl⟩ := List.mem_map.mp hax
    simp only [Option.isSome_some, Bool.true_and] at hc
    exact absurd (List.contains_iff_mem.mp hc) (hf.fresh a ha x hx)

theorem valid_extend (axis : List String) (m : MapSpec) (hv : Valid m) (hf : FreshAxes axis m) :
    Valid ⟨m.inputs.map (extendSpec (axis.map some)), m.outputs.map (extendSpec (axis.map some))⟩ where
  names := by
    intro a ha
    simp only [← List.map_append, List.mem_map] at ha
    obtain ⟨b, hb, rfl⟩ := ha
    refine ⟨(hv.names b hb).1, ?_⟩
    intro i hi
    simp only [extendSpec, List.mem_append, List.mem_map] at hi
    rcases hi with hi | ⟨a, ha, e⟩
    · exact (hv.names b hb).2 i hi
    · injection e with e; subst e; exact hf.ident a ha
  out_ne := by simpa using hv.out_ne
  no_colon := by
    intro o ho
    simp only [List.mem_map] at ho
    obtain ⟨b, hb, rfl⟩ := ho
    simp only [extendSpec, List.mem_append, List.mem_map, not_or]
    exact ⟨hv.no_colon b hb, by rintro ⟨a, _, e⟩; cases e⟩
  same_idx := by
    intro o ho
    simp only [List.mem_map] at ho
    obtain ⟨b, hb, rfl⟩ := ho
    rw [outputIndices_extend axis m hv.out_ne, indices_extendSpec, hv.same_idx b hb]
  in_sub := by
    intro x hx i hi
    simp only [List.mem_map] at hx
    obtain ⟨b, hb, rfl⟩ := hx
    rw [outputIndices_extend axis m hv.out_ne]
    rw [indices_extendSpec] at hi
    rcases List.mem_append.mp hi with h | h
    · exact List.mem_append_left _ (hv.in_sub b hb i h)
    · exact List.mem_append_right _ h

theorem addAxes_ok (axis : List String) (m : MapSpec) (hv : Valid m) (hf : FreshAxes axis m) :
    addAxes (axis.map some) m =
      .ok ⟨m.inputs.map (extendSpec (axis.map some)), m.outputs.map (extendSpec (axis.map some))⟩ := by
  unfold addAxes
  rw [clashes_false axis m hf]
  simp only [Bool.false_eq_true, ↓reduceIte]
  exact construct_valid _ (valid_extend axis m hv hf)

end PF.MS
