/-
Model of `_LazyFunction.evaluate` (`pipefunc/lazy.py:60-69`) when a user function may RAISE.

`PF.Lazy.eval` models functions that always return.  Here a function raises while its name is in `bad` (a fault the harness
switches on and off between `evaluate()` calls: a transient fault is switched off before the retry, a permanent one stays).
What matters is the order of `evaluate`'s statements: the flag `_evaluated` and `_result` are written only AFTER the function
returned, so an `evaluate()` that raised leaves every node on the path unevaluated (the nodes below it that returned keep
their memo) and the next `evaluate()` invokes the function again: it raises again, or returns the eager value.
The state at the raise is part of the answer (`ESt × Except FErr Val`).  Core Lean only.
-/
import PfModel.Model.Lazy
namespace PF.Lazy
open PF PF.Pipe

/-- why an evaluation did not return: the user function of node `id` raised, or a failure of the model itself -/
inductive FErr
  | raised (id : Nat)
  | model (e : EErr)
  deriving Repr, DecidableEq

/-- `evaluate_lazy` on one argument; the state reached is returned also when the evaluation raised -/
def evalArgF (rec : Nat → ESt → ESt × Except FErr Val) : LArg → ESt → ESt × Except FErr Val
  | .val v, s => (s, .ok v)
  | .ref i, s => rec i s

/-- `evaluate_lazy(self.kwargs)`: the values in insertion order; the first raise ends the loop (later arguments stay untouched) -/
def evalArgsF (rec : Nat → ESt → ESt × Except FErr Val) : List (String × LArg) → ESt → ESt × Except FErr (List (String × Val))
  | [], s => (s, .ok [])
  | (k, a) :: r, s =>
    match evalArgF rec a s with
    | (s1, .error e) => (s1, .error e)
    | (s1, .ok v) =>
      match evalArgsF rec r s1 with
      | (s2, .error e) => (s2, .error e)
      | (s2, .ok vs) => (s2, .ok ((k, v) :: vs))

/-- `_LazyFunction.evaluate` (`lazy.py:60-69`) with raising functions: memo hit, else the arguments, then the invocation (logged whether
    it returns or raises); `_result` / `_evaluated` are written only when the function returned.  Pick nodes (`output_picker`) never raise. -/
def evalF (bad : List String) (nodes : List Node) : Nat → Nat → ESt → ESt × Except FErr Val
  | 0, _, s => (s, .error (.model .fuel))
  | n+1, id, s =>
    match dlookup s.done id with
    | some v => (s, .ok v)
    | none =>
      match nodes[id]? with
      | none => (s, .error (.model (.dangling id)))
      | some (.call f args) =>
        match evalArgsF (evalF bad nodes n) args s with
        | (s1, .error e) => (s1, .error e)
        | (s1, .ok vals) =>
          if bad.contains f.name then ({ s1 with log := s1.log ++ [id] }, .error (.raised id))
          else
            let r := result f vals
            ({ done := (id, r) :: s1.done, log := s1.log ++ [id] }, .ok r)
      | some (.pick f src name) =>
        match evalArgF (evalF bad nodes n) src s with
        | (s1, .error e) => (s1, .error e)
        | (s1, .ok v) =>
          match pickVal f.outputs name v with
          | none => (s1, .error (.model .notTuple))
          | some r => ({ done := (id, r) :: s1.done, log := s1.log ++ [id] }, .ok r)

/-- `x.evaluate()` on what a lazy call returned, while the functions named in `bad` raise -/
def evaluateF (bad : List String) (a : LArg) (s : LSt) : LSt × Except FErr Val :=
  match evalArgF (evalF bad s.nodes (s.nodes.length + 1)) a s.ev with
  | (e, r) => ({ s with ev := e }, r)

end PF.Lazy
