/-
The complete-frontier invariant of `arg_combinations` (`_compute_arg_mapping`), restated for C17.

`Lemmas/PipelineCombos.lean` / `Lemmas/PipelineCombosComplete.lean` (C02) prove this invariant, but their import closure
defines C02's `PF.Pipe.Reach` (reachability under keywords, `Lemmas/PipelineNeeded.lean`), which clashes by name with the
`PF.Pipe.Reach` of `Lemmas/SweepDeps.lean` (strict ancestors) that the C17 theorems are stated with: no module can import
both.  The lemmas below are therefore verbatim copies of the keyword-free part of those two files (same statements, same
proofs, up to `argCombinations_ccut`), in the namespace `PF.Sweep.RootCut`, on top of `Lemmas/PipelineLog.lean` only.
No definition of the model is touched.  Core Lean only.
-/
import PfModel.Lemmas.PipelineLog
namespace PF.Sweep.RootCut
open PF PF.Pipe

variable (fs : List Func) (rank : String → Nat)

/-! ### `insertSorted` / `uniqueSorted` only ever keep what they were given -/

theorem mem_insertSorted {α} (key : α → String) (x y : α) : ∀ l, y ∈ insertSorted key x l → y = x ∨ y ∈ l := by
  intro l
  induction l with
  | nil => intro h; simp [insertSorted] at h; exact Or.inl h
  | cons a as ih =>
    intro h
    simp only [insertSorted] at h
    split at h
    · rcases List.mem_cons.mp h with h | h
      · exact Or.inl h
      · exact Or.inr h
    · split at h
      · exact Or.inr h
      · rcases List.mem_cons.mp h with h | h
        · exact Or.inr (h ▸ List.mem_cons_self)
        · rcases ih h with h | h
          · exact Or.inl h
          · exact Or.inr (List.mem_cons_of_mem _ h)

theorem mem_uniqueSorted {α} (key : α → String) (y : α) (l : List α) (h : y ∈ uniqueSorted key l) : y ∈ l := by
  have gen : ∀ (l : List α) acc, y ∈ l.foldl (fun acc x => insertSorted key x acc) acc → y ∈ acc ∨ y ∈ l := by
    intro l
    induction l with
    | nil => intro acc h; exact Or.inl h
    | cons a as ih =>
      intro acc h
      simp only [List.foldl] at h
      rcases ih _ h with h | h
      · rcases mem_insertSorted key a y acc h with h | h
        · exact Or.inr (h ▸ List.mem_cons_self)
        · exact Or.inl h
      · exact Or.inr (List.mem_cons_of_mem _ h)
  rcases gen l [] h with h | h
  · cases h
  · exact h

/-! ### positions and producers -/

theorem funcAt_eq (i : Nat) (h : i < fs.length) : funcAt fs i = fs[i] := by
  simp [funcAt, List.getD, h]

theorem producerIdx_iff (q : String) (j : Nat) :
    producerIdx fs q = some j ↔ ∃ h : j < fs.length, q ∈ fs[j].outputs ∧ ∀ j' (h' : j' < j), q ∉ fs[j'].outputs := by
  unfold producerIdx
  rw [List.findIdx?_eq_some_iff_getElem]
  simp

theorem producerIdx_some (hu : UniqueOut fs) (q : String) (j : Nat) (h : producerIdx fs q = some j) :
    j < fs.length ∧ funcAt fs j ∈ fs ∧ q ∈ (funcAt fs j).outputs ∧ producer fs q = some (funcAt fs j) := by
  obtain ⟨hj, hq, _⟩ := (producerIdx_iff fs q j).mp h
  rw [funcAt_eq fs j hj]
  have hm : fs[j] ∈ fs := List.getElem_mem hj
  exact ⟨hj, hm, hq, (producer_some_iff fs hu q _).mpr ⟨hm, hq⟩⟩

/-- positions returned by `producerIdx` are canonical: the same position is returned for every output of that function -/
theorem producerIdx_canon (hu : UniqueOut fs) (q n : String) (e : Nat) (h : producerIdx fs q = some e)
    (hn : n ∈ (funcAt fs e).outputs) : producerIdx fs n = some e := by
  obtain ⟨he, hq, hmin⟩ := (producerIdx_iff fs q e).mp h
  rw [funcAt_eq fs e he] at hn
  refine (producerIdx_iff fs n e).mpr ⟨he, hn, ?_⟩
  intro j' h' hn'
  have hj' : j' < fs.length := by omega
  have : fs[j'] = fs[e] := hu _ (List.getElem_mem hj') _ (List.getElem_mem he) n hn' hn
  exact hmin j' h' (this ▸ hq)

/-- the graph edge `j → c` labelled `p`: `p` is an unbound parameter of `c` produced by `j` -/
def EdgeTo (j c : Nat) (p : String) : Prop :=
  ∃ orig, (p, orig) ∈ (funcAt fs c).params ∧ alookup (funcAt fs c).bound p = none ∧ producerIdx fs p = some j

theorem mem_edgeArgs (j c : Nat) (p : String) (h : p ∈ edgeArgs fs j c) : EdgeTo fs j c p := by
  unfold edgeArgs at h
  obtain ⟨⟨q, orig⟩, hq, hf⟩ := List.mem_filterMap.mp h
  simp only at hf
  split at hf
  · cases hf
  · next hb =>
    split at hf
    · next hj => cases hf; exact ⟨orig, hq, by simpa using hb, hj⟩
    · cases hf

theorem mem_preds (i : Nat) (d : Node) (h : d ∈ preds fs i) :
    ∃ p orig, (p, orig) ∈ (funcAt fs i).params ∧ alookup (funcAt fs i).bound p = none ∧
      ((∃ j, producerIdx fs p = some j ∧ d = .fn j) ∨ (producerIdx fs p = none ∧ d = .root p)) := by
  unfold preds at h
  obtain ⟨⟨q, orig⟩, hq, hf⟩ := List.mem_filterMap.mp h
  simp only at hf
  split at hf
  · cases hf
  · next hb =>
    refine ⟨q, orig, hq, by simpa using hb, ?_⟩
    split at hf
    · next j hj => cases hf; exact Or.inl ⟨j, hj, rfl⟩
    · next hj => cases hf; exact Or.inr ⟨hj, rfl⟩

/-! ### the invariant of `_compute_arg_mapping` -/

/-- the expanded functions, in expansion order: each one after the first feeds an earlier one -/
inductive Chain (i0 : Nat) : List Nat → Prop
  | base : Chain i0 [i0]
  | snoc {E j c p} : Chain i0 E → c ∈ E → EdgeTo fs j c p → Chain i0 (E ++ [j])

theorem Chain.head_mem {i0 E} (h : Chain fs i0 E) : i0 ∈ E := by
  induction h with
  | base => simp
  | snoc _ _ _ ih => exact List.mem_append_left _ ih

theorem Chain.canon {i0 E} (h : Chain fs i0 E) (h0 : ∃ q, producerIdx fs q = some i0) :
    ∀ e ∈ E, ∃ q, producerIdx fs q = some e := by
  induction h with
  | base => intro e he; simp at he; subst he; exact h0
  | snoc _ _ hedge ih =>
    intro e he
    rcases List.mem_append.mp he with he | he
    · exact ih e he
    · simp at he; subst he
      obtain ⟨_, _, _, hp⟩ := hedge
      exact ⟨_, hp⟩

/-- what a frontier node is: a function not yet expanded that feeds an expanded one, or a root argument of an expanded one -/
def Front (E : List Nat) : Node → Prop
  | .fn j => j ∉ E ∧ ∃ c ∈ E, ∃ p, EdgeTo fs j c p
  | .root p => producerIdx fs p = none ∧
      ∃ c ∈ E, ∃ orig, (p, orig) ∈ (funcAt fs c).params ∧ alookup (funcAt fs c).bound p = none

theorem Front.mono (E : List Nat) (j : Nat) (d : Node) (h : Front fs E d) (hne : d ≠ .fn j) : Front fs (E ++ [j]) d := by
  cases d with
  | fn j' =>
    obtain ⟨hn, c, hc, hp⟩ := h
    refine ⟨?_, c, List.mem_append_left _ hc, hp⟩
    intro hm
    rcases List.mem_append.mp hm with hm | hm
    · exact hn hm
    · simp at hm; subst hm; exact hne rfl
  | root p =>
    obtain ⟨hn, c, hc, hp⟩ := h
    exact ⟨hn, c, List.mem_append_left _ hc, hp⟩

/-- `c` is a cut below the function at position `i0` -/

theorem foldl_inv {α β} (P : β → Prop) (F : β → α → β) (l : List α)
    (h : ∀ acc, P acc → ∀ d ∈ l, P (F acc d)) : ∀ acc, P acc → P (l.foldl F acc) := by
  induction l with
  | nil => intro acc h; exact h
  | cons a as ih =>
    intro acc hacc
    simp only [List.foldl]
    exact ih (fun acc' h' d hd => h acc' h' d (List.mem_cons_of_mem _ hd)) _ (h acc hacc a List.mem_cons_self)

theorem argMapping_succ (fuel node : Nat) (args : List Node) (replaced : List Nat) (acc : List (List String)) :
    argMapping fs (fuel+1) node args replaced acc =
      if acc.contains (namesOf fs (uniqueSorted (sortKey fs) (args ++ (preds fs node).filter fun n =>
          match n with | .fn j => !(replaced.contains j) | .root _ => true)) (replaced ++ [node])) then acc else
      (uniqueSorted (sortKey fs) (args ++ (preds fs node).filter fun n =>
          match n with | .fn j => !(replaced.contains j) | .root _ => true)).foldl (fun acc d =>
        match d with
        | .fn j => argMapping fs fuel j ((uniqueSorted (sortKey fs) (args ++ (preds fs node).filter fun n =>
            match n with | .fn j => !(replaced.contains j) | .root _ => true)).filter (· ≠ d)) (replaced ++ [node]) acc
        | .root _ => acc)
        (acc ++ [namesOf fs (uniqueSorted (sortKey fs) (args ++ (preds fs node).filter fun n =>
          match n with | .fn j => !(replaced.contains j) | .root _ => true)) (replaced ++ [node])]) := by
  rw [argMapping]; rfl

theorem edge_irrefl (hw : WFp fs rank) (j c : Nat) (p : String) (hc : funcAt fs c ∈ fs) (h : EdgeTo fs j c p) : j ≠ c := by
  obtain ⟨orig, hp, hb, hidx⟩ := h
  obtain ⟨_, _, _, hprod⟩ := producerIdx_some fs hw.uniq p j hidx
  have := hw.acyc _ hc (p, orig) hp _ hprod hb
  intro e; subst e; omega

/-! ### `uniqueSorted` keeps every element whose key is unambiguous -/

theorem mem_insertSorted_of_mem {α} (key : α → String) (x y : α) : ∀ l, y ∈ l → y ∈ insertSorted key x l := by
  intro l
  induction l with
  | nil => intro h; cases h
  | cons a as ih =>
    intro h
    simp only [insertSorted]
    split
    · exact List.mem_cons_of_mem _ h
    · split
      · exact h
      · rcases List.mem_cons.mp h with h | h
        · exact h ▸ List.mem_cons_self
        · exact List.mem_cons_of_mem _ (ih h)

theorem insertSorted_self {α} (key : α → String) (x : α) : ∀ l, (∀ y ∈ l, key y = key x → y = x) →
    x ∈ insertSorted key x l := by
  intro l
  induction l with
  | nil => intro _; simp [insertSorted]
  | cons a as ih =>
    intro h
    simp only [insertSorted]
    split
    · exact List.mem_cons_self
    · split
      · next he => rw [h a List.mem_cons_self he.symm]; exact List.mem_cons_self
      · exact List.mem_cons_of_mem _ (ih (fun y hy => h y (List.mem_cons_of_mem _ hy)))

theorem uniqueSorted_mem {α} (key : α → String) (x : α) (l : List α) (hx : x ∈ l)
    (hinj : ∀ y ∈ l, key y = key x → y = x) : x ∈ uniqueSorted key l := by
  have gen : ∀ (l : List α) acc, (∀ y ∈ acc, key y = key x → y = x) → (∀ y ∈ l, key y = key x → y = x) →
      (x ∈ acc ∨ x ∈ l) → x ∈ l.foldl (fun acc x => insertSorted key x acc) acc := by
    intro l
    induction l with
    | nil => intro acc _ _ h; rcases h with h | h; exact h; cases h
    | cons a as ih =>
      intro acc hacc hl h
      simp only [List.foldl]
      apply ih
      · intro y hy hk
        rcases mem_insertSorted key a y acc hy with rfl | hy
        · exact hl _ List.mem_cons_self hk
        · exact hacc y hy hk
      · exact fun y hy => hl y (List.mem_cons_of_mem _ hy)
      · rcases h with h | h
        · exact Or.inl (mem_insertSorted_of_mem key a x acc h)
        · rcases List.mem_cons.mp h with rfl | h
          · exact Or.inl (insertSorted_self key x acc hacc)
          · exact Or.inr h
  exact gen l [] (by simp) hinj (Or.inr hx)

/-! ### graph nodes and their sort keys -/

/-- a node that can occur in the dependency graph: a producing position, or a produced-by-nobody parameter -/
def NodeOK : Node → Prop
  | .fn j => j < fs.length ∧ ∃ q ∈ (funcAt fs j).outputs, producerIdx fs q = some j
  | .root p => producerIdx fs p = none ∧ ∃ f ∈ fs, ∃ q ∈ f.params, q.1 = p

instance : DecidablePred (NodeOK fs) := fun n =>
  match n with
  | .fn j => inferInstanceAs (Decidable (j < fs.length ∧ ∃ q ∈ (funcAt fs j).outputs, producerIdx fs q = some j))
  | .root p => inferInstanceAs (Decidable (producerIdx fs p = none ∧ ∃ f ∈ fs, ∃ q ∈ f.params, q.1 = p))

def allNodes : List Node :=
  (List.range fs.length).map .fn ++ fs.flatMap fun f => f.params.map fun q => .root q.1

/-- distinct graph nodes have distinct sort keys (decidable; true whenever names contain no comma) -/
def KeyInj : Prop :=
  ∀ a ∈ allNodes fs, ∀ b ∈ allNodes fs, NodeOK fs a → NodeOK fs b → sortKey fs a = sortKey fs b → a = b

instance : Decidable (KeyInj fs) := by unfold KeyInj; exact inferInstance

theorem NodeOK.mem_all (n : Node) (h : NodeOK fs n) : n ∈ allNodes fs := by
  cases n with
  | fn j => exact List.mem_append_left _ (List.mem_map.mpr ⟨j, List.mem_range.mpr h.1, rfl⟩)
  | root p =>
    obtain ⟨_, f, hf, q, hq, rfl⟩ := h
    exact List.mem_append_right _ (List.mem_flatMap.mpr ⟨f, hf, List.mem_map.mpr ⟨q, hq, rfl⟩⟩)

theorem KeyInj.inj (h : KeyInj fs) (a b : Node) (ha : NodeOK fs a) (hb : NodeOK fs b)
    (hk : sortKey fs a = sortKey fs b) : a = b :=
  h a (ha.mem_all fs) b (hb.mem_all fs) ha hb hk

theorem producer_none_idx (p : String) (h : producer fs p = none) : producerIdx fs p = none := by
  unfold producer at h; unfold producerIdx
  rw [List.findIdx?_eq_none_iff]
  rw [List.find?_eq_none] at h
  intro x hx; simpa using h x hx

theorem edgeArgs_mem (j c : Nat) (p : String) (h : EdgeTo fs j c p) : p ∈ edgeArgs fs j c := by
  obtain ⟨orig, hp, hb, hidx⟩ := h
  unfold edgeArgs
  exact List.mem_filterMap.mpr ⟨(p, orig), hp, by simp [hb, hidx]⟩

theorem preds_mem_fn (i j : Nat) (p orig : String) (hp : (p, orig) ∈ (funcAt fs i).params)
    (hb : alookup (funcAt fs i).bound p = none) (hidx : producerIdx fs p = some j) : .fn j ∈ preds fs i := by
  unfold preds
  exact List.mem_filterMap.mpr ⟨(p, orig), hp, by simp [hb, hidx]⟩

theorem preds_mem_root (i : Nat) (p orig : String) (hp : (p, orig) ∈ (funcAt fs i).params)
    (hb : alookup (funcAt fs i).bound p = none) (hidx : producerIdx fs p = none) : .root p ∈ preds fs i := by
  unfold preds
  exact List.mem_filterMap.mpr ⟨(p, orig), hp, by simp [hb, hidx]⟩

theorem namesOf_mem_root (deps : List Node) (consumers : List Nat) (p : String) (h : .root p ∈ deps) :
    p ∈ namesOf fs deps consumers := by
  unfold namesOf
  apply uniqueSorted_mem id p _ ?_ (fun y _ hy => hy)
  exact List.mem_flatMap.mpr ⟨.root p, h, by simp⟩

theorem namesOf_mem_fn (deps : List Node) (consumers : List Nat) (j c : Nat) (p : String) (h : .fn j ∈ deps)
    (hc : c ∈ consumers) (hp : p ∈ edgeArgs fs j c) : p ∈ namesOf fs deps consumers := by
  unfold namesOf
  apply uniqueSorted_mem id p _ ?_ (fun y _ hy => hy)
  exact List.mem_flatMap.mpr ⟨.fn j, h, List.mem_flatMap.mpr ⟨c, hc, hp⟩⟩

theorem Front.ok (hu : UniqueOut fs) (i0 : Nat) (h0 : ∃ q, producerIdx fs q = some i0) (E : List Nat)
    (hch : Chain fs i0 E) (d : Node) (h : Front fs E d) : NodeOK fs d := by
  cases d with
  | fn j =>
    obtain ⟨_, c, _, p, orig, _, _, hidx⟩ := h
    obtain ⟨hj, _, hpo, _⟩ := producerIdx_some fs hu p j hidx
    exact ⟨hj, p, hpo, hidx⟩
  | root p =>
    obtain ⟨hnone, c, hc, orig, hp, _⟩ := h
    obtain ⟨q, hq⟩ := hch.canon fs h0 c hc
    exact ⟨hnone, funcAt fs c, (producerIdx_some fs hu q c hq).2.1, (p, orig), hp, rfl⟩

/-! ### the complete invariant -/

/-- `c` is the name set of a *complete* frontier of an expanded set `E` -/
def CCut (i0 : Nat) (c : List String) : Prop :=
  ∃ E deps, Chain fs i0 E ∧ (∀ d ∈ deps, Front fs E d) ∧
    (∀ e ∈ E, ∀ d ∈ preds fs e, (∃ j, d = .fn j ∧ j ∈ E) ∨ d ∈ deps) ∧ c = namesOf fs deps E

theorem argMapping_ccut (hw : WFp fs rank) (hki : KeyInj fs) (i0 : Nat) (h0 : ∃ q, producerIdx fs q = some i0) :
    ∀ fuel node args replaced acc, Chain fs i0 (replaced ++ [node]) →
      (∀ d ∈ args, Front fs (replaced ++ [node]) d) →
      (∀ e ∈ replaced, ∀ d ∈ preds fs e, (∃ j, d = .fn j ∧ j ∈ replaced ++ [node]) ∨ d ∈ args) →
      (∀ c ∈ acc, CCut fs i0 c) →
      ∀ c ∈ argMapping fs fuel node args replaced acc, CCut fs i0 c := by
  intro fuel
  induction fuel with
  | zero => intro node args replaced acc _ _ _ hacc c hc; simp only [argMapping] at hc; exact hacc c hc
  | succ fuel ih =>
    intro node args replaced acc hch hfr hcp hacc c hc
    rw [argMapping_succ] at hc
    have hnode : funcAt fs node ∈ fs := by
      obtain ⟨q, hq⟩ := hch.canon fs h0 node (by simp)
      exact (producerIdx_some fs hw.uniq q node hq).2.1
    -- every node handed to `uniqueSorted` is a frontier node of `replaced ++ [node]`
    have keyL : ∀ d ∈ args ++ (preds fs node).filter (fun n =>
          match n with | .fn j => !(replaced.contains j) | .root _ => true), Front fs (replaced ++ [node]) d := by
      intro d hd
      rcases List.mem_append.mp hd with hd | hd
      · exact hfr d hd
      · obtain ⟨hpred, hcond⟩ := List.mem_filter.mp hd
        obtain ⟨p, orig, hp, hb, hcase⟩ := mem_preds fs node d hpred
        rcases hcase with ⟨j, hj, rfl⟩ | ⟨hnone, rfl⟩
        · have hedge : EdgeTo fs j node p := ⟨orig, hp, hb, hj⟩
          refine ⟨?_, node, by simp, p, hedge⟩
          intro hm
          rcases List.mem_append.mp hm with hm | hm
          · simp at hcond; exact hcond hm
          · simp at hm; exact edge_irrefl fs rank hw j node p hnode hedge hm
        · exact ⟨hnone, node, by simp, orig, hp, hb⟩
    have key : ∀ d ∈ uniqueSorted (sortKey fs) (args ++ (preds fs node).filter fun n =>
          match n with | .fn j => !(replaced.contains j) | .root _ => true), Front fs (replaced ++ [node]) d :=
      fun d hd => keyL d (mem_uniqueSorted _ d _ hd)
    -- … and none of them is lost
    have keep : ∀ d ∈ args ++ (preds fs node).filter (fun n =>
          match n with | .fn j => !(replaced.contains j) | .root _ => true),
        d ∈ uniqueSorted (sortKey fs) (args ++ (preds fs node).filter fun n =>
          match n with | .fn j => !(replaced.contains j) | .root _ => true) := by
      intro d hd
      apply uniqueSorted_mem _ d _ hd
      intro y hy hk
      exact hki.inj fs y d (Front.ok fs hw.uniq i0 h0 _ hch y (keyL y hy)) (Front.ok fs hw.uniq i0 h0 _ hch d (keyL d hd)) hk
    -- the frontier is complete for `replaced ++ [node]`
    have compl : ∀ e ∈ replaced ++ [node], ∀ d ∈ preds fs e, (∃ j, d = .fn j ∧ j ∈ replaced ++ [node]) ∨
        d ∈ uniqueSorted (sortKey fs) (args ++ (preds fs node).filter fun n =>
          match n with | .fn j => !(replaced.contains j) | .root _ => true) := by
      intro e he d hd
      rcases List.mem_append.mp he with he | he
      · rcases hcp e he d hd with h | h
        · exact Or.inl h
        · exact Or.inr (keep d (List.mem_append_left _ h))
      · simp at he; subst he
        cases d with
        | root p => exact Or.inr (keep _ (List.mem_append_right _ (List.mem_filter.mpr ⟨hd, rfl⟩)))
        | fn j =>
          by_cases hj : j ∈ replaced
          · exact Or.inl ⟨j, rfl, List.mem_append_left _ hj⟩
          · exact Or.inr (keep _ (List.mem_append_right _ (List.mem_filter.mpr ⟨hd, by simp [hj]⟩)))
    split at hc
    · exact hacc c hc
    · refine foldl_inv (fun acc => ∀ c ∈ acc, CCut fs i0 c) _ _ ?_ _ ?_ c hc
      · intro acc' hacc' d hd
        cases d with
        | root p => exact hacc'
        | fn j =>
          obtain ⟨hn, c', hc', p, hedge⟩ := key _ hd
          simp only
          apply ih j _ (replaced ++ [node]) acc' (Chain.snoc hch hc' hedge) ?_ ?_ hacc'
          · intro d' hd'
            obtain ⟨hd1, hd2⟩ := List.mem_filter.mp hd'
            exact Front.mono fs _ j d' (key d' hd1) (by simpa using hd2)
          · intro e he d' hd'
            rcases compl e he d' hd' with ⟨j', rfl, hj'⟩ | h
            · exact Or.inl ⟨j', rfl, List.mem_append_left _ hj'⟩
            · by_cases hdj : d' = .fn j
              · exact Or.inl ⟨j, hdj, by simp⟩
              · exact Or.inr (List.mem_filter.mpr ⟨h, by simpa using hdj⟩)
      · intro c' hc'
        rcases List.mem_append.mp hc' with hc' | hc'
        · exact hacc c' hc'
        · simp only [List.mem_singleton] at hc'
          exact ⟨_, _, hch, key, compl, hc'⟩

theorem argCombinations_ccut (hw : WFp fs rank) (hki : KeyInj fs) (o : String) (cs : List (List String))
    (h : argCombinations fs o = some cs) :
    ∃ i0, producerIdx fs o = some i0 ∧ ∀ c ∈ cs, CCut fs i0 c := by
  unfold argCombinations at h
  split at h
  · cases h
  · next i0 hi0 =>
    cases h
    refine ⟨i0, hi0, ?_⟩
    exact argMapping_ccut fs rank hw hki i0 ⟨o, hi0⟩ _ i0 [] [] [] (by simpa using Chain.base) (by simp) (by simp)
      (by simp)

end PF.Sweep.RootCut
