import PfModel.Model.MapPiecesReduced
/-! C06, round 4 — `reducedBy` by cases (helpers of `Props/C06Reduced.lean`). -/
namespace PF.Pieces
open PF PF.Map

theorem reducedBy_whole (g : MFunc) (p : String) (ax : List (Option String)) (hw : TakesWhole g p) :
    reducedBy g p ax = ax.filterMap id := by
  unfold reducedBy
  rw [if_pos hw.1]
  rcases hw.2 with h | ⟨ms, h, hs⟩
  · rw [h]
  · rw [h]; simp only [hs]

theorem reducedBy_listed (g : MFunc) (p : String) (ax : List (Option String)) (hp : g.params.any (·.1 = p) = true) (ms : MSpec)
    (hms : g.mapspec = some ms) (a : ASpec) (hs : ms.inputSpec p = some a) :
    reducedBy g p ax = (List.zip ax a.axes).filterMap fun (gs : Option String × Option String) => if gs.2.isNone then gs.1 else none := by
  unfold reducedBy
  rw [if_pos hp, hms]
  simp only [hs]

end PF.Pieces
