import PfModel.Lemmas.MapTotalRun
import PfModel.Lemmas.ValidateShapes
/-!
C01, clause "a valid request is never refused", the converse direction: `Conforms` splits into the part that speaks about
the *request* (`RequestOK`: the checks `run_map` performs before any function runs — complete inputs, no surplus input,
acyclic, root arrays given as arrays, `map_shapes` succeeds) and the part that speaks about the *description* being a
realisable pipeline of well-behaved functions (`DescOK`: unique function names, well-formed array values, every function
typed against the declared shape table, constructible).  Whenever the model of `Pipeline.map` answers, `RequestOK` holds —
no hypothesis; with `never_refused_with` this makes "answered" and `RequestOK` equivalent for every realisable description.
Uses the converse of `mapShapes_ok` proved for C12 (`Lemmas/ValidateShapes.lean`).
-/
namespace PF.C01
open PF PF.Map PF.Validate

/-- the clauses of `Conforms` about the request: one per check `run_map` performs before the first function runs -/
def RequestOK (fs : List MFunc) (inputs : List (String × Val)) (userInternal : List (String × List Nat)) : Bool :=
  inputsComplete fs inputs && noSurplus fs inputs && acyclic fs && rootArrays fs inputs
  && shapesOK (constructInternal fs userInternal) (generations fs).flatten (rootTbl fs inputs)

/-- the clauses of `Conforms` about the description: function names are unique (the model identifies functions by name),
    every given array holds `prod shape` elements of the recorded shape, every function is typed against the declared table
    (a mapped function's MapSpec inputs are recorded arrays whose named axes are output indices of the right size; a
    function called once returns arrays of exactly the declared shape), and the pipeline can be constructed -/
def DescOK (fs : List MFunc) (inputs : List (String × Val)) (userInternal : List (String × List Nat)) : Bool :=
  let Γ := declTbl fs inputs userInternal
  nodupB (fs.map (·.name)) && valuesTyped Γ inputs && valuesTyped Γ (pdefaults fs) && fs.all (funcTyped Γ) && constructible Γ fs

theorem conforms_split (fs : List MFunc) (inputs : List (String × Val)) (ui : List (String × List Nat)) :
    Conforms fs inputs ui = (RequestOK fs inputs ui && DescOK fs inputs ui) := by
  unfold Conforms RequestOK DescOK
  simp only []
  ac_rfl

/-- the converse of `validate_ok` -/
theorem validate_ok_conv (fs : List MFunc) (inputs : List (String × Val)) (u : Unit) (h : validateInputs fs inputs = .ok u) :
    inputsComplete fs inputs = true ∧ noSurplus fs inputs = true := by
  unfold validateInputs at h
  simp only [bind, Except.bind] at h
  cases e1 : (rootArgs fs).filter (fun r => !((akeys inputs ++ akeys (pdefaults fs)).contains r)) with
  | cons m t => rw [e1] at h; simp [throw, throwThe, MonadExceptOf.throw] at h
  | nil =>
    cases e2 : (akeys inputs ++ akeys (pdefaults fs)).filter (fun r => !((rootArgs fs).contains r)) with
    | cons m t => rw [e1, e2] at h; simp [throw, throwThe, MonadExceptOf.throw, pure, Except.pure] at h
    | nil =>
      constructor
      · unfold inputsComplete
        rw [List.all_eq_true]
        intro r hr
        have := List.filter_eq_nil_iff.mp e1 r hr
        cases hc : (akeys inputs ++ akeys (pdefaults fs)).contains r with
        | true => rfl
        | false => exact absurd (by rw [hc]; rfl) this
      · unfold noSurplus
        rw [List.all_eq_true]
        intro r hr
        have := List.filter_eq_nil_iff.mp e2 r hr
        cases hc : (rootArgs fs).contains r with
        | true => rfl
        | false => exact absurd (by rw [hc]; rfl) this

/-- **Whenever `run_map` answers, the request passed every check.**  No hypothesis on the description. -/
theorem answered_requestOK (arr : MFunc → List Nat → List Bool → (Nat → List (String × Val)) → String → Val)
    (fs : List MFunc) (inputs : List (String × Val)) (ui : List (String × List Nat)) (r : MapResult)
    (h : runMapWith arr fs inputs ui = .ok r) : RequestOK fs inputs ui = true := by
  unfold runMapWith at h
  simp only [bind, Except.bind] at h
  split at h
  · cases h
  · next u hv =>
    obtain ⟨h1, h2⟩ := validate_ok_conv fs inputs u hv
    split at h
    · cases h
    · next hac =>
      split at h
      · cases h
      · next sm hsm =>
        have hnr : ¬ Refused (mapShapes fs inputs (constructInternal fs ui)) := by
          rw [hsm]; exact not_refused_ok _
        rw [mapShapes_refused_iff] at hnr
        have h4 : rootArrays fs inputs = true := by
          cases hh : rootArrays fs inputs with
          | true => rfl
          | false => exact absurd (Or.inl hh) hnr
        have h5 : shapesOK (constructInternal fs ui) (generations fs).flatten (rootTbl fs inputs) = true := by
          cases hh : shapesOK (constructInternal fs ui) (generations fs).flatten (rootTbl fs inputs) with
          | true => rfl
          | false => exact absurd (Or.inr hh) hnr
        have h3 : acyclic fs = true := by
          unfold acyclic
          simpa using hac
        unfold RequestOK
        simp [h1, h2, h3, h4, h5]

/-- the first refusing check decides the error class: incomplete or surplus inputs and cycles are `ValueError`s -/
theorem refused_value_of_inputs (arr : MFunc → List Nat → List Bool → (Nat → List (String × Val)) → String → Val)
    (fs : List MFunc) (inputs : List (String × Val)) (ui : List (String × List Nat))
    (h : (inputsComplete fs inputs && noSurplus fs inputs && acyclic fs) = false) :
    ∃ why, runMapWith arr fs inputs ui = .error (.value why) := by
  unfold runMapWith
  simp only [bind, Except.bind]
  cases hv : validateInputs fs inputs with
  | error e =>
    -- `validateInputs` only throws `ValueError`s
    unfold validateInputs at hv
    simp only [bind, Except.bind] at hv
    cases e1 : (rootArgs fs).filter (fun r => !((akeys inputs ++ akeys (pdefaults fs)).contains r)) with
    | cons m t =>
      rw [e1] at hv
      simp only [throw, throwThe, MonadExceptOf.throw] at hv
      cases hv; exact ⟨_, rfl⟩
    | nil =>
      cases e2 : (akeys inputs ++ akeys (pdefaults fs)).filter (fun r => !((rootArgs fs).contains r)) with
      | cons m t =>
        rw [e1, e2] at hv
        simp only [throw, throwThe, MonadExceptOf.throw, pure, Except.pure] at hv
        cases hv; exact ⟨_, rfl⟩
      | nil => rw [e1, e2] at hv; simp [pure, Except.pure] at hv
  | ok u =>
    obtain ⟨h1, h2⟩ := validate_ok_conv fs inputs u hv
    simp only [h1, h2, Bool.true_and] at h
    have : (generations fs).flatten.length ≠ fs.length := by
      unfold acyclic at h
      simpa using h
    simp only [this, ne_eq, not_false_eq_true, ↓reduceIte]
    exact ⟨_, rfl⟩

end PF.C01
