import PfModel.Model.RewriteNestMap
/-! Lemmas for C10 round 4 (`Props/C10NestMap.lean`): the MapSpec-aware nest is the old nest on functions without MapSpecs;
    what an accepted `combineSpecs` guarantees. -/
namespace PF.Rw
open PF PF.Pipe

theorem all_isNone_of (S : List RFunc) (h : ∀ f ∈ S, f.mapspec = none) : (S.all fun f => f.mapspec.isNone) = true := by
  simp only [List.all_eq_true]; intro f hf; simp [h f hf]

theorem any_isSome_of (S : List RFunc) (h : ∀ f ∈ S, f.mapspec = none) : (S.any fun f => f.mapspec.isSome) = false := by
  simp only [List.any_eq_false]; intro f hf; simp [h f hf]

theorem combineSpecs_plain (S : List RFunc) (ps outs : List String) (h : ∀ f ∈ S, f.mapspec = none) :
    combineSpecs S ps outs = .ok none := by
  unfold combineSpecs; rw [if_pos (all_isNone_of S h)]

theorem mkNestM_plain (S : List RFunc) (out : Option (List String)) (h : ∀ f ∈ S, f.mapspec = none) :
    mkNestM S out = mkNest S out := by
  unfold mkNestM mkNest
  simp only [combineSpecs_plain S _ _ h, any_isSome_of S h, Bool.false_eq_true, if_false]
  rfl

theorem nestFuncsM_plain (sel : List String) (out : Option (List String)) (fs : List RFunc)
    (h : ∀ f ∈ fs, (sel.any fun o => f.core.outputs.contains o) = true → f.mapspec = none) :
    nestFuncsM sel out fs = nestFuncs sel out fs := by
  have hS : ∀ f ∈ fs.filter (fun f => sel.any fun o => f.core.outputs.contains o), f.mapspec = none := by
    intro f hf; obtain ⟨h1, h2⟩ := List.mem_filter.mp hf; exact h f h1 h2
  unfold nestFuncsM nestFuncs
  simp only [mkNestM_plain _ out hS]
  rfl

theorem buildNestsM_plain (l : List (List RFunc × List String)) (h : ∀ g ∈ l, ∀ f ∈ g.1, f.mapspec = none) :
    buildNestsM l = buildNests l := by
  induction l with
  | nil => rfl
  | cons a rest ih =>
    obtain ⟨g, outs⟩ := a
    have h1 := mkNestM_plain g (some outs) (h (g, outs) (by simp))
    have h2 := ih (fun g' hg' => h g' (by simp [hg']))
    simp only [buildNestsM, buildNests, h1, h2]
    rfl

theorem simplifyM_plain (o : String) (c : Bool) (fs : List RFunc) (h : ∀ f ∈ fs, f.mapspec = none) :
    simplifyM o c fs = simplify o c fs := by
  have hb : ∀ plan : List (List RFunc × List String),
      buildNestsM (plan.map fun (g, outs) => (fs.filter (fun f => g.any (sameF f)), outs)) =
      buildNests (plan.map fun (g, outs) => (fs.filter (fun f => g.any (sameF f)), outs)) := by
    intro plan
    apply buildNestsM_plain
    intro g hg f hf
    obtain ⟨a, _, rfl⟩ := List.mem_map.mp hg
    exact h f (List.mem_filter.mp hf).1
  unfold simplifyM simplify
  simp only [hb]
  rfl

theorem callVals_plain (fs : List RFunc) (h : ∀ f ∈ fs, f.body = none) : callVals fs = PF.Map.outVal := by
  funext mf args o
  unfold callVals
  have : fs.find? (fun f => f.body.isSome && f.core.name = mf.name) = none := by
    rw [List.find?_eq_none]; intro f hf; simp [h f hf]
  rw [this]

/-! ### an accepted combination -/

theorem mem_specMentions (S : List RFunc) (f : RFunc) (m : PF.Map.MSpec) (a : PF.Map.ASpec) (hf : f ∈ S) (hm : f.mapspec = some m)
    (ha : a ∈ m.inputs ++ m.outputs) : a ∈ specMentions S := by
  unfold specMentions
  rw [List.mem_flatMap]
  exact ⟨f, hf, by simp only [hm]; exact ha⟩

/-- no axes clash: every mention of an array carries THE axes of that array -/
theorem axes_of_noClash (S : List RFunc) (h : axesClash S = false) (f : RFunc) (m : PF.Map.MSpec) (a : PF.Map.ASpec) (hf : f ∈ S)
    (hm : f.mapspec = some m) (ha : a ∈ m.inputs ++ m.outputs) : nestAxesOf S a.name = some a.axes := by
  unfold axesClash at h
  rw [List.any_eq_false] at h
  have := h a (mem_specMentions S f m a hf hm ha)
  simpa using this

/-- no whole clash: a nested function lists every un-bound parameter that some MapSpec of the nest mentions -/
theorem listed_of_noWhole (S : List RFunc) (h : wholeClash S = false) (f : RFunc) (m : PF.Map.MSpec) (p : String) (hf : f ∈ S)
    (hm : f.mapspec = some m) (hp : p ∈ freeParams f) (hx : (nestAxesOf S p).isSome = true) : ∃ a ∈ m.inputs, a.name = p := by
  unfold wholeClash at h
  rw [List.any_eq_false] at h
  have := h f hf
  simp only [hm, List.any_eq_true, Bool.and_eq_true, Bool.not_eq_true', not_exists, not_and] at this
  have h2 := this p hp hx
  simp only [Bool.not_eq_false] at h2
  rw [List.any_eq_true] at h2
  obtain ⟨a, ha, hn⟩ := h2
  exact ⟨a, ha, by simpa using hn⟩

theorem findSome_none_all {α β} (l : List α) (g : α → Option β) (h : l.findSome? g = none) : ∀ x ∈ l, g x = none := by
  intro x hx
  rw [List.findSome?_eq_none_iff] at h
  exact h x hx

/-- what `_validate_combinable_mapspecs` passing means for one MapSpec -/
theorem combineCheck_none (first m : PF.Map.MSpec) (h : combineCheck first m = none) :
    sameSet m.inputIndices m.outputIndices = true ∧ sameSet m.inputIndices first.inputIndices = true ∧ m.outputIndices = first.outputIndices := by
  unfold combineCheck at h
  split at h
  · cases h
  · next h1 =>
    split at h
    · cases h
    · next h2 =>
      split at h
      · cases h
      · next h3 =>
        refine ⟨by simpa using h1, by simpa using h2, ?_⟩
        exact Classical.not_not.mp h3

/-- **Everything an accepted `_combine_mapspecs` checked.** -/
theorem combineSpecs_some (S : List RFunc) (ps outs : List String) (ms : PF.Map.MSpec) (h : combineSpecs S ps outs = .ok (some ms)) :
    (∀ f ∈ S, ∃ m, f.mapspec = some m) ∧
    (∃ first, (S.filterMap (·.mapspec)).head? = some first ∧
      ∀ f ∈ S, ∀ m, f.mapspec = some m → sameSet m.inputIndices m.outputIndices = true ∧ sameSet m.inputIndices first.inputIndices = true ∧
        m.outputIndices = first.outputIndices) ∧
    axesClash S = false ∧ wholeClash S = false ∧
    ms.inputs = (sortDedup ps).filterMap (fun p => (nestAxesOf S p).map fun ax => ⟨p, ax⟩) ∧
    ms.outputs = outs.map (fun o => ⟨o, (nestAxesOf S o).getD []⟩) := by
  unfold combineSpecs at h
  split at h
  · cases h
  · split at h
    · cases h
    · next hany =>
      have hall : ∀ f ∈ S, ∃ m, f.mapspec = some m := by
        intro f hf
        rw [Bool.not_eq_true, List.any_eq_false] at hany
        have := hany f hf
        cases hm : f.mapspec with
        | none => simp [hm] at this
        | some m => exact ⟨m, rfl⟩
      split at h
      · cases h
      · next first rest hfm =>
        split at h
        · cases h
        · next hfs =>
          split at h
          · cases h
          · next hax =>
            split at h
            · cases h
            · next hwh =>
              injection h with h; injection h with h
              refine ⟨hall, ⟨first, by rw [hfm]; rfl, ?_⟩, by simpa using hax, by simpa using hwh, by rw [← h], by rw [← h]⟩
              intro f hf m hm
              have hmem : m ∈ first :: rest := by
                rw [← hfm, List.mem_filterMap]; exact ⟨f, hf, hm⟩
              exact combineCheck_none first m (findSome_none_all _ _ hfs m hmem)

end PF.Rw
