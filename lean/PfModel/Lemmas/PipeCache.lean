import PfModel.Model.PipeCache
import PfModel.Lemmas.Pipeline
/-! Helper lemmas for `Props/C09.lean`: the reachable-name set, "equal keys ⇒ equal composition" and the invariant of the
    cached run. -/
namespace PF.PipeCache
open PF PF.Pipe

/-! ### `reach` -/

theorem mem_reach_succ (fs : List Func) (n : Nat) (o x : String) :
    x ∈ reach fs (n+1) o ↔ ∃ f, producer fs o = some f ∧ ∃ pq ∈ f.params, alookup f.bound pq.1 = none ∧ (x = pq.1 ∨ x ∈ reach fs n pq.1) := by
  simp only [reach]
  cases hp : producer fs o with
  | none => simp
  | some f =>
    simp only [List.mem_flatMap, Option.some.injEq, exists_eq_left']
    constructor
    · rintro ⟨pq, hpq, hx⟩
      cases hb : alookup f.bound pq.1 with
      | some w => simp [hb] at hx
      | none =>
        simp [hb] at hx
        exact ⟨pq, hpq, hb, hx⟩
    · rintro ⟨pq, hpq, hb, hx⟩
      refine ⟨pq, hpq, ?_⟩
      simp [hb]
      exact hx

theorem reach_none (fs : List Func) (n : Nat) (o : String) (h : producer fs o = none) : reach fs n o = [] := by
  cases n with
  | zero => rfl
  | succ n => simp [reach, h]

theorem reach_mono_step (fs : List Func) : ∀ n o x, x ∈ reach fs n o → x ∈ reach fs (n+1) o := by
  intro n
  induction n with
  | zero => intro o x h; simp [reach] at h
  | succ n ih =>
    intro o x h
    rw [mem_reach_succ] at h ⊢
    obtain ⟨f, hf, pq, hpq, hb, hx⟩ := h
    refine ⟨f, hf, pq, hpq, hb, ?_⟩
    rcases hx with hx | hx
    · exact Or.inl hx
    · exact Or.inr (ih _ _ hx)

theorem reach_mono (fs : List Func) {n m : Nat} (hnm : n ≤ m) (o x : String) (h : x ∈ reach fs n o) : x ∈ reach fs m o := by
  induction hnm with
  | refl => exact h
  | step _ ih => exact reach_mono_step fs _ o x ih

/-- a rank that strictly decreases along every (non-bound) produced parameter: the graph is acyclic -/
def Ranked (fs : List Func) (rank : String → Nat) : Prop :=
  ∀ o f, producer fs o = some f → ∀ pq ∈ f.params, alookup f.bound pq.1 = none → (producer fs pq.1).isSome → rank pq.1 < rank o

theorem reach_ranked (fs : List Func) (rank : String → Nat) (hr : Ranked fs rank) :
    ∀ n o x, x ∈ reach fs n o → x ∈ reach fs (rank o + 1) o := by
  intro n
  induction n with
  | zero => intro o x h; simp [reach] at h
  | succ n ih =>
    intro o x h
    rw [mem_reach_succ] at h ⊢
    obtain ⟨f, hf, pq, hpq, hb, hx⟩ := h
    refine ⟨f, hf, pq, hpq, hb, ?_⟩
    rcases hx with hx | hx
    · exact Or.inl hx
    · right
      cases hp : producer fs pq.1 with
      | none => rw [reach_none fs n _ hp] at hx; cases hx
      | some g =>
        have hlt := hr o f hf pq hpq hb (by simp [hp])
        exact reach_mono fs (by omega) _ _ (ih _ _ hx)

theorem reach_congr (fs : List Func) (n : Nat) (o o' : String) (h : producer fs o = producer fs o') :
    reach fs n o = reach fs n o' := by
  cases n with
  | zero => rfl
  | succ n => simp only [reach, h]

theorem mem_insertU (a x : String) (l : List String) : a ∈ insertU x l ↔ a = x ∨ a ∈ l := by
  induction l with
  | nil => simp [insertU]
  | cons y ys ih =>
    simp only [insertU]
    split
    · simp
    · split
      · next e => subst e; simp
      · simp only [List.mem_cons, ih]
        constructor
        · rintro (h | h | h)
          · exact Or.inr (Or.inl h)
          · exact Or.inl h
          · exact Or.inr (Or.inr h)
        · rintro (h | h | h)
          · exact Or.inr (Or.inl h)
          · exact Or.inl h
          · exact Or.inr (Or.inr h)

theorem mem_normNames (a : String) (l : List String) : a ∈ normNames l ↔ a ∈ l := by
  induction l with
  | nil => simp [normNames]
  | cons y ys ih =>
    simp only [normNames, List.foldr_cons, List.mem_cons] at ih ⊢
    rw [mem_insertU, ih]

/-! ### equal effective arguments give equal compositions -/

/-- the value a non-bound consumer receives for a root argument -/
def eff (fs : List Func) (kw : List (String × Val)) (x : String) : Option Val :=
  match alookup kw x with
  | some v => some v
  | none => pdefault fs x

/-- two keyword sets are interchangeable at the name `x`: a produced name is supplied by neither, a root name has the
    same effective value -/
def AgreeAt (fs : List Func) (kw kw' : List (String × Val)) (x : String) : Prop :=
  ((producer fs x).isSome → alookup kw x = none ∧ alookup kw' x = none) ∧ (producer fs x = none → eff fs kw x = eff fs kw' x)

theorem resolve_agree (fs : List Func) (kw kw' : List (String × Val)) (f : Func) (p : String)
    (h : alookup f.bound p = none → AgreeAt fs kw kw' p) : resolve fs kw f p = resolve fs kw' f p := by
  unfold resolve
  cases hb : alookup f.bound p with
  | some v => rfl
  | none =>
    obtain ⟨h1, h2⟩ := h hb
    cases hp : producer fs p with
    | some g =>
      obtain ⟨a, b⟩ := h1 (by simp [hp])
      simp [a, b]
    | none =>
      have e := h2 hp
      unfold eff at e
      cases ha : alookup kw p <;> cases hb' : alookup kw' p <;> simp only [ha, hb'] at e ⊢
      · rw [e]
      · rw [← e]
      · injection e with e; rw [e]

theorem composeArgs_agree (fs : List Func) (kw kw' : List (String × Val)) (f : Func) (r r' : String → Except Err Val) :
    ∀ ps : List (String × String), (∀ pq ∈ ps, alookup f.bound pq.1 = none → AgreeAt fs kw kw' pq.1 ∧ r pq.1 = r' pq.1) →
      composeArgsWith r fs kw f ps = composeArgsWith r' fs kw' f ps := by
  intro ps
  induction ps with
  | nil => intro _; simp [composeArgsWith]
  | cons pq ps ih =>
    obtain ⟨p, orig⟩ := pq
    intro h
    have hres : resolve fs kw f p = resolve fs kw' f p :=
      resolve_agree fs kw kw' f p (fun hb => (h (p, orig) (by simp) hb).1)
    have ih' := ih (fun pq hpq => h pq (List.mem_cons_of_mem _ hpq))
    simp only [composeArgsWith, ← hres, ih']
    cases hr : resolve fs kw f p with
    | missing => rfl
    | val v => rfl
    | upstream =>
      have hb : alookup f.bound p = none := by
        unfold resolve at hr
        cases hb : alookup f.bound p with
        | some v => simp [hb] at hr
        | none => rfl
      simp only [(h (p, orig) (by simp) hb).2]

theorem compose_agree (fs : List Func) (kw kw' : List (String × Val)) :
    ∀ n o, (∀ x ∈ reach fs n o, AgreeAt fs kw kw' x) → compose fs kw n o = compose fs kw' n o := by
  intro n
  induction n with
  | zero => intro o _; simp [compose]
  | succ n ih =>
    intro o h
    rw [compose_succ, compose_succ]
    cases hf : producer fs o with
    | none => rfl
    | some f =>
      have : composeArgsWith (compose fs kw n) fs kw f f.params = composeArgsWith (compose fs kw' n) fs kw' f f.params := by
        apply composeArgs_agree
        intro pq hpq hb
        refine ⟨h _ ((mem_reach_succ fs n o _).mpr ⟨f, hf, pq, hpq, hb, Or.inl rfl⟩), ?_⟩
        apply ih
        intro x hx
        exact h _ ((mem_reach_succ fs n o _).mpr ⟨f, hf, pq, hpq, hb, Or.inr hx⟩)
      simp only [this]


/-! ### equal keys give equal compositions -/

theorem producer_mem (fs : List Func) (o : String) (f : Func) (h : producer fs o = some f) : f ∈ fs ∧ o ∈ f.outputs := by
  unfold producer at h
  exact ⟨List.mem_of_find?_eq_some h, by simpa using List.find?_some h⟩

/-- well-formedness of a pipeline, as `Pipeline._validate` establishes it: unique output names, consistent defaults,
    acyclic (with a depth the fuel covers) -/
structure WF (fs : List Func) (rank : String → Nat) : Prop where
  uniq : UniqueOut fs
  cons : ConsistentDefaults fs
  ranked : Ranked fs rank
  depth : ∀ o, rank o < fuelFor fs

theorem reach_sub_all (fs : List Func) (rank : String → Nat) (wf : WF fs rank) (n : Nat) (o x : String)
    (h : x ∈ reach fs n o) : x ∈ reachAll fs o := by
  have h1 := reach_ranked fs rank wf.ranked n o x h
  have := wf.depth o
  exact reach_mono fs (by omega) o x h1

theorem collect_agree {H} (h : Val → H) (hinj : ∀ a b, h a = h b → a = b) (v v' : String → Option Val) :
    ∀ xs it, collect v h xs = some it → collect v' h xs = some it → ∀ x ∈ xs, ∃ a, v x = some a ∧ v' x = some a := by
  intro xs
  induction xs with
  | nil => intro it _ _ x hx; cases hx
  | cons y ys ih =>
    intro it h1 h2 x hx
    simp only [collect] at h1 h2
    cases hv : v y with
    | none => simp [hv] at h1
    | some a =>
      cases hv' : v' y with
      | none => simp [hv'] at h2
      | some b =>
        simp only [hv] at h1
        simp only [hv'] at h2
        cases hc : collect v h ys with
        | none => simp [hc] at h1
        | some r =>
          cases hc' : collect v' h ys with
          | none => simp [hc'] at h2
          | some r' =>
            simp only [hc, Option.some.injEq] at h1
            simp only [hc', Option.some.injEq] at h2
            rw [← h2] at h1
            simp only [List.cons.injEq, Prod.mk.injEq, true_and] at h1
            rcases List.mem_cons.mp hx with hx | hx
            · subst hx; exact ⟨a, hv, by rw [hv', hinj a b h1.1]⟩
            · exact ih r hc (by rw [hc', h1.2]) x hx

theorem alookup_filterMap_pd (fs : List Func) (ps : List (String × String)) (x : String) (v : Val) :
    alookup (ps.filterMap fun pq => (pdefault fs pq.1).map fun v => (pq.1, v)) x = some v → pdefault fs x = some v := by
  induction ps with
  | nil => intro h; simp [alookup] at h
  | cons pq ps ih =>
    intro h
    simp only [List.filterMap_cons] at h
    cases hd : pdefault fs pq.1 with
    | none => simp only [hd, Option.map_none] at h; exact ih h
    | some w =>
      simp only [hd, Option.map_some, alookup] at h
      split at h
      · next e => rw [← e, hd]; exact h
      · exact ih h

theorem funcDefaults_root (fs : List Func) (hc : ConsistentDefaults fs) (f : Func) (hf : f ∈ fs) (x : String) (v : Val)
    (hx : producer fs x = none) (h : alookup (funcDefaults fs f) x = some v) : pdefault fs x = some v := by
  unfold funcDefaults at h
  rw [alookup_append] at h
  split at h
  · next w hw => injection h with h; subst h; exact alookup_filterMap_pd fs f.params x w hw
  · have hm := alookup_some_mem _ _ _ h
    rw [List.mem_filter] at hm
    exact (pdefault_eq_some_iff fs hc x v).mpr ((mem_pdefaults fs x v).mpr ⟨f, hf, hm.1, hm.2, by simp [hx]⟩)

theorem keyView_eff (fs : List Func) (hc : ConsistentDefaults fs) (f : Func) (hf : f ∈ fs) (kw : List (String × Val)) (x : String)
    (v : Val) (hx : producer fs x = none) (h : keyView fs f kw x = some v) : eff fs kw x = some v := by
  unfold keyView at h
  unfold eff
  cases ha : alookup kw x with
  | some w => simpa [ha] using h
  | none => simp only [ha] at h ⊢; exact funcDefaults_root fs hc f hf x v hx h

theorem not_supplied (fs : List Func) (kw : List (String × Val)) (o x : String) (g : Func)
    (h : intermediateSupplied fs kw o = false) (hx : x ∈ reachAll fs o) (hg : producer fs x = some g) : alookup kw x = none := by
  cases ha : alookup kw x with
  | none => rfl
  | some w =>
    exfalso
    have hk : x ∈ akeys kw := by
      have := alookup_some_mem _ _ _ ha
      simp only [akeys, List.mem_map]
      exact ⟨(x, w), this, rfl⟩
    have hu : x ∈ upstreamOutputs fs o := by
      simp only [upstreamOutputs, List.mem_flatMap]
      exact ⟨x, hx, by simp only [hg]; exact (producer_mem fs x g hg).2⟩
    have : intermediateSupplied fs kw o = true := by
      simp only [intermediateSupplied, List.any_eq_true]
      exact ⟨x, hk, by simpa using hu⟩
    rw [h] at this
    cases this

theorem computeKey_some {H} (h : Val → H) (fs : List Func) (kw : List (String × Val)) (f : Func) (o : String) (K : Key H)
    (hk : computeKey h fs kw f o = some K) :
    intermediateSupplied fs kw o = false ∧ collect (keyView fs f kw) h (rootsOf fs o) = some K.items ∧ K.outs = f.outputs := by
  unfold computeKey at hk
  cases hi : intermediateSupplied fs kw o with
  | true => simp [hi] at hk
  | false =>
    simp only [hi, Bool.false_eq_true, ↓reduceIte] at hk
    cases hc : collect (keyView fs f kw) h (rootsOf fs o) with
    | none => simp [hc] at hk
    | some items =>
      simp only [hc, Option.some.injEq] at hk
      subst hk
      exact ⟨rfl, rfl, rfl⟩

theorem key_agree {H} (h : Val → H) (hinj : ∀ a b, h a = h b → a = b) (fs : List Func) (hc : ConsistentDefaults fs)
    (f : Func) (hf : f ∈ fs) (kw kw' : List (String × Val)) (o : String) (K : Key H)
    (h1 : computeKey h fs kw f o = some K) (h2 : computeKey h fs kw' f o = some K) :
    ∀ x ∈ reachAll fs o, AgreeAt fs kw kw' x := by
  obtain ⟨i1, c1, _⟩ := computeKey_some h fs kw f o K h1
  obtain ⟨i2, c2, _⟩ := computeKey_some h fs kw' f o K h2
  intro x hx
  constructor
  · intro hp
    obtain ⟨g, hg⟩ := Option.isSome_iff_exists.mp hp
    exact ⟨not_supplied fs kw o x g i1 hx hg, not_supplied fs kw' o x g i2 hx hg⟩
  · intro hp
    have hr : x ∈ rootsOf fs o := by
      simp only [rootsOf, mem_normNames, List.mem_filter]
      exact ⟨hx, by simp [hp]⟩
    obtain ⟨a, ha, ha'⟩ := collect_agree h hinj _ _ _ _ c1 c2 x hr
    rw [keyView_eff fs hc f hf kw x a hp ha, keyView_eff fs hc f hf kw' x a hp ha']

theorem key_sound {H} (h : Val → H) (hinj : ∀ a b, h a = h b → a = b) (fs : List Func) (rank : String → Nat) (wf : WF fs rank)
    (f : Func) (hf : f ∈ fs) (kw kw' : List (String × Val)) (o : String) (K : Key H)
    (h1 : computeKey h fs kw f o = some K) (h2 : computeKey h fs kw' f o = some K) (n : Nat) :
    compose fs kw n o = compose fs kw' n o := by
  apply compose_agree
  intro x hx
  exact key_agree h hinj fs wf.cons f hf kw kw' o K h1 h2 x (reach_sub_all fs rank wf n o x hx)

theorem computeKey_congr_out {H} (h : Val → H) (fs : List Func) (kw : List (String × Val)) (f : Func) (o o' : String)
    (hp : producer fs o = producer fs o') : computeKey h fs kw f o = computeKey h fs kw f o' := by
  unfold computeKey intermediateSupplied upstreamOutputs rootsOf reachAll
  rw [reach_congr fs _ o o' hp]

/-! ### cached raw results -/

theorem zip_map_self {α β} (g : α → β) (l : List α) : l.zip (l.map g) = l.map fun x => (x, g x) := by
  induction l with
  | nil => rfl
  | cons a as ih => simp [ih]

theorem unpack_result (f : Func) (args : List (String × Val)) : unpack f (result f args) = outVals f args := by
  unfold unpack result outVals
  rcases hos : f.outputs with _ | ⟨a, _ | ⟨b, bs⟩⟩ <;> simp [zip_map_self]

theorem unpack_keys (f : Func) (r : Val) (p : String) (w : Val) (h : alookup (unpack f r) p = some w) : p ∈ f.outputs := by
  unfold unpack at h
  split at h
  · next o ho => simp only [alookup] at h; split at h <;> simp_all
  · split at h
    · next vs =>
      have hm := alookup_some_mem _ _ _ h
      exact (List.of_mem_zip hm).1
    · simp [alookup] at h

theorem outVals_has (f : Func) (args : List (String × Val)) (p : String) (hp : p ∈ f.outputs) :
    ∃ w, alookup (outVals f args) p = some w := by
  unfold outVals
  split
  · next o ho => rw [ho] at hp; simp at hp; subst hp; exact ⟨Val.app f.name args, by simp [alookup]⟩
  · generalize f.outputs = os at hp
    induction os with
    | nil => cases hp
    | cons a as ih =>
      simp only [List.map, alookup]
      split
      · exact ⟨_, rfl⟩
      · next ne =>
        rcases List.mem_cons.mp hp with e | e
        · exact absurd e.symm ne
        · exact ih e

theorem composeArgs_det (fs : List Func) (kw : List (String × Val)) (f : Func) (ps : List (String × String)) (k k' : Nat)
    (a a' : List (String × Val)) (h : composeArgsWith (compose fs kw k) fs kw f ps = .ok a)
    (h' : composeArgsWith (compose fs kw k') fs kw f ps = .ok a') : a = a' := by
  have m1 := composeArgsWith_mono fs kw (compose fs kw k) (compose fs kw (max k k'))
    (fun o v hv => compose_mono fs kw (Nat.le_max_left k k') hv) f ps a h
  have m2 := composeArgsWith_mono fs kw (compose fs kw k') (compose fs kw (max k k'))
    (fun o v hv => compose_mono fs kw (Nat.le_max_right k k') hv) f ps a' h'
  rw [m1] at m2
  injection m2

/-- a resident entry is right: whatever call computes this key for a function, the composition (if it exists) is what
    the stored raw result unpacks to -/
def Valid {H} (h : Val → H) (fs : List Func) (K : Key H) (r : Val) : Prop :=
  ∀ f o kw k v, producer fs o = some f → computeKey h fs kw f o = some K → compose fs kw k o = .ok v →
    alookup (unpack f r) o = some v

theorem valid_put {H} (h : Val → H) (hinj : ∀ a b, h a = h b → a = b) (fs : List Func) (rank : String → Nat) (wf : WF fs rank)
    (f : Func) (o : String) (kw : List (String × Val)) (K : Key H) (k0 : Nat) (args : List (String × Val))
    (hp : producer fs o = some f) (hk : computeKey h fs kw f o = some K)
    (ha : composeArgsWith (compose fs kw k0) fs kw f f.params = .ok args) : Valid h fs K (result f args) := by
  intro f' o' kw' k v hp' hk' hc'
  obtain ⟨hf, ho⟩ := producer_mem fs o f hp
  obtain ⟨hf', ho'⟩ := producer_mem fs o' f' hp'
  have e1 := (computeKey_some h fs kw f o K hk).2.2
  have e2 := (computeKey_some h fs kw' f' o' K hk').2.2
  have hff : f = f' := wf.uniq f hf f' hf' o ho (by rw [← e2, e1]; exact ho)
  subst hff
  have hko : computeKey h fs kw f o' = some K := by
    rw [computeKey_congr_out h fs kw f o' o (by rw [hp, hp'])]; exact hk
  have hs := key_sound h hinj fs rank wf f hf kw kw' o' K hko hk' k
  rw [← hs] at hc'
  cases k with
  | zero => simp [compose] at hc'
  | succ k =>
    rw [compose_succ, hp'] at hc'
    simp only at hc'
    split at hc'
    · cases hc'
    · next args' ha' =>
      have := composeArgs_det fs kw f f.params k0 k args args' ha ha'
      subst this
      rw [unpack_result]
      split at hc'
      · next w hw => injection hc' with e; rw [← e]; exact hw
      · cases hc'


/-! ### the cached run computes the composition -/

theorem alookup_append_right_isSome {β} (l1 l2 : List (String × β)) (x : String) (h : (alookup l2 x).isSome) :
    (alookup (l1 ++ l2) x).isSome := by
  rw [alookup_append]
  split
  · rfl
  · exact h

theorem resolve_upstream (fs : List Func) (kw : List (String × Val)) (f : Func) (p : String)
    (h : resolve fs kw f p = .upstream) : alookup f.bound p = none ∧ alookup kw p = none ∧ (producer fs p).isSome := by
  unfold resolve at h
  cases hb : alookup f.bound p with
  | some v => simp [hb] at h
  | none =>
    cases hk : alookup kw p with
    | some v => simp [hb, hk] at h
    | none =>
      cases hp : producer fs p with
      | some g => exact ⟨rfl, rfl, rfl⟩
      | none =>
        simp only [hb, hk, hp] at h
        split at h <;> cases h

theorem lookupC_some {H C} (P : Policy H C) (key : Option (Key H)) (c : C) (K : Key H) (r : Val) (c' : C)
    (h : lookupC P key c = some (K, r, c')) : key = some K ∧ P.get c K = some (r, c') := by
  unfold lookupC at h
  cases key with
  | none => cases h
  | some k =>
    simp only at h
    cases hg : P.get c k with
    | none => simp [hg] at h
    | some rc =>
      obtain ⟨r0, c0⟩ := rc
      simp only [hg, Option.some.injEq, Prod.mk.injEq] at h
      obtain ⟨rfl, rfl, rfl⟩ := h
      exact ⟨rfl, hg⟩

section Run
variable {H C : Type} (P : Policy H C) (h : Val → H) (cached : Func → Bool)
  (fs : List Func) (rank : String → Nat) (kw : List (String × Val)) (full : Bool)

/-- every memo entry that is not a keyword argument is the specification's value -/
def GoodC (s : CSt H C) : Prop :=
  ∀ p v, alookup kw p = none → alookup s.memo p = some v → ∃ k, compose fs kw k p = .ok v

/-- **the invariant of C09**: every resident entry is right for the pipeline as it is now -/
def Inv (c : C) : Prop := ∀ K r, P.res c K = some r → Valid h fs K r

def MemoMono (s s' : CSt H C) : Prop := ∀ x, (alookup s.memo x).isSome → (alookup s'.memo x).isSome

def Post (s s' : CSt H C) : Prop := GoodC fs kw s' ∧ Inv P h fs s'.cache ∧ MemoMono s s'

def RecC (n : Nat) (r : String → CSt H C → Except Err (Val × CSt H C)) : Prop :=
  ∀ p s k w, alookup kw p = none → compose fs kw k p = .ok w → rank p < n → GoodC fs kw s → Inv P h fs s.cache →
    ∃ s', r p s = .ok (w, s') ∧ Post P h fs kw s s'

theorem runC_succ (ck : List (String × Val) → Func → String → Option (Key H)) (n : Nat) (o : String) (s : CSt H C) :
    runC P cached ck fs kw full (n+1) o s =
    match alookup s.memo o with
    | some v => .ok (v, s)
    | none =>
      match producer fs o with
      | none => .error (.noFunc o)
      | some f =>
        match lookupC P (if cached f then ck kw f o else none) s.cache with
        | some (k, r, c') =>
          if full then
            match argsWithC (runC P cached ck fs kw full n) fs kw f f.params
                { s with memo := unpack f r ++ s.memo, cache := c', hits := s.hits ++ [k] } with
            | .error e => .error e
            | .ok (_, s2) =>
              match alookup s2.memo o with
              | some v => .ok (v, s2)
              | none => .error (.noFunc o)
          else
            match alookup (unpack f r ++ s.memo) o with
            | some v => .ok (v, { s with memo := unpack f r ++ s.memo, cache := c', hits := s.hits ++ [k], hit := true })
            | none => .error (.noFunc o)
        | none =>
          match argsWithC (runC P cached ck fs kw full n) fs kw f f.params s with
          | .error e => .error e
          | .ok (args, s') =>
            match alookup (outVals f args) o with
            | some v => .ok (v, { s' with memo := outVals f args ++ s'.memo, calls := s'.calls ++ [f.name],
                                          cache := storeC P (if cached f then ck kw f o else none) s'.cache (result f args),
                                          puts := logPut (if cached f then ck kw f o else none) s'.puts })
            | none => .error (.noFunc o) := by
  rw [runC]; rfl

theorem argsWithC_complete (wf : WF fs rank) (n : Nat) (r : String → CSt H C → Except Err (Val × CSt H C))
    (hr : RecC P h fs rank kw n r) (f : Func) (o : String) (hf : producer fs o = some f) (ho : rank o < n + 1) :
    ∀ ps : List (String × String), (∀ pq ∈ ps, pq ∈ f.params) → ∀ s k args,
      composeArgsWith (compose fs kw k) fs kw f ps = .ok args → GoodC fs kw s → Inv P h fs s.cache →
      ∃ s', argsWithC r fs kw f ps s = .ok (args, s') ∧ Post P h fs kw s s' := by
  intro ps
  induction ps with
  | nil =>
    intro _ s k args hc hg hi
    simp only [composeArgsWith, Except.ok.injEq] at hc
    subst hc
    exact ⟨s, by simp [argsWithC], hg, hi, fun x hx => hx⟩
  | cons pq ps ih =>
    obtain ⟨p, orig⟩ := pq
    intro hsub s k args hc hg hi
    have hsub' : ∀ pq ∈ ps, pq ∈ f.params := fun pq hpq => hsub pq (List.mem_cons_of_mem _ hpq)
    simp only [composeArgsWith] at hc
    simp only [argsWithC]
    cases hres : resolve fs kw f p with
    | missing => simp [hres] at hc
    | val v =>
      simp only [hres] at hc ⊢
      cases hrest : composeArgsWith (compose fs kw k) fs kw f ps with
      | error e => simp [hrest] at hc
      | ok rest =>
        simp only [hrest, Except.ok.injEq] at hc
        subst hc
        obtain ⟨s', hs', hp1, hp2, hp3⟩ := ih hsub' { s with used := s.used ++ [p] } k rest hrest hg hi
        exact ⟨s', by simp [hs'], hp1, hp2, hp3⟩
    | upstream =>
      simp only [hres] at hc ⊢
      obtain ⟨hb, hkp, hpp⟩ := resolve_upstream fs kw f p hres
      cases hcp : compose fs kw k p with
      | error e => simp [hcp] at hc
      | ok v =>
        simp only [hcp] at hc
        cases hrest : composeArgsWith (compose fs kw k) fs kw f ps with
        | error e => simp [hrest] at hc
        | ok rest =>
          simp only [hrest, Except.ok.injEq] at hc
          subst hc
          have hlt : rank p < n := by
            have := wf.ranked o f hf (p, orig) (hsub _ (by simp)) hb hpp
            simp only at this
            omega
          obtain ⟨s1, hs1, hg1, hi1, hm1⟩ := hr p s k v hkp hcp hlt hg hi
          obtain ⟨s', hs', hp1, hp2, hp3⟩ := ih hsub' { s1 with used := s1.used ++ [p] } k rest hrest hg1 hi1
          exact ⟨s', by simp [hs1, hs'], hp1, hp2, fun x hx => hp3 x (hm1 x hx)⟩


theorem producer_of_mem (wf : WF fs rank) (f : Func) (hf : f ∈ fs) (q : String) (hq : q ∈ f.outputs) : producer fs q = some f :=
  (producer_some_iff fs wf.uniq q f).mpr ⟨hf, hq⟩

/-- all outputs of one evaluation of `f` are the composition's values -/
theorem outputs_compose (wf : WF fs rank) (f : Func) (hf : f ∈ fs) (k : Nat) (args : List (String × Val))
    (ha : composeArgsWith (compose fs kw k) fs kw f f.params = .ok args) (q : String) (w : Val)
    (hq : alookup (outVals f args) q = some w) : compose fs kw (k+1) q = .ok w := by
  have hqm : q ∈ f.outputs := outVals_mem f args q w hq
  rw [compose_succ, producer_of_mem fs rank wf f hf q hqm]
  simp [ha, hq]

theorem runC_complete (hinj : ∀ a b, h a = h b → a = b) (wf : WF fs rank) :
    ∀ n, RecC P h fs rank kw n (runC P cached (computeKey h fs) fs kw full n) := by
  intro n
  induction n with
  | zero => intro p s k w _ _ hr; omega
  | succ n ihn =>
    intro p s k w hkp hc hr hg hi
    rw [runC_succ]
    cases hm : alookup s.memo p with
    | some w' =>
      obtain ⟨k', hk'⟩ := hg p w' hkp hm
      have := compose_det fs kw hk' hc
      subst this
      exact ⟨s, rfl, hg, hi, fun x hx => hx⟩
    | none =>
      simp only
      cases k with
      | zero => simp [compose] at hc
      | succ k =>
        have hc0 := hc
        rw [compose_succ] at hc
        cases hf : producer fs p with
        | none => simp [hf] at hc
        | some f =>
          obtain ⟨hfm, hpo⟩ := producer_mem fs p f hf
          simp only [hf] at hc ⊢
          cases hargs : composeArgsWith (compose fs kw k) fs kw f f.params with
          | error e => simp [hargs] at hc
          | ok args =>
            simp only [hargs] at hc
            cases hov : alookup (outVals f args) p with
            | none => simp [hov] at hc
            | some w0 =>
              simp only [hov, Except.ok.injEq] at hc
              subst hc
              have hkey : ∀ K, (if cached f then computeKey h fs kw f p else none) = some K → computeKey h fs kw f p = some K := by
                intro K hK
                cases hcf : cached f <;> simp [hcf] at hK
                exact hK
              generalize (if cached f then computeKey h fs kw f p else none) = key at hkey ⊢
              have hall : ∀ q w, alookup (outVals f args) q = some w → compose fs kw (k+1) q = .ok w :=
                outputs_compose fs rank kw wf f hfm k args hargs
              cases hl : lookupC P key s.cache with
              | some hit =>
                obtain ⟨K, r, c'⟩ := hit
                obtain ⟨hK, hget⟩ := lookupC_some P key s.cache K r c' hl
                have hck := hkey K hK
                have hvalid : Valid h fs K r := hi K r (P.get_res _ _ _ _ hget)
                have hv : alookup (unpack f r) p = some w0 := hvalid f p kw (k+1) w0 hf hck hc0
                have hi1 : Inv P h fs c' := fun K' r' hr' => hi K' r' (P.get_sub _ _ _ _ hget K' r' hr')
                have hmemo1 : alookup (unpack f r ++ s.memo) p = some w0 := by rw [alookup_append, hv]
                have hg1 : ∀ q v, alookup kw q = none → alookup (unpack f r ++ s.memo) q = some v → ∃ k, compose fs kw k q = .ok v := by
                  intro q v hq hqm
                  rw [alookup_append] at hqm
                  split at hqm
                  · next v' hv' =>
                    injection hqm with e; subst e
                    have hqo := unpack_keys f r q v' hv'
                    have hpq := producer_of_mem fs rank wf f hfm q hqo
                    obtain ⟨w', hw'⟩ := outVals_has f args q hqo
                    have hcq := hall q w' hw'
                    have hckq : computeKey h fs kw f q = some K := by
                      rw [computeKey_congr_out h fs kw f q p (by rw [hpq, hf])]; exact hck
                    have := hvalid f q kw (k+1) w' hpq hckq hcq
                    rw [hv'] at this
                    injection this with e
                    subst e
                    exact ⟨k+1, hcq⟩
                  · exact hg q v hq hqm
                simp only
                cases hfull : full with
                | true =>
                  simp only [↓reduceIte]
                  obtain ⟨s2, hs2, hg2, hi2, hm2⟩ := argsWithC_complete P h fs rank kw wf n _ ihn f p hf hr f.params (fun _ hpq => hpq)
                    { s with memo := unpack f r ++ s.memo, cache := c', hits := s.hits ++ [K] } k args hargs hg1 hi1
                  rw [hfull] at hs2
                  simp only [hs2]
                  have hsome : (alookup s2.memo p).isSome := hm2 p (by simp only [hmemo1]; rfl)
                  obtain ⟨w2, hw2⟩ := Option.isSome_iff_exists.mp hsome
                  obtain ⟨k2, hk2⟩ := hg2 p w2 hkp hw2
                  have := compose_det fs kw hk2 hc0
                  subst this
                  simp only [hw2]
                  exact ⟨s2, rfl, hg2, hi2, fun x hx => hm2 x (alookup_append_right_isSome _ _ x hx)⟩
                | false =>
                  simp only [Bool.false_eq_true, ↓reduceIte, hmemo1]
                  exact ⟨_, rfl, hg1, hi1, fun x hx => alookup_append_right_isSome _ _ x hx⟩
              | none =>
                simp only
                obtain ⟨s', hs', hg', hi', hm'⟩ := argsWithC_complete P h fs rank kw wf n _ ihn f p hf hr f.params (fun _ hpq => hpq)
                  s k args hargs hg hi
                simp only [hs', hov]
                refine ⟨_, rfl, ?_, ?_, ?_⟩
                · intro q v hq hqm
                  simp only at hqm
                  rw [alookup_append] at hqm
                  split at hqm
                  · next v' hv' => injection hqm with e; subst e; exact ⟨k+1, hall q v' hv'⟩
                  · exact hg' q v hq hqm
                · intro K' r' hr'
                  simp only at hr'
                  cases key with
                  | none => exact hi' K' r' hr'
                  | some K =>
                    simp only [storeC] at hr'
                    rcases P.put_sub _ _ _ _ _ hr' with ⟨e1, e2⟩ | hold
                    · subst e1; subst e2
                      exact valid_put h hinj fs rank wf f p kw K' k args hf (hkey K' rfl) hargs
                    · exact hi' K' r' hold
                · intro x hx
                  exact alookup_append_right_isSome _ _ x (hm' x hx)

end Run

theorem unique_of_wf (fs : List Func) (rank : String → Nat) (wf : WF fs rank) : Unique fs := by
  intro f q hq q' hq'
  exact producer_of_mem fs rank wf f (producer_mem fs q f hq).1 q' hq'



end PF.PipeCache
