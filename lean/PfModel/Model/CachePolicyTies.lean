import PfModel.Model.CachePolicy
/-!
HybridCache (C14): when is the outcome of `_expire` independent of floating-point rounding, and which entries share the
minimal score.  `HybridCache._expire` (`pipefunc/cache.py:189-217`) computes the scores in binary floating point and takes `min`; the model compares
exact integers (`Hyb.score`).  Two entries whose (access count, duration) pairs are the same get bit-identical float scores, so
`min` picks the first of them exactly as the model does; two entries with the same EXACT score from different pairs may be
ordered either way by the rounding — such an eviction is not compared (`floatAmbiguous`).  The harness used to decide this in
Python (`near_tie`, `hybrid_tie_order`); now it reads these two definitions through the driver.
-/
namespace PF.Cache.Hyb

/-- entries `k`, `k'` are scored from the same numbers: equal access counts (or the access weight is 0) and equal durations
    (or the duration weight is 0, or every duration is 0 — the repaired code then uses 0.0 for all) -/
def samePair (s : Hyb) (k k' : Key) : Bool :=
  (lookup s.ac k == lookup s.ac k' || s.wa == 0) &&
  ((lookup s.du k).getD 0 == (lookup s.du k').getD 0 || s.wd == 0 || total s.du == 0)

/-- the keys whose exact score is the minimum, in the iteration order of `_access_counts` -/
def minKeys (s : Hyb) : List Key :=
  match argmin (scores s) with
  | none => []
  | some (_, m) => ((scores s).filter fun p => p.2 == m).map (·.1)

/-- the next `put` runs `_expire` (the cache is full) and another entry has the victim's exact score without being scored from
    the same numbers -/
def floatAmbiguous (s : Hyb) : Bool :=
  decide (s.max ≤ s.dict.length) &&
  match argmin (scores s) with
  | none => false
  | some (e, m) => (scores s).any fun p => p.1 != e && p.2 == m && !samePair s p.1 e

end PF.Cache.Hyb
