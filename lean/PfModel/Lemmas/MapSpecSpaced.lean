/-
Lemmas for `C08_parse_spaced`: the `re.findall` scanner of `Model/MapSpecParse.lean` recovers the spec of every
whitespace-decorated text of `Model/MapSpecSpaced.lean`.
-/
import PfModel.Model.MapSpecSpaced
import PfModel.Lemmas.MapSpecParse
namespace PF.MS

/-! ### whitespace characters -/

theorem isSpace_props (c : Char) (h : isSpace c = true) :
    isWord c = false ∧ c ≠ '-' ∧ c ≠ ',' ∧ c ≠ ']' ∧ c ≠ '[' ∧ c ≠ '.' := by
  simp only [isSpace, Bool.or_eq_true, beq_iff_eq] at h
  rcases h with ((((((((h | h) | h) | h) | h) | h) | h) | h) | h) | h <;> subst h <;> decide

theorem outerWs_mem (w : List Char) (h : outerWs w = true) : ∀ c ∈ w, isSpace c = true :=
  fun c hc => List.all_eq_true.mp h c hc

theorem innerWs_mem (w : List Char) (h : innerWs w = true) : ∀ c ∈ w, isSpace c = true ∧ c ≠ '\n' := by
  intro c hc
  have := List.all_eq_true.mp h c hc
  simpa using this

/-! ### `strip` removes exactly the padding -/

theorem lstrip_pad (l rest : List Char) (hl : ∀ c ∈ l, isSpace c = true)
    (hr : ∀ c r', rest = c :: r' → isSpace c = false) : lstrip (l ++ rest) = rest := by
  induction l with
  | nil => exact lstrip_id rest hr
  | cons a as ih =>
    have ha := hl a List.mem_cons_self
    have := ih (fun c hc => hl c (List.mem_cons_of_mem _ hc))
    simp only [lstrip] at this ⊢
    simp [ha, this]

theorem strip_pad (l t r : List Char) (hl : ∀ c ∈ l, isSpace c = true) (hr : ∀ c ∈ r, isSpace c = true)
    (hne : t ≠ []) (ht : NoSpace t) : strip (l ++ (t ++ r)) = t := by
  have h1 : lstrip (l ++ (t ++ r)) = t ++ r := lstrip_pad l (t ++ r) hl (by
    intro c r' e
    cases t with
    | nil => exact absurd rfl hne
    | cons d ds =>
      simp only [List.cons_append, List.cons.injEq] at e
      rw [← e.1]; exact ht d List.mem_cons_self)
  unfold strip
  rw [h1, List.reverse_append]
  rw [lstrip_pad r.reverse t.reverse (by intro c hc; exact hr c (by simpa using hc)) (by
    intro c r' e
    exact ht c (by have : c ∈ t.reverse := e ▸ List.mem_cons_self; simpa using this))]
  simp

/-! ### the text between the brackets -/

theorem splitComma_spIdx : ∀ (axes : List SpAxis), axes ≠ [] → (∀ a ∈ axes, NoComma a.chars) →
    splitComma [] (spIdx axes) = axes.map (·.chars)
  | [], h, _ => absurd rfl h
  | [a], _, hx => by simp [spIdx, splitComma_end [] a.chars (hx a List.mem_cons_self)]
  | a :: b :: r, _, hx => by
      have ih := splitComma_spIdx (b :: r) (by simp) (fun z hz => hx z (List.mem_cons_of_mem _ hz))
      rw [spIdx, splitComma_tok [] a.chars _ (hx a List.mem_cons_self), ih]
      simp

theorem spAxis_props (x : SpAxis) (hx : AxisOK x.ax) (hok : x.ok = true) :
    x.chars ≠ [] ∧ NoComma x.chars ∧ NoClose x.chars ∧ NoDash x.chars ∧ strip x.chars = axisChars x.ax := by
  have p := axisChars_props x.ax hx
  simp only [SpAxis.ok, Bool.and_eq_true] at hok
  have hl := innerWs_mem _ hok.1
  have hr := innerWs_mem _ hok.2
  refine ⟨?_, ?_, ?_, ?_, ?_⟩
  · intro e; simp only [SpAxis.chars, List.append_eq_nil_iff] at e; exact p.1 e.2.1
  · intro c hc
    simp only [SpAxis.chars, List.mem_append] at hc
    rcases hc with hc | hc | hc
    · exact (isSpace_props c (hl c hc).1).2.2.1
    · exact p.2.2.1 c hc
    · exact (isSpace_props c (hr c hc).1).2.2.1
  · intro c hc
    simp only [SpAxis.chars, List.mem_append] at hc
    rcases hc with hc | hc | hc
    · exact ⟨(isSpace_props c (hl c hc).1).2.2.2.1, (hl c hc).2⟩
    · exact p.2.2.2.1 c hc
    · exact ⟨(isSpace_props c (hr c hc).1).2.2.2.1, (hr c hc).2⟩
  · intro c hc
    simp only [SpAxis.chars, List.mem_append] at hc
    rcases hc with hc | hc | hc
    · exact (isSpace_props c (hl c hc).1).2.1
    · cases hax : x.ax with
      | none => rw [hax] at hc; simp [axisChars] at hc; subst hc; decide
      | some i =>
        rw [hax] at hc hx
        exact word_ne_dash c (hx.2 c (by simpa [axisChars] using hc))
    · exact (isSpace_props c (hr c hc).1).2.1
  · exact strip_pad _ _ _ (fun c hc => (hl c hc).1) (fun c hc => (hr c hc).1) p.1 p.2.1

theorem parseIdx_spIdx (axes : List SpAxis) (hne : axes ≠ []) (hok : ∀ x ∈ axes, AxisOK x.ax ∧ x.ok = true) :
    parseIdx (spIdx axes) = axes.map (·.ax) := by
  unfold parseIdx
  rw [splitComma_spIdx axes hne (fun x hx => (spAxis_props x (hok x hx).1 (hok x hx).2).2.1), List.map_map]
  apply List.map_congr_left
  intro x hx
  have p := spAxis_props x (hok x hx).1 (hok x hx).2
  have q := axisChars_props x.ax (hok x hx).1
  simp only [Function.comp]
  rw [p.2.2.2.2]; exact q.2.2.2.2

theorem mem_spIdx : ∀ (axes : List SpAxis) (c : Char), c ∈ spIdx axes → c = ',' ∨ ∃ a ∈ axes, c ∈ a.chars
  | [], c, h => by simp [spIdx] at h
  | [a], c, h => Or.inr ⟨a, List.mem_cons_self, by simpa [spIdx] using h⟩
  | a :: b :: r, c, h => by
      simp only [spIdx, List.mem_append, List.mem_cons] at h
      rcases h with h | h | h
      · exact Or.inr ⟨a, List.mem_cons_self, h⟩
      · exact Or.inl h
      · rcases mem_spIdx (b :: r) c h with h' | ⟨z, hz, hc⟩
        · exact Or.inl h'
        · exact Or.inr ⟨z, List.mem_cons_of_mem _ hz, hc⟩

theorem spIdx_ne (axes : List SpAxis) (hne : axes ≠ []) (hx : ∀ a ∈ axes, a.chars ≠ []) : spIdx axes ≠ [] := by
  match axes, hne with
  | [a], _ => simpa [spIdx] using hx a List.mem_cons_self
  | a :: b :: r, _ => simp [spIdx]

theorem spIdx_noClose (axes : List SpAxis) (h : ∀ a ∈ axes, NoClose a.chars) : NoClose (spIdx axes) := by
  intro c hc
  rcases mem_spIdx axes c hc with h' | ⟨a, ha, hca⟩
  · subst h'; exact ⟨by decide, by decide⟩
  · exact h a ha c hca

theorem spIdx_noDash (axes : List SpAxis) (h : ∀ a ∈ axes, NoDash a.chars) : NoDash (spIdx axes) := by
  intro c hc
  rcases mem_spIdx axes c hc with h' | ⟨a, ha, hca⟩
  · subst h'; decide
  · exact h a ha c hca

/-! ### one match of the scanner, whatever the index text is -/

theorem findAll_match (n idx rest : List Char) (hn : IsName n) (hne : idx ≠ []) (hnc : NoClose idx) (k : Nat) :
    findAll (k + 1) (n ++ '[' :: (idx ++ ']' :: rest)) = ⟨String.ofList n, parseIdx idx⟩ :: findAll k rest := by
  obtain ⟨c, cs, e⟩ := isName_ne n hn
  have hm := matchName_name n (idx ++ ']' :: rest) hn
  have hi := matchIdx_ok idx rest hne hnc
  rw [e] at hm ⊢
  simp only [List.cons_append, findAll]
  simp only [List.cons_append] at hm
  rw [hm]
  simp only []
  rw [hi]

theorem scan_match (n idx rest : List Char) (hn : IsName n) (hne : idx ≠ []) (hnc : NoClose idx) :
    scan (n ++ '[' :: (idx ++ ']' :: rest)) = ⟨String.ofList n, parseIdx idx⟩ :: scan rest := by
  unfold scan
  have e : (n ++ '[' :: (idx ++ ']' :: rest)).length = (n.length + idx.length + 1 + rest.length) + 1 := by
    simp only [List.length_append, List.length_cons]; omega
  rw [e, findAll_match n idx rest hn hne hnc, findAll_fuel _ rest.length rest (by omega) (Nat.le_refl _)]

theorem scan_ws (w rest : List Char) (hw : ∀ c ∈ w, isWord c = false) : scan (w ++ rest) = scan rest := by
  induction w with
  | nil => rfl
  | cons c cs ih =>
    rw [List.cons_append, scan_skip c (hw c List.mem_cons_self), ih (fun d hd => hw d (List.mem_cons_of_mem _ hd))]

/-! ### one written array, one side -/

/-- what the scanner needs of a written array: the erased spec is scannable, the decoration is whitespace -/
def SpArrOK (a : SpArr) : Prop := SpecOK a.erase ∧ a.ok = true

theorem spArrOK_axes (a : SpArr) (h : SpArrOK a) :
    a.axes ≠ [] ∧ (∀ x ∈ a.axes, AxisOK x.ax ∧ x.ok = true) ∧
    (∀ c ∈ a.l, isSpace c = true) ∧ (∀ c ∈ a.r, isSpace c = true) := by
  obtain ⟨hs, hok⟩ := h
  simp only [SpArr.ok, Bool.and_eq_true, List.all_eq_true] at hok
  obtain ⟨⟨hl, hr⟩, hax⟩ := hok
  refine ⟨?_, ?_, outerWs_mem _ hl, outerWs_mem _ hr⟩
  · intro e; apply hs.axes_ne; simp [SpArr.erase, e]
  · intro x hx
    exact ⟨hs.axes_ok x.ax (by simp only [SpArr.erase, List.mem_map]; exact ⟨x, hx, rfl⟩), hax x hx⟩

theorem scan_spArr (a : SpArr) (h : SpArrOK a) (rest : List Char) :
    scan (a.chars ++ rest) = a.erase :: scan rest := by
  obtain ⟨hne, hx, hl, hr⟩ := spArrOK_axes a h
  have hp := fun x hxm => spAxis_props x (hx x hxm).1 (hx x hxm).2
  have e : a.chars ++ rest = a.l ++ (a.name.toList ++ '[' :: (spIdx a.axes ++ ']' :: (a.r ++ rest))) := by
    simp [SpArr.chars, SpArr.core]
  have hnm : IsName a.name.toList := h.1.name
  rw [e, scan_ws _ _ (fun c hc => (isSpace_props c (hl c hc)).1),
    scan_match a.name.toList (spIdx a.axes) (a.r ++ rest) hnm (spIdx_ne _ hne (fun x hxm => (hp x hxm).1))
      (spIdx_noClose _ (fun x hxm => (hp x hxm).2.2.1)),
    scan_ws _ _ (fun c hc => (isSpace_props c (hr c hc)).1), parseIdx_spIdx a.axes hne hx]
  simp [SpArr.erase, String.ofList_toList]

theorem scan_spSide : ∀ (l : List SpArr), l ≠ [] → (∀ a ∈ l, SpArrOK a) → ∀ (tail : List Char),
    scan (spSide l ++ tail) = l.map SpArr.erase ++ scan tail
  | [], h, _, _ => absurd rfl h
  | [a], _, hok, tail => by
      have := scan_spArr a (hok a List.mem_cons_self) tail
      simpa [spSide] using this
  | a :: b :: r, _, hok, tail => by
      have ih := scan_spSide (b :: r) (by simp) (fun z hz => hok z (List.mem_cons_of_mem _ hz)) tail
      have e : spSide (a :: b :: r) ++ tail = a.chars ++ (',' :: (spSide (b :: r) ++ tail)) := by simp [spSide]
      rw [e, scan_spArr a (hok a List.mem_cons_self), scan_skip ',' (by decide), ih]
      simp

theorem spArr_noDash (a : SpArr) (h : SpArrOK a) : NoDash a.chars := by
  obtain ⟨hne, hx, hl, hr⟩ := spArrOK_axes a h
  intro c hc
  simp only [SpArr.chars, SpArr.core, List.mem_append, List.mem_cons, List.not_mem_nil, or_false] at hc
  rcases hc with hc | (hc | hc | hc | hc) | hc
  · exact (isSpace_props c (hl c hc)).2.1
  · rcases isName_chars _ h.1.name c hc with h' | h'
    · exact word_ne_dash c h'
    · subst h'; decide
  · subst hc; decide
  · exact spIdx_noDash _ (fun x hxm => (spAxis_props x (hx x hxm).1 (hx x hxm).2).2.2.2.1) c hc
  · subst hc; decide
  · exact (isSpace_props c (hr c hc)).2.1

theorem mem_spSide : ∀ (l : List SpArr) (c : Char), c ∈ spSide l → c = ',' ∨ ∃ a ∈ l, c ∈ a.chars
  | [], c, h => by simp [spSide] at h
  | [a], c, h => Or.inr ⟨a, List.mem_cons_self, by simpa [spSide] using h⟩
  | a :: b :: r, c, h => by
      simp only [spSide, List.mem_append, List.mem_cons] at h
      rcases h with h | h | h
      · exact Or.inr ⟨a, List.mem_cons_self, h⟩
      · exact Or.inl h
      · rcases mem_spSide (b :: r) c h with h' | ⟨z, hz, hc⟩
        · exact Or.inl h'
        · exact Or.inr ⟨z, List.mem_cons_of_mem _ hz, hc⟩

theorem spSide_noDash (l : List SpArr) (h : ∀ a ∈ l, SpArrOK a) : NoDash (spSide l) := by
  intro c hc
  rcases mem_spSide l c hc with h' | ⟨a, ha, hca⟩
  · subst h'; decide
  · exact spArr_noDash a (h a ha) c hca

theorem lbr_mem_spSide : ∀ (l : List SpArr), l ≠ [] → '[' ∈ spSide l ∧ ']' ∈ spSide l
  | [], h => absurd rfl h
  | [a], _ => by simp [spSide, SpArr.chars, SpArr.core]
  | a :: b :: r, _ => by simp [spSide, SpArr.chars, SpArr.core]

theorem ws_noDash (w : List Char) (h : outerWs w = true) : NoDash w :=
  fun c hc => (isSpace_props c (outerWs_mem w h c hc)).2.1

theorem parseSide_spSide (l : List SpArr) (hne : l ≠ []) (hok : ∀ a ∈ l, SpArrOK a) (hn : ∀ a ∈ l, NamesOK a.erase)
    (pre post : List Char) (hpre : outerWs pre = true) (hpost : outerWs post = true) :
    parseSide (pre ++ (spSide l ++ post)) = .ok (l.map SpArr.erase) := by
  have hb := lbr_mem_spSide l hne
  have h1 : '[' ∈ pre ++ (spSide l ++ post) := by simp [hb.1]
  have h2 : ']' ∈ pre ++ (spSide l ++ post) := by simp [hb.2]
  have hscan : findAll (pre ++ (spSide l ++ post)).length (pre ++ (spSide l ++ post)) = l.map SpArr.erase := by
    show scan (pre ++ (spSide l ++ post)) = l.map SpArr.erase
    have hpost' : scan post = [] := by
      have := scan_ws post [] (fun c hc => (isSpace_props c (outerWs_mem _ hpost c hc)).1)
      rw [List.append_nil] at this
      rw [this]; rfl
    rw [scan_ws pre _ (fun c hc => (isSpace_props c (outerWs_mem _ hpre c hc)).1), scan_spSide l hne hok, hpost']
    simp
  unfold parseSide
  rw [if_neg (strip_ne_dots _ h1)]
  have c1 : (pre ++ (spSide l ++ post)).contains '[' = true := List.contains_iff_mem.mpr h1
  have c2 : (pre ++ (spSide l ++ post)).contains ']' = true := List.contains_iff_mem.mpr h2
  simp only [c1, c2, Bool.and_self, Bool.not_true, Bool.false_eq_true, ↓reduceIte, hscan]
  have : (l.map SpArr.erase).all arrayOK = true := by
    rw [List.all_eq_true]
    intro a ha
    obtain ⟨b, hb, rfl⟩ := List.mem_map.mp ha
    exact (arrayOK_iff _).mpr (hn b hb)
  simp [this]

theorem parseSide_dots_pad (dl al : List Char) (hl : outerWs dl = true) (hr : outerWs al = true) :
    parseSide (dl ++ (['.', '.', '.'] ++ al)) = .ok [] := by
  unfold parseSide
  rw [if_pos (strip_pad dl ['.', '.', '.'] al (outerWs_mem _ hl) (outerWs_mem _ hr) (by simp)
    (by intro c hc; simp at hc; subst hc; decide))]

/-! ### the whole text -/

theorem parseChars_spaced (t : SpSpec) (hwf : WF t.erase) (hok : t.ok = true) : parseChars t.chars = .ok t.erase := by
  obtain ⟨hv, hr⟩ := hwf
  simp only [SpSpec.ok, Bool.and_eq_true, List.all_eq_true] at hok
  obtain ⟨⟨⟨⟨hI, hO⟩, hdl⟩, hal⟩, har⟩ := hok
  have memO : ∀ a ∈ t.outputs, a.erase ∈ t.erase.inputs ++ t.erase.outputs := fun a ha =>
    List.mem_append_right _ (List.mem_map.mpr ⟨a, ha, rfl⟩)
  have memI : ∀ a ∈ t.inputs, a.erase ∈ t.erase.inputs ++ t.erase.outputs := fun a ha =>
    List.mem_append_left _ (List.mem_map.mpr ⟨a, ha, rfl⟩)
  have hokO : ∀ a ∈ t.outputs, SpArrOK a := fun a ha =>
    ⟨namesOK_specOK _ (hv.names _ (memO a ha)) (hr _ (memO a ha)), hO a ha⟩
  have hokI : ∀ a ∈ t.inputs, SpArrOK a := fun a ha =>
    ⟨namesOK_specOK _ (hv.names _ (memI a ha)) (hr _ (memI a ha)), hI a ha⟩
  have hp : postInit ⟨t.erase.inputs, t.erase.outputs⟩ = .ok () := ((valid_iff _).mp hv).2
  have hone : t.outputs ≠ [] := by
    intro e; apply hv.out_ne; simp [SpSpec.erase, e]
  have hB : NoDash t.right := by
    intro c hc
    rcases List.mem_append.mp hc with e | e
    · exact ws_noDash _ har c e
    · exact spSide_noDash _ hokO c e
  have pB : parseSide t.right = .ok t.erase.outputs := by
    have := parseSide_spSide t.outputs hone hokO (fun a ha => hv.names _ (memO a ha)) t.ar [] har rfl
    simpa [SpSpec.right, SpSpec.erase] using this
  have hA : NoDash t.left := by
    intro c hc
    unfold SpSpec.left at hc
    rcases List.mem_append.mp hc with e | e
    · split at e
      · rcases List.mem_append.mp e with e | e
        · exact ws_noDash _ hdl c e
        · simp at e; subst e; decide
      · exact spSide_noDash _ hokI c e
    · exact ws_noDash _ hal c e
  have pA : parseSide t.left = .ok t.erase.inputs := by
    unfold SpSpec.left
    cases hi : t.inputs with
    | nil =>
      have := parseSide_dots_pad t.dl t.al hdl hal
      simpa [SpSpec.erase, hi] using this
    | cons x xs =>
      have hne : t.inputs ≠ [] := by rw [hi]; simp
      have := parseSide_spSide t.inputs hne hokI (fun a ha => hv.names _ (memI a ha)) [] t.al rfl hal
      rw [hi] at this
      simpa [SpSpec.erase, hi] using this
  exact parseChars_text _ _ _ _ hA hB pA pB hp

/-! ### `__str__` is one of the decorations -/

theorem joinWith_cons (sep : List Char) : ∀ (r : List (List Char)) (x : List Char),
    joinWith sep (x :: r) = x ++ (r.flatMap fun y => sep ++ y)
  | [], x => by simp [joinWith]
  | y :: r, x => by
      have ih := joinWith_cons sep r y
      simp [joinWith, ih]

theorem spIdx_cons : ∀ (r : List SpAxis) (a : SpAxis), spIdx (a :: r) = a.chars ++ (r.flatMap fun y => ',' :: y.chars)
  | [], a => by simp [spIdx]
  | b :: r, a => by
      have ih := spIdx_cons r b
      simp [spIdx, ih]

theorem spSide_cons : ∀ (r : List SpArr) (a : SpArr), spSide (a :: r) = a.chars ++ (r.flatMap fun y => ',' :: y.chars)
  | [], a => by simp [spSide]
  | b :: r, a => by
      have ih := spSide_cons r b
      simp [spSide, ih]

theorem spIdx_canon (axes : List (Option String)) : spIdx (canonAxes axes) = joinWith [',', ' '] (axes.map axisChars) := by
  cases axes with
  | nil => rfl
  | cons x r =>
    simp only [canonAxes, List.map_cons]
    rw [spIdx_cons, joinWith_cons]
    simp [SpAxis.chars, List.flatMap_map]

theorem canonArr_chars (l : List Char) (a : ArraySpec) : (canonArr l a).chars = l ++ specChars a := by
  simp [canonArr, SpArr.chars, SpArr.core, specChars, spIdx_canon]

theorem spSide_canon (l : List ArraySpec) : spSide (canonSide l) = sideChars l := by
  cases l with
  | nil => rfl
  | cons a r =>
    simp only [canonSide, sideChars, List.map_cons]
    rw [spSide_cons, joinWith_cons]
    simp [canonArr_chars, List.flatMap_map]

theorem canonAxes_ax (axes : List (Option String)) : (canonAxes axes).map (·.ax) = axes := by
  cases axes with
  | nil => rfl
  | cons x r => simp [canonAxes, List.map_map, Function.comp_def]

theorem canonSide_erase (l : List ArraySpec) : (canonSide l).map SpArr.erase = l := by
  cases l with
  | nil => rfl
  | cons a r => simp [canonSide, canonArr, SpArr.erase, canonAxes_ax, List.map_map, Function.comp_def]

theorem canon_erase (m : MapSpec) : (canon m).erase = m := by
  simp [canon, SpSpec.erase, canonSide_erase]

theorem canonSide_nil : canonSide [] = [] := rfl
theorem canonSide_cons (a : ArraySpec) (r : List ArraySpec) :
    canonSide (a :: r) = canonArr [] a :: r.map (canonArr [' ']) := rfl

theorem canon_chars (m : MapSpec) : (canon m).chars = toChars m := by
  have hO := spSide_canon m.outputs
  have hI := spSide_canon m.inputs
  unfold SpSpec.chars SpSpec.left SpSpec.right toChars
  cases hi : m.inputs with
  | nil =>
    simp only [canon, hi, canonSide_nil]
    rw [hO]; simp
  | cons x xs =>
    rw [hi, canonSide_cons] at hI
    simp only [canon, hi, canonSide_cons]
    rw [hI, hO]; simp

theorem canonAxes_ok (axes : List (Option String)) : (canonAxes axes).all SpAxis.ok = true := by
  cases axes with
  | nil => rfl
  | cons x r =>
    simp only [canonAxes, List.all_cons, List.all_map, Bool.and_eq_true, List.all_eq_true]
    exact ⟨rfl, fun y _ => rfl⟩

theorem canonSide_ok (l : List ArraySpec) : (canonSide l).all SpArr.ok = true := by
  have one : ∀ (w : List Char) (a : ArraySpec), outerWs w = true → (canonArr w a).ok = true := by
    intro w a hw
    simp only [canonArr, SpArr.ok, Bool.and_eq_true]
    exact ⟨⟨hw, rfl⟩, canonAxes_ok a.axes⟩
  cases l with
  | nil => rfl
  | cons a r =>
    simp only [canonSide, List.all_cons, List.all_map, Bool.and_eq_true, List.all_eq_true]
    exact ⟨one [] a rfl, fun b _ => one [' '] b (by decide)⟩

theorem canon_ok (m : MapSpec) : (canon m).ok = true := by
  simp only [canon, SpSpec.ok, Bool.and_eq_true]
  exact ⟨⟨⟨⟨canonSide_ok _, canonSide_ok _⟩, rfl⟩, by decide⟩, by decide⟩

/-! ### examples used by the non-vacuity checks of Props/C08Spaced.lean -/

/-- `"\n x[\ti , : ]\r,y.s[ j]\t->\n z[i,j\x0c] "` -/
def sp1 : SpSpec :=
  ⟨[⟨['\n', ' '], "x", [⟨['\t'], some "i", [' ']⟩, ⟨[' '], none, [' ']⟩], ['\r']⟩,
    ⟨[], "y.s", [⟨[' '], some "j", []⟩], ['\t']⟩], [], [], ['\n', ' '],
   [⟨[], "z", [⟨[], some "i", []⟩, ⟨[], some "j", ['\x0c']⟩], [' ']⟩]⟩

/-- `" \n...\t->b[ i ]"` -/
def sp2 : SpSpec := ⟨[], [' ', '\n'], ['\t'], [], [⟨[], "b", [⟨[' '], some "i", [' ']⟩], []⟩]⟩

end PF.MS
