import PfModel.Lemmas.MapRun
/-!
C01 — Map results equal the MapSpec denotation.
`runMap` is the model of the code (flat result arrays filled through `ravel_multi_index(select_by_mask …)` in the double
loop over linear indices); `specMap` is the same plumbing with every result array given by its denotation `denoteArray`.
-/
namespace PF.C01
open PF PF.Map

/-- **Per-function refinement.** For every mask — every interleaving of external (mapped) and internal axes — the array
    produced by the fill loops is the array the index notation denotes: the element at full index `F` is the function
    applied to the arguments selected at the external part of `F`, projected at the internal part of `F`.
    Never permuted, never partially filled, never differently shaped. -/
theorem C01_func (f : MFunc) (shape : List Nat) (mask : List Bool) (args : Nat → List (String × Val)) (o : String)
    (h : shape.length = mask.length) : opArray f shape mask args o = denoteArray f shape mask args o :=
  opArray_eq_denote f shape mask args o h

/-- **Whole-pipeline refinement**, for every function list, inputs and internal shapes (no well-formedness needed:
    both sides refuse the same requests with the same error): the model of `Pipeline.map` returns exactly what the
    specification — every mapped output given by its denotation — returns. -/
theorem C01_map_eq_denotation (fs : List MFunc) (inputs : List (String × Val)) (ui : List (String × List Nat)) :
    runMap fs inputs ui = specMap fs inputs ui := by
  unfold runMap specMap runMapWith
  have : ∀ shapes masks, runFuncWith opArray fs shapes masks = runFuncWith denoteArray fs shapes masks := by
    intro shapes masks; funext env f; exact runFuncWith_congr fs shapes masks env f
  simp only [this]

/-- **Stored data.** What the storage array of a mapped output holds after the run, read back with `to_array()`
    (as `load_outputs` does), is the same denoted array. -/
theorem C01_stored (f : MFunc) (shape : List Nat) (mask : List Bool) (args : Nat → List (String × Val)) (o : String)
    (h : shape.length = mask.length) :
    (Slot.array shape mask (cellsOf f (prod (extOf mask shape)) args o)).toVal = denoteArray f shape mask args o :=
  stored_eq_denote f shape mask args o h

/-- **Once per index.** A mapped function is called exactly once per external index, in row-major order, each time with
    the arguments selected at that index. -/
theorem C01_once_per_index (arr : MFunc → List Nat → List Bool → (Nat → List (String × Val)) → String → Val)
    (fs : List MFunc) (env : Env) (f : MFunc) (ms : MSpec) (shape : List Nat) (mask : List Bool) (r : FuncResult)
    (h : runMappedWith arr fs env f ms shape mask = .ok r) :
    r.calls.length = prod (extOf mask shape) ∧
    ∀ li (hl : li < r.calls.length), (r.calls[li]).name = f.name ∧
      selectArgs fs env f ms (shapeToKey (extOf mask shape) li) = .ok (r.calls[li]).args := by
  unfold runMappedWith at h
  simp only [bind, Except.bind] at h
  split at h
  · cases h
  · next argsAt hm =>
    simp only [pure, Except.pure] at h
    cases h
    have hlen := mapM_ok_length _ _ _ hm
    simp only [List.length_range] at hlen
    refine ⟨by simpa using hlen, ?_⟩
    intro li hl
    simp only [List.length_map] at hl
    have := mapM_ok_get _ _ _ hm li (by simpa [hlen] using hl) hl
    simp only [List.getElem_range] at this
    simp [this]

/-- **Functions without a MapSpec (or with an input-free one) are called once, on whole values.** -/
theorem C01_unmapped_once (fs : List MFunc) (env : Env) (f : MFunc) (r : FuncResult) (h : runSingle fs env f = .ok r) :
    ∃ args, r.calls = [{ name := f.name, args := args }] ∧
      f.params.mapM (fun (p, orig) => do return (orig, ← argWhole fs env f p)) = .ok args ∧
      r.outputs = f.outputs.map fun o => (o, outVal f args o) := by
  unfold runSingle at h
  simp only [bind, Except.bind] at h
  split at h
  · cases h
  · next args hm =>
    simp only [pure, Except.pure] at h
    cases h
    exact ⟨args, rfl, hm, rfl⟩

/-- **What "sliced at idx" means** (`MapSpec.input_keys`): a `:` axis is delivered whole; a named axis takes the component
    of the external key at the position of that name among the external indices — so inputs sharing a name are zipped and
    distinct names range independently (outer product). -/
theorem C01_input_key (ms : MSpec) (a : ASpec) (E : List Nat) (q : Nat) (hq : q < a.axes.length) :
    (a.axes[q] = none → (inputKey ms a E)[q]? = some none) ∧
    (∀ n k, a.axes[q] = some n → ms.externalIndices.findIdx? (· = n) = some k → (inputKey ms a E)[q]? = some (some (E.getD k 0))) := by
  constructor
  · intro h; simp [inputKey, hq, h]
  · intro n k h hk; simp [inputKey, hq, h, hk]

/-- **Unlisted parameters are delivered whole; listed ones are indexed at the key.** -/
theorem C01_select (fs : List MFunc) (env : Env) (f : MFunc) (ms : MSpec) (E : List Nat) (args : List (String × Val))
    (h : selectArgs fs env f ms E = .ok args) :
    args.length = f.params.length ∧
    ∀ i (hi : i < f.params.length) (ha : i < args.length),
      (args[i]).1 = (f.params[i]).2 ∧
      ∃ whole, argWhole fs env f (f.params[i]).1 = .ok whole ∧
        match ms.inputSpec (f.params[i]).1 with
        | none => (args[i]).2 = whole
        | some a => indexVal whole (inputKey ms a E) = some (args[i]).2 := by
  unfold selectArgs at h
  refine ⟨mapM_ok_length _ _ _ h, ?_⟩
  intro i hi ha
  have := mapM_ok_get _ _ _ h i hi ha
  simp only [bind, Except.bind] at this
  split at this
  · cases this
  · next whole hw =>
    cases hs : ms.inputSpec (f.params[i]).1 with
    | none =>
      simp only [hs, pure, Except.pure] at this
      cases hv : args[i] with
      | mk nm v =>
        rw [hv] at this; cases this
        exact ⟨rfl, whole, hw, rfl⟩
    | some a =>
      simp only [hs] at this
      split at this
      · next v hv =>
        simp only [pure, Except.pure] at this
        cases hv2 : args[i] with
        | mk nm v2 =>
          rw [hv2] at this; cases this
          exact ⟨rfl, whole, hw, hv⟩
      · cases this

end PF.C01

namespace PF.C01
open PF PF.Map

/-- **Shapes** (`MapSpec.shape`): when a shape is returned it has one entry per output axis; an axis that some input names
    is external and gets the common size of that axis over the inputs carrying it, every other axis is internal and gets
    a size from the declared internal shape. -/
theorem C01_shapes (ms : MSpec) (shapes : List (String × List Nat)) (internal : List (String × List Nat))
    (s : List Nat) (m : List Bool) (h : mspecShape ms shapes internal = .ok (s, m)) :
    s.length = ms.outputIndices.length ∧ m.length = ms.outputIndices.length ∧
    ∀ q (hq : q < ms.outputIndices.length) (hs : q < s.length) (hm : q < m.length),
      (m[q] = true → commonDim ms ms.outputIndices[q] shapes = .ok (some s[q])) ∧
      (m[q] = false → commonDim ms ms.outputIndices[q] shapes = .ok none ∧
        ∃ (ish : List Nat) (j : Nat), alookup internal (ms.outputs.headD default).name = some ish ∧ ish[j]? = some s[q]) := by
  unfold mspecShape at h
  simp only [bind, Except.bind] at h
  split at h
  · cases h
  · exact go_spec ms shapes internal _ _ 0 s m h

/-- the shape and mask that `map` hands to a mapped function have the same rank (the hypothesis of `C01_func`) -/
theorem C01_shapes_rank (ms : MSpec) (shapes : List (String × List Nat)) (internal : List (String × List Nat))
    (s : List Nat) (m : List Bool) (h : mspecShape ms shapes internal = .ok (s, m)) : s.length = m.length := by
  obtain ⟨a, b, _⟩ := C01_shapes ms shapes internal s m h
  rw [a, b]

/-- non-vacuity: `x[i], w[j] -> y[j, k, i]` with an internal axis in the middle -/
example :
    (mspecShape ⟨[⟨"x", [some "i"]⟩, ⟨"w", [some "j"]⟩], [⟨"y", [some "j", some "k", some "i"]⟩]⟩
      [("x", [3]), ("w", [2])] [("y", [4])]).toOption = some ([2, 4, 3], [true, false, true]) := by decide

end PF.C01
