"""C09 — a deterministic schedule for the shared-cache parallel map run with a DiskCache.

`Pipeline.map(parallel=True, executor=…)` over `x = [v, v]` (a repeated input value) with `cache_type="disk"`: the element
computations share the cache (`_get_or_set_cache`, pipefunc/map/_run.py).  `StagedExecutor` starts the first element at once
and every later element when the first one is *inside* `DiskCache.put` (the value's pickling signals it and then waits), so the
second element's `cache_key in cache` / `cache.get(cache_key)` runs while the entry is being written.  A container whose `put`
is not atomic with respect to `__contains__`/`get` hands out a half-written entry (`EOFError` / `UnpicklingError`): the map
raises although the identical uncached run succeeds — the first clause of C09.
"""
from __future__ import annotations

import contextlib
import io
import threading
from concurrent.futures import Executor, Future

_LOCAL = {"in_put": threading.Event(), "go": threading.Event(), "armed": False}


def arm():
    _LOCAL["in_put"] = threading.Event()
    _LOCAL["go"] = threading.Event()
    _LOCAL["armed"] = True


def release():
    _LOCAL["armed"] = False
    _LOCAL["go"].set()
    _LOCAL["in_put"].set()


class Slow:
    """A value whose first pickling (the one inside the first `cache.put`) signals `in_put` and waits for `go`."""

    def __init__(self, tag):
        self.tag = tag

    def __eq__(self, other):
        return isinstance(other, Slow) and other.tag == self.tag

    def __hash__(self):
        return hash(self.tag)

    def __repr__(self):
        return f"Slow({self.tag!r})"

    def __reduce__(self):
        if _LOCAL["armed"]:
            _LOCAL["armed"] = False
            _LOCAL["in_put"].set()
            _LOCAL["go"].wait(5)
        return (Slow, (self.tag,))


class StagedExecutor(Executor):
    """The first submitted task starts at once; later tasks start when the first is inside `put` (or after 5 s)."""

    def __init__(self):
        self.n = 0
        self.threads = []

    def submit(self, fn, /, *args, **kwargs):
        fut: Future = Future()
        first = self.n == 0
        self.n += 1
        in_put, go = _LOCAL["in_put"], _LOCAL["go"]

        def work():
            if not first:
                in_put.wait(5)
            try:
                fut.set_result(fn(*args, **kwargs))
            except BaseException as e:  # noqa: BLE001
                fut.set_exception(e)
            finally:
                if not first:
                    go.set()

        t = threading.Thread(target=work, daemon=True)
        t.start()
        self.threads.append(t)
        return fut

    def shutdown(self, wait=True, *, cancel_futures=False):  # noqa: ARG002, FBT002
        for t in self.threads:
            t.join(10)


def slow_f(x):
    return Slow(("f", x))


def run_case(case, base):
    """One staged map run with a cache and the identical run without; returns the two observations."""
    import tempfile

    import pfimport  # noqa: F401
    from pfimport import exc_enum
    from pipefunc import PipeFunc, Pipeline

    def obs(p, **kw):
        try:
            with contextlib.redirect_stdout(io.StringIO()), contextlib.redirect_stderr(io.StringIO()):
                r = p.map({"x": list(case["x"])}, storage="dict", show_progress=False, **kw)
            return {"y": [repr(v) for v in r["y"].output]}
        except Exception as e:  # noqa: BLE001
            return {"err": exc_enum(e), "msg": str(e)[:120]}

    ck = dict(case.get("cache_kwargs") or {})
    if case["cache_type"] == "disk":
        ck["cache_dir"] = tempfile.mkdtemp(dir=base)
        ck.setdefault("lru_shared", False)
    elif case["cache_type"] in ("lru", "hybrid"):
        ck.setdefault("shared", False)
    pu = Pipeline([PipeFunc(slow_f, "y", mapspec="x[i] -> y[i]")])
    pc = Pipeline([PipeFunc(slow_f, "y", mapspec="x[i] -> y[i]", cache=True)], cache_type=case["cache_type"], cache_kwargs=ck or None)
    u = obs(pu, parallel=False)
    arm()
    ex = StagedExecutor()
    try:
        c = obs(pc, parallel=True, executor=ex)
    finally:
        release()
        ex.shutdown()
    return {"u": u, "c": c}
