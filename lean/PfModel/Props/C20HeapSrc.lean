import PfModel.Generated.C20HeapFacts
import PfModel.Model.ResourcesHeap
/-!
C20, secondary tie of the heap model: the dict-object events that `harness/c20_heap_extract.py` extracts from `/repo/pipefunc/resources.py` on
every run (which dict / instance objects each combinator creates, copies, aliases, writes in place, and what it returns) are exactly the
ones the heap programs of `Model/ResourcesHeap.lean` were written for.  A changed statement (a dropped `dict(...)` copy, an `x = y.extra_args`
alias, a `.setdefault` / `.update` in place of the guarded store, …) changes a list and breaks the `decide`; the check then looks for a concrete
failing input with the heap cases of the correspondence harness and reports `no-failing-input-found` otherwise.
-/
namespace PF.C20
open PF.ResH

theorem C20_src_heap_update : PF.Generated.C20Heap.updateEvents = updateEvents := by decide

theorem C20_src_heap_combine_max : PF.Generated.C20Heap.combineMaxEvents = combineMaxEvents := by decide

theorem C20_src_heap_with_defaults :
    PF.Generated.C20Heap.withDefaultsEvents = withDefaultsEvents ∧
    PF.Generated.C20Heap.maybeWithDefaultsEvents = maybeWithDefaultsEvents := by decide

theorem C20_src_heap_dict :
    PF.Generated.C20Heap.dictEvents = dictEvents ∧ PF.Generated.C20Heap.fromDictEvents = fromDictEvents := by decide

/-- the class is a frozen dataclass (fields cannot be assigned) whose `extra_args` default is a new `dict` per instance -/
theorem C20_src_heap_dataclass :
    PF.Generated.C20Heap.frozenDataclass = true ∧ PF.Generated.C20Heap.extraArgsDefaultFactoryDict = true := by decide

end PF.C20
