import PfModel.Props.C14
import PfModel.Lemmas.CachePolicyScore
/-!
C14 (d): HybridCache — the integer `Hyb.score` that the model compares IS the documented score; DiskCache — the oldest file is unique.

`HybridCache._expire` (`pipefunc/cache.py:185-208`) computes, for every entry,
`access_weight * (count / total_count) + duration_weight * (duration / total_duration)` (the normalised duration is `0.0`
when `total_duration` is zero — DF-02 repair) and removes the entry with the lowest value.  The model compares
`Hyb.score wa wd ta td a d` over `Nat`.  `ratScore` is the documented expression over `Rat` with `access_weight = wa / W`,
`duration_weight = wd / W`; the theorems say that the two orders coincide, so `C14_hybrid_evicts_min` is a statement about the
documented score.  (The implementation evaluates the expression in binary floating point; the harness skips evictions decided
between exact scores closer than 1e-9 relative — that rounding is not modelled.)
-/
namespace PF.C14
open PF.Cache

/-- `Hyb.score` is the documented score times `scoreScale` — exactly -/
theorem C14_hybrid_score_is_documented (W wa wd ta td a d : Nat) (hW : 0 < W) (hta : 0 < ta) :
    (Hyb.score wa wd ta td a d : Rat) = ratScore W wa wd ta td a d * (scoreScale W ta td : Rat) := by
  have hW' : (W : Rat) ≠ 0 := by
    have := Rat.natCast_pos.mpr hW; intro h; rw [h] at this; exact absurd this (by decide)
  have hta' : (ta : Rat) ≠ 0 := by
    have := Rat.natCast_pos.mpr hta; intro h; rw [h] at this; exact absurd this (by decide)
  unfold Hyb.score ratScore scoreScale
  by_cases htd : td = 0
  · simp only [htd, if_true, Rat.natCast_mul]
    grind
  · have htd' : (td : Rat) ≠ 0 := by
      have := Rat.natCast_pos.mpr (Nat.pos_of_ne_zero htd); intro h; rw [h] at this; exact absurd this (by decide)
    simp only [htd, if_false, Rat.natCast_mul, Rat.natCast_add]
    grind

/-- comparing the integer scores is comparing the documented rational scores (same totals, any two entries) -/
theorem C14_hybrid_score_order (W wa wd ta td a d a' d' : Nat) (hW : 0 < W) (hta : 0 < ta) :
    (Hyb.score wa wd ta td a d ≤ Hyb.score wa wd ta td a' d' ↔ ratScore W wa wd ta td a d ≤ ratScore W wa wd ta td a' d') ∧
    (Hyb.score wa wd ta td a d < Hyb.score wa wd ta td a' d' ↔ ratScore W wa wd ta td a d < ratScore W wa wd ta td a' d') := by
  have hc : (0 : Rat) < (scoreScale W ta td : Rat) := Rat.natCast_pos.mpr (scoreScale_pos W ta td hW hta)
  have e1 := C14_hybrid_score_is_documented W wa wd ta td a d hW hta
  have e2 := C14_hybrid_score_is_documented W wa wd ta td a' d' hW hta
  refine ⟨?_, ?_⟩
  · rw [← Rat.natCast_le_natCast (a := Hyb.score wa wd ta td a d), e1, e2]
    exact rat_mul_le_mul_iff _ _ _ hc
  · rw [← Rat.natCast_lt_natCast (a := Hyb.score wa wd ta td a d), e1, e2]
    exact Rat.mul_lt_mul_right hc

/-! ### access counts are at least 1, so the total the code divides by is positive whenever something is stored -/

/-- After any history on a new HybridCache every access count is at least 1; so whenever an entry is stored the total access
    count — the number `_expire` divides by — is positive. -/
theorem C14_hybrid_counts_pos (max wa wd : Nat) (h : List Op) (s : Hyb) (os : List Obs)
    (hr : hybSem.run (Hyb.empty max wa wd) h = .ok (s, os)) :
    (∀ p ∈ s.ac, 1 ≤ p.2) ∧ (s.ac ≠ [] → 0 < total s.ac) := by
  have hp : PosCounts s := posCounts_run h _ s os (by intro p hm; simp [Hyb.empty] at hm) hr
  refine ⟨hp, ?_⟩
  intro hne
  cases hac : s.ac with
  | nil => exact absurd hac hne
  | cons e es => rw [← hac]; exact total_pos_of_mem s.ac e (by simp [hac]) (hp e (by simp [hac]))

/-- (d) in the documented terms: after any history on a new HybridCache, a `put` into the full cache removes an entry `e` whose
    DOCUMENTED score `access_weight * count/total_count + duration_weight * duration/total_duration` (exact rationals, weights
    `wa/W`, `wd/W`) is minimal among the resident entries, and every entry in front of it in insertion order has a strictly
    greater documented score (tie rule: the first minimal entry, as `min` over a dict). -/
theorem C14_hybrid_evicts_min_documented (max wa wd W : Nat) (hmax : 0 < max) (hW : 0 < W) (h : List Op) (hwf : ∀ op ∈ h, op.WF)
    (k : Key) (v : Val) (d : Nat) :
    ∃ s os, hybSem.run (Hyb.empty max wa wd) h = .ok (s, os) ∧ ∃ s' ev, s.put k v d = .ok (s', ev) ∧
      (s.dict.length = s.max → ∃ e ae, ev = some e ∧ has s.dict e = true ∧ lookup s.ac e = some ae ∧
        (∀ p ∈ s.ac, ratScore W s.wa s.wd (total s.ac) (total s.du) ae ((lookup s.du e).getD 0) ≤
                      ratScore W s.wa s.wd (total s.ac) (total s.du) p.2 ((lookup s.du p.1).getD 0)) ∧
        ∃ pre post, s.ac = pre ++ (e, ae) :: post ∧
          ∀ p ∈ pre, ratScore W s.wa s.wd (total s.ac) (total s.du) ae ((lookup s.du e).getD 0) <
                      ratScore W s.wa s.wd (total s.ac) (total s.du) p.2 ((lookup s.du p.1).getD 0)) := by
  obtain ⟨s, os, hr, hi, _⟩ := hyb_lawful.run_ok h (Hyb.empty max wa wd) (Hyb.inv_empty max wa wd hmax) hwf
  obtain ⟨s', ev, hp, _, hfull⟩ := C14_hybrid_evicts_min s k v d hi
  refine ⟨s, os, hr, s', ev, hp, ?_⟩
  intro hlen
  obtain ⟨e, sc, hev, hhas, _, hmin, pre, post, hsplit, hfirst⟩ := hfull hlen
  obtain ⟨hpc, htot⟩ := C14_hybrid_counts_pos max wa wd h s os hr
  -- `scores` is `ac` mapped: split `ac` accordingly
  have hmap : Hyb.scores s = s.ac.map fun p => (p.1, Hyb.score s.wa s.wd (total s.ac) (total s.du) p.2 ((lookup s.du p.1).getD 0)) := rfl
  rw [hmap] at hsplit
  obtain ⟨pre', rest', hac, hpre, hrest⟩ := List.map_eq_append_iff.mp hsplit
  obtain ⟨q, post', hrest', hq, hpost⟩ := List.map_eq_cons_iff.mp hrest
  subst hrest'
  obtain ⟨qk, qa⟩ := q
  simp only [Prod.mk.injEq] at hq
  obtain ⟨rfl, hsc⟩ := hq
  have hne : s.ac ≠ [] := by rw [hac]; simp
  have hta := htot hne
  have hnd : (keys s.ac).Nodup := hi.kac ▸ hi.nodup
  have hlook : lookup s.ac qk = some qa := lookup_of_mem s.ac hnd (qk, qa) (by rw [hac]; simp)
  refine ⟨qk, qa, hev, hhas, hlook, ?_, pre', post', hac, ?_⟩
  · intro p hm
    have := hmin p hm
    rw [← hsc] at this
    exact (C14_hybrid_score_order W s.wa s.wd (total s.ac) (total s.du) qa _ p.2 _ hW hta).1.mp this
  · intro p hm
    have hm' : (p.1, Hyb.score s.wa s.wd (total s.ac) (total s.du) p.2 ((lookup s.du p.1).getD 0)) ∈ pre := by
      rw [← hpre]; exact List.mem_map.mpr ⟨p, hm, rfl⟩
    have := hfirst _ hm'
    simp only at this
    rw [← hsc] at this
    exact (C14_hybrid_score_order W s.wa s.wd (total s.ac) (total s.du) qa _ p.2 _ hW hta).2.mp this

/-! ### DiskCache: "the oldest file" is unique; the tie rule of the model -/

/-- After any history on a new directory (reopened any number of times) no two cache files carry the same creation stamp, so
    in every round of `_evict_if_needed` — on the directory as it is after the new file was written and `n` files were
    unlinked — the file `min(files, key=ctime)` picks is THE oldest: every other file is strictly younger. -/
theorem C14_disk_oldest_unique (m l : Option Nat) (hm : m ≠ some 0) (hl : l ≠ some 0) (h : List Op) (hwf : ∀ op ∈ h, op.WF)
    (k : Key) (v : Val) (n : Nat) :
    ∃ s os, diskSem.run (Disk.empty m l) h = .ok (s, os) ∧ DistinctStamps s.files ∧
      let f := evictN n (PF.Cache.set s.files k (v, s.clock))
      DistinctStamps f ∧ ∀ e t, argmin (stamps f) = some (e, t) → has f e = true ∧ ∀ p ∈ f, p.1 ≠ e → t < p.2.2 := by
  obtain ⟨s, os, hr, _, _⟩ := disk_lawful.run_ok h (Disk.empty m l) (Disk.inv_empty m l hm hl) hwf
  obtain ⟨hi, hd⟩ := distinct_run h (Disk.empty m l) s os (Disk.inv_empty m l hm hl) (by simp [Disk.empty, DistinctStamps]) hwf hr
  have hf := distinct_evictN n _ (distinct_set s.files k v s.clock hd hi.fresh)
  refine ⟨s, os, hr, hd, hf, ?_⟩
  intro e t ha
  exact ⟨(argmin_stamps_oldest _ e t ha).1, argmin_stamps_strict _ hf e t ha⟩

/-- The model's tie rule, for directories whose stamps are NOT distinct (unreachable in the model, where the clock is logical;
    on a real file system two files written within the ctime granularity — the harness spaces its writes to avoid this): the first
    file in listing order among those with the smallest stamp goes, as Python's `min` returns the first minimal element.  The
    listing order of `Path.glob` is the operating system's and is not modelled. -/
theorem C14_disk_tie_first (f : Files) (e t : Nat) (h : argmin (stamps f) = some (e, t)) :
    (∀ p ∈ f, t ≤ p.2.2) ∧ ∃ pre post, stamps f = pre ++ (e, t) :: post ∧ ∀ p ∈ pre, t < p.2 := by
  exact ⟨(argmin_stamps_oldest f e t h).2, (argmin_spec _ _ _ h).2⟩

/-! ### non-vacuity -/
example : ((diskSem.run (Disk.empty (some 2) none) [.put 0 1 0, .put 1 2 0, .put 0 3 0, .put 2 4 0]).toOption.map fun r => stamps r.1.files) =
    some [(0, 2), (2, 3)] := by decide
/-- two files with the same stamp: the first one listed goes -/
example : argmin (stamps [(5, (1, 7)), (6, (2, 7)), (4, (3, 9))]) = some (5, 7) := by decide

example : ratScore 2 1 1 3 4 1 2 = 5 / 12 := by simp [ratScore]; grind
example : (Hyb.score 1 1 3 4 1 2 : Rat) = ratScore 2 1 1 3 4 1 2 * (scoreScale 2 3 4 : Rat) :=
  C14_hybrid_score_is_documented 2 1 1 3 4 1 2 (by decide) (by decide)
/-- all durations zero: the documented score is the access part alone -/
example : ratScore 2 1 1 3 0 1 0 = 1 / 6 := by simp [ratScore]; grind
example : Hyb.score 1 1 3 4 1 2 = 10 ∧ scoreScale 2 3 4 = 24 := by decide

end PF.C14
