#!/bin/sh
# tools/confirm_seed.sh CXX TAG LETTER : confirm a seeded change delivered in /tmp/seed/out/TAG (mutation_LETTER.diff, demo_LETTER.py):
# demo passes on the unmodified worktree, fails with the change, the pinned suite still passes; then store it under seeded/.
pid=$1; tag=$2; m=$3
out=/tmp/seed/out/$tag; wt=/tmp/seed/$tag
[ -d "$wt" ] && git -C /repo worktree remove --force "$wt"
git -C /repo worktree add -q --detach "$wt" HEAD || exit 2
/venv/bin/python "$out/demo_$m.py" >/dev/null 2>&1; clean=$?
git -C "$wt" apply "$out/mutation_$m.diff" || { echo "patch does not apply"; git -C /repo worktree remove --force "$wt"; exit 2; }
/venv/bin/python "$out/demo_$m.py" > /tmp/seed/demo_$tag_$m.log 2>&1; mut=$?
base=$(/venv/bin/python /tmp/seed/baseline.py "$wt" | head -1)
git -C /repo worktree remove --force "$wt"
echo "confirm $pid $tag $m: demo clean=$clean mutated=$mut baseline: $base"
case "$base" in *missing=0*) ok=1;; *) ok=0;; esac
if [ "$clean" = 0 ] && [ "$mut" != 0 ] && [ "$ok" = 1 ]; then
  d="$(dirname "$0")/../seeded/$pid-$tag-$m"; mkdir -p "$d"
  cp "$out/mutation_$m.diff" "$d/patch.diff"; cp "$out/demo_$m.py" "$d/demo.py"
  /venv/bin/python - "$pid" "$tag" "$m" "$d" "$base" <<'PY'
import json, sys
pid, tag, m, d, base = sys.argv[1:6]
notes = json.load(open(f"/tmp/seed/out/{tag}/notes.json")).get(m, {})
json.dump({"property": pid, "breaks": notes.get("breaks"), "needs": notes.get("needs"), "files": notes.get("files"),
           "origin": f"independent sub-agent {tag} (given only the property text and a scratch worktree)",
           "confirmed": {"demo_on_unmodified_worktree": "exit 0", "demo_with_patch": "non-zero exit", "pinned_suite_with_patch": base},
           "detected_by": None}, open(f"{d}/meta.json", "w"), indent=1)
PY
  echo "stored $d"
else
  echo "NOT CONFIRMED"
fi
