import PfModel.Generated.C12Facts
import PfModel.Model.ValidateNarrow
/-!
C12, the tie to the source, round 4 (its own module, so that a failure here does not hide the other source-tie theorems of
`Props/C12Src.lean` and vice versa): the validations of `prepare_run` / `RunInfo.create` are made on EVERY path, not merely
somewhere in the text.  `Generated.prepareRunUnconditional` is re-extracted from the repository under test on every run
(`harness/c12_extract.py: extract_unconditional`).
-/
namespace PF.C12
open PF PF.Validate

/-! #### round 4: the validations are made on EVERY path -/

/-- `C12_order` lists calls in source order whatever guards them.  This one speaks of the calls `prepare_run` (with `RunInfo.create`
    inlined) makes in its top-level statements, i.e. on every path that reaches the writes: each validation that the model's
    `startSteps` performs for every request — executor names, COMPLETE INPUTS (missing and surplus), consistent axes, fixed indices,
    storage names, `_check_inputs`, `map_shapes` — is among them, in the model's order, before `run_info._dump_all()` and
    `init_store`.  (Seeded change C12-s3-B put `_validate_complete_inputs` under `if not narrowed:`.) -/
theorem C12_order_unconditional : alwaysValidated Generated.prepareRunUnconditional = true := by decide

/-- what is called on every path is called: the unconditional calls are a subsequence of all calls -/
theorem C12_order_unconditional_sub : isSubseq Generated.prepareRunUnconditional Generated.prepareRunCalls = true := by decide

end PF.C12
