/-
Model of the remaining module functions of `pipefunc/map/_mapspec.py` that work on a *list* of MapSpecs:
`mapspec_dimensions` and `trace_dependencies` (`validate_consistent_axes` and `mapspec_axes` are in `Model/MapSpec.lean`),
and an operational reading of `validate_consistent_axes` (the loop with the `axes` dict) next to the pairwise
`consistentAxes`.
-/
import PfModel.Model.MapSpec
namespace PF.MS

/-- the rank recorded last for `n`: a dict comprehension keeps the last value written for a key -/
def lastRank (n : String) : List ArraySpec → Option Nat
  | [] => none
  | a :: r =>
    match lastRank n r with
    | some k => some k
    | none => if a.name = n then some a.axes.length else none

/-- `mapspec_dimensions` (`_mapspec.py:414-420`): keys in first-occurrence order, the value written last -/
def mapspecDimensions (ms : List MapSpec) : List (String × Nat) :=
  let specs := allSpecs ms
  (firstOcc (specs.map (·.name))).map fun n => (n, (lastRank n specs).getD 0)

/-- the inner loops of `validate_consistent_axes` for one array name (`_mapspec.py:394-412`), the specs taken in the
    order of the list: every rank equals the first one, then the `axes: dict[int, str]` is filled position by position and
    a position that already holds another name is the `ValueError`.  Returns the dict (`none` = raised). -/
def fillAxes (dct : List (Nat × String)) : List (Nat × String) → Option (List (Nat × String))
  | [] => some dct
  | (i, a) :: r =>
    match natLookupLast i dct with
    | some b => if b != a then none else fillAxes (dct ++ [(i, a)]) r
    | none => fillAxes (dct ++ [(i, a)]) r

def consistentOne (specs : List ArraySpec) : Bool :=
  match specs with
  | [] => true
  | a :: r =>
    r.all (fun b => b.axes.length == a.axes.length) &&
    (fillAxes [] (specs.flatMap fun s => namedAt 0 s.axes)).isSome

/-- `validate_consistent_axes` as the loop it is (the sets are iterated in list order) -/
def consistentAxesLoop (ms : List MapSpec) : Bool :=
  let specs := allSpecs ms
  (firstOcc (specs.map (·.name))).all fun n => consistentOne (specs.filter (·.name == n))

/-! ### `trace_dependencies` -/

/-- `mapspec_mapping`: output name ↦ its MapSpec, for the specs that have inputs (`_mapspec.py:516-521`); a later spec
    overwrites an earlier one with the same output name -/
def mappingOf (ms : List MapSpec) : List (String × MapSpec) :=
  ms.flatMap fun m => if m.inputs.isEmpty then [] else (outputNames m).map fun o => (o, m)

def lookupLastM (k : String) : List (String × MapSpec) → Option MapSpec
  | [] => none
  | (k', v) :: r =>
    match lookupLastM k r with
    | some w => some w
    | none => if k' = k then some v else none

/-- insert into a `set` kept as a duplicate-free list -/
def setAdd (x : String) (s : List String) : List String := if s.contains x then s else s ++ [x]

/-- `dependencies[axis].update(xs)` / `.add(x)` on a `defaultdict(set)` kept as an association list -/
def depAdd (axis : String) (xs : List String) : List (String × List String) → List (String × List String)
  | [] => [(axis, xs.foldl (fun s x => setAdd x s) [])]
  | (k, s) :: r => if k = axis then (k, xs.foldl (fun s x => setAdd x s) s) :: r else (k, s) :: depAdd axis xs r

/-- `_trace_dependencies` (`_mapspec.py:492-512`): axis name ↦ the root inputs (arrays no MapSpec produces) that the
    output depends on along that axis.  `fuel` bounds the recursion depth (the code recurses without a bound: a cyclic
    mapping is a `RecursionError`, which the model reports as `none`). -/
def traceDeps (mp : List (String × MapSpec)) : Nat → String → Option (List (String × List String))
  | 0, _ => none
  | fuel + 1, out =>
    match lookupLastM out mp with
    | none => none
    | some m =>
      let step (acc : Option (List (String × List String))) (p : String × String) : Option (List (String × List String)) :=
        match acc with
        | none => none
        | some deps =>
          let (name, axis) := p
          if (lookupLastM name mp).isSome then
            match traceDeps mp fuel name with
            | none => none
            | some nested =>
              match lookup axis nested with
              | some xs => some (depAdd axis xs deps)
              | none => some deps
          else some (depAdd axis [name] deps)
      (m.inputs.flatMap fun x => (indices x).map fun a => (x.name, a)).foldl step (some [])

/-- `trace_dependencies` (`_mapspec.py:515-539`): output ↦ root input ↦ the axes of that input (in the order of
    `mapspec_axes`) along which the output depends on it; an output that depends on no root input has no entry.
    Dict orders are not modelled (the harness sorts every level by key). -/
def traceDependencies (ms : List MapSpec) : Option (List (String × List (String × List String))) :=
  let mp := mappingOf ms
  let axes := mapspecAxes ms
  let outs := firstOcc (mp.map (·.1))
  outs.foldr (fun o acc =>
    match acc, traceDeps mp (ms.length + 1) o with
    | some rest, some deps =>
      let inputs := firstOcc (deps.flatMap (·.2))
      let row := inputs.map fun x =>
        let axset := (deps.filter fun d => d.2.contains x).map (·.1)
        (x, ((lookup x axes).getD []).filterMap fun a => match a with
              | some i => if axset.contains i then some i else none
              | none => none)
      if row.isEmpty then some rest else some ((o, row) :: rest)
    | _, _ => none) (some [])

end PF.MS
