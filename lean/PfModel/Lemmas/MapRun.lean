import PfModel.Model.MapRun
import PfModel.Core.Enum
/-! Helper lemmas for `Props/C01.lean`. -/
namespace PF.Map
open PF

/-- The flat result array filled by the double loop of `_output_from_mapspec_task/_set_output`, reshaped, is the
    denoted array — for every mask (every interleaving of external and internal axes). -/
theorem opArray_eq_denote (f : MFunc) (shape : List Nat) (mask : List Bool) (args : Nat → List (String × Val)) (o : String)
    (h : shape.length = mask.length) : opArray f shape mask args o = denoteArray f shape mask args o := by
  have h1 : (extOf mask shape).length = nTrue mask := length_extOf mask shape h
  have h2 : (intOf mask shape).length = nFalse mask := length_intOf mask shape h
  have hsel : selectByMask mask (extOf mask shape) (intOf mask shape) = shape := select_ext_int mask shape h
  unfold opArray denoteArray
  simp only []
  congr 1
  rw [← map_key_range shape, List.map_map]
  apply List.map_congr_left
  intro j hj
  have hlt : j < prod shape := List.mem_range.mp hj
  obtain ⟨hr, hin⟩ := ravel_key shape j hlt
  have hF : InRange (selectByMask mask (extOf mask shape) (intOf mask shape)) (shapeToKey shape j) := by rw [hsel]; exact hin
  have := fill_correct mask (extOf mask shape) (intOf mask shape)
    (fun E I => elemAt mask (outVal f (args (ravel (extOf mask shape) E)) o) I) (shapeToKey shape j) h1 h2 hF
  rw [hsel, hr] at this
  simp [this]

theorem runMappedWith_congr (fs : List MFunc) (env : Env) (f : MFunc) (ms : MSpec) (shape : List Nat) (mask : List Bool)
    (h : shape.length = mask.length) :
    runMappedWith opArray fs env f ms shape mask = runMappedWith denoteArray fs env f ms shape mask := by
  unfold runMappedWith
  simp only [opArray_eq_denote _ shape mask _ _ h]

theorem runFuncWith_congr (fs : List MFunc) (shapes : List (String × List Nat)) (masks : List (String × List Bool)) (env : Env)
    (f : MFunc) : runFuncWith opArray fs shapes masks env f = runFuncWith denoteArray fs shapes masks env f := by
  unfold runFuncWith
  split
  · split
    · rfl
    · split
      · rfl
      · split
        · next sh mk _ _ =>
          by_cases hl : sh.length = mk.length
          · simp [hl, runMappedWith_congr fs env f _ sh mk hl]
          · simp [hl]
        · rfl
  · rfl

/-- `cellLookup` on the cells written by a full run -/
theorem cellLookup_cellsOf (f : MFunc) (n : Nat) (args : Nat → List (String × Val)) (o : String) (i : Nat) :
    cellLookup (cellsOf f n args o) i = if i < n then some (outVal f (args i) o) else none := by
  unfold cellsOf
  induction n with
  | zero => simp [cellLookup]
  | succ n ih =>
    rw [List.range_succ, List.map_append]
    have app : ∀ (l1 l2 : List (Nat × Val)), cellLookup (l1 ++ l2) i =
        match cellLookup l1 i with | some v => some v | none => cellLookup l2 i := by
      intro l1 l2
      induction l1 with
      | nil => simp [cellLookup]
      | cons e es ih2 => obtain ⟨k, v⟩ := e; simp only [List.cons_append, cellLookup]; split <;> simp_all
    rw [app, ih]
    by_cases hi : i < n
    · simp [hi, Nat.lt_succ_of_lt hi]
    · simp only [hi, ↓reduceIte, List.map_cons, List.map_nil, cellLookup]
      by_cases he : n = i
      · subst he; simp
      · have : ¬ i < n + 1 := by omega
        simp [he, this]

end PF.Map

namespace PF.Map
open PF

theorem mapM_ok_length {α β} (g : α → M β) : ∀ (l : List α) (r : List β), l.mapM g = .ok r → r.length = l.length := by
  intro l
  induction l with
  | nil => intro r h; simp [List.mapM_nil, pure, Except.pure] at h; subst h; rfl
  | cons a as ih =>
    intro r h
    rw [List.mapM_cons] at h
    cases ha : g a with
    | error e => simp [ha, bind, Except.bind] at h
    | ok b =>
      cases hr : as.mapM g with
      | error e => simp [ha, hr, bind, Except.bind] at h
      | ok bs =>
        simp [ha, hr, bind, Except.bind, pure, Except.pure] at h
        subst h
        simp [ih bs hr]

theorem mapM_ok_get {α β} (g : α → M β) : ∀ (l : List α) (r : List β), l.mapM g = .ok r →
    ∀ i (hi : i < l.length) (hr : i < r.length), g l[i] = .ok r[i] := by
  intro l
  induction l with
  | nil => intro r _ i hi; simp at hi
  | cons a as ih =>
    intro r h i hi hri
    rw [List.mapM_cons] at h
    cases ha : g a with
    | error e => simp [ha, bind, Except.bind] at h
    | ok b =>
      cases hr : as.mapM g with
      | error e => simp [ha, hr, bind, Except.bind] at h
      | ok bs =>
        simp [ha, hr, bind, Except.bind, pure, Except.pure] at h
        subst h
        cases i with
        | zero => simpa using ha
        | succ i => simpa using ih bs hr i (by simpa using hi) (by simpa using hri)

/-- what the storage array holds after a full run, read back with `to_array()`, is the denoted array -/
theorem stored_eq_denote (f : MFunc) (shape : List Nat) (mask : List Bool) (args : Nat → List (String × Val)) (o : String)
    (h : shape.length = mask.length) :
    (Slot.array shape mask (cellsOf f (prod (extOf mask shape)) args o)).toVal = denoteArray f shape mask args o := by
  unfold Slot.toVal denoteArray
  simp only []
  congr 1
  apply List.map_congr_left
  intro F hF
  have hin : InRange shape F := (mem_allIdx shape F).mp hF
  have hE : InRange (extOf mask shape) (extOf mask F) := inRange_ext mask shape F hin h
  have hlt := ravel_lt _ _ hE
  rw [cellLookup_cellsOf]
  simp only [hlt, ↓reduceIte, elemAt]

end PF.Map

namespace PF.Map
open PF

/-- the axis loop of `MapSpec.shape`: shape and mask have one entry per output axis; an entry is external (`true`) with
    the common dimension exactly when some input carries the axis name, else internal with the next internal size -/
theorem go_spec (ms : MSpec) (shapes : List (String × List Nat)) (internal : List (String × List Nat)) (out : ASpec) :
    ∀ (axes : List String) (k : Nat) (s : List Nat) (m : List Bool),
      mspecShape.go ms shapes internal out axes k = .ok (s, m) →
      s.length = axes.length ∧ m.length = axes.length ∧
      ∀ q (hq : q < axes.length) (hs : q < s.length) (hm : q < m.length),
        (m[q] = true → commonDim ms axes[q] shapes = .ok (some s[q])) ∧
        (m[q] = false → commonDim ms axes[q] shapes = .ok none ∧
            ∃ (ish : List Nat) (j : Nat), alookup internal out.name = some ish ∧ ish[j]? = some s[q]) := by
  intro axes
  induction axes with
  | nil =>
    intro k s m h
    simp [mspecShape.go, pure, Except.pure] at h
    obtain ⟨rfl, rfl⟩ := h
    exact ⟨rfl, rfl, fun q hq => by simp at hq⟩
  | cons ix rest ih =>
    intro k s m h
    rw [mspecShape.go] at h
    simp only [bind, Except.bind] at h
    split at h
    · cases h
    · next cd hcd =>
      cases cd with
      | some d =>
        simp only at h
        split at h
        · cases h
        · next sm hgo =>
          obtain ⟨s', m'⟩ := sm
          simp only [pure, Except.pure] at h
          cases h
          obtain ⟨l1, l2, hp⟩ := ih k s' m' hgo
          refine ⟨by simp [l1], by simp [l2], ?_⟩
          intro q hq hs hm
          cases q with
          | zero => simp [hcd]
          | succ q =>
            simp only [List.getElem_cons_succ]
            exact hp q (by simpa using hq) (by simpa using hs) (by simpa using hm)
      | none =>
        simp only at h
        split at h
        · cases h
        · next ish hish =>
          split at h
          · cases h
          · next dd hdd =>
            split at h
            · cases h
            · next sm hgo =>
              obtain ⟨s', m'⟩ := sm
              simp only [pure, Except.pure] at h
              cases h
              obtain ⟨l1, l2, hp⟩ := ih (k+1) s' m' hgo
              refine ⟨by simp [l1], by simp [l2], ?_⟩
              intro q hq hs hm
              cases q with
              | zero => simp [hcd]; exact ⟨ish, hish, k, hdd⟩
              | succ q =>
                simp only [List.getElem_cons_succ]
                exact hp q (by simpa using hq) (by simpa using hs) (by simpa using hm)

end PF.Map
