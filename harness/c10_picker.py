"""C10 (ext5): multi-output functions with a CUSTOM `output_picker` in every C10 generator.

Why: `PipeFunc(..., output_name=(a, b), output_picker=pick)` lets the wrapped function return ANYTHING (a dict, an object, a tuple in
another order); only `pick(raw, name)` knows where an output lives.  Every place of pipefunc that handles the raw return value of a
multi-output function itself (`_NestedFuncWrapper.__call__`, `_PipelineAsFunc.call_full_output`, `_update_all_results`,
`map/_run.py: _pick_output/_dump_single_output`, `PipeFunc.copy/__getstate__`) is only exercised for real by a picker that is NOT the
positional default: with the default picker "hand the raw tuple on" and "pick, then re-pack" are indistinguishable.

A function description (pipegen / mapgen format) may carry `"picker": "dict" | "rev" | "obj"`:
  dict  the wrapped function returns `{name: value}`;  picker `raw[name]`       (raw handed to a positional picker: KeyError 0)
  rev   it returns the tuple in REVERSE order;         picker `raw[n-1-index]`  (raw handed to a positional picker: silently swapped values)
  obj   it returns an object with one attribute per output; picker `getattr`     (raw handed to a positional picker: TypeError)
  dict1 a SINGLE output under the 1-tuple name `("o",)`, dict result `{o: value}`, picker `raw[name]`
The names are the function's OWN (original) output names - what the picker is handed whatever the pipeline calls the outputs now.
The VALUES are exactly those of the default style (`pick(f(...), name)` terms), so the Lean model needs no change: it already abstracts a
multi-output result as `Val.pick raw originalName`.

`build_call` / `build_map` are `pipegen.build` / `mapgen.build` (delegated to when no function has a picker) with that one extra.
"""
from __future__ import annotations

import contextlib
import functools
import io

import pfimport  # noqa: F401
from pipefunc import PipeFunc, Pipeline

import mapgen
import pipegen
import terms

STYLES = ("dict", "rev", "obj")


class Bag:
    """An object with one attribute per output (picklable; compares by content)."""

    def __init__(self, **kw):
        self.__dict__.update(kw)

    def __eq__(self, o):
        return isinstance(o, Bag) and self.__dict__ == o.__dict__

    def __hash__(self):
        return hash(tuple(sorted(self.__dict__)))

    def __repr__(self):
        return f"Bag({self.__dict__!r})"


def pick_dict(raw, name):
    return raw[name]


def pick_attr(raw, name):
    return getattr(raw, name)


class RevPicker:
    """The wrapped function returns its outputs in reverse order."""

    def __init__(self, names):
        self.names = tuple(names)

    def __call__(self, raw, name):
        return raw[len(self.names) - 1 - self.names.index(name)]

    def __eq__(self, o):
        return isinstance(o, RevPicker) and self.names == o.names

    def __hash__(self):
        return hash(self.names)


def styled(fn, outputs, style):
    """`fn` returns a tuple in `outputs` order; -> (the function returning the same values in `style`, its picker)."""
    outputs = tuple(outputs)
    one = style == "dict1"
    style = "dict" if one else style

    if style == "dict":
        def conv(r):
            return dict(zip(outputs, r))
        picker = pick_dict
    elif style == "rev":
        def conv(r):
            return tuple(reversed(r))
        picker = RevPicker(outputs)
    elif style == "obj":
        def conv(r):
            return Bag(**dict(zip(outputs, r)))
        picker = pick_attr
    else:
        raise ValueError(style)

    if one:
        inner_conv = conv

        def conv(r):             # the plain function returns the bare value of its only output
            return inner_conv((r,))

    @functools.wraps(fn)          # keeps __name__, __module__ ("__main__": pickled by value) and, through __wrapped__, the signature
    def wrapped(*a, **k):
        return conv(fn(*a, **k))

    return wrapped, picker


def has_picker(desc):
    return any(f.get("picker") for f in desc["funcs"])


def strip(funcs):
    """Function descriptions for the Lean driver: the picker style is invisible in the values."""
    return [{k: v for k, v in f.items() if k != "picker"} for f in funcs]


def assign(rng, funcs, p=0.6, counts=None, p_one=0.08):
    """Give multi-output functions a custom picker style (in place); a few single-output functions get the 1-tuple name `("o",)` with a
    dict result (`dict1`: `PipeFunc(f, ("o",), output_picker=...)`, the shape of tests/test_pipeline.py::test_output_picker_single_output)."""
    for f in funcs:
        if len(f["outputs"]) > 1 and rng.random() < p:
            f["picker"] = rng.choice(STYLES)
        elif len(f["outputs"]) == 1 and not f.get("ret") and not f.get("internal") and rng.random() < p_one:
            f["picker"] = "dict1"
        if counts is not None and f.get("picker"):
            counts.append(f"picker:generated:{f['picker']}")
    return funcs


def build_call(desc, log=None, defaults_in_signature=True, **pipeline_kwargs):
    """`pipegen.build` with picker styles."""
    if not has_picker(desc):
        return pipegen.build(desc, log=log, defaults_in_signature=defaults_in_signature, **pipeline_kwargs)
    log = log if log is not None else terms.CallLog()
    pfs = []
    for f in desc["funcs"]:
        origs = [orig for _, orig in f["params"]]
        renames = {orig: p for p, orig in f["params"] if orig != p}
        inv = {p: orig for p, orig in f["params"]}
        dflt = {p: terms.dec(v) for p, v in f.get("defaults", [])}
        sig_defaults = {inv[p]: v for p, v in dflt.items()} if defaults_in_signature else {}
        fn = terms.make_func(f["name"], origs, f["outputs"], defaults=sig_defaults, log=log)
        on = f["outputs"][0] if len(f["outputs"]) == 1 else tuple(f["outputs"])
        kw = {}
        if not defaults_in_signature and dflt:
            kw["defaults"] = dflt
        if f.get("bound"):
            kw["bound"] = {p: terms.dec(v) for p, v in f["bound"]}
        if f.get("mapspec"):
            kw["mapspec"] = f["mapspec"]
        if f.get("internal_shape"):
            kw["internal_shape"] = tuple(f["internal_shape"])
        if f.get("picker") and (len(f["outputs"]) > 1 or f["picker"] == "dict1"):
            fn, kw["output_picker"] = styled(fn, f["outputs"], f["picker"])
            on = tuple(f["outputs"])
        pfs.append(PipeFunc(fn, on, renames=renames, **kw))
    with contextlib.redirect_stdout(io.StringIO()):
        p = Pipeline(pfs, **pipeline_kwargs)
    return p, log


def build_map(desc, log=None, **pipeline_kwargs):
    """`mapgen.build` with picker styles."""
    if not has_picker(desc):
        return mapgen.build(desc, log=log, **pipeline_kwargs)
    log = log if log is not None else terms.CallLog()
    pfs = []
    for f in desc["funcs"]:
        origs = [orig for _, orig in f["params"]]
        renames = {orig: p for p, orig in f["params"] if orig != p}
        inv = {p: orig for p, orig in f["params"]}
        sig_defaults = {inv[p]: terms.dec(v) for p, v in f["defaults"]}
        fn = terms.make_func(f["name"], origs, f["outputs"], defaults=sig_defaults, internal_shape=tuple(f["ret"]) if f.get("ret") else None, log=log)
        on = f["outputs"][0] if len(f["outputs"]) == 1 else tuple(f["outputs"])
        kw = {}
        if f["bound"]:
            kw["bound"] = {p: terms.dec(v) for p, v in f["bound"]}
        if f.get("picker") and (len(f["outputs"]) > 1 or f["picker"] == "dict1"):
            fn, kw["output_picker"] = styled(fn, f["outputs"], f["picker"])
            on = tuple(f["outputs"])
        pfs.append(PipeFunc(fn, on, renames=renames, mapspec=f["mapspec_str"],
                            internal_shape=tuple(f["internal"]) if f.get("internal") else None, **kw))
    with contextlib.redirect_stdout(io.StringIO()):
        p = Pipeline(pfs, **pipeline_kwargs)
    return p, log


def style_of(f):
    """The picker style of a real PipeFunc (None: the positional default / a single output / a NestedPipeFunc)."""
    pk = getattr(f, "_output_picker", None)
    if pk is None:
        return None
    return "dict" if pk is pick_dict else "obj" if pk is pick_attr else "rev" if isinstance(pk, RevPicker) else "other"
