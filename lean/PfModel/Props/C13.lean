import PfModel.Lemmas.Errors
/-!
C13 — User-function failures surface unchanged, attributed and reproducible.

`Errors.Call.runTopE` (calling a pipeline) and `Errors.runMapE` / `runGensE` (`Pipeline.map`, sequentially or in an executor
whose pool runs the submitted tasks in an arbitrary order `sched g`) are the models of the code with a failure oracle;
`specGens` is the schedule-free specification of *which* exception a map raises.
-/
namespace PF.C13
open PF PF.Map PF.Errors

/-! ## `Pipeline.map` -/

/-- **Which exception surfaces** (clause "raises an exception of the same type and message", for every executor schedule).
    If the specification says that the first failing invocation — in submission order, of the first generation that has one —
    is `r` in generation `g'`, then the sequential run, and the run in an executor under *every* schedule that eventually runs
    each submitted task, raise exactly `r` (the oracle's exception untouched, annotated) in generation `g'`. -/
theorem C13_surface (mode : Mode) (fails : Oracle) (sched : Nat → List Nat) (R : Env → MFunc → M FuncResult) :
    ∀ (gens : List (List MFunc)) (env : Env) (g g' : Nat) (r : Raised),
      (mode = .pool → FairSched sched R gens env g) →
      specGens fails R gens env g = .ok (some (g', r)) →
      ∃ log store, runGensE mode fails sched R gens env g = .raised g' r log store := by
  intro gens
  induction gens with
  | nil => intro env g g' r _ h; simp [specGens, pure, Except.pure] at h
  | cons gen rest ih =>
    intro env g g' r hfair h
    simp only [specGens] at h
    cases hrs : runGenWith R env gen with
    | error e => simp [hrs] at h
    | ok rs =>
      simp only [hrs] at h
      have hf1 : mode = .pool → Fair (sched g) (genTasks (gen.zip rs)).length := by
        intro hm; have := hfair hm; simp only [FairSched, hrs] at this; exact this.1
      have hf2 : mode = .pool → FairSched sched R rest { env with store := env.store ++ rs.flatMap (·.slots) } (g + 1) := by
        intro hm; have := hfair hm; simp only [FairSched, hrs] at this; exact this.2
      have hspec := genE_spec mode fails (sched g) R env gen rs hrs hf1
      simp only [GenSpec] at hspec
      simp only [runGensE]
      cases hff : firstFail fails (genTasks (gen.zip rs)) with
      | some tx =>
        obtain ⟨t, x⟩ := tx
        simp only [hff, pure, Except.pure] at h hspec
        injection h with h; injection h with h; injection h with h1 h2
        subst h1; subst h2
        obtain ⟨log, slots, e⟩ := hspec
        simp only [e]; exact ⟨_, _, rfl⟩
      | none =>
        simp only [hff] at h hspec
        obtain ⟨log, e⟩ := hspec
        obtain ⟨log', store, e'⟩ := ih _ (g + 1) g' r hf2 h
        simp only [e, e']; exact ⟨_, _, rfl⟩

/-- the same exception under any two fair schedules: which error is reported does not depend on the order in which the
    pool finishes the tasks (`Future.result()` is called in submission order) -/
theorem C13_schedule_independent (fails : Oracle) (sched sched' : Nat → List Nat) (R : Env → MFunc → M FuncResult)
    (gens : List (List MFunc)) (env : Env) (g g' : Nat) (r : Raised)
    (hf : FairSched sched R gens env g) (hf' : FairSched sched' R gens env g)
    (h : specGens fails R gens env g = .ok (some (g', r))) :
    (∃ log store, runGensE .pool fails sched R gens env g = .raised g' r log store) ∧
    (∃ log store, runGensE .pool fails sched' R gens env g = .raised g' r log store) ∧
    (∃ log store, runGensE .seq fails sched R gens env g = .raised g' r log store) :=
  ⟨C13_surface .pool fails sched R gens env g g' r (fun _ => hf) h,
   C13_surface .pool fails sched' R gens env g g' r (fun _ => hf') h,
   C13_surface .seq fails sched R gens env g g' r (fun hm => by cases hm) h⟩

/-- **"first" means first**: what `firstFail` (used by the specification) returns is preceded, in submission order, only by
    invocations that do not fail, and is itself an invocation the oracle fails -/
theorem C13_first_failing (fails : Oracle) (ts : List Task) (t : Task) (x : Exn) (h : firstFail fails ts = some (t, x)) :
    ∃ pre post, ts = pre ++ t :: post ∧ (∀ u ∈ pre, failOf fails u = none) ∧ failOf fails t = some x :=
  firstFail_spec fails ts t x h

/-- everything a raised run tells, by one induction over the generation loop -/
theorem C13_raised_facts (mode : Mode) (fails : Oracle) (sched : Nat → List Nat) (R : Env → MFunc → M FuncResult) :
    ∀ (gens : List (List MFunc)) (env : Env) (g g' : Nat) (r : Raised) (log : List Task) (store : List (String × Slot)),
      runGensE mode fails sched R gens env g = .raised g' r log store →
      ∃ k gen t x rs envk part, g' = g + k ∧ gens[k]? = some gen ∧ t.f ∈ gen ∧ failOf fails t = some x ∧ r = raisedOf t x ∧
        (∀ u ∈ log, ∃ j gen', j ≤ k ∧ gens[j]? = some gen' ∧ u.f ∈ gen') ∧
        runGensWith R (gens.take k) env = .ok (rs, envk) ∧ store = envk.store ++ part := by
  intro gens
  induction gens with
  | nil => intro env g g' r log store h; simp [runGensE] at h
  | cons gen rest ih =>
    intro env g g' r log store h
    simp only [runGensE] at h
    have hfacts := genE_facts mode fails (sched g) R env gen
    cases hg : genE mode fails (sched g) R env gen with
    | refused e => simp [hg] at h
    | hang l => simp [hg] at h
    | raised r0 log0 slots =>
      rw [hg] at hfacts
      simp only [hg] at h
      injection h with h1 h2 h3 h4
      subst h1; subst h2; subst h3; subst h4
      obtain ⟨hl, t, x, ht, hx, hr⟩ := hfacts
      refine ⟨0, gen, t, x, [], env, slots, rfl, rfl, ht, hx, hr, ?_, ?_, rfl⟩
      · intro u hu; exact ⟨0, gen, Nat.le_refl 0, rfl, hl u hu⟩
      · simp [runGensWith, pure, Except.pure]
    | ok rs log0 =>
      rw [hg] at hfacts
      obtain ⟨hrun, hl⟩ := hfacts
      simp only [hg] at h
      cases hrec : runGensE mode fails sched R rest { env with store := env.store ++ rs.flatMap (·.slots) } (g + 1) with
      | ok a b c => simp [hrec] at h
      | refused e => simp [hrec] at h
      | hang a b => simp [hrec] at h
      | raised g1 r1 log1 st1 =>
        simp only [hrec] at h
        injection h with h1 h2 h3 h4
        subst h1; subst h2; subst h3; subst h4
        obtain ⟨k, gen', t, x, rs', envk, part, e1, e2, ht, hx, hr, hlog, hrw, hst⟩ := ih _ _ _ _ _ _ hrec
        refine ⟨k + 1, gen', t, x, rs ++ rs', envk, part, by omega, by simpa using e2, ht, hx, hr, ?_, ?_, hst⟩
        · intro u hu
          rcases List.mem_append.mp hu with hu | hu
          · exact ⟨0, gen, Nat.zero_le _, rfl, hl u hu⟩
          · obtain ⟨j, gj, hj, e, hm⟩ := hlog u hu
            exact ⟨j + 1, gj, by omega, by simpa using e, hm⟩
        · rw [List.take_succ_cons, runGensWith_cons, hrun]
          simp only [hrw]

/-- **Attribution** (clause "annotated with the failing function's name and the keyword arguments of the failing invocation").
    The exception that reaches the caller is the oracle's answer for one invocation `t` of a function of generation `g'`; the
    note names that function, lists exactly the values that invocation received (same values, same order) under the
    pipeline-level parameter names, and nothing else. -/
theorem C13_attributed (mode : Mode) (fails : Oracle) (sched : Nat → List Nat) (R : Env → MFunc → M FuncResult)
    (gens : List (List MFunc)) (env : Env) (g g' : Nat) (r : Raised) (log : List Task) (store : List (String × Slot))
    (h : runGensE mode fails sched R gens env g = .raised g' r log store) :
    ∃ (gen : List MFunc) (t : Task), gens[g' - g]? = some gen ∧ t.f ∈ gen ∧ fails t.f.name t.c.args = some r.exn ∧
      r.noteFunc = t.f.name ∧ r.noteKw = noteKwOf t.f.params t.c.args ∧
      (t.c.args.length = t.f.params.length →
        r.noteKw.map (·.2) = t.c.args.map (·.2) ∧ r.noteKw.map (·.1) = t.f.params.map (·.1)) := by
  obtain ⟨k, gen, t, x, _, _, _, e1, e2, ht, hx, hr, _, _, _⟩ := C13_raised_facts mode fails sched R gens env g g' r log store h
  subst hr
  refine ⟨gen, t, by rw [e1]; simpa using e2, ht, hx, rfl, rfl, ?_⟩
  intro hlen
  simp only [raisedOf, handleError, noteKwOf]
  constructor
  · rw [List.map_snd_zip]; simp [hlen]
  · rw [List.map_fst_zip]; simp [hlen]

/-- **No later generation** (clause "no function of a later generation is invoked"): every invocation in the log of a raised
    run — whatever the mode and the schedule, fair or not — belongs to a function of generation `≤ g'`, where `g'` is the
    generation of the failing function. -/
theorem C13_no_later_generation (mode : Mode) (fails : Oracle) (sched : Nat → List Nat) (R : Env → MFunc → M FuncResult)
    (gens : List (List MFunc)) (env : Env) (g g' : Nat) (r : Raised) (log : List Task) (store : List (String × Slot))
    (h : runGensE mode fails sched R gens env g = .raised g' r log store) :
    g ≤ g' ∧ ∀ u ∈ log, ∃ j gen, j ≤ g' - g ∧ gens[j]? = some gen ∧ u.f ∈ gen := by
  obtain ⟨k, _, _, _, _, _, _, e1, _, _, _, _, hlog, _, _⟩ := C13_raised_facts mode fails sched R gens env g g' r log store h
  subst e1
  refine ⟨by omega, ?_⟩
  intro u hu
  obtain ⟨j, gen, hj, e, hm⟩ := hlog u hu
  exact ⟨j, gen, by omega, e, hm⟩

/-- **Snapshot** (clause "expose an ErrorSnapshot whose reproduce(), also after save_to_file/load_from_file, raises the same
    exception"): the snapshot holds the function named in the note, the exception that was raised and the keyword arguments of
    the failing invocation (the wrapped function's own names); calling it again yields the same exception.  `save`/`load` are
    the identity in the model (cloudpickle is trusted; the harness checks the real round trip). -/
theorem C13_snapshot (mode : Mode) (fails : Oracle) (sched : Nat → List Nat) (R : Env → MFunc → M FuncResult)
    (gens : List (List MFunc)) (env : Env) (g g' : Nat) (r : Raised) (log : List Task) (store : List (String × Slot))
    (h : runGensE mode fails sched R gens env g = .raised g' r log store) :
    r.snap.fname = r.noteFunc ∧ r.snap.exn = r.exn ∧ fails r.snap.fname r.snap.kwargs = some r.exn ∧
      reproduce fails r.snap = .error r.exn ∧ reproduce fails (load (save r.snap)) = .error r.exn := by
  obtain ⟨_, _, t, x, _, _, _, _, _, _, hx, hr, _, _, _⟩ := C13_raised_facts mode fails sched R gens env g g' r log store h
  subst hr
  have hx' : fails t.f.name t.c.args = some x := hx
  simp [raisedOf, handleError, reproduce, save, load, hx']

/-- **Completed results stay loadable**: when generation `g'` fails, the store still holds, untouched and complete, exactly
    what the failure-free run holds after the generations before `g'` (the C01 denotation of every such output), followed by
    whatever the failing generation wrote. -/
theorem C13_completed_loadable (mode : Mode) (fails : Oracle) (sched : Nat → List Nat) (R : Env → MFunc → M FuncResult)
    (gens : List (List MFunc)) (env : Env) (g g' : Nat) (r : Raised) (log : List Task) (store : List (String × Slot))
    (h : runGensE mode fails sched R gens env g = .raised g' r log store) :
    ∃ rs envk part, runGensWith R (gens.take (g' - g)) env = .ok (rs, envk) ∧ store = envk.store ++ part := by
  obtain ⟨k, _, _, _, rs, envk, part, e1, _, _, _, _, _, hrw, hst⟩ := C13_raised_facts mode fails sched R gens env g g' r log store h
  subst e1
  exact ⟨rs, envk, part, by simpa using hrw, hst⟩

/-- **Sequential runs stop at the failure**: in-line execution (`parallel=False`) invokes nothing after the failing invocation,
    and every invocation before it succeeded — so the exception is that of the *first* invocation that fails. -/
theorem C13_seq_stops (fails : Oracle) (R : Env → MFunc → M FuncResult) (env : Env) (gen : List MFunc) (r : Raised)
    (log : List Task) (slots : List (String × Slot)) (h : seqGen fails R env gen = .raised r log slots) :
    ∃ pre t x, log = pre ++ [t] ∧ (∀ u ∈ pre, failOf fails u = none) ∧ failOf fails t = some x ∧ r = raisedOf t x := by
  have := seqGen_facts fails R env gen
  rw [h] at this
  exact this.2

/-- **Sequential runs, whole run**: the log of a raised sequential run is `pre ++ [t]` where no invocation of `pre` fails and
    `t` is the failing invocation whose exception is raised — the *first* failure in execution order, and the last thing executed. -/
theorem C13_seq_first_failure (fails : Oracle) (sched : Nat → List Nat) (R : Env → MFunc → M FuncResult) :
    ∀ (gens : List (List MFunc)) (env : Env) (g : Nat),
      match runGensE .seq fails sched R gens env g with
      | .ok _ _ log => ∀ u ∈ log, failOf fails u = none
      | .raised _ r log _ => ∃ pre t x, log = pre ++ [t] ∧ (∀ u ∈ pre, failOf fails u = none) ∧ failOf fails t = some x ∧ r = raisedOf t x
      | _ => True := by
  intro gens
  induction gens with
  | nil => intro env g; simp [runGensE]
  | cons gen rest ih =>
    intro env g
    simp only [runGensE, genE]
    have hf := seqGen_facts fails R env gen
    cases hs : seqGen fails R env gen with
    | refused e => trivial
    | hang l => trivial
    | raised r log sl => rw [hs] at hf; exact hf.2
    | ok rs log =>
      rw [hs] at hf
      obtain ⟨_, _, hclean⟩ := hf
      simp only []
      have := ih { env with store := env.store ++ rs.flatMap (·.slots) } (g + 1)
      cases hr : runGensE .seq fails sched R rest { env with store := env.store ++ rs.flatMap (·.slots) } (g + 1) with
      | refused e => trivial
      | hang a b => trivial
      | ok rs' envF log' =>
        rw [hr] at this
        simp only []
        intro u hu
        rcases List.mem_append.mp hu with hu | hu
        · exact hclean u hu
        · exact this u hu
      | raised g1 r1 log1 st1 =>
        rw [hr] at this
        obtain ⟨pre, t, x, e, hpre, hx, hr'⟩ := this
        simp only []
        refine ⟨log ++ pre, t, x, by simp [e], ?_, hx, hr'⟩
        intro u hu
        rcases List.mem_append.mp hu with hu | hu
        · exact hclean u hu
        · exact hpre u hu

/-- **`Pipeline.error_snapshot`** (the most recent failure) after a raised sequential run is the snapshot of the exception that
    was raised — also when functions of the pipeline still carry snapshots of earlier runs, because this run's failure is
    the most recent one. -/
theorem C13_pipeline_snapshot (fails : Oracle) (sched : Nat → List Nat) (R : Env → MFunc → M FuncResult)
    (gens : List (List MFunc)) (env : Env) (g g' : Nat) (r : Raised) (log : List Task) (store : List (String × Slot))
    (h : runGensE .seq fails sched R gens env g = .raised g' r log store) : pipelineSnapshot fails log = some r.snap := by
  have := C13_seq_first_failure fails sched R gens env g
  rw [h] at this
  obtain ⟨pre, t, x, e, _, hx, hr⟩ := this
  subst e; subst hr
  simp [pipelineSnapshot, hx, raisedOf, handleError]

/-- **The call returns** (clause "returns instead of hanging", relative to the pool running every submitted task): under a
    fair schedule the model never waits for ever; the sequential run never does. -/
theorem C13_no_hang (mode : Mode) (fails : Oracle) (sched : Nat → List Nat) (R : Env → MFunc → M FuncResult) :
    ∀ (gens : List (List MFunc)) (env : Env) (g : Nat), (mode = .pool → FairSched sched R gens env g) →
      ∀ g' log, runGensE mode fails sched R gens env g ≠ .hang g' log := by
  intro gens
  induction gens with
  | nil => intro env g _ g' log h; simp [runGensE] at h
  | cons gen rest ih =>
    intro env g hfair g' log h
    simp only [runGensE] at h
    have hfacts := genE_facts mode fails (sched g) R env gen
    cases hg : genE mode fails (sched g) R env gen with
    | refused e => simp [hg] at h
    | raised a b c => simp [hg] at h
    | hang l =>
      -- a hang needs an unfair schedule
      cases mode with
      | seq =>
        have := seqGen_facts fails R env gen
        simp only [genE] at hg
        rw [hg] at this; exact this
      | pool =>
        simp only [genE, poolGen] at hg
        cases hrs : runGenWith R env gen with
        | error e => simp [hrs] at hg
        | ok rs =>
          have hf := hfair rfl
          simp only [FairSched, hrs] at hf
          have hspec := poolGen_spec fails (sched g) R env gen rs hrs hf.1
          simp only [GenSpec] at hspec
          have hg' : poolGen fails (sched g) R env gen = .hang l := by simp only [poolGen]; exact hg
          rw [hg'] at hspec
          cases hff : firstFail fails (genTasks (gen.zip rs)) with
          | some tx => obtain ⟨t, x⟩ := tx; rw [hff] at hspec; obtain ⟨_, _, e⟩ := hspec; cases e
          | none => rw [hff] at hspec; obtain ⟨_, e⟩ := hspec; cases e
    | ok rs log0 =>
      rw [hg] at hfacts
      simp only [hg] at h
      have hf2 : mode = .pool → FairSched sched R rest { env with store := env.store ++ rs.flatMap (·.slots) } (g + 1) := by
        intro hm; have := hfair hm; simp only [FairSched, hfacts.1] at this; exact this.2
      cases hrec : runGensE mode fails sched R rest { env with store := env.store ++ rs.flatMap (·.slots) } (g + 1) with
      | ok a b c => simp [hrec] at h
      | refused e => simp [hrec] at h
      | raised a b c d => simp [hrec] at h
      | hang g1 l1 => exact ih _ _ hf2 g1 l1 hrec

/-- **Conservative extension, generation loop**: with an oracle that never fails the sequential failure model *is* the
    generation loop of `PF.Map` (same results, same final store, same call log), and refuses exactly when it refuses. -/
theorem C13_no_failure_conservative_gens (sched : Nat → List Nat) (R : Env → MFunc → M FuncResult) :
    ∀ (gens : List (List MFunc)) (env : Env) (g : Nat),
      match runGensWith R gens env with
      | .error e => runGensE .seq never sched R gens env g = .refused e
      | .ok (rs, envF) => ∃ log, runGensE .seq never sched R gens env g = .ok rs envF log ∧ log.map (·.c) = rs.flatMap (·.calls) := by
  intro gens
  induction gens with
  | nil => intro env g; simp [runGensWith, pure, Except.pure, runGensE]
  | cons gen rest ih =>
    intro env g
    rw [runGensWith_cons]
    simp only [runGensE, genE]
    have hs := seqGen_never R env gen
    cases hrs : runGenWith R env gen with
    | error e => rw [hrs] at hs; simp only [hs]
    | ok rs =>
      rw [hrs] at hs
      obtain ⟨log, e, hl⟩ := hs
      simp only [e]
      have := ih { env with store := env.store ++ rs.flatMap (·.slots) } (g + 1)
      cases hrest : runGensWith R rest { env with store := env.store ++ rs.flatMap (·.slots) } with
      | error e2 => rw [hrest] at this; simp only [this]
      | ok p =>
        obtain ⟨more, envF⟩ := p
        rw [hrest] at this
        obtain ⟨log', e', hl'⟩ := this
        simp only [e']
        exact ⟨_, rfl, by simp [hl, hl']⟩

/-- **Conservative extension, executor**: with an oracle that never fails and a fair schedule the executor model produces the
    results and the final store of `PF.Map`'s generation loop (the call log is a re-ordering chosen by the schedule). -/
theorem C13_no_failure_conservative_pool (sched : Nat → List Nat) (R : Env → MFunc → M FuncResult) :
    ∀ (gens : List (List MFunc)) (env : Env) (g : Nat), FairSched sched R gens env g →
      match runGensWith R gens env with
      | .error e => runGensE .pool never sched R gens env g = .refused e
      | .ok (rs, envF) => ∃ log, runGensE .pool never sched R gens env g = .ok rs envF log := by
  intro gens
  induction gens with
  | nil => intro env g _; simp [runGensWith, pure, Except.pure, runGensE]
  | cons gen rest ih =>
    intro env g hfair
    rw [runGensWith_cons]
    simp only [runGensE, genE]
    cases hrs : runGenWith R env gen with
    | error e => simp [poolGen, hrs]
    | ok rs =>
      simp only [FairSched, hrs] at hfair
      have hspec := poolGen_spec never (sched g) R env gen rs hrs hfair.1
      simp only [GenSpec, firstFail_never] at hspec
      obtain ⟨log, e⟩ := hspec
      simp only [e]
      have := ih { env with store := env.store ++ rs.flatMap (·.slots) } (g + 1) hfair.2
      cases hrest : runGensWith R rest { env with store := env.store ++ rs.flatMap (·.slots) } with
      | error e2 => rw [hrest] at this; simp only [this]
      | ok p =>
        obtain ⟨more, envF⟩ := p
        rw [hrest] at this
        obtain ⟨log', e'⟩ := this
        simp only [e']
        exact ⟨_, rfl⟩

/-- **Conservative extension** (the failure model adds nothing when nothing fails): with an oracle that never fails,
    the sequential failure model of `Pipeline.map` equals `PF.Map.runMap` — the model C01 proves equal to the MapSpec denotation —
    on every input, including the requests it refuses. -/
theorem C13_no_failure_conservative (sched : Nat → List Nat) (fs : List MFunc) (inputs : List (String × Val))
    (ui : List (String × List Nat)) :
    runMapE .seq never sched fs inputs ui = Outcome.ofExcept (runMap fs inputs ui) := by
  unfold runMap runMapWith runMapE
  simp only [bind, Except.bind]
  cases hv : validateInputs fs inputs with
  | error e => simp [Outcome.ofExcept]
  | ok u =>
    simp only []
    by_cases hc : (generations fs).flatten.length ≠ fs.length
    · simp only [if_pos hc, Outcome.ofExcept, throw, throwThe, MonadExceptOf.throw]
    · simp only [if_neg hc, pure, Except.pure]
      cases hm : mapShapes fs inputs (constructInternal fs ui) with
      | error e => simp [Outcome.ofExcept]
      | ok sm =>
        obtain ⟨shapes, masks⟩ := sm
        simp only []
        have := C13_no_failure_conservative_gens sched (runFuncWith opArray fs shapes masks) (generations fs)
          { inputs := inputs, store := [] } 0
        cases hr : runGensWith (runFuncWith opArray fs shapes masks) (generations fs) { inputs := inputs, store := [] } with
        | error e => rw [hr] at this; simp [this, Outcome.ofExcept]
        | ok p =>
          obtain ⟨rs, envF⟩ := p
          rw [hr] at this
          obtain ⟨log, e, hl⟩ := this
          simp [e, Outcome.ofExcept, hl]

/-- `C13_surface` for the whole of `run_map`: a request that passes validation raises, in every mode and under every fair
    schedule, the exception the specification names. -/
theorem C13_surface_map (mode : Mode) (fails : Oracle) (sched : Nat → List Nat) (fs : List MFunc) (inputs : List (String × Val))
    (ui : List (String × List Nat)) (shapes : List (String × List Nat)) (masks : List (String × List Bool)) (g' : Nat) (r : Raised)
    (hv : validateInputs fs inputs = .ok ()) (hc : (generations fs).flatten.length = fs.length)
    (hm : mapShapes fs inputs (constructInternal fs ui) = .ok (shapes, masks))
    (hfair : mode = .pool → FairSched sched (runFuncWith opArray fs shapes masks) (generations fs) { inputs := inputs, store := [] } 0)
    (hs : specGens fails (runFuncWith opArray fs shapes masks) (generations fs) { inputs := inputs, store := [] } 0 = .ok (some (g', r))) :
    ∃ log stored, runMapE mode fails sched fs inputs ui = .raised g' r log stored := by
  obtain ⟨log, store, e⟩ := C13_surface mode fails sched _ _ _ 0 g' r hfair hs
  unfold runMapE
  simp only [hv, hm, e]
  have : ¬ (generations fs).flatten.length ≠ fs.length := by simp [hc]
  simp only [if_neg this]
  exact ⟨_, _, rfl⟩

/-! ## calling a pipeline -/
open PF.Pipe PF.Errors.Call

/-- **Conservative extension, call path**: with an oracle that never fails the failure model of `Pipeline.run` is
    `PF.Pipe.runTop` (the model C02 proves equal to the composition along the DAG). -/
theorem C13_call_conservative (fs : List Func) (kw : List (String × Val)) (req : Req) :
    runTopE never fs kw req = Call.ofExcept (runTop fs kw req) := by
  have hs0 : (St.toP { memo := kw, calls := [], used := [] }) = { memo := kw, calls := [], used := [] } := rfl
  have hclean : Clean never ({ memo := kw, calls := [], used := [] } : Call.St).calls := by intro c hc; cases hc
  have nouser : ∀ (r : Raised) (s : Call.St), ¬ StopOK never fs (.user r) s := by
    intro r s h
    obtain ⟨f, args, pre, _, _, _, hx, _⟩ := h
    simp [never] at hx
  cases req with
  | name o =>
    simp only [runTopE, runTop]
    by_cases ho : (alookup kw o).isSome
    · simp [ho, Call.ofExcept]
    · simp only [ho, Bool.false_eq_true, ↓reduceIte]
      have := runE_conservative fs kw (fuelFor fs) o { memo := kw, calls := [], used := [] }
      have hinv := runE_inv never fs kw (fuelFor fs) o _ hclean
      rw [hs0] at this
      rw [← this]
      cases hr : runE never fs kw (fuelFor fs) o { memo := kw, calls := [], used := [] } with
      | stop e s =>
        rw [hr] at hinv
        cases e with
        | model e => simp [Out.toE, Call.ofExcept]
        | user r => exact (nouser r s hinv).elim
      | ok v s =>
        simp only [Out.toE, St.toP]
        split <;> simp [Call.ofExcept]
  | whole os =>
    simp only [runTopE, runTop]
    cases hf : fs.find? (fun f => f.outputs = os) with
    | none => simp [Call.ofExcept]
    | some f =>
      simp only []
      have := argsE_conservative fs kw (runE never fs kw (fuelFor fs)) (run fs kw (fuelFor fs))
        (runE_conservative fs kw (fuelFor fs)) f f.params { memo := kw, calls := [], used := [] }
      have hinv := argsE_inv never fs kw (runE never fs kw (fuelFor fs)) (runE_inv never fs kw (fuelFor fs)) f f.params _ hclean
      rw [hs0] at this
      rw [← this]
      cases ha : argsE (runE never fs kw (fuelFor fs)) fs kw f f.params { memo := kw, calls := [], used := [] } with
      | stop e s =>
        rw [ha] at hinv
        cases e with
        | model e => simp [Out.toE, Call.ofExcept]
        | user r => exact (nouser r s hinv).elim
      | ok args s =>
        simp only [Out.toE, St.toP, execE, never]
        split <;> simp [Call.ofExcept]

/-- **Call path: unchanged, attributed, first, last.**  When `pipeline(...)` raises a user exception, it is the oracle's
    exception for the invocation that is the *last* entry of the call log (nothing runs afterwards); every earlier invocation
    succeeded (it is the first failure); the note names that function with the values it received under the pipeline-level
    names, and the snapshot holds the function, the exception and the own-name keyword arguments, so `reproduce` raises it again. -/
theorem C13_call_surface (fails : Oracle) (fs : List Func) (kw : List (String × Val)) (req : Req) (r : Raised)
    (calls : List Inv) (h : runTopE fails fs kw req = .raised r calls) :
    ∃ f args pre, f ∈ fs ∧ calls = pre ++ [(f.name, args)] ∧ (∀ c ∈ pre, fails c.1 c.2 = none) ∧
      fails f.name args = some r.exn ∧ r = handleError f.name f.params args r.exn ∧
      args.map (·.1) = f.params.map (·.2) ∧ r.noteKw.map (·.2) = args.map (·.2) ∧ r.noteKw.map (·.1) = f.params.map (·.1) ∧
      reproduce fails (load (save r.snap)) = .error r.exn := by
  have hclean : Clean fails ({ memo := kw, calls := [], used := [] } : Call.St).calls := by intro c hc; cases hc
  have key : ∀ (e : Stop) (s : Call.St), StopOK fails fs e s →
      (match e with | .model e => Result.refused e | .user r => Result.raised r s.calls) = .raised r calls →
      ∃ f args pre, f ∈ fs ∧ calls = pre ++ [(f.name, args)] ∧ (∀ c ∈ pre, fails c.1 c.2 = none) ∧
        fails f.name args = some r.exn ∧ r = handleError f.name f.params args r.exn ∧
        args.map (·.1) = f.params.map (·.2) ∧ r.noteKw.map (·.2) = args.map (·.2) ∧ r.noteKw.map (·.1) = f.params.map (·.1) ∧
        reproduce fails (load (save r.snap)) = .error r.exn := by
    intro e s hok heq
    cases e with
    | model e => cases heq
    | user r' =>
      injection heq with h1 h2
      subst h1; subst h2
      obtain ⟨f, args, pre, hf, hc, hpre, hx, hr, hk⟩ := hok
      have hlen : args.length = f.params.length := by
        have := congrArg List.length hk; simpa using this
      refine ⟨f, args, pre, hf, hc, hpre, hx, hr, hk, ?_, ?_, ?_⟩
      · rw [hr]; simp only [handleError, noteKwOf]; rw [List.map_snd_zip]; simp [hlen]
      · rw [hr]; simp only [handleError, noteKwOf]; rw [List.map_fst_zip]; simp [hlen]
      · rw [hr]; simp [handleError, reproduce, save, load, hx]
  cases req with
  | name o =>
    simp only [runTopE] at h
    by_cases ho : (alookup kw o).isSome
    · simp [ho] at h
    · simp only [ho, Bool.false_eq_true, ↓reduceIte] at h
      have hinv := runE_inv fails fs kw (fuelFor fs) o _ hclean
      cases hr : runE fails fs kw (fuelFor fs) o { memo := kw, calls := [], used := [] } with
      | ok v s => simp only [hr] at h; split at h <;> cases h
      | stop e s =>
        rw [hr] at hinv
        simp only [hr] at h
        exact key e s hinv h
  | whole os =>
    simp only [runTopE] at h
    cases hf : fs.find? (fun f => f.outputs = os) with
    | none => simp [hf] at h
    | some f =>
      simp only [hf] at h
      have hfm : f ∈ fs := List.mem_of_find?_eq_some hf
      have hinv := argsE_inv fails fs kw (runE fails fs kw (fuelFor fs)) (runE_inv fails fs kw (fuelFor fs)) f f.params _ hclean
      cases ha : argsE (runE fails fs kw (fuelFor fs)) fs kw f f.params { memo := kw, calls := [], used := [] } with
      | stop e s =>
        rw [ha] at hinv
        simp only [ha] at h
        exact key e s hinv h
      | ok args s =>
        rw [ha] at hinv
        simp only [ha] at h
        have hk := argsE_keys fs kw _ f _ _ _ _ ha
        have he := execE_inv fails fs f hfm args s hinv hk
        cases hex : execE fails f args s with
        | stop e s1 =>
          rw [hex] at he
          simp only [hex] at h
          exact key e s1 he h
        | ok u s1 => simp only [hex] at h; split at h <;> cases h

/-- call path: `Pipeline.error_snapshot` (most recent failure) is the snapshot of the exception just raised -/
theorem C13_call_pipeline_snapshot (fails : Oracle) (fs : List Func) (kw : List (String × Val)) (req : Req) (r : Raised)
    (calls : List Inv) (h : runTopE fails fs kw req = .raised r calls) : Call.pipelineSnapshot fails calls = some r.snap := by
  obtain ⟨f, args, pre, _, hc, _, hx, hr, _⟩ := C13_call_surface fails fs kw req r calls h
  subst hc
  rw [hr]
  simp [Call.pipelineSnapshot, hx, handleError]

/-! ## non-vacuity -/

def x3 : Val := .arr [3] [.int 1, .int 2, .int 3]
def g0 : MFunc := { name := "g0", params := [("x", "a")], outputs := ["y"], mapspec := some ⟨[⟨"x", [some "i"]⟩], [⟨"y", [some "i"]⟩]⟩,
                    ret := none, internal := none, defaults := [], bound := [] }
def g1 : MFunc := { name := "g1", params := [("x", "x")], outputs := ["w"], mapspec := some ⟨[⟨"x", [some "i"]⟩], [⟨"w", [some "i"]⟩]⟩,
                    ret := none, internal := none, defaults := [], bound := [] }
def g2 : MFunc := { name := "g2", params := [("y", "y"), ("w", "w")], outputs := ["z"], mapspec := none,
                    ret := none, internal := none, defaults := [], bound := [] }
/-- fails in `g0` at the element 2 and in `g1` at the element 1 -/
def orc : Oracle := fun name kw =>
  match name, kw with
  | "g0", [(_, .int 2)] => some ⟨"ValueError", [.str "boom"]⟩
  | "g1", [(_, .int 1)] => some ⟨"Custom", []⟩
  | _, _ => none

def summary : Errors.Outcome → String × Nat × String × List String × List String
  | .raised g r log _ => ("raised", g, r.exn.cls, r.noteFunc :: r.noteKw.map (·.1), log.map (·.f.name))
  | .done r => ("done", 0, "", [], r.calls.map (·.name))
  | .refused _ => ("refused", 0, "", [], [])
  | .hang g log => ("hang", g, "", [], log.map (·.f.name))

/-- sequential: `g0` is submitted first and raises at its second element; nothing else runs (`g1`, `g2` never called);
    the note names `g0` and the pipeline-level name `x` (the wrapped function's own name is `a`) -/
example : summary (runMapE .seq orc (fun _ => []) [g0, g1, g2] [("x", x3)] []) =
    ("raised", 0, "ValueError", ["g0", "x"], ["g0", "g0"]) := by decide
/-- executor, tasks run in reverse order: every task of generation 0 runs (both failing ones included), the reported error is
    still the first one in submission order, and `g2` (generation 1) is never called -/
example : summary (runMapE .pool orc (fun _ => [5, 4, 3, 2, 1, 0]) [g0, g1, g2] [("x", x3)] []) =
    ("raised", 0, "ValueError", ["g0", "x"], ["g1", "g1", "g1", "g0", "g0", "g0"]) := by decide
/-- an unfair schedule (task 0 never runs) makes `Future.result()` wait for ever: the hypothesis of `C13_no_hang` is needed -/
example : summary (runMapE .pool orc (fun _ => [1, 2]) [g0, g1, g2] [("x", x3)] []) = ("hang", 0, "", [], ["g0", "g0"]) := by decide
/-- nothing fails: the run completes and calls every function -/
example : summary (runMapE .seq never (fun _ => []) [g0, g1, g2] [("x", x3)] []) =
    ("done", 0, "", [], ["g0", "g0", "g0", "g1", "g1", "g1", "g2"]) := by decide
/-- the hypotheses of `C13_surface_map` are satisfiable: the specification names the same failure -/
example : (specGens orc (runFuncWith opArray [g0, g1, g2] [("x", [3]), ("y", [3]), ("w", [3])] [("x", [true]), ("y", [true]), ("w", [true])])
    (generations [g0, g1, g2]) { inputs := [("x", x3)], store := [] } 0).toOption.map (fun o => o.map fun p => (p.1, p.2.exn.cls, p.2.snap.fname)) =
    some (some (0, "ValueError", "g0")) := by decide

def fA : Func := ⟨"fa", [("x", "x")], ["a"], [], []⟩
def fB : Func := ⟨"fb", [("a", "p"), ("y", "y")], ["b"], [("y", .int 7)], []⟩
def fC : Func := ⟨"fc", [("b", "b")], ["c"], [], []⟩
def orcB : Oracle := fun name _ => if name = "fb" then some ⟨"KeyError", []⟩ else none
/-- call path: `fb` raises after `fa` ran; `fc` is never called; the note uses the pipeline-level names `a`, `y`, the
    snapshot the wrapped function's own names `p`, `y` -/
example : (match runTopE orcB [fC, fB, fA] [("x", .int 1)] (.name "c") with
    | .raised r calls => (r.exn.cls, r.noteFunc, r.noteKw.map (·.1), r.snap.kwargs.map (·.1), calls.map (·.1))
    | _ => ("", "", [], [], [])) = ("KeyError", "fb", ["a", "y"], ["p", "y"], ["fa", "fb"]) := by decide

end PF.C13
