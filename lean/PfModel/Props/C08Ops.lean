import PfModel.Lemmas.MapSpecOps
/-!
C08, round 9 — `rename` is a simultaneous substitution of array names (swaps, chains, composition, rejection, the
`return self` branch) and `add_axes` composes.  Property theorems only.  Model: `rename`, `addAxes` of Model/MapSpec.lean
(`_mapspec.py:270-285, 91-97`).
-/
namespace PF.C08
open PF.MS

/-! ## rename -/

/-- `rename({a: b, b: a})` swaps the two arrays (it does not collapse them as two successive renames would): the
    result is valid, every array named `a` is named `b` and vice versa, all others and all axes are unchanged, and
    the same rename brings the original spec back. -/
theorem C08_rename_swap (a b : String) (m : MapSpec) (hv : Valid m)
    (ha : nameOKChars a.toList = true) (hb : nameOKChars b.toList = true) :
    ∃ m', rename [(a, b), (b, a)] m = .ok m' ∧ Valid m' ∧
      m'.inputs = m.inputs.map (fun x => ⟨swapName a b x.name, x.axes⟩) ∧
      m'.outputs = m.outputs.map (fun x => ⟨swapName a b x.name, x.axes⟩) ∧
      rename [(a, b), (b, a)] m' = .ok m := by
  have hsw : ∀ x : ArraySpec, renameSpec [(a, b), (b, a)] x = ⟨swapName a b x.name, x.axes⟩ := by
    intro x; simp [renameSpec, renameName_swap]
  have hρ : ∀ x ∈ m.inputs ++ m.outputs, nameOKChars (renameName [(a, b), (b, a)] x.name).toList = true := by
    intro x hx
    rw [renameName_swap]; unfold swapName
    split
    · exact hb
    · split
      · exact ha
      · exact (hv.names x hx).1
  have hv' := valid_rename _ m hv hρ
  refine ⟨_, rename_ok _ m hv hρ, hv', List.map_congr_left (fun x _ => hsw x), List.map_congr_left (fun x _ => hsw x), ?_⟩
  have hρ' : ∀ x ∈ (m.inputs.map (renameSpec [(a, b), (b, a)])) ++ (m.outputs.map (renameSpec [(a, b), (b, a)])),
      nameOKChars (renameName [(a, b), (b, a)] x.name).toList = true := by
    intro x hx
    simp only [← List.map_append, List.mem_map] at hx
    obtain ⟨y, hy, rfl⟩ := hx
    simp only [renameSpec, renameName_swap, swapName_swapName]
    exact (hv.names y hy).1
  rw [rename_ok _ _ hv' hρ']
  have back : ∀ l : List ArraySpec, (l.map (renameSpec [(a, b), (b, a)])).map (renameSpec [(a, b), (b, a)]) = l := by
    intro l
    rw [List.map_map]
    conv => rhs; rw [← List.map_id l]
    apply List.map_congr_left
    intro y _
    cases y
    simp [renameSpec, renameName_swap, swapName_swapName]
  simp only [back]

/-- two renames compose to the substitution `n ↦ σ(ρ(n))`, and ANY single table with that effect on the spec's names
    gives the same spec in one call (dict `get`: one lookup per name, never chained inside one call). -/
theorem C08_rename_compose (ρ σ : List (String × String)) (m m₁ m₂ : MapSpec) (hv : Valid m)
    (h₁ : rename ρ m = .ok m₁) (h₂ : rename σ m₁ = .ok m₂) :
    Valid m₂ ∧
      m₂.inputs = m.inputs.map (fun x => ⟨renameName σ (renameName ρ x.name), x.axes⟩) ∧
      m₂.outputs = m.outputs.map (fun x => ⟨renameName σ (renameName ρ x.name), x.axes⟩) ∧
      ∀ τ : List (String × String),
        (∀ x ∈ m.inputs ++ m.outputs, renameName τ x.name = renameName σ (renameName ρ x.name)) → rename τ m = .ok m₂ := by
  obtain ⟨e₁, hv₁⟩ := rename_ok_inv ρ m m₁ hv h₁
  obtain ⟨e₂, hv₂⟩ := rename_ok_inv σ m₁ m₂ hv₁ h₂
  have hi : m₂.inputs = m.inputs.map (fun x => ⟨renameName σ (renameName ρ x.name), x.axes⟩) := by
    rw [e₂, e₁]; simp only [List.map_map]; rfl
  have ho : m₂.outputs = m.outputs.map (fun x => ⟨renameName σ (renameName ρ x.name), x.axes⟩) := by
    rw [e₂, e₁]; simp only [List.map_map]; rfl
  refine ⟨hv₂, hi, ho, ?_⟩
  intro τ hτ
  have hmem : ∀ x ∈ m.inputs ++ m.outputs,
      (⟨renameName σ (renameName ρ x.name), x.axes⟩ : ArraySpec) ∈ m₂.inputs ++ m₂.outputs := by
    intro x hx
    rw [hi, ho, ← List.map_append]
    exact List.mem_map.mpr ⟨x, hx, rfl⟩
  have hok : ∀ x ∈ m.inputs ++ m.outputs, nameOKChars (renameName τ x.name).toList = true := by
    intro x hx
    rw [hτ x hx]
    exact (hv₂.names _ (hmem x hx)).1
  rw [rename_ok τ m hv hok]
  have e : ∀ x ∈ m.inputs ++ m.outputs, renameSpec τ x = ⟨renameName σ (renameName ρ x.name), x.axes⟩ := by
    intro x hx; simp only [renameSpec, hτ x hx]
  have ei := List.map_congr_left (fun x hx => e x (List.mem_append_left _ hx))
  have eo := List.map_congr_left (fun x hx => e x (List.mem_append_right _ hx))
  rw [ei, eo, ← hi, ← ho]

/-- `{a: b, b: c}` in one call is NOT the two renames one after the other -/
theorem C08_rename_chain_witness :
    rename [("a", "b"), ("b", "c")] ⟨[⟨"a", [some "i"]⟩, ⟨"b", [some "i"]⟩], [⟨"o", [some "i"]⟩]⟩ =
        .ok ⟨[⟨"b", [some "i"]⟩, ⟨"c", [some "i"]⟩], [⟨"o", [some "i"]⟩]⟩ ∧
      (rename [("a", "b")] ⟨[⟨"a", [some "i"]⟩, ⟨"b", [some "i"]⟩], [⟨"o", [some "i"]⟩]⟩ >>= rename [("b", "c")]) =
        .ok ⟨[⟨"c", [some "i"]⟩, ⟨"c", [some "i"]⟩], [⟨"o", [some "i"]⟩]⟩ := ⟨rfl, rfl⟩

/-- a table that mentions none of the spec's arrays returns the spec itself (for every spec; `return self`) -/
theorem C08_rename_unmentioned (ρ : List (String × String)) (m : MapSpec)
    (h : ∀ x ∈ m.inputs ++ m.outputs, x.name ∉ keys ρ) : rename ρ m = .ok m := by
  have : ((inputNames m ++ outputNames m).any fun n => (keys ρ).contains n) = false := by
    rw [List.any_eq_false]
    intro n hn
    simp only [inputNames, outputNames, ← List.map_append, List.mem_map] at hn
    obtain ⟨x, hx, rfl⟩ := hn
    simpa using h x hx
  unfold rename
  rw [this]; rfl

/-- a rename that gives some array of a valid spec a non-identifier name is rejected -/
theorem C08_rename_rejects (ρ : List (String × String)) (m : MapSpec) (hv : Valid m)
    (h : ∃ x ∈ m.inputs ++ m.outputs, nameOKChars (renameName ρ x.name).toList = false) :
    ∃ e, rename ρ m = .error e := by
  cases hc : rename ρ m with
  | error e => exact ⟨e, rfl⟩
  | ok m' =>
    exfalso
    obtain ⟨e, hv'⟩ := rename_ok_inv ρ m m' hv hc
    obtain ⟨x, hx, hbad⟩ := h
    have : renameSpec ρ x ∈ m'.inputs ++ m'.outputs := by
      rw [e, ← List.map_append]; exact List.mem_map.mpr ⟨x, hx, rfl⟩
    have := (hv'.names _ this).1
    simp only [renameSpec] at this
    rw [this] at hbad; cases hbad

/-! ## add_axes -/

/-- `add_axes(*as, *bs)` is `add_axes(*as)` followed by `add_axes(*bs)` when the new names are fresh and the two groups
    disjoint: both steps succeed and end in the same spec. -/
theorem C08_add_axes_compose (as bs : List String) (m : MapSpec) (hv : Valid m) (hf : FreshAxes (as ++ bs) m)
    (hd : ∀ a ∈ as, a ∉ bs) :
    ∃ m₁ m₂, addAxes (as.map some) m = .ok m₁ ∧ Valid m₁ ∧ addAxes (bs.map some) m₁ = .ok m₂ ∧
      addAxes ((as ++ bs).map some) m = .ok m₂ ∧ Valid m₂ := by
  obtain ⟨f1, f2⟩ := freshAxes_step as bs m hf hd
  have hv₁ := valid_extend as m hv f1
  refine ⟨_, _, addAxes_ok as m hv f1, hv₁, addAxes_ok bs _ hv₁ f2, ?_, valid_extend bs _ hv₁ f2⟩
  rw [addAxes_ok (as ++ bs) m hv hf]
  simp only [List.map_map, List.map_append]
  congr 2 <;> (apply List.map_congr_left; intro x _; simp [extendSpec])

/-- without disjointness the two readings differ: one call accepts a repeated new axis (only the OLD axes are tested,
    `_mapspec.py:94`), giving the accepted oddity `a[i, n, n]`; two calls reject the second -/
theorem C08_add_axes_repeated_witness :
    addAxes [some "n", some "n"] ⟨[⟨"a", [some "i"]⟩], [⟨"o", [some "i"]⟩]⟩ =
        .ok ⟨[⟨"a", [some "i", some "n", some "n"]⟩], [⟨"o", [some "i", some "n", some "n"]⟩]⟩ ∧
      (addAxes [some "n"] ⟨[⟨"a", [some "i"]⟩], [⟨"o", [some "i"]⟩]⟩ >>= addAxes [some "n"]) = .error .valueError :=
  ⟨rfl, rfl⟩

/-- a spec without inputs: the new axes become output indices but not external ones (there is no input to carry them) -/
theorem C08_add_axes_no_inputs (axis : List String) (m : MapSpec) (hv : Valid m) (hf : FreshAxes axis m)
    (hi : m.inputs = []) :
    ∃ m', addAxes (axis.map some) m = .ok m' ∧ m'.inputs = [] ∧ externalIndices m' = [] ∧
      outputIndices m' = outputIndices m ++ axis := by
  refine ⟨_, addAxes_ok axis m hv hf, by simp [hi], ?_, outputIndices_extend axis m hv.out_ne⟩
  simp [externalIndices, inputIndexList, hi]

/-! ## non-vacuity -/

example : Valid opsEx := (valid_iff opsEx).mpr ⟨by decide, rfl⟩
example : nameOKChars "a".toList = true ∧ nameOKChars "b".toList = true := by decide
example : rename [("a", "b"), ("b", "a")] opsEx = .ok ⟨[⟨"b", [some "i"]⟩, ⟨"a", [some "i", none]⟩], [⟨"o", [some "i"]⟩]⟩ := rfl
example : rename [("a", "x")] opsEx = .ok ⟨[⟨"x", [some "i"]⟩, ⟨"b", [some "i", none]⟩], [⟨"o", [some "i"]⟩]⟩ ∧
    rename [("x", "y.z")] ⟨[⟨"x", [some "i"]⟩, ⟨"b", [some "i", none]⟩], [⟨"o", [some "i"]⟩]⟩ =
      .ok ⟨[⟨"y.z", [some "i"]⟩, ⟨"b", [some "i", none]⟩], [⟨"o", [some "i"]⟩]⟩ := ⟨rfl, rfl⟩
example : ∀ x ∈ opsEx.inputs ++ opsEx.outputs, renameName [("a", "y.z")] x.name = renameName [("x", "y.z")] (renameName [("a", "x")] x.name) := by
  decide
example : ∀ x ∈ opsEx.inputs ++ opsEx.outputs, x.name ∉ keys [("zz", "w")] := by decide
example : ∃ x ∈ opsEx.inputs ++ opsEx.outputs, nameOKChars (renameName [("a", "1a")] x.name).toList = false :=
  ⟨⟨"a", [some "i"]⟩, by simp [opsEx], by decide⟩
example : FreshAxes (["p"] ++ ["q"]) opsEx := ⟨by decide, by decide⟩
example : ∀ a ∈ ["p"], a ∉ ["q"] := by decide
example : FreshAxes ["p"] ⟨[], [⟨"o", [some "i"]⟩]⟩ ∧ Valid ⟨[], [⟨"o", [some "i"]⟩]⟩ :=
  ⟨⟨by decide, by decide⟩, (valid_iff _).mpr ⟨by decide, rfl⟩⟩

end PF.C08
