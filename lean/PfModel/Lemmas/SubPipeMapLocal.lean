import PfModel.Lemmas.SubPipeComputable
/-!
C11, round 3 — the LOCAL half of the value clause for `map`: a function's run depends on its environment only through the whole
VALUES of its parameters (`viewOf`: a provided input, else the stored array of its producer read back as an array), and on the
pipeline only through the defaults of the parameters nothing presents.  Hence a provided intermediate — an ARRAY consumed through a
MapSpec included — is interchangeable with the array its producer would have stored, and the partial pipeline evaluates a kept
function exactly as the full pipeline does.
-/
namespace PF.Sub
open PF PF.Map PF.Validate

/-- what the environment presents for parameter `p`: the provided input, else the stored output read back as a whole value -/
def viewOf (env : Env) (p : String) : Option Val :=
  match alookup env.inputs p with
  | some v => some v
  | none => (alookup env.store p).map Slot.toVal

theorem argWhole_eq (fs : List MFunc) (env : Env) (f : MFunc) (p : String) :
    argWhole fs env f p =
      match alookup f.bound p with
      | some v => .ok v
      | none =>
        match viewOf env p with
        | some v => .ok v
        | none =>
          match pdefault fs p with
          | some v => .ok v
          | none => .error (.value s!"parameter {p} not found") := by
  unfold argWhole viewOf
  cases alookup f.bound p with
  | some v => rfl
  | none =>
    cases alookup env.inputs p with
    | some v => rfl
    | none =>
      cases alookup env.store p with
      | some s => rfl
      | none => cases pdefault fs p <;> rfl

/-- `_func_kwargs` is determined by the bound value, the presented value, and — only when nothing is presented — the default -/
theorem argWhole_congr (fs fs' : List MFunc) (e e' : Env) (f : MFunc) (p : String)
    (hv : alookup f.bound p = none → viewOf e' p = viewOf e p)
    (hd : alookup f.bound p = none → viewOf e p = none → pdefault fs' p = pdefault fs p) :
    argWhole fs' e' f p = argWhole fs e f p := by
  rw [argWhole_eq, argWhole_eq]
  cases hb : alookup f.bound p with
  | some v => rfl
  | none =>
    simp only [hv hb]
    cases hw : viewOf e p with
    | some v => rfl
    | none => simp only [hd hb hw]

theorem mapM_congr_mem {α β : Type} (g g' : α → M β) : ∀ l : List α, (∀ x ∈ l, g x = g' x) → l.mapM g = l.mapM g' := by
  intro l
  induction l with
  | nil => intro _; rfl
  | cons a r ih =>
    intro h
    rw [List.mapM_cons, List.mapM_cons, h a (List.mem_cons_self ..), ih (fun x hx => h x (List.mem_cons_of_mem _ hx))]

/-- the two environments / pipelines present the same to `f` -/
def SameFor (fs fs' : List MFunc) (e e' : Env) (f : MFunc) : Prop :=
  ∀ p orig, (p, orig) ∈ f.params → alookup f.bound p = none →
    viewOf e' p = viewOf e p ∧ (viewOf e p = none → pdefault fs' p = pdefault fs p)

theorem selectArgs_congr (fs fs' : List MFunc) (e e' : Env) (f : MFunc) (h : SameFor fs fs' e e' f) (ms : MSpec) (E : List Nat) :
    selectArgs fs' e' f ms E = selectArgs fs e f ms E := by
  unfold selectArgs
  apply mapM_congr_mem
  rintro ⟨p, orig⟩ hx
  simp only [argWhole_congr fs fs' e e' f p (fun hb => (h p orig hx hb).1) (fun hb => (h p orig hx hb).2)]

theorem runSingle_congr (fs fs' : List MFunc) (e e' : Env) (f : MFunc) (h : SameFor fs fs' e e' f) :
    runSingle fs' e' f = runSingle fs e f := by
  unfold runSingle
  have : f.params.mapM (fun (x : String × String) => do return (x.2, ← argWhole fs' e' f x.1)) =
      f.params.mapM (fun (x : String × String) => do return (x.2, ← argWhole fs e f x.1)) := by
    apply mapM_congr_mem
    rintro ⟨p, orig⟩ hx
    simp only [argWhole_congr fs fs' e e' f p (fun hb => (h p orig hx hb).1) (fun hb => (h p orig hx hb).2)]
  simp only [this]

theorem runMappedWith_congr (arr : MFunc → List Nat → List Bool → (Nat → List (String × Val)) → String → Val)
    (fs fs' : List MFunc) (e e' : Env) (f : MFunc) (h : SameFor fs fs' e e' f) (ms : MSpec) (sh : List Nat) (mk : List Bool) :
    runMappedWith arr fs' e' f ms sh mk = runMappedWith arr fs e f ms sh mk := by
  unfold runMappedWith
  have : (fun li => selectArgs fs' e' f ms (shapeToKey (extOf mk sh) li)) =
      (fun li => selectArgs fs e f ms (shapeToKey (extOf mk sh) li)) :=
    funext fun li => selectArgs_congr fs fs' e e' f h ms _
  simp only [this]

/-- **substitution, locally**: one function's run — outputs, stored slots, calls — is the same in any pipeline and environment
    that present the same parameter values to it -/
theorem runFuncWith_congr (arr : MFunc → List Nat → List Bool → (Nat → List (String × Val)) → String → Val)
    (fs fs' : List MFunc) (shapes : List (String × List Nat)) (masks : List (String × List Bool)) (e e' : Env) (f : MFunc)
    (h : SameFor fs fs' e e' f) : runFuncWith arr fs' shapes masks e' f = runFuncWith arr fs shapes masks e f := by
  unfold runFuncWith
  simp only [runSingle_congr fs fs' e e' f h, runMappedWith_congr arr fs fs' e e' f h]

/-! ### defaults of the partial pipeline -/

/-- all functions agree on the default of a shared parameter (`validate_consistent_defaults`), map pipelines -/
def ConsistentDefaultsM (fs : List MFunc) : Prop :=
  ∀ f ∈ fs, ∀ g ∈ fs, ∀ p v w, (p, v) ∈ f.defaults → (p, w) ∈ g.defaults → v = w

theorem mem_pdefaultsM (fs : List MFunc) (p : String) (v : Val) :
    (p, v) ∈ pdefaults fs ↔ ∃ f ∈ fs, (p, v) ∈ f.defaults ∧ (alookup f.bound p).isNone ∧ (producer fs p).isNone := by
  simp only [pdefaults, List.mem_flatMap, List.mem_filter, Bool.and_eq_true]

theorem pdefaultM_eq_some_iff (fs : List MFunc) (hc : ConsistentDefaultsM fs) (p : String) (v : Val) :
    pdefault fs p = some v ↔ (p, v) ∈ pdefaults fs := by
  unfold pdefault
  constructor
  · intro h; exact List.mem_reverse.mp (alookup_some_mem _ _ _ h)
  · intro h
    obtain ⟨w, hw⟩ := Pipe.alookup_isSome_of_mem _ p v (List.mem_reverse.mpr h)
    have hw' := List.mem_reverse.mp (alookup_some_mem _ _ _ hw)
    obtain ⟨f, hf, hfm, _⟩ := (mem_pdefaultsM fs p v).mp h
    obtain ⟨g, hg, hgm, _⟩ := (mem_pdefaultsM fs p w).mp hw'
    rw [hw, hc f hf g hg p v w hfm hgm]

/-- a produced name has no pipeline default -/
theorem pdefaultM_none_of_produced (fs : List MFunc) (p : String) (h : (producer fs p).isSome) : pdefault fs p = none := by
  cases hd : pdefault fs p with
  | none => rfl
  | some v =>
    have := List.mem_reverse.mp (alookup_some_mem _ _ _ (by unfold pdefault at hd; exact hd))
    obtain ⟨_, _, _, _, hn⟩ := (mem_pdefaultsM fs p v).mp this
    rw [Option.isNone_iff_eq_none] at hn
    rw [hn] at h; cases h

theorem mem_dflt_mfunc (f : MFunc) (p : String) :
    p ∈ (mfuncNode f).dflt ↔ ∃ v, (p, v) ∈ f.defaults ∧ alookup f.bound p = none := by
  simp only [mfuncNode, List.mem_filterMap]
  constructor
  · rintro ⟨⟨q, v⟩, hm, h⟩
    split at h
    · cases h
    · next hb => cases h; exact ⟨v, hm, by simpa using hb⟩
  · rintro ⟨v, hm, hb⟩
    exact ⟨(p, v), hm, by simp [hb]⟩

theorem producerM_isSome_iff (fs : List MFunc) (p : String) : (producer fs p).isSome ↔ ∃ g ∈ fs, p ∈ g.outputs := by
  unfold producer
  rw [List.find?_isSome]
  simp

/-- **the partial pipeline gives a kept function's parameter the full pipeline's default** whenever nothing is provided for it:
    for a produced name both have none; for a root argument the accepted request guarantees a default among the kept functions,
    and defaults are consistent. -/
theorem pdefaultM_sub (fs : List MFunc) (hc : ConsistentDefaultsM fs) (inp S : List String) (K : List Nat)
    (hK : ∀ j, j ∈ K ↔ C11.NeededFor mfuncNode fs (some inp) S j)
    (hmiss : missingRoots mfuncNode (keepFrom K 0 fs) inp = [])
    (f : MFunc) (hf : f ∈ keepFrom K 0 fs) (p : String) (hp : p ∈ paramNames f) (hb : alookup f.bound p = none) (hi : p ∉ inp) :
    pdefault (keepFrom K 0 fs) p = pdefault fs p := by
  have hfn := (mem_sub_iff mfuncNode fs inp S K hK f).mp hf
  have hdep : p ∈ (mfuncNode f).deps := (mem_deps_mfunc f p).mpr ⟨hp, hb⟩
  cases hpi : prodIdx mfuncNode fs p with
  | some i =>
    -- produced in the full pipeline, hence by a kept function: neither pipeline has a default for it
    obtain ⟨g, hg, hgo⟩ := prodIdx_some_get mfuncNode fs p i hpi
    have hin := neededFn_producer mfuncNode fs inp S f hfn p hdep hi i hpi
    have hgs : g ∈ keepFrom K 0 fs := (mem_sub_iff mfuncNode fs inp S K hK g).mpr ⟨i, hin, hg⟩
    rw [pdefaultM_none_of_produced _ p ((producerM_isSome_iff _ p).mpr ⟨g, hgs, hgo⟩),
      pdefaultM_none_of_produced _ p ((producerM_isSome_iff _ p).mpr ⟨g, List.mem_of_getElem? hg, hgo⟩)]
  | none =>
    have hn : producer fs p = none := (prodIdx_none_iff fs p).mp (by rw [hpi]; rfl)
    have hns : producer (keepFrom K 0 fs) p = none := find?_keepFrom_none _ K fs 0 hn
    have hroot : p ∈ roots mfuncNode (keepFrom K 0 fs) := by
      simp only [roots, List.mem_flatMap, List.mem_filter]
      exact ⟨f, hf, hdep, (prodIdx_none_iff _ p).mpr hns⟩
    have hd : p ∈ dnames mfuncNode (keepFrom K 0 fs) := by
      have : p ∉ missingRoots mfuncNode (keepFrom K 0 fs) inp := by rw [hmiss]; simp
      simp only [missingRoots, List.mem_filter, hroot, true_and, Bool.and_eq_true, Bool.not_eq_true',
        List.contains_eq_mem, decide_eq_false_iff_not, not_and, Decidable.not_not] at this
      exact this hi
    simp only [dnames, List.mem_flatMap, List.mem_filter] at hd
    obtain ⟨g, hg, hgd, _⟩ := hd
    obtain ⟨v, hv, hgb⟩ := (mem_dflt_mfunc g p).mp hgd
    have hcs : ConsistentDefaultsM (keepFrom K 0 fs) :=
      fun a ha b hb' => hc a (keepFrom_subset K fs 0 a ha) b (keepFrom_subset K fs 0 b hb')
    have h1 : (p, v) ∈ pdefaults (keepFrom K 0 fs) := (mem_pdefaultsM _ p v).mpr ⟨g, hg, hv, by simp [hgb], by simp [hns]⟩
    have h2 : (p, v) ∈ pdefaults fs := (mem_pdefaultsM _ p v).mpr ⟨g, keepFrom_subset K fs 0 g hg, hv, by simp [hgb], by simp [hn]⟩
    rw [(pdefaultM_eq_some_iff _ hcs p v).mpr h1, (pdefaultM_eq_some_iff _ hc p v).mpr h2]

end PF.Sub
