import PfModel.Model.RunInfoCodec
/-! Lemmas for C04: `split ∘ join`, the key codec, `mapOpt`, `sortNames`, folder reads. -/
namespace PF.RIC
open PF PF.Map

/-! ### `",".join` / `.split(",")` -/

theorem splitC_ne_nil (l : List Char) : splitC l ≠ [] := by
  induction l with
  | nil => simp [splitC]
  | cons c r ih =>
    simp only [splitC]
    split
    · simp
    · split <;> simp

theorem splitC_nocomma (x : List Char) (h : ',' ∉ x) : splitC x = [x] := by
  induction x with
  | nil => simp [splitC]
  | cons c r ih =>
    have hc : c ≠ ',' := fun e => h (by simp [e])
    have hr : ',' ∉ r := fun e => h (List.mem_cons_of_mem _ e)
    simp only [splitC, hc, if_false, ih hr]

theorem splitC_append (x rest : List Char) (h : ',' ∉ x) : splitC (x ++ ',' :: rest) = x :: splitC rest := by
  induction x with
  | nil => simp [splitC]
  | cons c r ih =>
    have hc : c ≠ ',' := fun e => h (by simp [e])
    have hr : ',' ∉ r := fun e => h (List.mem_cons_of_mem _ e)
    simp only [List.cons_append, splitC, hc, if_false, ih hr]

theorem splitC_joinC (xs : List (List Char)) (hne : xs ≠ []) (h : ∀ x ∈ xs, ',' ∉ x) : splitC (joinC xs) = xs := by
  induction xs with
  | nil => exact absurd rfl hne
  | cons x r ih =>
    cases r with
    | nil => simp only [joinC]; exact splitC_nocomma x (h x (by simp))
    | cons y r' =>
      simp only [joinC]
      rw [splitC_append x _ (h x (by simp)), ih (by simp) (fun z hz => h z (List.mem_cons_of_mem _ hz))]

theorem joinC_has_comma (x y : List Char) (r : List (List Char)) : ',' ∈ joinC (x :: y :: r) := by
  simp [joinC]

/-- the last character of a join of non-empty comma-free names is not a comma -/
theorem joinC_last (xs : List (List Char)) (hne : xs ≠ []) (h : ∀ x ∈ xs, x ≠ [] ∧ ',' ∉ x) :
    ∃ c r, (joinC xs).reverse = c :: r ∧ c ≠ ',' := by
  induction xs with
  | nil => exact absurd rfl hne
  | cons x r ih =>
    cases r with
    | nil =>
      simp only [joinC]
      have ⟨hx, hc⟩ := h x (by simp)
      cases hrev : x.reverse with
      | nil => simp at hrev; exact absurd hrev hx
      | cons c t =>
        refine ⟨c, t, rfl, ?_⟩
        intro e
        apply hc
        have : c ∈ x.reverse := by rw [hrev]; simp
        rw [e] at this
        exact List.mem_reverse.mp this
    | cons y r' =>
      obtain ⟨c, t, ht, hc⟩ := ih (by simp) (fun z hz => h z (List.mem_cons_of_mem _ hz))
      refine ⟨c, t ++ ',' :: x.reverse, ?_, hc⟩
      simp only [joinC, List.reverse_append, List.reverse_cons, ht]
      simp

theorem stripTrail_of_last (l : List Char) (c : Char) (r : List Char) (h : l.reverse = c :: r) (hc : c ≠ ',') :
    stripTrail l = l := by
  unfold stripTrail
  rw [h]
  split
  · next heq => cases heq; exact absurd rfl hc
  · rfl

theorem stripTrail_snoc (x : List Char) : stripTrail (x ++ [',']) = x := by
  simp [stripTrail]

/-! ### keys -/

/-- a key survives `_maybe_tuple_to_str` / `_maybe_str_to_tuple`: no comma in a name; a tuple is non-empty and its names
    are non-empty -/
def KeyOK : Key → Prop
  | .one s => ',' ∉ s.toList
  | .many ss => ss ≠ [] ∧ ∀ s ∈ ss, s.toList ≠ [] ∧ ',' ∉ s.toList

theorem map_ofList_toList (ss : List String) : (ss.map String.toList).map String.ofList = ss := by
  induction ss with
  | nil => rfl
  | cons s r ih => simp [String.ofList_toList]

theorem charsKey_keyChars (k : Key) (h : KeyOK k) : charsKey (keyChars k) = k := by
  cases k with
  | one s =>
    simp only [KeyOK] at h
    simp [charsKey, keyChars, h, String.ofList_toList]
  | many ss =>
    obtain ⟨hne, hall⟩ := h
    match ss, hne, hall with
    | [s], _, hall =>
      have hs := hall s (by simp)
      simp only [keyChars, List.map_cons, List.map_nil, joinC, List.length_singleton, if_true]
      unfold charsKey
      rw [if_pos (by simp), stripTrail_snoc, splitC_nocomma _ hs.2]
      simp [String.ofList_toList]
    | s :: t :: r, _, hall =>
      have hall' : ∀ x ∈ (s :: t :: r).map String.toList, x ≠ [] ∧ ',' ∉ x := by
        intro x hx
        obtain ⟨y, hy, rfl⟩ := List.mem_map.mp hx
        exact hall y hy
      obtain ⟨c, tl, hrev, hc⟩ := joinC_last ((s :: t :: r).map String.toList) (by simp) hall'
      have hlen : ¬ ((s :: t :: r).length = 1) := by simp
      simp only [keyChars, hlen, if_false, List.append_nil]
      unfold charsKey
      rw [if_pos (by simpa using joinC_has_comma s.toList t.toList (r.map String.toList)),
          stripTrail_of_last _ c tl hrev hc, splitC_joinC _ (by simp) (fun x hx => (hall' x hx).2), map_ofList_toList]

theorem strKey_keyStr (k : Key) (h : KeyOK k) : strKey (keyStr k) = k := by
  simp only [strKey, keyStr, String.toList_ofList]
  exact charsKey_keyChars k h

/-- no two admissible keys are written as the same JSON key -/
theorem keyStr_injective (k1 k2 : Key) (h1 : KeyOK k1) (h2 : KeyOK k2) (h : keyStr k1 = keyStr k2) : k1 = k2 := by
  rw [← strKey_keyStr k1 h1, ← strKey_keyStr k2 h2, h]

/-! ### lists -/

theorem mapOpt_map {α β} (f : β → Option α) (g : α → β) (l : List α) (h : ∀ x ∈ l, f (g x) = some x) :
    mapOpt f (l.map g) = some l := by
  induction l with
  | nil => rfl
  | cons a r ih =>
    simp only [List.map_cons, mapOpt, h a (by simp), ih (fun x hx => h x (List.mem_cons_of_mem _ hx))]

theorem insertName_perm (x : String) (l : List String) : (insertName x l).Perm (x :: l) := by
  induction l with
  | nil => exact List.Perm.refl _
  | cons y r ih =>
    simp only [insertName]
    split
    · exact List.Perm.refl _
    · exact (List.Perm.cons y ih).trans (List.Perm.swap x y r)

theorem sortNames_perm (l : List String) : (sortNames l).Perm l := by
  induction l with
  | nil => exact List.Perm.refl _
  | cons x r ih => exact (insertName_perm x _).trans (List.Perm.cons x ih)

theorem mem_sortNames (l : List String) (x : String) : x ∈ sortNames l ↔ x ∈ l := (sortNames_perm l).mem_iff

/-! ### field codecs -/

theorem decNat_encNat (n : Nat) : decNat (encNat n) = some n := by
  simp [decNat, encNat]

theorem decArr_nat (l : List Nat) : decArr decNat (.arr (l.map encNat)) = some l := by
  simp only [decArr]; exact mapOpt_map _ _ _ (fun x _ => decNat_encNat x)

theorem decArr_bool (l : List Bool) : decArr decBool (.arr (l.map J.bool)) = some l := by
  simp only [decArr]; exact mapOpt_map _ _ _ (fun x _ => rfl)

theorem decArr_str (l : List String) : decArr decStr (.arr (l.map J.str)) = some l := by
  simp only [decArr]; exact mapOpt_map _ _ _ (fun x _ => rfl)

theorem decIShape_enc (s : IShape) : decIShape (encIShape s) = some s := by
  cases s with
  | int n => simp [decIShape, encIShape, encNat, decNat]
  | tup l =>
    simp only [encIShape, decIShape]
    rw [mapOpt_map _ _ _ (fun x _ => decNat_encNat x)]
    rfl

theorem decKeyed_enc {α} (f : J → Option α) (g : α → J) (l : List (Key × α)) (hk : ∀ kv ∈ l, KeyOK kv.1)
    (hv : ∀ v, f (g v) = some v) :
    decKeyed f (.obj (l.map fun (kv : Key × α) => (keyStr kv.1, g kv.2))) = some l := by
  simp only [decKeyed]
  apply mapOpt_map
  intro kv hkv
  simp [hv, strKey_keyStr kv.1 (hk kv hkv)]

/-! ### reading the folder -/

theorem write_same (fo : Folder) (p : Path) (o : Obj) : write fo p o p = some o := by simp [write]
theorem write_other (fo : Folder) (p q : Path) (o : Obj) (h : q ≠ p) : write fo p o q = fo q := by simp [write, h]

theorem foldl_inputs_other (l : List (String × Val)) (fo : Folder) (q : Path) (h : ∀ n, q ≠ .input n) :
    (l.foldl (fun f (kv : String × Val) => write f (.input kv.1) (.val kv.2)) fo) q = fo q := by
  induction l generalizing fo with
  | nil => rfl
  | cons kv r ih => simp only [List.foldl_cons]; rw [ih, write_other _ _ _ _ (h kv.1)]

theorem foldl_inputs_hit (l : List (String × Val)) (fo : Folder) (k : String) (v : Val) (hn : (akeys l).Nodup) (hm : (k, v) ∈ l) :
    (l.foldl (fun f (kv : String × Val) => write f (.input kv.1) (.val kv.2)) fo) (.input k) = some (.val v) := by
  induction l generalizing fo with
  | nil => cases hm
  | cons kv r ih =>
    simp only [List.foldl_cons]
    simp only [akeys, List.map_cons, List.nodup_cons] at hn
    rcases List.mem_cons.mp hm with e | hr
    · subst e
      have hnot : ∀ kv' ∈ r, kv'.1 ≠ k := fun kv' h' e => hn.1 (List.mem_map.mpr ⟨kv', h', e⟩)
      clear ih hm
      induction r generalizing fo with
      | nil => simp [write]
      | cons kv2 r2 ih2 =>
        simp only [List.foldl_cons]
        have h2 : kv2.1 ≠ k := hnot kv2 (by simp)
        have : write (write fo (Path.input k) (Obj.val v)) (Path.input kv2.1) (Obj.val kv2.2) =
            write (write fo (Path.input kv2.1) (Obj.val kv2.2)) (Path.input k) (Obj.val v) := by
          funext q
          simp only [write]
          by_cases hq1 : q = Path.input kv2.1 <;> by_cases hq2 : q = Path.input k <;> simp_all
        rw [this]
        apply ih2
        · simp only [List.map_cons, List.mem_cons, not_or] at hn
          exact ⟨hn.1.2, (List.nodup_cons.mp hn.2).2⟩
        · intro kv' h'; exact hnot kv' (List.mem_cons_of_mem _ h')
    · exact ih _ (by simpa [akeys] using hn.2) hr

end PF.RIC

namespace PF.RIC
open PF PF.Map

/-- the hypotheses under which a record survives the folder: admissible keys, and `inputs` is a dictionary -/
structure NamesOK (r : RunInfo) : Prop where
  shapes : ∀ kv ∈ r.shapes, KeyOK kv.1
  masks : ∀ kv ∈ r.shapeMasks, KeyOK kv.1
  storage : ∀ m, r.storage = .per m → ∀ kv ∈ m, KeyOK kv.1
  inputs : (akeys r.inputs).Nodup

theorem jf_names (r : RunInfo) : jfield (encode r) "all_output_names" = some (.arr ((sortNames r.allOutputNames).map .str)) := by
  simp [encode, jfield, alookup]
theorem jf_shapes (r : RunInfo) : jfield (encode r) "shapes" = some (.obj (r.shapes.map fun (kv : Key × List Nat) => (keyStr kv.1, .arr (kv.2.map encNat)))) := by
  simp [encode, jfield, alookup]
theorem jf_masks (r : RunInfo) : jfield (encode r) "shape_masks" = some (.obj (r.shapeMasks.map fun (kv : Key × List Bool) => (keyStr kv.1, .arr (kv.2.map .bool)))) := by
  simp [encode, jfield, alookup]
theorem jf_internal (r : RunInfo) : jfield (encode r) "internal_shapes" = some (match r.internalShapes with
      | none => .null
      | some m => .obj (m.map fun (kv : String × IShape) => (kv.1, encIShape kv.2))) := by
  cases hh : r.internalShapes <;> simp [encode, jfield, alookup, hh]
theorem jf_storage (r : RunInfo) : jfield (encode r) "storage" = some (match r.storage with
      | .uniform s => .str s
      | .per m => .obj (m.map fun (kv : Key × String) => (keyStr kv.1, .str kv.2))) := by
  cases hh : r.storage <;> simp [encode, jfield, alookup, hh]
theorem jf_inputs (r : RunInfo) : jfield (encode r) "input_paths" = some (.obj (r.inputs.map fun (kv : String × Val) => (kv.1, .path (.input kv.1)))) := by
  simp [encode, jfield, alookup]
theorem jf_defaults (r : RunInfo) : jfield (encode r) "defaults_path" = some (.path .defaults) := by
  simp [encode, jfield, alookup]
theorem jf_mapspecs (r : RunInfo) : jfield (encode r) "mapspecs_as_strings" = some (.arr (r.mapspecs.map .str)) := by
  simp [encode, jfield, alookup]
theorem jf_version (r : RunInfo) : jfield (encode r) "pipefunc_version" = some (.str r.version) := by
  simp [encode, jfield, alookup]

/-- `RunInfo.load` on any folder that holds the three kinds of files `__post_init__` wrote -/
theorem decode_of_reads (fo : Folder) (r : RunInfo) (h : NamesOK r)
    (h1 : fo .runInfo = some (.json (encode r)))
    (h2 : ∀ kv ∈ r.inputs, fo (.input kv.1) = some (.val kv.2))
    (h3 : fo .defaults = some (.kw r.defaults)) :
    decode fo = some { r with allOutputNames := sortNames r.allOutputNames } := by
  have hin : decInputs fo (.obj (r.inputs.map fun (kv : String × Val) => (kv.1, J.path (.input kv.1)))) = some r.inputs := by
    simp only [decInputs]
    apply mapOpt_map
    intro kv hkv
    simp [loadVal, h2 kv hkv]
  have hsh := decKeyed_enc (decArr decNat) (fun sh => J.arr (sh.map encNat)) r.shapes h.shapes decArr_nat
  have hmk := decKeyed_enc (decArr decBool) (fun mk => J.arr (mk.map J.bool)) r.shapeMasks h.masks decArr_bool
  have hint : decInternal (match r.internalShapes with
      | none => .null
      | some m => .obj (m.map fun (kv : String × IShape) => (kv.1, encIShape kv.2))) = some r.internalShapes := by
    cases r.internalShapes with
    | none => rfl
    | some m =>
      simp only [decInternal]
      rw [mapOpt_map _ _ m (fun kv _ => by simp [decIShape_enc])]
      rfl
  have hst : decStorage (match r.storage with
      | .uniform s => .str s
      | .per m => .obj (m.map fun (kv : Key × String) => (keyStr kv.1, .str kv.2))) = some r.storage := by
    cases hs : r.storage with
    | uniform s => rfl
    | per m =>
      simp only [decStorage]
      rw [decKeyed_enc decStr J.str m (h.storage m hs) (fun _ => rfl)]
      rfl
  have hdf : decDefaults fo (.path .defaults) = some r.defaults := by simp [decDefaults, h3]
  unfold decode
  rw [h1]
  simp only [decodeJ, jf_names, jf_shapes, jf_masks, jf_internal, jf_storage, jf_inputs, jf_defaults, jf_mapspecs, jf_version,
    Option.bind_some, decArr_str, hsh, hmk, hint, hst, hin, hdf, decStr, bind, pure]

theorem dumpAll_runInfo (fo : Folder) (r : RunInfo) : dumpAll fo r .runInfo = some (.json (encode r)) := by
  simp only [dumpAll]
  rw [write_other _ _ _ _ (by simp), foldl_inputs_other _ _ _ (by simp), write_same]

theorem dumpAll_defaults (fo : Folder) (r : RunInfo) : dumpAll fo r .defaults = some (.kw r.defaults) := by
  simp only [dumpAll, write_same]

theorem dumpAll_input (fo : Folder) (r : RunInfo) (hn : (akeys r.inputs).Nodup) (kv : String × Val) (h : kv ∈ r.inputs) :
    dumpAll fo r (.input kv.1) = some (.val kv.2) := by
  simp only [dumpAll]
  rw [write_other _ _ _ _ (by simp)]
  exact foldl_inputs_hit _ _ kv.1 kv.2 hn h

end PF.RIC

namespace PF.RIC
open PF PF.Map

/-! ### storage arrays: persist, reopen -/

theorem arrVal_toVal (sh : List Nat) (mk : List Bool) (cells : List (Nat × Val)) :
    arrVal (cellLookup cells) sh mk = (Slot.array sh mk cells).toVal := rfl

/-- what a reopened array holds after the elements were dumped and the array persisted -/
theorem reopen_persist (b : Backend) (fo : Folder) (name : String) (cells : List (Nat × Val)) :
    reopen b (persist b (dumpCells b fo name cells) name cells) name = cellLookup cells := by
  cases b with
  | file =>
    funext li
    simp only [reopen, persist, dumpCells, if_true]
    cases cellLookup cells li <;> rfl
  | dict => simp [reopen, persist, write]
  | shm => simp [reopen, persist, write]

/-- the paths that belong to output `o` -/
def pathOf (o : String) : Path → Bool
  | .output n => n == o
  | .cell n _ => n == o
  | .dictFile n => n == o
  | _ => false

theorem writeSlot_other (pm : Bool) (b : Option Backend) (fo : Folder) (o : String) (s : Slot) (q : Path)
    (h : pathOf o q = false) : writeSlot pm b fo o s q = fo q := by
  cases s with
  | single v =>
    simp only [writeSlot]
    apply write_other
    intro e; subst e; simp [pathOf] at h
  | array sh mk cells =>
    simp only [writeSlot]
    cases b with
    | none => rfl
    | some b =>
      have hd : dumpCells b fo o cells q = fo q := by
        cases b <;> simp only [dumpCells]
        cases q <;> simp_all [pathOf]
      have hp : persist b (dumpCells b fo o cells) o cells q = fo q := by
        cases b <;> simp only [persist]
        · exact hd
        · rw [write_other _ _ _ _ (by intro e; subst e; simp [pathOf] at h)]; exact hd
        · rw [write_other _ _ _ _ (by intro e; subst e; simp [pathOf] at h)]; exact hd
      cases pm <;> simp [hd, hp]

theorem foldl_writeSlot_other (pm : Bool) (backend : String → Option Backend) (store : List (String × Slot)) (fo : Folder) (q : Path)
    (h : ∀ os ∈ store, pathOf os.1 q = false) :
    (store.foldl (fun fo (os : String × Slot) => writeSlot pm (backend os.1) fo os.1 os.2) fo) q = fo q := by
  induction store generalizing fo with
  | nil => rfl
  | cons os r ih =>
    simp only [List.foldl_cons]
    rw [ih _ (fun x hx => h x (List.mem_cons_of_mem _ hx)), writeSlot_other _ _ _ _ _ _ (h os (by simp))]

/-- what reading output `o` back from a folder finds -/
def SlotRead (b : Option Backend) (fo : Folder) (o : String) : Slot → Prop
  | .single v => fo (.output o) = some (.val v)
  | .array _ _ cells => ∀ b', b = some b' → reopen b' fo o = cellLookup cells

theorem slotRead_congr (b : Option Backend) (fo fo' : Folder) (o : String) (s : Slot)
    (h : ∀ q, pathOf o q = true → fo' q = fo q) (hr : SlotRead b fo o s) : SlotRead b fo' o s := by
  cases s with
  | single v => simp only [SlotRead] at hr ⊢; rw [h _ (by simp [pathOf])]; exact hr
  | array sh mk cells =>
    simp only [SlotRead] at hr ⊢
    intro b' hb
    rw [← hr b' hb]
    cases b' with
    | file => funext li; simp only [reopen]; rw [h _ (by simp [pathOf])]
    | dict => simp only [reopen]; rw [h _ (by simp [pathOf])]
    | shm => simp only [reopen]; rw [h _ (by simp [pathOf])]

theorem writeSlot_read (b : Option Backend) (fo : Folder) (o : String) (s : Slot) : SlotRead b (writeSlot true b fo o s) o s := by
  cases s with
  | single v => simp [SlotRead, writeSlot, write]
  | array sh mk cells =>
    simp only [SlotRead]
    intro b' hb
    subst hb
    simp only [writeSlot, if_true]
    exact reopen_persist b' fo o cells

/-- every slot of the store can be read back from the folder the run leaves behind (`persist_memory=True`) -/
theorem foldl_writeSlot_read (backend : String → Option Backend) (store : List (String × Slot)) (fo : Folder)
    (hn : (akeys store).Nodup) (o : String) (s : Slot) (hm : (o, s) ∈ store) :
    SlotRead (backend o) (store.foldl (fun fo (os : String × Slot) => writeSlot true (backend os.1) fo os.1 os.2) fo) o s := by
  induction store generalizing fo with
  | nil => cases hm
  | cons os r ih =>
    simp only [List.foldl_cons]
    simp only [akeys, List.map_cons, List.nodup_cons] at hn
    rcases List.mem_cons.mp hm with e | hr
    · subst e
      apply slotRead_congr _ _ _ _ _ _ (writeSlot_read (backend o) fo o s)
      intro q hq
      apply foldl_writeSlot_other
      intro x hx
      have hne : x.1 ≠ o := fun e => hn.1 (List.mem_map.mpr ⟨x, hx, e⟩)
      have hne' : o ≠ x.1 := fun e => hne e.symm
      cases q <;> simp_all [pathOf]
    · exact ih _ (by simpa [akeys] using hn.2) hr

theorem folderOf_meta (pm : Bool) (r : RunInfo) (backend : String → Option Backend) (store : List (String × Slot)) (q : Path)
    (h : ∀ o, pathOf o q = false) : folderOf pm r backend store q = dumpAll Folder.empty r q := by
  simp only [folderOf]
  exact foldl_writeSlot_other _ _ _ _ _ (fun os _ => h os.1)

theorem initEntry_names (parse : String → Option MSpec) (r : RunInfo) (l : List String) (h : ∀ x, x ∈ l ↔ x ∈ r.allOutputNames) (o : String) :
    initEntry parse { r with allOutputNames := l } o = initEntry parse r o := by
  simp only [initEntry, h]

end PF.RIC

namespace PF.RIC
open PF PF.Map

/-- what pipefunc accepts as a (possibly scoped) name: letters, digits, `_`, `.` — non-empty -/
def Ident (s : String) : Prop := s.toList ≠ [] ∧ ∀ c ∈ s.toList, c.isAlphanum = true ∨ c = '_' ∨ c = '.'

theorem ident_no_comma (s : String) (h : Ident s) : s.toList ≠ [] ∧ ',' ∉ s.toList := by
  refine ⟨h.1, fun hc => ?_⟩
  rcases h.2 ',' hc with h' | h' | h'
  · exact absurd h' (by decide)
  · exact absurd h' (by decide)
  · exact absurd h' (by decide)

theorem keyOK_of_ident (k : Key) (h : ∀ s ∈ k.names, Ident s) (hne : k.names ≠ []) : KeyOK k := by
  cases k with
  | one s => exact (ident_no_comma s (h s (by simp [Key.names]))).2
  | many ss => exact ⟨by simpa [Key.names] using hne, fun s hs => ident_no_comma s (h s (by simpa [Key.names] using hs))⟩

/-- every name of the pipeline is an identifier -/
def IdentsOK (fs : List MFunc) : Prop :=
  ∀ f ∈ fs, (∀ o ∈ f.outputs, Ident o) ∧ (∀ p ∈ f.params, Ident p.1)

theorem layers_mem (fs : List MFunc) (fuel : Nat) (done : List String) (rest : List MFunc) (g : List MFunc) (f : MFunc)
    (hg : g ∈ layers fs fuel done rest) (hf : f ∈ g) : f ∈ rest := by
  induction fuel generalizing done rest with
  | zero => simp [layers] at hg
  | succ n ih =>
    simp only [layers] at hg
    split at hg
    · cases hg
    · split at hg
      · cases hg
      · rcases List.mem_cons.mp hg with e | hr
        · subst e; exact (List.mem_filter.mp hf).1
        · exact (List.mem_filter.mp (ih _ _ hr)).1

theorem generations_mem (fs : List MFunc) (f : MFunc) (h : f ∈ (generations fs).flatten) : f ∈ fs := by
  obtain ⟨g, hg, hf⟩ := List.mem_flatten.mp h
  exact layers_mem fs _ _ _ g f hg hf

theorem keyed_ok {β} (fs : List MFunc) (tupled : List String) (vals : List (String × β)) (h : IdentsOK fs) :
    ∀ kv ∈ keyed fs tupled vals, KeyOK kv.1 := by
  intro kv hkv
  simp only [keyed, List.mem_append] at hkv
  rcases hkv with hkv | hkv
  · obtain ⟨p, hp, hv⟩ := List.mem_filterMap.mp hkv
    cases hl : alookup vals p with
    | none => simp [hl] at hv
    | some v =>
      simp only [hl, Option.map_some, Option.some.injEq] at hv
      subst hv
      simp only [rootArgs] at hp
      have hp' := List.mem_eraseDups.mp hp
      obtain ⟨f, hf, hpf⟩ := List.mem_flatMap.mp hp'
      obtain ⟨q, hq, hqq⟩ := List.mem_filterMap.mp hpf
      have hid := (h f hf).2 q hq
      split at hqq
      · cases hqq
      · cases hqq; exact (ident_no_comma _ hid).2
  · obtain ⟨f, hf, hk⟩ := List.mem_flatMap.mp hkv
    have hfs := generations_mem fs f hf
    have hout := (h f hfs).1
    split at hk
    · next ms o hms ho =>
      split at hk
      · next v hv =>
        obtain ⟨k, hk1, hk2⟩ := List.mem_map.mp hk
        subst hk2
        have hne : f.outputs ≠ [] := by intro e; simp [e] at ho
        -- every key of `outKeys` names outputs of `f`
        have : ∀ k ∈ outKeys tupled f, (∀ s ∈ k.names, s ∈ f.outputs) ∧ k.names ≠ [] := by
          intro k hk
          simp only [outKeys, outKey] at hk
          split at hk
          · next o' heq =>
            split at heq
            · next o'' ho'' =>
              split at heq
              · cases heq
              · cases heq; simp only [List.mem_singleton] at hk; subst hk; simp [Key.names, ho'']
            · cases heq
          · next os heq =>
            have hos : os = f.outputs ∨ ∃ o'', f.outputs = [o''] ∧ os = [o''] := by
              split at heq
              · next o'' ho'' =>
                split at heq
                · cases heq; exact Or.inr ⟨o'', ho'', rfl⟩
                · cases heq
              · cases heq; exact Or.inl rfl
            have hos' : os = f.outputs := by
              rcases hos with e | ⟨o'', e1, e2⟩
              · exact e
              · rw [e1, e2]
            subst hos'
            rcases List.mem_cons.mp hk with e | hr
            · subst e; exact ⟨fun s hs => by simpa [Key.names] using hs, by simpa [Key.names] using hne⟩
            · obtain ⟨o'', ho'', e⟩ := List.mem_map.mp hr
              subst e
              exact ⟨fun s hs => by simp only [Key.names, List.mem_singleton] at hs; subst hs; exact ho'', by simp [Key.names]⟩
        obtain ⟨hin, hnn⟩ := this k hk1
        exact keyOK_of_ident k (fun s hs => hout s (hin s hs)) hnn
      · cases hk
    · cases hk

/-- `runMapStore` is `runMap` together with the store behind `MapResult.stored` -/
theorem runMapStore_spec (fs : List MFunc) (inputs : List (String × Val)) (ui : List (String × List Nat))
    (res : MapResult) (store : List (String × Slot)) (h : runMapStore fs inputs ui = .ok (res, store)) :
    runMap fs inputs ui = .ok res ∧ res.stored = store.map fun os => (os.1, os.2.toVal) := by
  unfold runMapStore at h
  unfold runMap runMapWith
  simp only [bind, Except.bind] at h ⊢
  cases hv : validateInputs fs inputs with
  | error e => simp [hv] at h
  | ok u =>
    simp only [hv] at h ⊢
    by_cases hc : (generations fs).flatten.length ≠ fs.length
    · rw [if_pos hc] at h
      simp [throw, throwThe, MonadExceptOf.throw] at h
    · simp only [hc, if_false] at h ⊢
      cases hsm : mapShapes fs inputs (constructInternal fs ui) with
      | error e => simp [hsm] at h
      | ok sm =>
        simp only [hsm] at h ⊢
        cases hre : runGensWith (runFuncWith opArray fs sm.1 sm.2) (generations fs) { inputs := inputs, store := [] } with
        | error e => simp [hre] at h
        | ok re =>
          simp only [hre, pure, Except.pure, Except.ok.injEq, Prod.mk.injEq] at h ⊢
          obtain ⟨h1, h2⟩ := h
          subst h1 h2
          exact ⟨rfl, rfl⟩

end PF.RIC
