import PfModel.DriverC04Lib
import PfModel.Model.RunInfoHist
/-! Driver entry `run.history` of C04 (round 9): a sequence of `map` calls into one folder executed by `PF.RIC.stepRun` — the
    definition `C04_hist_step` / `C04_hist_reachable` are about —, each step with its own inputs, storage configuration,
    `fixed_indices`, `cleanup` flag and (optionally) its own declaration of the functions (a default that differs within the resume
    check's tolerance).  Answers for the LAST step what `run.reload` answers, plus how every output lies in the folder (`liesAs`)
    and, per step, the number of calls and the elements present afterwards. -/
open Lean PF PF.Drv PF.Map PF.RIC PF.Pieces

namespace PF.C04Drv

/-- an `int`, or `{"sl": [start, stop, step]}` with `null` for an omitted bound (the format of Driver/C06.lean) -/
def getSelH (j : Json) : R Sel :=
  match j with
  | .num _ => do return .idx (← asInt j)
  | _ => do
    match ← asList (asOpt asInt) (← fld j "sl") with
    | [a, b, c] => return .slice a b c
    | _ => .error "slice needs three entries"

structure StepIn where
  fs : Option (List MFunc)
  req : Req

def getStep (j : Json) : R StepIn := do
  return { fs := ← optF (asList getMFunc) j "funcs",
           req := { cleanup := ← boolF j "cleanup", inputs := ← getKw (← fld j "inputs"), storage := ← getStorage (← fld j "storage"),
                    fixed := ← optF (asList (asPair asStr getSelH)) j "fixed" } }

structure StepOut where
  cfg : HistCfg
  req : Req
  part : PartResult

/-- the steps one after the other (each through `stepRun`); stops at the first refused / failing step -/
def runSteps (mk : List MFunc → HistCfg) (fs0 : List MFunc) (pm : Bool) :
    Folder → List StepIn → Nat → Except (Nat × StepErr) (Folder × List StepOut)
  | fo, [], _ => .ok (fo, [])
  | fo, s :: rest, k =>
    let c := mk (s.fs.getD fs0)
    match stepRun c (fun _ _ => true) pm fo s.req with
    | .error e => .error (k, e)
    | .ok (fo1, part) =>
      match runSteps mk fs0 pm fo1 rest (k + 1) with
      | .error e => .error e
      | .ok (fo2, outs) => .ok (fo2, { cfg := c, req := s.req, part := part } :: outs)

def slotN : Slot → Nat
  | .single _ => 0
  | .array sh mk _ => prod (extOf mk sh)

def handleHist (a : Json) : R Json := do
  let fs0 ← listF getMFunc a "funcs"
  let user := (← optF (asList (asPair asStr getIShape)) a "user_internal").getD []
  let tupled := (← optF (asList asStr) a "tupled").getD []
  let intForm := (← optF (asList asStr) a "int_pf").getD []
  let pm := (← optF asBool a "persist").getD true
  let version := (← optF asStr a "version").getD "v"
  let steps ← listF getStep a "steps"
  if steps.isEmpty then .error "run.history: no steps"
  let mk (fs : List MFunc) : HistCfg := { fs := fs, tupled := tupled, intForm := intForm, user := user, version := version, parse := tableParse fs }
  match runSteps mk fs0 pm Folder.empty steps 0 with
  | .error (k, .refused e) => return jObj [("err", jStr "ValueError"), ("why", jStr s!"resume refused: {repr e}"), ("step", jNat k)]
  | .error (k, .run e) =>
    match putMErr e with
    | .obj kv => return Json.obj (kv.insert "step" (jNat k))
    | j => return j
  | .ok (fo, outs) =>
    match outs.getLast? with
    | none => .error "run.history: no steps"
    | some last =>
      let c := last.cfg
      let q := last.req
      let part := last.part
      let r := c.info q part.res.shapes part.res.masks
      let backend := backendFor c.fs q.storage
      let names := part.store.map (·.1)
      return jObj [("runinfo", putRunInfo r), ("json", putJ (encode r)), ("decoded", jOpt putRunInfo (decode fo)),
                   ("loaded", jArr (names.map fun o => jArr [jStr o, jOpt putVal (loadOutput c.parse fo o)])),
                   ("stored", putKw (part.store.map fun (o, s) => (o, s.toVal))), ("outputs", putKw part.res.outputs),
                   ("slots", jArr (part.store.map fun (o, s) => jArr [jStr o, jStr (match s with | .single _ => "single" | .array .. => "array")])),
                   ("agree", jBool (part.store.all fun (o, s) => agreeSlot c.parse r backend o s)),
                   ("resumed", jBool (steps.length > 1)),
                   ("backends", jArr (names.map fun o => jArr [jStr o, jOpt (fun b => jStr (match b with
                      | Backend.file => "file_array" | .dict => "dict" | .shm => "shared_memory_dict")) (backend o)])),
                   ("lies", jArr (part.store.map fun (o, s) => jArr [jStr o, jList jStr (liesAs fo o (slotN s))])),
                   ("steps", jArr (outs.map fun so => jObj [("calls", jNat so.part.res.calls.length),
                      ("present", jArr (so.part.store.filterMap fun (o, s) => (presentOf s).map fun l => jArr [jStr o, jList jNat l]))]))]

end PF.C04Drv
