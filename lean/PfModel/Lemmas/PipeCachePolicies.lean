import PfModel.Model.PipeCacheLRU
import PfModel.Lemmas.PipeCache
/-!
C09, extension: an *arbitrary* cache container whose `get` returns nothing or the value most recently put for the key is a
`Policy` (the abstraction the transparency theorems quantify over).  The abstraction "what is resident" is taken to be the
ghost map "most recently put value" — eviction, un-eviction (a `DiskCache` entry that left the in-memory LRU and is read
back from its file), reordering are all allowed.
-/
namespace PF.PipeCache
open PF PF.Pipe

/-- a container specified by "`get` returns `None` or the value most recently `put` for that key" -/
structure LastPutCache (H σ : Type) where
  get : σ → Key H → Option (Val × σ)
  put : σ → Key H → Val → σ
  /-- `Tracks s m`: in the history that led to the state `s`, `m k` is the value most recently put for `k` -/
  Tracks : σ → (Key H → Option Val) → Prop
  get_last : ∀ s m k v s', Tracks s m → get s k = some (v, s') → m k = some v ∧ Tracks s' m
  put_tracks : ∀ s m k v (m' : Key H → Option Val), Tracks s m → m' k = some v → (∀ k', k' ≠ k → m' k' = m k') → Tracks (put s k v) m'

variable {H σ : Type} [DecidableEq H]

/-- the state of such a container together with its ghost map -/
abbrev Tracked (L : LastPutCache H σ) := { p : σ × (Key H → Option Val) // L.Tracks p.1 p.2 }

def LastPutCache.getT (L : LastPutCache H σ) (c : Tracked L) (k : Key H) : Option (Val × Tracked L) :=
  match hg : L.get c.1.1 k with
  | none => none
  | some (v, s') => some (v, ⟨(s', c.1.2), (L.get_last c.1.1 c.1.2 k v s' c.2 hg).2⟩)

def LastPutCache.putT (L : LastPutCache H σ) (c : Tracked L) (k : Key H) (v : Val) : Tracked L :=
  ⟨(L.put c.1.1 k v, fun k' => if k' = k then some v else c.1.2 k'),
    L.put_tracks c.1.1 c.1.2 k v _ c.2 (by simp) (fun k' hne => by simp [hne])⟩

theorem LastPutCache.getT_some (L : LastPutCache H σ) (c : Tracked L) (k : Key H) (v : Val) (c' : Tracked L)
    (h : L.getT c k = some (v, c')) : c.1.2 k = some v ∧ c'.1.2 = c.1.2 := by
  unfold LastPutCache.getT at h
  split at h
  · cases h
  · next v0 s0 hg =>
    simp only [Option.some.injEq, Prod.mk.injEq] at h
    obtain ⟨rfl, rfl⟩ := h
    exact ⟨(L.get_last c.1.1 c.1.2 k v0 s0 c.2 hg).1, rfl⟩

/-- **any container with "get returns none or the value most recently put" is a cache policy** -/
def Policy.ofLastPut (L : LastPutCache H σ) : Policy H (Tracked L) where
  get := L.getT
  put := L.putT
  res c k := c.1.2 k
  get_res := fun c k v c' h => (L.getT_some c k v c' h).1
  get_sub := by
    intro c k v c' h k' w hw
    rw [(L.getT_some c k v c' h).2] at hw
    exact hw
  put_sub := by
    intro c k v k' w h
    simp only [LastPutCache.putT] at h
    split at h
    · next e => left; exact ⟨e, by injection h with h; exact h.symm⟩
    · right; exact h

/-- the recency-list LRU (any capacity) is such a container: its list holds only most-recently-put values -/
def lruLastPut (H : Type) [DecidableEq H] (max : Nat) : LastPutCache H (List (Key H × Val)) where
  get := lruGet
  put := lruPut max
  Tracks c m := ∀ k v, mapGet c k = some v → m k = some v
  get_last := by
    intro s m k v s' ht h
    have h1 := (lruPolicy H max).get_res s k v s' h
    have h2 := (lruPolicy H max).get_sub s k v s' h
    exact ⟨ht k v h1, fun k' w hw => ht k' w (h2 k' w hw)⟩
  put_tracks := by
    intro s m k v m' ht hk hne k' w hw
    rcases (lruPolicy H max).put_sub s k v k' w hw with ⟨e1, e2⟩ | hold
    · rw [e1, e2]; exact hk
    · by_cases e : k' = k
      · -- the key just put: its entry is the new one
        subst e
        have : w = v := by
          simp only [lruPolicy, lruPut] at hw
          split at hw
          · have h3 := mapGet_evict _ k' w hw
            rcases mapGet_touch s k' v k' w h3 with ⟨_, e2⟩ | _
            · exact e2
            · rw [mapGet_append, mapGet_eraseK_self] at h3
              simp only [mapGet, ↓reduceIte, Option.some.injEq] at h3
              exact h3.symm
          · rw [mapGet_append, mapGet_eraseK_self] at hw
            simp only [mapGet, ↓reduceIte, Option.some.injEq] at hw
            exact hw.symm
        rw [this]; exact hk
      · rw [hne k' e]; exact ht k' w hold

end PF.PipeCache
