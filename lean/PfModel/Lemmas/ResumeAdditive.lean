import PfModel.Lemmas.ResumeFS
/-! The event list of a run of the repaired protocol is *additive*: it consists of `mkdir`s, user calls and whole `dump` blocks
    (temporary file, then `os.replace`).  Such a list never makes a non-temporary file disappear, at any prefix, from any
    starting folder — no hypothesis on the folder, the pipeline or the success of the run is needed.
    Used by `Props/C05Hist.lean` (`C05_prefix_mono`). -/
namespace PF.ResumeFS
open PF PF.Map

/-- event lists built from `mkdirp`, `call` and whole repaired `dump` blocks -/
inductive Additive : List Ev → Prop
  | nil : Additive []
  | mkdirp (d : Dir) {rest : List Ev} : Additive rest → Additive (.mkdirp d :: rest)
  | call (fn : String) (li : Nat) (a : List (String × Val)) {rest : List Ev} : Additive rest → Additive (.call fn li a :: rest)
  | write (p : Path) (v : Val) {rest : List Ev} : Additive rest →
      Additive (.mkdirp (dirOf p) :: .begin (.tmp p) :: .chunk (.tmp p) :: .commit (.tmp p) v :: .rename (.tmp p) p :: rest)

theorem Additive.append {a b : List Ev} (ha : Additive a) (hb : Additive b) : Additive (a ++ b) := by
  induction ha with
  | nil => simpa using hb
  | mkdirp d _ ih => exact .mkdirp d ih
  | call fn li x _ ih => exact .call fn li x ih
  | write p v _ ih => exact .write p v ih

theorem Additive.flatMap {α} (l : List α) (g : α → List Ev) (h : ∀ x ∈ l, Additive (g x)) : Additive (l.flatMap g) := by
  induction l with
  | nil => exact .nil
  | cons x xs ih =>
    rw [List.flatMap_cons]
    exact (h x (by simp)).append (ih fun y hy => h y (by simp [hy]))

theorem additive_writeEvs (p : Path) (v : Val) : Additive (writeEvs false p v) := by
  simp only [writeEvs, Bool.false_eq_true, ↓reduceIte]
  exact .write p v .nil

/-- what is left of an additive list after some events: an additive list, or the rest of a `dump` block -/
inductive Tail : FS → List Ev → Prop
  | add {fs : FS} {evs : List Ev} : Additive evs → Tail fs evs
  | w1 {fs : FS} {p : Path} {v : Val} {rest : List Ev} : Additive rest →
      Tail fs (.begin (.tmp p) :: .chunk (.tmp p) :: .commit (.tmp p) v :: .rename (.tmp p) p :: rest)
  | w2 {fs : FS} {p : Path} {v : Val} {rest : List Ev} : Additive rest →
      Tail fs (.chunk (.tmp p) :: .commit (.tmp p) v :: .rename (.tmp p) p :: rest)
  | w3 {fs : FS} {p : Path} {v : Val} {rest : List Ev} : Additive rest → Tail fs (.commit (.tmp p) v :: .rename (.tmp p) p :: rest)
  | w4 {fs : FS} {p : Path} {rest : List Ev} : (fs.files (.tmp p)).isSome = true → Additive rest → Tail fs (.rename (.tmp p) p :: rest)

theorem mono_of_eq {fs fs' : FS} (h : ∀ q, q.isTmp = false → fs'.files q = fs.files q) : Mono fs fs' := by
  intro q hq hs; rw [h q hq]; exact hs

theorem set_tmp_files (fs : FS) (p : Path) (c : Option Content) (q : Path) (hq : q.isTmp = false) :
    (fs.set (.tmp p) c).files q = fs.files q := by
  simp [FS.set, tmp_ne hq]

theorem tail_step (fs : FS) (e : Ev) (evs : List Ev) (h : Tail fs (e :: evs)) : Mono fs (apply fs e) ∧ Tail (apply fs e) evs := by
  cases h with
  | add ha =>
    cases ha with
    | mkdirp d hr => exact ⟨mono_of_eq fun _ _ => rfl, .add hr⟩
    | call fn li a hr => exact ⟨mono_of_eq fun _ _ => rfl, .add hr⟩
    | write p v hr => exact ⟨mono_of_eq fun _ _ => rfl, .w1 hr⟩
  | w1 hr => exact ⟨mono_of_eq fun q hq => set_tmp_files fs _ _ q hq, .w2 hr⟩
  | w2 hr => exact ⟨mono_of_eq fun q hq => set_tmp_files fs _ _ q hq, .w3 hr⟩
  | w3 hr =>
    refine ⟨mono_of_eq fun q hq => set_tmp_files fs _ _ q hq, .w4 ?_ hr⟩
    simp [apply, FS.set]
  | w4 hs hr =>
    refine ⟨?_, .add hr⟩
    intro q hq h0
    simp only [apply, FS.set, tmp_ne hq, ↓reduceIte]
    split
    · exact hs
    · exact h0

theorem mono_trans' {a b c : FS} (h1 : Mono a b) (h2 : Mono b c) : Mono a c := fun p hp h => h2 p hp (h1 p hp h)

theorem crashAt_succ (fs : FS) (e : Ev) (evs : List Ev) (k : Nat) : crashAt fs (e :: evs) (k + 1) = crashAt (apply fs e) evs k := by
  simp [crashAt, applyAll]

theorem tail_prefix : ∀ (evs : List Ev) (fs : FS), Tail fs evs → ∀ k, Mono fs (crashAt fs evs k) ∧ Tail (crashAt fs evs k) (evs.drop k)
  | [], fs, h, k => by
    have : crashAt fs [] k = fs := by simp [crashAt, applyAll]
    rw [this]; exact ⟨fun _ _ hs => hs, by simpa using h⟩
  | e :: evs, fs, h, 0 => by
    rw [crashAt_zero]; exact ⟨fun _ _ hs => hs, by simpa using h⟩
  | e :: evs, fs, h, k + 1 => by
    obtain ⟨m1, t1⟩ := tail_step fs e evs h
    obtain ⟨m2, t2⟩ := tail_prefix evs (apply fs e) t1 k
    rw [crashAt_succ]
    exact ⟨mono_trans' m1 m2, by simpa using t2⟩

theorem crashAt_add (fs : FS) (evs : List Ev) (j m : Nat) : crashAt fs evs (j + m) = crashAt (crashAt fs evs j) (evs.drop j) m := by
  simp only [crashAt, applyAll, List.take_add, List.foldl_append]

/-- **An additive event list loses nothing**: from any folder, a non-temporary file present after `j` events is present
    after `k ≥ j` events. -/
theorem additive_prefix_mono {evs : List Ev} (h : Additive evs) (fs : FS) (j k : Nat) (hjk : j ≤ k) :
    Mono (crashAt fs evs j) (crashAt fs evs k) := by
  obtain ⟨_, t⟩ := tail_prefix evs fs (.add h) j
  obtain ⟨m, _⟩ := tail_prefix _ _ t (k - j)
  have : k = j + (k - j) := by omega
  rw [this, crashAt_add]
  exact m

/-! ### the runner's event lists are additive -/

theorem compare_evs (fs : FS) (inputs : List (String × Val)) : (compare false fs inputs).evs = [] := by
  unfold compare
  split
  · rfl
  · rfl
  · split <;> simp

theorem additive_dumpAll (inputs : List (String × Val)) : Additive (dumpAllEvs false inputs) := by
  simp only [dumpAllEvs, Bool.false_eq_true, ↓reduceIte]
  exact ((Additive.flatMap _ _ fun _ _ => additive_writeEvs _ _).append (additive_writeEvs _ _)).append (additive_writeEvs _ _)

theorem additive_initStore (fs : FS) : ∀ plan : List (String × Bool), Additive (initStore false fs plan).evs
  | [] => by simp [initStore]; exact .nil
  | (o, d) :: rest => by
    have ih := additive_initStore fs rest
    unfold initStore
    split
    · exact .mkdirp _ ih
    · simp only [Bool.false_eq_true, ↓reduceIte]
      split
      · split
        · exact .nil
        · exact ih
      · exact ih

theorem additive_runMissing (cfg : Cfg) (hl : cfg.legacy = false) (d : Bool) (fsd : List MFunc) (env : Env) (f : MFunc) (ms : MSpec)
    (es : List Nat) : ∀ (l : List Nat) (nc : Nat), Additive (runMissing cfg d fsd env f ms es l nc).evs
  | [], _ => by simp [runMissing]; exact .nil
  | li :: rest, nc => by
    have ih := additive_runMissing cfg hl d fsd env f ms es rest (nc + 1)
    unfold runMissing
    split
    · exact .nil
    · split
      · exact .call _ _ _ .nil
      · refine .call _ _ _ (Additive.append ?_ ih)
        split
        · exact .nil
        · rw [hl]; exact Additive.flatMap _ _ fun _ _ => additive_writeEvs _ _

theorem additive_stepMapped (cfg : Cfg) (hl : cfg.legacy = false) (d : Bool) (fsd : List MFunc) (env : Env) (view : View) (nc : Nat)
    (f : MFunc) (ms : MSpec) (shape : List Nat) (mask : List Bool) :
    Additive (stepMapped cfg d fsd env view nc f ms shape mask).subEvs ∧ Additive (stepMapped cfg d fsd env view nc f ms shape mask).procEvs := by
  have h := additive_runMissing cfg hl d fsd env f ms (extOf mask shape)
    ((List.range (prod (extOf mask shape))).filter (isMissing view f)) nc
  unfold stepMapped
  simp only
  split
  · exact ⟨h, .nil⟩
  · split
    · exact ⟨h, .nil⟩
    · exact ⟨h, .nil⟩

theorem additive_stepSingle (cfg : Cfg) (hl : cfg.legacy = false) (fsd : List MFunc) (env : Env) (fs : FS) (nc : Nat) (f : MFunc) :
    Additive (stepSingle cfg fsd env fs nc f).subEvs ∧ Additive (stepSingle cfg fsd env fs nc f).procEvs := by
  unfold stepSingle
  split
  · split
    · exact ⟨.nil, .nil⟩
    · simp only [hl, Bool.false_eq_true, ↓reduceIte]; exact ⟨.nil, .nil⟩
  · split
    · exact ⟨.nil, .nil⟩
    · split
      · exact ⟨.call _ _ _ .nil, .nil⟩
      · refine ⟨.call _ _ _ .nil, ?_⟩
        rw [hl]; exact Additive.flatMap _ _ fun _ _ => additive_writeEvs _ _

theorem additive_stepFunc (cfg : Cfg) (hl : cfg.legacy = false) (fsd : List MFunc) (shapes : List (String × List Nat))
    (masks : List (String × List Bool)) (mem : List (String × List (Nat × Val))) (env : Env) (fs : FS) (nc : Nat) (f : MFunc) :
    Additive (stepFunc cfg fsd shapes masks mem env fs nc f).subEvs ∧ Additive (stepFunc cfg fsd shapes masks mem env fs nc f).procEvs := by
  unfold stepFunc
  split
  · split
    · exact additive_stepSingle cfg hl fsd env fs nc f
    · split
      · exact ⟨.nil, .nil⟩
      · split
        · split
          · exact ⟨.nil, .nil⟩
          · exact additive_stepMapped cfg hl _ fsd env _ nc f _ _ _
        · exact ⟨.nil, .nil⟩
  · exact additive_stepSingle cfg hl fsd env fs nc f

theorem additive_runGenR (step : Env → FS → Nat → MFunc → FOut)
    (hs : ∀ env fs nc f, Additive (step env fs nc f).subEvs ∧ Additive (step env fs nc f).procEvs) (env : Env) :
    ∀ (fl : List MFunc) (fs : FS) (nc : Nat), Additive (runGenR step env fs nc fl).subEvs ∧ Additive (runGenR step env fs nc fl).procEvs
  | [], fs, nc => by simp only [runGenR]; exact ⟨.nil, .nil⟩
  | f :: rest, fs, nc => by
    obtain ⟨s1, s2⟩ := hs env fs nc f
    have ih := additive_runGenR step hs env rest (applyAll fs (step env fs nc f).subEvs) (nc + (step env fs nc f).ncalls)
    unfold runGenR
    simp only
    split
    · exact ⟨s1, .nil⟩
    · split
      · exact ⟨s1.append ih.1, .nil⟩
      · exact ⟨s1.append ih.1, s2.append ih.2⟩

theorem additive_runGensR (step : Env → FS → Nat → MFunc → FOut)
    (hs : ∀ env fs nc f, Additive (step env fs nc f).subEvs ∧ Additive (step env fs nc f).procEvs) :
    ∀ (gens : List (List MFunc)) (env : Env) (fs : FS) (nc : Nat), Additive (runGensR step gens env fs nc).evs
  | [], env, fs, nc => by simp [runGensR]; exact .nil
  | gen :: rest, env, fs, nc => by
    obtain ⟨g1, g2⟩ := additive_runGenR step hs env gen fs nc
    unfold runGensR
    simp only
    split
    · exact g1.append g2
    · exact (g1.append g2).append (additive_runGensR step hs rest _ _ _)

theorem additive_persist (store : List (String × Slot)) (plan : List (String × Bool)) : Additive (persistEvs false store plan) := by
  unfold persistEvs
  refine Additive.flatMap _ _ fun od _ => ?_
  split
  · exact .nil
  · split
    · exact .mkdirp _ (additive_writeEvs _ _)
    · exact .nil

/-- the event list of a run of the repaired protocol, started on any folder, is additive -/
theorem additive_runOn (cfg : Cfg) (hl : cfg.legacy = false) (fs : FS) (fsd : List MFunc) (inputs : List (String × Val))
    (ui : List (String × List Nat)) : Additive (runOn cfg fs fsd inputs ui).evs := by
  have hL : ∀ shapes masks mem gens env fs nc, Additive (runGensR (stepFunc cfg fsd shapes masks mem) gens env fs nc).evs :=
    fun shapes masks mem => additive_runGensR _ (fun env fs nc f => additive_stepFunc cfg hl fsd shapes masks mem env fs nc f)
  unfold runOn
  split
  · exact .nil
  · simp only [hl, compare_evs, List.nil_append]
    split
    · exact .nil
    · split
      · exact (additive_dumpAll inputs).append (additive_initStore _ _)
      · split
        · exact ((additive_dumpAll inputs).append (additive_initStore _ _)).append (hL _ _ _ _ _ _ _)
        · exact (((additive_dumpAll inputs).append (additive_initStore _ _)).append (hL _ _ _ _ _ _ _)).append (additive_persist _ _)

end PF.ResumeFS
