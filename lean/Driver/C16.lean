import PfModel.DriverLib
import PfModel.Model.Typing
/-! Driver for C16 (`typing.compat`, `typing.pipeline`). Run: `lake env lean --run Driver/C16.lean < requests.jsonl`.

Annotation grammar (JSON): `"int" | "bool" | "float" | "str" | "bytes" | "None" | "Any" | "NoAnn" | "ndarray" | "T"`
(free TypeVar), `{"g": "list"|"set"|"tuple"|"dict", "a": [ty..]}`, `{"u": [ty..]}`, `{"an": ty}`, `{"arr": ty}`,
`{"tvb": ty}` (bound TypeVar), `{"tvc": [ty..]}` (constrained TypeVar). -/
open Lean PF.Drv PF.Typing

def getGen (s : String) : R Gen :=
  match s with
  | "list" => .ok .list | "set" => .ok .set | "tuple" => .ok .tuple | "dict" => .ok .dict
  | g => .error s!"unknown generic {g}"

partial def getTy (j : Json) : R Ty := do
  match j with
  | .str "int" => return .base .int
  | .str "bool" => return .base .bool
  | .str "float" => return .base .float
  | .str "str" => return .base .str
  | .str "bytes" => return .base .bytes
  | .str "None" => return .base .none
  | .str "Any" => return .any
  | .str "NoAnn" => return .noann
  | .str "ndarray" => return .ndarr
  | .str "T" => return .tvFree
  | .str s => .error s!"unknown type name {s}"
  | _ =>
    if let some g := fld? j "g" then
      return .gen (← getGen (← asStr g)) (← (← asArr (← fld j "a")).mapM getTy)
    else if let some u := fld? j "u" then return .union (← (← asArr u).mapM getTy)
    else if let some t := fld? j "an" then return .annot (← getTy t)
    else if let some t := fld? j "arr" then return .array (← getTy t)
    else if let some t := fld? j "tvb" then return .tvBound (← getTy t)
    else if let some c := fld? j "tvc" then return .tvConstr (← (← asArr c).mapM getTy)
    else .error s!"bad type {j.compress}"

/-- only well-formed annotations (what the `typing` constructors return) are accepted -/
def getWfTy (j : Json) : R Ty := do
  let t ← getTy j
  if t.wf then return t else .error s!"annotation is not well-formed (nested union / nested Annotated / empty union): {j.compress}"

def getMSpec (j : Json) : R MSpec := do
  return { ins := ← listF (asPair asStr (asList (asOpt asStr))) j "ins",
           outs := ← listF (asPair asStr (asList asStr)) j "outs",
           generated := ← boolF j "generated" }

def getEdge (j : Json) : R Edge := do
  return { param := ← strF j "param", out := ← getWfTy (← fld j "out"), inp := ← getWfTy (← fld j "inp"),
           prod := ← optF getMSpec j "prod", cons := ← optF getMSpec j "cons" }

def putOutcome : Outcome → Json
  | .ok => jStr "ok"
  | .typeError => jStr "TypeError"

def handle (m : String) (a : Json) : R Json := do
  match m with
  | "typing.compat" =>
    let ps ← listF (asPair getWfTy getWfTy) a "pairs"
    return jList (fun p => jBool (compat p.1 p.2)) ps
  | "typing.pipeline" =>
    let es ← listF getEdge a "edges"
    let v ← boolF a "validate"
    return jObj [("outcome", putOutcome (construct v es)),
                 ("edges", jList (fun e => jObj [("reduced", jBool (axisIsReduced e)), ("generated", jBool (mapspecIsGenerated e)),
                                                 ("internal", jBool (withInternalShape e)), ("wrapped", jBool (axisIsReduced e && !isObjArr e.out && !(match e.out with | .noann => true | _ => false))),
                                                 ("ok", jBool (edgeOk e))]) es)]
  | _ => .error s!"unknown entry {m}"

def main : IO Unit := loop handle
