import PfModel.Lemmas.SweepFilteredPlain3
/-! `filtered_sweep` of a sweep whose `dims` lists its groups in item order: the rebuilt sweep enumerates its groups as written
(the hypothesis `hnom` of `C17_filtered_plain` is automatic). -/
namespace PF.Sweep

theorem flatten_filterMap_sel (ks : List Key) (G : List (List Key)) :
    (G.filterMap (sel ks)).flatten = G.flatten.filter ks.contains := by
  induction G with
  | nil => rfl
  | cons g r ih =>
    simp only [List.filterMap_cons, sel, List.flatten_cons, List.filter_append]
    cases hg : g.filter ks.contains with
    | nil => simp [ih]
    | cons x xs => simp [ih]

end PF.Sweep
