import Std.Data.HashSet
import PfModel.DriverLib
import PfModel.Model.CachePolicy
/-! Explicit-state exploration of the cache-policy model for C14 (`cache.explore`).
Run: `lake env lean --run Driver/C14Explore.lean < requests.jsonl`.

Request `{"kind": "lru"|"hybrid"|"simple"|"disk", "max": n|null, "weights": [wa, wd]?, "lru": n|null?,
"ops": [["put", k, v, d] | ["get", k] | ["clear"] | ["reopen", max|null, lru|null] …], "depth": D, "limit": L}`.

Breadth-first over the *abstract* states of `PF.Cache.{LRU,Hyb,Simple,Disk}.step` (the very functions the C14 theorems are
about), starting from the empty container: level by level; for every frontier state in discovery order, for every operation
in the given order, the history `shortest history to the state ++ [op]` is emitted; the exploration stops as soon as
`limit` histories were emitted; otherwise the model executes the operation and, if the abstract state reached was never seen,
it is remembered with this history and joins the next frontier.  A step on which the model raises is emitted but not expanded.
Response `{"histories": [[op, …] …], "states": n}` (`n`: abstract states seen, the initial one included; operations are
echoed as they were sent).

Abstract state (values are left out): lru = (max, queue); simple = resident keys, sorted; hybrid = (max, weights,
(key, access count, duration) in the iteration order of `_access_counts`); disk = (max, LRU size, file keys oldest ctime
first, LRU queue or none) — `max` and the LRU size are read off the state, so a `reopen` changes them. -/
open Lean PF.Drv PF.Cache

def getOp (j : Json) : R Op := do
  match ← asArr j with
  | [.str "put", k, v, d] => return .put (← asNat k) (← asNat v) (← asNat d)
  | [.str "put", k, v] => return .put (← asNat k) (← asNat v) 0
  | [.str "get", k] => return .get (← asNat k)
  | [.str "has", k] => return .has (← asNat k)
  | [.str "len"] => return .len
  | [.str "clear"] => return .clear
  | [.str "reopen", m, l] => return .reopen (← asOpt asNat m) (← asOpt asNat l)
  | _ => .error s!"bad op {j.compress}"

/-! ### the visited keys -/
def lruKey (s : LRU) : Json := jArr [jNat s.max, jList jNat s.queue]
def simpleKey (s : Simple) : Json := jList jNat ((keys s.dict).mergeSort (fun a b => a ≤ b))
def hybKey (s : Hyb) : Json :=
  jArr [jNat s.max, jNat s.wa, jNat s.wd,
        jList (fun p => jArr [jNat p.1, jNat p.2, jOpt jNat (lookup s.du p.1)]) s.ac,
        -- the three dicts of a reachable state have the same keys in the same order; if they ever did not, the states differ
        jList jNat (keys s.dict), jList jNat (keys s.du)]
def diskKey (s : Disk) : Json :=
  jArr [jOpt jNat s.max, jOpt jNat (s.lru.map (·.max)),
        jList jNat (((stamps s.files).mergeSort (fun a b => a.2 ≤ b.2)).map (·.1)),
        jOpt (fun l => jList jNat l.queue) s.lru]

/-! ### breadth-first exploration -/
structure Bfs (σ : Type) where
  seen : Std.HashSet String
  out : Array Json                    -- the histories emitted so far
  nxt : Array (σ × Array Json)        -- the next frontier: state and the shortest history to it
  done : Bool                         -- `limit` reached

/-- every operation on one frontier state -/
def expand {σ} (step : σ → Op → Except Err (σ × Obs)) (key : σ → Json) (limit : Nat) (s : σ) (path : Array Json) :
    List (Json × Op) → Bfs σ → Bfs σ
  | [], acc => acc
  | (j, op) :: rest, acc =>
    if acc.done then acc else
    let h := path.push j
    let acc := { acc with out := acc.out.push (Json.arr h) }
    if limit ≤ acc.out.size then { acc with done := true } else
    match step s op with
    | .error _ => expand step key limit s path rest acc
    | .ok (s', _) =>
      let k := (key s').compress
      if acc.seen.contains k then expand step key limit s path rest acc
      else expand step key limit s path rest { acc with seen := acc.seen.insert k, nxt := acc.nxt.push (s', h) }

/-- one level: every state of the frontier, in discovery order -/
def level {σ} (step : σ → Op → Except Err (σ × Obs)) (key : σ → Json) (limit : Nat) (ops : List (Json × Op)) :
    List (σ × Array Json) → Bfs σ → Bfs σ
  | [], acc => acc
  | (s, path) :: rest, acc =>
    if acc.done then acc else level step key limit ops rest (expand step key limit s path ops acc)

/-- `depth` levels (the recursion is on the depth) -/
def bfs {σ} (step : σ → Op → Except Err (σ × Obs)) (key : σ → Json) (limit : Nat) (ops : List (Json × Op)) :
    Nat → List (σ × Array Json) → Bfs σ → Bfs σ
  | 0, _, acc => acc
  | d + 1, frontier, acc =>
    let acc := level step key limit ops frontier { acc with nxt := #[] }
    if acc.done || acc.nxt.isEmpty then acc else bfs step key limit ops d acc.nxt.toList acc

def exploreJ {σ} (step : σ → Op → Except Err (σ × Obs)) (key : σ → Json) (init : σ) (ops : List (Json × Op))
    (depth limit : Nat) : Json :=
  let acc0 : Bfs σ := { seen := (∅ : Std.HashSet String).insert (key init).compress, out := #[], nxt := #[], done := false }
  let acc := bfs step key limit ops depth [(init, #[])] acc0
  jObj [("histories", Json.arr acc.out), ("states", jNat acc.seen.size)]

def handle (m : String) (a : Json) : R Json := do
  match m with
  | "cache.explore" =>
    let kind ← strF a "kind"
    let opsJ ← asArr (← fld a "ops")
    let ops ← opsJ.mapM fun j => do return (j, ← getOp j)
    let depth ← natF a "depth"
    let limit ← natF a "limit"
    let max ← optF asNat a "max"
    let isReopen : Op → Bool := fun | .reopen _ _ => true | _ => false
    if kind != "disk" && ops.any (fun p => isReopen p.2) then .error "reopen is a DiskCache operation"
    match kind with
    | "lru" =>
      let some n := max | .error "lru: max required"
      if n = 0 then .error "lru: max_size 0 is rejected by the constructor"
      return exploreJ LRU.step lruKey (LRU.empty n) ops depth limit
    | "hybrid" =>
      let some n := max | .error "hybrid: max required"
      if n = 0 then .error "hybrid: max_size 0 is outside the property"
      let (wa, wd) ← asPair asNat asNat (← fld a "weights")
      return exploreJ Hyb.step hybKey (Hyb.empty n wa wd) ops depth limit
    | "simple" => return exploreJ Simple.step simpleKey ⟨[]⟩ ops depth limit
    | "disk" =>
      let lru ← optF asNat a "lru"
      if lru = some 0 then .error "disk: lru_cache_size 0 is rejected by the LRUCache constructor"
      return exploreJ Disk.step diskKey (Disk.empty max lru) ops depth limit
    | _ => .error s!"unknown cache kind {kind}"
  | _ => .error s!"unknown entry {m}"

def main : IO Unit := loop handle
