/-
Model of what a *failing* cached call leaves behind (C09, extension).  `Pipeline._run` raises in the middle of the
evaluation (`ValueError`: missing argument, `_base.py:_get_func_args`; `KeyError`: unknown output); the exception
propagates through the frames, and the cache keeps every entry that the completed frames stored with `update_cache`
(`_base.py:_run`, the `put` happens right after `_execute_func`).  `runF` is `PF.PipeCache.runC` with the state kept on the
error path; `histF` is `histC` continuing after a failed call with the cache it left.  Core Lean only.
-/
import PfModel.Model.PipeCache
namespace PF.PipeCache
open PF PF.Pipe

/-- `_get_func_args` over the cached state, keeping the state when it raises -/
def argsWithF {H C} (rec : String → CSt H C → Except (Err × CSt H C) (Val × CSt H C)) (fs : List Func) (kw : List (String × Val))
    (f : Func) : List (String × String) → CSt H C → Except (Err × CSt H C) (List (String × Val) × CSt H C)
  | [], s => .ok ([], s)
  | (p, orig) :: ps, s =>
    match resolve fs kw f p with
    | .missing => .error (.missing p, s)
    | .val v =>
      match argsWithF rec fs kw f ps { s with used := s.used ++ [p] } with
      | .error e => .error e
      | .ok (rest, s2) => .ok ((orig, v) :: rest, s2)
    | .upstream =>
      match rec p s with
      | .error e => .error e
      | .ok (v, s1) =>
        match argsWithF rec fs kw f ps { s1 with used := s1.used ++ [p] } with
        | .error e => .error e
        | .ok (rest, s2) => .ok ((orig, v) :: rest, s2)

/-- `Pipeline._run` with the cache, keeping the state (in particular the cache) when it raises -/
def runF {H C} (P : Policy H C) (cached : Func → Bool) (ck : List (String × Val) → Func → String → Option (Key H))
    (fs : List Func) (kw : List (String × Val)) (full : Bool) :
    Nat → String → CSt H C → Except (Err × CSt H C) (Val × CSt H C)
  | 0, _, s => .error (.fuel, s)
  | n+1, o, s =>
    match alookup s.memo o with
    | some v => .ok (v, s)
    | none =>
      match producer fs o with
      | none => .error (.noFunc o, s)
      | some f =>
        let key := if cached f then ck kw f o else none
        match lookupC P key s.cache with
        | some (k, r, c') =>
          let s1 : CSt H C := { s with memo := unpack f r ++ s.memo, cache := c', hits := s.hits ++ [k] }
          if full then
            match argsWithF (runF P cached ck fs kw full n) fs kw f f.params s1 with
            | .error e => .error e
            | .ok (_, s2) =>
              match alookup s2.memo o with
              | some v => .ok (v, s2)
              | none => .error (.noFunc o, s2)
          else
            match alookup s1.memo o with
            | some v => .ok (v, { s1 with hit := true })
            | none => .error (.noFunc o, s1)
        | none =>
          match argsWithF (runF P cached ck fs kw full n) fs kw f f.params s with
          | .error e => .error e
          | .ok (args, s') =>
            let s'' : CSt H C := { s' with memo := outVals f args ++ s'.memo, calls := s'.calls ++ [f.name],
                                           cache := storeC P key s'.cache (result f args), puts := logPut key s'.puts }
            match alookup (outVals f args) o with
            | some v => .ok (v, s'')
            | none => .error (.noFunc o, s'')

/-- `Pipeline.run` with a cache; a call that raises in the middle leaves the cache as the completed frames made it -/
def runTopF {H C} (P : Policy H C) (cached : Func → Bool) (ck : List (String × Val) → Func → String → Option (Key H))
    (fs : List Func) (c : C) (kw : List (String × Val)) (full : Bool) (o : String) : Except (Err × C) (COutcome H C) :=
  if (alookup kw o).isSome then .error (.outputInKwargs, c) else
  match runF P cached ck fs kw full (fuelFor fs) o (initC kw c) with
  | .error (e, s) => .error (e, s.cache)
  | .ok (v, s) =>
    .ok { value := v, full := s.memo, calls := s.calls, cache := s.cache, hits := s.hits, puts := s.puts,
          unused := if s.hit then [] else (akeys kw).filter fun k => !(s.used.contains k) }

/-- forget what a failed evaluation left behind -/
def dropS {σ α} : Except (Err × σ) α → Except Err α
  | .error (e, _) => .error e
  | .ok a => .ok a

/-- the cached pipeline driven through a history, *continuing after failed calls* with the cache they leave -/
def histF {H C} (P : Policy H C) (cached : Func → Bool)
    (ck : List Func → List (String × Val) → Func → String → Option (Key H)) :
    List Func → C → List Step → List (Option (Except Err (COutcome H C)))
  | _, _, [] => []
  | fs, c, .mutate m :: rest => none :: histF P cached ck (applyMut fs m) c rest
  | fs, c, .call o kw full :: rest =>
    match runTopF P cached (ck fs) fs c kw full o with
    | .error (e, c') => some (.error e) :: histF P cached ck fs c' rest
    | .ok out => some (.ok out) :: histF P cached ck fs out.cache rest

end PF.PipeCache
