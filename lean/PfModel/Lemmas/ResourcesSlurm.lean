import PfModel.Model.Resources
/-! Helper lemmas for `Props/C20Slurm.lean`. -/
namespace PF.Res

theorem mem_optI (flag : String) (x : Option Int) (s : String) :
    s ∈ optI flag x ↔ ∃ v, truthyI x = some v ∧ s = flag ++ toString v := by
  simp only [optI]
  cases truthyI x <;> simp

theorem mem_optS (flag : String) (x : Option String) (s : String) :
    s ∈ optS flag x ↔ ∃ v, truthyS x = some v ∧ s = flag ++ v := by
  simp only [optS]
  cases truthyS x <;> simp

theorem length_optI (flag : String) (x : Option Int) : (optI flag x).length = if (truthyI x).isSome then 1 else 0 := by
  simp only [optI]
  cases truthyI x <;> simp

theorem length_optS (flag : String) (x : Option String) : (optS flag x).length = if (truthyS x).isSome then 1 else 0 := by
  simp only [optS]
  cases truthyS x <;> simp

end PF.Res
