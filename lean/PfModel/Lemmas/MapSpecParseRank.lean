/-
Lemmas for `Props/C08RoundtripIff.lean`: `from_string` never builds a rank-0 array (`(.+?)` needs a character and
`"".split(",")` is `[""]`), so everything it accepts is `WF`; `WF` decided (`wfDec`, the body of the driver's `wfB`).
-/
import PfModel.Lemmas.MapSpecParse
namespace PF.MS

theorem splitComma_ne_nil (cur xs : List Char) : splitComma cur xs ≠ [] := by
  induction xs generalizing cur with
  | nil => simp [splitComma]
  | cons c r ih =>
    simp only [splitComma]
    split
    · simp
    · exact ih _

theorem parseIdx_ne_nil (s : List Char) : parseIdx s ≠ [] := by
  unfold parseIdx
  intro h
  exact splitComma_ne_nil [] s (List.map_eq_nil_iff.mp h)

theorem findAll_axes_ne_nil (fuel : Nat) (xs : List Char) : ∀ a ∈ findAll fuel xs, a.axes ≠ [] := by
  induction fuel generalizing xs with
  | zero => intro a ha; simp [findAll] at ha
  | succ n ih =>
    cases xs with
    | nil => intro a ha; simp [findAll] at ha
    | cons c cs =>
      intro a ha
      simp only [findAll] at ha
      split at ha
      · split at ha
        · rcases List.mem_cons.mp ha with rfl | ha
          · exact parseIdx_ne_nil _
          · exact ih _ a ha
        · exact ih _ a ha
      · exact ih _ a ha

/-- every array `_parse_indexed_arrays` returns has rank ≥ 1 -/
theorem parseSide_axes_ne_nil (xs : List Char) (l : List ArraySpec) (h : parseSide xs = .ok l) :
    ∀ a ∈ l, a.axes ≠ [] := by
  unfold parseSide at h
  split at h
  · injection h with h; subst h; intro a ha; cases ha
  · split at h
    · cases h
    · dsimp only at h
      split at h
      · injection h with h; subst h; exact findAll_axes_ne_nil _ _
      · cases h

theorem parseChars_axes_ne_nil (xs : List Char) (m : MapSpec) (h : parseChars xs = .ok m) :
    ∀ a ∈ m.inputs ++ m.outputs, a.axes ≠ [] := by
  unfold parseChars at h
  split at h
  · next a b _ =>
    split at h
    · cases h
    · next ins hi =>
      split at h
      · cases h
      · next outs ho =>
        split at h
        · cases h
        · injection h with h; subst h
          intro x hx
          rcases List.mem_append.mp hx with hx | hx
          · exact parseSide_axes_ne_nil a ins hi x hx
          · exact parseSide_axes_ne_nil b outs ho x hx
  · cases h

/-- `WF`, decided: the constructor accepts the fields unchanged and no array has rank 0 (the driver's `wfB`) -/
def wfDec (m : MapSpec) : Bool :=
  (match construct m.inputs m.outputs with | .ok _ => true | .error _ => false) &&
  (m.inputs ++ m.outputs).all fun a => !a.axes.isEmpty

theorem wfDec_iff (m : MapSpec) : wfDec m = true ↔ WF m := by
  have hr : ((m.inputs ++ m.outputs).all fun a => !a.axes.isEmpty) = true ↔
      ∀ a ∈ m.inputs ++ m.outputs, a.axes ≠ [] := by
    rw [List.all_eq_true]
    constructor
    · intro h a ha hnil
      have := h a ha
      simp [hnil] at this
    · intro h a ha
      have := h a ha
      cases hax : a.axes with
      | nil => exact absurd hax this
      | cons _ _ => rfl
  unfold wfDec WF
  rw [Bool.and_eq_true, hr]
  constructor
  · rintro ⟨hc, hk⟩
    refine ⟨?_, hk⟩
    split at hc
    · next m' hm' =>
      obtain ⟨he, hv⟩ := (construct_ok_iff _ _ _).mp hm'
      subst he
      exact hv
    · cases hc
  · rintro ⟨hv, hk⟩
    refine ⟨?_, hk⟩
    have : construct m.inputs m.outputs = .ok m := (construct_ok_iff _ _ _).mpr ⟨rfl, hv⟩
    rw [this]

/-- a spec the constructor accepts but `str` / `from_string` do not give back: rank 0 (`x[] -> y[]` has no match) -/
def rank0 : MapSpec := ⟨[⟨"x", []⟩], [⟨"y", []⟩]⟩

end PF.MS
