import PfModel.Lemmas.SweepFilteredPlain
/-! `filtered_sweep` without derivers, group level: what the de-duplication loop of the fixed code (`dedupGroup`) leaves in
the items, and how the groups of the rebuilt sweep relate to the groups of the original one. -/

namespace PF.Sweep

section Groups
variable {V : Type}

/-- a group of names that `generate` can zip: not empty, no name twice, all names dimensions, all columns of one length -/
structure GoodGroup (items : Dict (List V)) (g : List Key) : Prop where
  ne : g ≠ []
  nodup : g.Nodup
  names : ∀ k ∈ g, k ∈ keys items
  len : ∃ n, ∀ k ∈ g, (col items k).length = n

/-- the part of a group that survives `filtered_sweep(ks)`; groups without a name in `ks` vanish -/
def sel (ks : List Key) (g : List Key) : Option (List Key) :=
  if (g.filter ks.contains).isEmpty then none else some (g.filter ks.contains)

theorem sameLen_all {cs : List (List V)} {c : List V} (h : sameLen (c :: cs) = true) : ∀ c' ∈ c :: cs, c'.length = c.length := by
  simp only [sameLen, List.all_eq_true, beq_iff_eq] at h
  intro c' hc'
  rcases List.mem_cons.mp hc' with rfl | hm
  · rfl
  · exact h c' hm

theorem sameLen_of_all {C : List (List V)} {n : Nat} (h : ∀ c ∈ C, c.length = n) : sameLen C = true := by
  cases C with
  | nil => rfl
  | cons c cs =>
    simp only [sameLen, List.all_eq_true, beq_iff_eq]
    intro c' hc'
    rw [h c' (by simp [hc']), h c (by simp)]

theorem goodGroup_of_groupOK {items : Dict (List V)} {g : Group} (h : groupOK items g = true) (hn : g.keys.Nodup) :
    GoodGroup items g.keys := by
  have hnames := groupOK_names h
  simp only [groupOK, Bool.and_eq_true, Bool.not_eq_true', List.all_eq_true] at h
  obtain ⟨⟨hne, _⟩, hlen⟩ := h
  refine ⟨?_, hn, hnames, ?_⟩
  · intro e; rw [e] at hne; simp at hne
  · cases hk : g.keys with
    | nil => exact ⟨0, by simp⟩
    | cons k t =>
      rw [hk, List.map_cons] at hlen
      refine ⟨(col items k).length, ?_⟩
      intro k' hk'
      exact sameLen_all hlen (col items k') (by
        rw [← List.map_cons (f := col items)]
        exact List.mem_map_of_mem hk')

theorem flatten_singletons {α : Type} (l : List α) : (l.map (fun k => [k])).flatten = l := by
  induction l with
  | nil => rfl
  | cons a r ih => simp [ih]

/-- the groups a well-formed sweep enumerates are good and pairwise disjoint -/
theorem effGroups_good (s : Sweep V) (hwf : wf s = true) :
    (∀ g ∈ effGroups s, GoodGroup s.items g) ∧ (effGroups s).flatten.Nodup := by
  unfold effGroups
  by_cases hf : fullBranch s = true
  · simp only [hf, if_true]
    refine ⟨?_, by rw [flatten_singletons]; exact wf_items hwf⟩
    intro g hg
    obtain ⟨k, hk, rfl⟩ := List.mem_map.mp hg
    exact ⟨by simp, by simp, by simpa using hk, ⟨(col s.items k).length, by simp⟩⟩
  · simp only [hf, Bool.false_eq_true, if_false]
    cases hd : s.dims with
    | none => simp [fullBranch, hd] at hf
    | some d =>
      obtain ⟨hnd, hg⟩ := wf_dims hwf hd
      simp only [Option.getD_some]
      refine ⟨?_, by rw [← List.flatMap_def]; exact hnd⟩
      intro g hgm
      obtain ⟨gr, hgr, rfl⟩ := List.mem_map.mp hgm
      refine goodGroup_of_groupOK (hg gr hgr) ?_
      have hsub : List.Sublist gr.keys (d.flatMap Group.keys) := by
        clear hnd hg hd hgm
        induction d with
        | nil => simp at hgr
        | cons g' r ih =>
          simp only [List.flatMap_cons]
          rcases List.mem_cons.mp hgr with e | hm
          · subst e; exact List.sublist_append_left _ _
          · exact (ih hm).trans (List.sublist_append_right _ _)
      exact hnd.sublist hsub

theorem goodGroup_filter {items : Dict (List V)} {g : List Key} (h : GoodGroup items g) (ks : List Key)
    (hne : g.filter ks.contains ≠ []) : GoodGroup items (g.filter ks.contains) := by
  obtain ⟨n, hn⟩ := h.len
  exact ⟨hne, h.nodup.sublist List.filter_sublist, fun k hk => h.names k (List.mem_filter.mp hk).1,
    ⟨n, fun k hk => hn k (List.mem_filter.mp hk).1⟩⟩

theorem sel_some {ks g g' : List Key} (h : sel ks g = some g') : g' = g.filter ks.contains ∧ g' ≠ [] := by
  unfold sel at h
  split at h
  · cases h
  · next hne =>
    cases h
    refine ⟨rfl, ?_⟩
    intro e; rw [e] at hne; simp at hne

theorem sel_none {ks g : List Key} (h : sel ks g = none) : g.filter ks.contains = [] := by
  unfold sel at h
  split at h
  · next he => exact List.isEmpty_iff.mp he
  · cases h

/-- the per-group step of `filteredDims` (`sweep.py:194-203`) -/
def fdim (ks : List Key) : Group → Option Group := fun g =>
  match g with
  | .str k => if ks.contains k then some (.str k) else none
  | .tup t =>
    match t.filter (fun k => ks.contains k) with
    | [] => none
    | [k] => some (.str k)
    | l => some (.tup l)

theorem filteredDims_eq (s : Sweep V) (ks : List Key) :
    filteredDims s ks = if fullBranch s then ((keys s.items).filter (fun k => ks.contains k)).map Group.str
      else (s.dims.getD []).filterMap (fdim ks) := rfl

theorem sel_singleton (ks : List Key) (k : Key) : sel ks [k] = if ks.contains k then some [k] else none := by
  by_cases hk : k ∈ ks <;> simp [sel, List.filter_cons, hk]

theorem fdim_aux (x : List Key) :
    Option.map Group.keys (match x with | [] => none | [k] => some (Group.str k) | l => some (Group.tup l)) =
      if x.isEmpty = true then none else some x := by
  match x with
  | [] => rfl
  | [k] => rfl
  | k1 :: k2 :: l => rfl

theorem fdim_keys (ks : List Key) (g : Group) : (fdim ks g).map Group.keys = sel ks g.keys := by
  cases g with
  | str k =>
    rw [show (Group.str k).keys = [k] from rfl, sel_singleton]
    by_cases hk : k ∈ ks <;> simp [fdim, hk, Group.keys]
  | tup t =>
    have e : (fun k => ks.contains k) = ks.contains := rfl
    simp only [fdim, Group.keys, sel, e]
    exact fdim_aux _

theorem filteredDims_full_aux (ks : List Key) (l : List Key) :
    ((l.filter (fun k => ks.contains k)).map Group.str).map Group.keys = (l.map (fun k => [k])).filterMap (sel ks) := by
  induction l with
  | nil => rfl
  | cons k r ih =>
    cases hc : ks.contains k
    · simp only [List.filter_cons, hc, Bool.false_eq_true, if_false, List.map_cons, List.filterMap_cons, sel_singleton]
      exact ih
    · simp only [List.filter_cons, hc, if_true, List.map_cons, List.filterMap_cons, sel_singleton]
      rw [ih]
      rfl

/-- **The groups of the rebuilt sweep** are the surviving parts of the original groups, in the same order. -/
theorem filteredDims_keys (s : Sweep V) (ks : List Key) :
    (filteredDims s ks).map Group.keys = (effGroups s).filterMap (sel ks) := by
  rw [filteredDims_eq]
  unfold effGroups
  by_cases hf : fullBranch s = true
  · simp only [hf, if_true]
    exact filteredDims_full_aux ks _
  · simp only [hf, Bool.false_eq_true, if_false, List.map_filterMap, List.filterMap_map]
    congr 1
    funext g
    exact fdim_keys ks g

end Groups

section Dedup
variable {V : Type} [DecidableEq V]

/-- what one iteration of the de-duplication loop writes: the columns of the distinct rows of the group -/
def dedupCols (orig : Dict (List V)) (g : List Key) : Dict (List V) :=
  unzipRows g (distinctFold (zipRows (g.map (col orig))))

theorem dedupGroup_good (orig items : Dict (List V)) (gr : Group) (h : GoodGroup orig gr.keys) :
    dedupGroup orig items gr = update items (dedupCols orig gr.keys) := by
  unfold dedupGroup dedupCols
  rw [cols_ok h.names]
  obtain ⟨n, hn⟩ := h.len
  cases hk : gr.keys with
  | nil => exact absurd hk h.ne
  | cons k t =>
    have hs : sameLen ((k :: t).map (col orig)) = true :=
      sameLen_of_all (n := n) (fun c hc => by
        obtain ⟨k', hk', rfl⟩ := List.mem_map.mp hc
        exact hn k' (by rw [hk]; exact hk'))
    simp only [List.map_cons] at hs ⊢
    simp only [hs, if_true]

theorem rows_width {orig : Dict (List V)} {g : List Key} (h : GoodGroup orig g) :
    ∀ r ∈ distinctFold (zipRows (g.map (col orig))), r.length = g.length := by
  intro r hr
  rw [mem_distinctFold] at hr
  obtain ⟨n, hn⟩ := h.len
  have hne : g.map (col orig) ≠ [] := by
    intro e; exact h.ne (List.map_eq_nil_iff.mp e)
  rw [zipRows_eq_N _ n hne (fun c hc => by obtain ⟨k', hk', rfl⟩ := List.mem_map.mp hc; exact hn k' hk')] at hr
  rw [width_zipRowsN _ _ r hr, List.length_map]

theorem keys_dedupCols (orig : Dict (List V)) (g : List Key) : keys (dedupCols orig g) = g := keys_unzipRows g _

/-- the de-duplication loop, name by name -/
theorem fold_dedup_lookup (orig : Dict (List V)) (D : List Group) (hgood : ∀ gr ∈ D, GoodGroup orig gr.keys)
    (hnd : (D.flatMap Group.keys).Nodup) (items : Dict (List V)) :
    (∀ gr ∈ D, ∀ k ∈ gr.keys, lookup (D.foldl (dedupGroup orig) items) k = lookup (dedupCols orig gr.keys) k) ∧
    (∀ k, k ∉ D.flatMap Group.keys → lookup (D.foldl (dedupGroup orig) items) k = lookup items k) ∧
    ((∀ gr ∈ D, ∀ k ∈ gr.keys, k ∈ keys items) → keys (D.foldl (dedupGroup orig) items) = keys items) := by
  induction D generalizing items with
  | nil => exact ⟨by simp, by simp, by simp⟩
  | cons g0 D' ih =>
    have hg0 := hgood g0 (by simp)
    rw [List.flatMap_cons, List.nodup_append] at hnd
    obtain ⟨_, hnd', hdisj⟩ := hnd
    have hstep : dedupGroup orig items g0 = update items (dedupCols orig g0.keys) := dedupGroup_good orig items g0 hg0
    have hE : (keys (dedupCols orig g0.keys)).Nodup := by rw [keys_dedupCols]; exact hg0.nodup
    obtain ⟨a, b, c⟩ := ih (fun gr hgr => hgood gr (by simp [hgr])) hnd' (update items (dedupCols orig g0.keys))
    simp only [List.foldl_cons, hstep]
    refine ⟨?_, ?_, ?_⟩
    · intro gr hgr k hk
      rcases List.mem_cons.mp hgr with rfl | hm
      · have hnot : k ∉ D'.flatMap Group.keys := fun hm => hdisj k hk k hm rfl
        rw [b k hnot, lookup_update _ _ hE]
        obtain ⟨v, hv⟩ := lookup_of_mem (d := dedupCols orig gr.keys) (k := k) (by rw [keys_dedupCols]; exact hk)
        rw [hv]
      · exact a gr hm k hk
    · intro k hk
      simp only [List.flatMap_cons, List.mem_append, not_or] at hk
      rw [b k hk.2, lookup_update _ _ hE, lookup_eq_none_of_not_mem (by rw [keys_dedupCols]; exact hk.1)]
    · intro hsub
      have hk0 : keys (update items (dedupCols orig g0.keys)) = keys items :=
        keys_update_of_subset _ _ (fun k hk => by rw [keys_dedupCols] at hk; exact hsub g0 (by simp) k hk)
      rw [c (fun gr hgr k hk => by rw [hk0]; exact hsub gr (by simp [hgr]) k hk), hk0]

/-- the columns of a group after the loop are the columns of its distinct rows, and read back as those rows -/
theorem zipGroup_after (orig : Dict (List V)) (D : List Group) (hgood : ∀ gr ∈ D, GoodGroup orig gr.keys)
    (hnd : (D.flatMap Group.keys).Nodup) (items : Dict (List V)) (gr : Group) (hgr : gr ∈ D) :
    gr.keys.map (col (D.foldl (dedupGroup orig) items)) = vals (dedupCols orig gr.keys) ∧
    zipGroup (D.foldl (dedupGroup orig) items) gr.keys =
      (distinctFold (zipRows (gr.keys.map (col orig)))).map (fun r => gr.keys.zip r) := by
  have hg := hgood gr hgr
  obtain ⟨a, _, _⟩ := fold_dedup_lookup orig D hgood hnd items
  have hcols : gr.keys.map (col (D.foldl (dedupGroup orig) items)) = vals (dedupCols orig gr.keys) := by
    have h1 : gr.keys.map (col (D.foldl (dedupGroup orig) items)) =
        gr.keys.map (fun k => (lookup (dedupCols orig gr.keys) k).getD []) :=
      List.map_congr_left (fun k hk => by simp only [col, a gr hgr k hk])
    have hE : (keys (dedupCols orig gr.keys)).Nodup := by rw [keys_dedupCols]; exact hg.nodup
    have h2 := map_lookup_keys hE
    rw [keys_dedupCols] at h2
    rw [h1]
    have : gr.keys.map (fun k => (lookup (dedupCols orig gr.keys) k).getD []) =
        (gr.keys.map (lookup (dedupCols orig gr.keys))).map (fun o => o.getD []) := by
      rw [List.map_map]; rfl
    rw [this, h2, List.map_map]
    simp [Function.comp_def]
  refine ⟨hcols, ?_⟩
  unfold zipGroup
  rw [hcols]
  unfold dedupCols
  rw [zipRows_unzipRows gr.keys _ hg.ne (rows_width hg)]

end Dedup

end PF.Sweep
