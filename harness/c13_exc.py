"""Exception classes injected by the C13 harness.  Importable (so picklable by reference) in every worker process."""
from __future__ import annotations


class CustomError(Exception):
    """A custom picklable exception with two required constructor arguments."""

    def __init__(self, code, detail):
        super().__init__(code, detail)
        self.code = code
        self.detail = detail


class SubValueError(ValueError):
    """A subclass of a builtin: 'same type' must mean this class, not its base."""


KINDS = ["value", "noargs", "custom", "subclass"]


def make(kind: str, tag: int) -> Exception:
    if kind == "value":
        return ValueError("boom", tag)
    if kind == "noargs":
        return RuntimeError()
    if kind == "custom":
        return CustomError(tag, "detail")
    if kind == "subclass":
        return SubValueError("sub", tag)
    raise AssertionError(kind)


def clsname(e: BaseException) -> str:
    t = type(e)
    return f"{t.__module__}.{t.__qualname__}"


def model_exn(kind: str, tag: int) -> dict:
    """The same exception as the Lean driver's `Exn` JSON."""
    e = make(kind, tag)
    return {"cls": clsname(e), "args": [a if isinstance(a, int) else {"s": a} for a in e.args]}
