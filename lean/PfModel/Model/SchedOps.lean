/-
Finer granularity than task bodies: a body of the parallel map runner (`_run_iteration_and_process`, `pipefunc/map/_run.py:477-501`;
`_execute_single :785-808`) as a sequence of *storage operations* — one load per parameter (`_select_kwargs :387-401` /
`_load_arrays :817-819`, each against the storage arrays as they are at that moment), the call, one `dump` per output with
`dump_in_subprocess` (`_update_array :504-527`) — interleaved arbitrarily with the operations of the other bodies of the
generation.  An interleaving is described by what it makes observable: for every load operation the dumps performed so far
(`Views`: any list at all — a prefix of another body's dumps, dumps of several bodies mixed), and the order `W` in which all
dump operations were performed.  Quantifying over *all* views and *all* orders over-approximates every real interleaving.
Core Lean only.
-/
import PfModel.Model.SchedPart
namespace PF.SchedP
open PF PF.Map PF.Sched PF.Pieces

/-- what each load operation of a body sees of the generation's storage: `V p` are the dump operations performed (by any
    bodies, in any order) when parameter `p` is loaded -/
abbrev Views := String → Dumps

/-- `_select_kwargs` as one load operation per parameter, each against the store as it is at that moment -/
def selectArgsOps (fs : List MFunc) (shapes : List (String × List Nat)) (masks : List (String × List Bool)) (old : List (String × Slot))
    (env : Env) (gen : List MFunc) (V : Views) (f : MFunc) (ms : MSpec) (E : List Nat) : M Args :=
  f.params.mapM fun (p, orig) => do
    let whole ← argWhole fs (viewEnvP shapes masks old env gen (V p)) f p
    match ms.inputSpec p with
    | none => pure (orig, whole)
    | some a =>
      match indexVal whole (inputKey ms a E) with
      | some v => pure (orig, v)
      | none => throw (.index s!"cannot index {p}")

/-- `_func_kwargs` + `_load_arrays` of an un-mapped function, one load per parameter -/
def wholeArgsOps (fs : List MFunc) (shapes : List (String × List Nat)) (masks : List (String × List Bool)) (old : List (String × Slot))
    (env : Env) (gen : List MFunc) (V : Views) (f : MFunc) : M Args :=
  f.params.mapM fun (p, orig) => do return (orig, ← argWhole fs (viewEnvP shapes masks old env gen (V p)) f p)

/-- a task body executed operation by operation under the views `V` -/
def bodyRunOps (fs : List MFunc) (shapes : List (String × List Nat)) (masks : List (String × List Bool)) (old : List (String × Slot))
    (env : Env) (gen : List MFunc) (V : Views) (f : MFunc) : PlanP → Nat → M FutRes
  | .mapped ms sh mk _ todo, k =>
    match todo[k]? with
    | some li => (selectArgsOps fs shapes masks old env gen V f ms (shapeToKey (extOf mk sh) li)).map .called
    | none => throw .fuel
  | .single, _ =>
    match loadedOf old f with
    | some vs => pure (.loaded vs)
    | none => (wholeArgsOps fs shapes masks old env gen V f).map .called
  | .bad e, _ => throw e

def resOps (fs : List MFunc) (shapes : List (String × List Nat)) (masks : List (String × List Bool)) (old : List (String × Slot))
    (env : Env) (gen : List MFunc) (pg : List (MFunc × PlanP)) (Vs : TaskId → Views) (id : TaskId) : M FutRes :=
  match pg[id.1]? with
  | some (f, plan) => bodyRunOps fs shapes masks old env gen (Vs id) f plan id.2
  | none => throw .fuel

/-- all dump operations of the bodies `ids` (each body's in its own order) -/
def dumpOps (dumpSub : String → Bool) (fs : List MFunc) (shapes : List (String × List Nat)) (masks : List (String × List Bool))
    (old : List (String × Slot)) (env : Env) (gen : List MFunc) (pg : List (MFunc × PlanP)) (Vs : TaskId → Views) (ids : List TaskId) : Dumps :=
  ids.flatMap fun id =>
    match pg[id.1]? with
    | some (f, plan) => workerDumpsP dumpSub f plan id.2 (bodyRunOps fs shapes masks old env gen (Vs id) f plan id.2)
    | none => []

/-- **one generation at the granularity of storage operations**: the bodies `ids` (in the order their futures resolved) ran with
    their operations interleaved such that the loads saw `Vs` and the dump operations hit the storage in the order `W`; then the
    parent processes the generation -/
def runGenOps (mode : Await) (fs : List MFunc) (shapes : List (String × List Nat)) (masks : List (String × List Bool))
    (fixed : Option (List (String × Sel))) (old : List (String × Slot)) (dumpSub : String → Bool)
    (env : Env) (gen : List MFunc) (ids : List TaskId) (Vs : TaskId → Views) (W : Dumps) : M (List FuncResult) :=
  let pg := plannedP shapes masks fixed old gen
  processGenP mode dumpSub old
    { dumps := W, futs := ids.map fun id => (id, resOps fs shapes masks old env gen pg Vs id), ran := ids } 0 pg

end PF.SchedP
