import PfModel.Lemmas.SweepFiltered
import PfModel.Lemmas.SweepProductEnum
/-! Generic list lemmas for the `filtered_sweep` branch without derivers: de-duplicating a Cartesian product is the
Cartesian product of the de-duplicated factors (`distinctFold_cart`), and friends. -/

namespace PF.Sweep

section DistinctCart
variable {α : Type} [DecidableEq α]

theorem distinctFold_append (A B : List α) :
    distinctFold (A ++ B) = distinctFold A ++ (distinctFold B).filter (fun y => decide (y ∉ A)) := by
  have h1 : distinctFold (A ++ B) = B.foldl (fun acc x => if x ∈ acc then acc else acc ++ [x]) (distinctFold A) := by
    simp [distinctFold, List.foldl_append]
  rw [h1, distinct_fold_acc]
  congr 1
  apply List.filter_congr
  intro y _
  simp [mem_distinctFold]

theorem distinctFold_nil : distinctFold ([] : List α) = [] := rfl

/-- a non-empty list of copies of `a` de-duplicates to `[a]` -/
theorem distinctFold_const (l : List α) (a : α) (hne : l ≠ []) (h : ∀ x ∈ l, x = a) : distinctFold l = [a] := by
  induction l with
  | nil => exact absurd rfl hne
  | cons x r ih =>
    have hx : x = a := h x (by simp)
    subst hx
    rw [distinctFold_cons]
    congr 1
    rw [List.filter_eq_nil_iff]
    intro y hy
    have : y = x := h y (by simp [(mem_distinctFold r y).mp hy])
    simp [this]

theorem filter_flatMap_head (x : α) (Y' : List (List α)) (P : List α → Bool) (hP1 : ∀ m ∈ Y', P (x :: m) = false)
    (hP2 : ∀ y m, y ≠ x → P (y :: m) = true) (M : List α) :
    (M.flatMap (fun y => Y'.map (fun m => y :: m))).filter P =
      (M.filter (fun y => decide (y ≠ x))).flatMap (fun y => Y'.map (fun m => y :: m)) := by
  induction M with
  | nil => rfl
  | cons y M' ih =>
    rw [List.flatMap_cons, List.filter_append, ih]
    by_cases hyx : y = x
    · subst hyx
      have : (Y'.map (fun m => y :: m)).filter P = [] := by
        rw [List.filter_eq_nil_iff]
        intro z hz
        obtain ⟨m, hm, rfl⟩ := List.mem_map.mp hz
        simp [hP1 m hm]
      rw [this, List.nil_append]
      simp [List.filter_cons]
    · have : (Y'.map (fun m => y :: m)).filter P = Y'.map (fun m => y :: m) := by
        rw [List.filter_eq_self]
        intro z hz
        obtain ⟨m, _, rfl⟩ := List.mem_map.mp hz
        exact hP2 y m hyx
      rw [this]
      simp [List.filter_cons, hyx]

theorem distinctFold_flatMap_cons (l : List α) (Y : List (List α)) :
    distinctFold (l.flatMap (fun x => Y.map (fun m => x :: m))) =
      (distinctFold l).flatMap (fun x => (distinctFold Y).map (fun m => x :: m)) := by
  induction l with
  | nil => rfl
  | cons x r ih =>
    rw [List.flatMap_cons, distinctFold_append, ih, distinctFold_cons, List.flatMap_cons]
    have hm : distinctFold (Y.map (fun m => x :: m)) = (distinctFold Y).map (fun m => x :: m) :=
      distinctFold_map _ _ (fun a _ b _ e => (List.cons.inj e).2)
    rw [hm]
    congr 1
    apply filter_flatMap_head x (distinctFold Y)
    · intro m hm
      have : m ∈ Y := (mem_distinctFold Y m).mp hm
      simp only [decide_not, Bool.not_eq_eq_eq_not, Bool.not_false, decide_eq_true_eq]
      exact List.mem_map_of_mem this
    · intro y m hy
      simp only [decide_eq_true_eq, List.mem_map, not_exists, not_and]
      intro m' _ e
      exact hy (List.cons.inj e).1.symm

/-- **De-duplicating a Cartesian product = the Cartesian product of the de-duplicated factors**, in first-occurrence
    (row-major) order. -/
theorem distinctFold_cart (Ls : List (List α)) : distinctFold (cart Ls) = cart (Ls.map distinctFold) := by
  induction Ls with
  | nil => rfl
  | cons l r ih =>
    simp only [cart, List.map_cons]
    rw [distinctFold_flatMap_cons, ih]

end DistinctCart

section CartMap

theorem cart_map {α β : Type} (h : α → β) (Ls : List (List α)) :
    cart (Ls.map (List.map h)) = (cart Ls).map (List.map h) := by
  induction Ls with
  | nil => rfl
  | cons l r ih =>
    simp only [cart, List.map_cons, ih, List.flatMap_map, List.map_flatMap, List.map_map, Function.comp_def]

/-- `flatten` is injective on a Cartesian product whose factors have elements of one length each -/
theorem flatten_inj_cart {α : Type} (Ls : List (List (List α))) (hlen : ∀ L ∈ Ls, ∀ a ∈ L, ∀ b ∈ L, a.length = b.length)
    (x y : List (List α)) (hx : x ∈ cart Ls) (hy : y ∈ cart Ls) (e : x.flatten = y.flatten) : x = y := by
  induction Ls generalizing x y with
  | nil =>
    simp only [cart, List.mem_singleton] at hx hy
    rw [hx, hy]
  | cons L r ih =>
    obtain ⟨a, x', ha, hx', rfl⟩ := mem_cart_cons.mp hx
    obtain ⟨b, y', hb, hy', rfl⟩ := mem_cart_cons.mp hy
    simp only [List.flatten_cons] at e
    obtain ⟨e1, e2⟩ := List.append_inj e (hlen L (by simp) a ha b hb)
    rw [e1, ih (fun L' hL' => hlen L' (by simp [hL'])) x' y' hx' hy' e2]

end CartMap

section Units
variable {V : Type}

/-- factors `[[]]` (one empty combination) do not change a product -/
theorem prodAll_filterMap_units {α : Type} (l : List α) (F : α → List (Dict V)) (F' : α → Option (List (Dict V)))
    (h : ∀ a ∈ l, (F' a = none ∧ F a = [[]]) ∨ F' a = some (F a)) :
    prodAll (l.map F) = prodAll (l.filterMap F') := by
  induction l with
  | nil => rfl
  | cons a r ih =>
    have ih' := ih (fun b hb => h b (by simp [hb]))
    rcases h a (by simp) with ⟨h1, h2⟩ | h1
    · rw [List.map_cons, List.filterMap_cons, h1, prodAll_cons, h2, mergeProd_unit_left, ih']
    · rw [List.map_cons, List.filterMap_cons, h1, prodAll_cons, prodAll_cons, ih']

theorem factors_ne_nil_of_prodAll {Ls : List (List (Dict V))} (h : prodAll Ls ≠ []) : ∀ L ∈ Ls, L ≠ [] := by
  intro L hL e
  subst e
  exact h (prodAll_of_nil_mem Ls hL)

end Units

end PF.Sweep
