"""Opaque term values and term-building user functions (the Python mirror of lean/PfModel/Core/Val.lean).

A generated user function `f(**kw)` returns `Term("f", sorted kwargs)` — equal iff the same function was applied to the
same arguments in the same roles — and appends itself to a call log.  `enc` turns any value pipefunc hands back into the
JSON encoding of `PF.Val` (DESIGN.md Appendix C), canonicalised: call arguments sorted by parameter name; a list, tuple
or 1-D ndarray of the same elements is the same value (`{"arr": [[n], [...]]}`); `numpy.ma.masked` is `"M"`.
"""
from __future__ import annotations

import itertools
import os
import threading

import numpy as np


class Term:
    """Opaque, hashable, picklable; no __len__/__iter__, so NumPy never unpacks it."""

    __slots__ = ("f", "args")

    def __init__(self, f, args):
        self.f = f
        self.args = tuple(args)

    def __eq__(self, o):
        return isinstance(o, Term) and (self.f, self.args) == (o.f, o.args)

    def __hash__(self):
        return hash((self.f, self.args))

    def __repr__(self):
        return f"{self.f}{self.args!r}"

    def __reduce__(self):
        return (Term, (self.f, self.args))


@__import__("dataclasses").dataclass(frozen=True, repr=False)
class DBox:
    """A user VALUE of a rich type: a dataclass instance carrying one term.  To the models it is the term it carries (`freeze`, `enc` and
    `repr` look through it), so handing a function `DBox(t)` instead of `t` changes no prediction - but library code that transforms values
    on their way through serialisation (`dataclasses.asdict` turns every dataclass instance, also nested in containers, into a plain dict),
    comparison or hashing turns it into something `enc` reads differently.  Used for argument values by the properties whose statements are
    about values surviving a round trip (C13: `ErrorSnapshot.save_to_file/load_from_file`; seeded change C13-s4-B)."""

    v: object

    def __repr__(self):
        return repr(self.v)


def box_some(name, v):
    """Deterministic choice (by the argument's name: no random stream is touched): about one scalar argument in three, and the elements
    of about one array argument in three, are handed over boxed."""
    import zlib
    if zlib.crc32(str(name).encode()) % 3:
        return v
    if isinstance(v, np.ndarray) and v.dtype == object:
        out = np.empty(v.size, dtype=object)
        for i, x in enumerate(v.flat):
            out[i] = DBox(x) if isinstance(x, Term) else x
        return out.reshape(v.shape)
    return DBox(v) if isinstance(v, Term) else v


# ------------------------------------------------------------------------------------------------ interpreted functions
# Most generated user functions are uninterpreted (they return a free `Term`).  A function whose NAME ends in one of the
# suffixes below is interpreted as the constant function returning that (falsy) value: `None`, `0`, `False`, `""` — the values
# on which `if not value` / `value is None` / `dict.get(k)` short-cuts in library code go wrong.  The Lean models never look
# inside values (they only build terms and compare positions), so the model's answer under the interpretation is the
# homomorphic image of its free-term answer: `canon` maps every `app f …` (and `pick`/`proj` of it) of such an `f` to the constant.
# Models that compare VALUES (cache keys: C09, C18) only use interpreted functions at sinks (see pipegen/mapgen `_const_policy`).
CONST_SUFFIX = {"_none": None, "_zero": 0, "_false": False, "_empty": ""}


# A function whose name ends in one of these returns, for every output, a SEQUENCE of two projections of its free term (a tuple, a
# list, a 1-D object ndarray): element values that are themselves sequences are where `np.array(items)` / `np.asarray(outputs)` merge an
# axis into the data.  Same argument as above: `canon` maps `app f …` (or a `pick` of it) to `arr [2] [proj · [0], proj · [1]]`, and `enc`
# already reads tuples, lists and 1-D arrays as the same value.
SEQ_SUFFIX = {"_pair": "tuple", "_lst": "list", "_nd": "ndarray"}


def seq_of(name):
    if isinstance(name, str):
        for suf, k in SEQ_SUFFIX.items():
            if name.endswith(suf):
                return k
    return None


def _seq_call(j):
    """True when a model value JSON is a call (or a pick of a call) of a sequence-valued interpreted function"""
    while isinstance(j, dict):
        if "f" in j and "k" in j:
            return seq_of(j["f"]) is not None
        if "pick" in j:
            j = j["pick"][0]
        else:
            break
    return False


def const_of(name):
    """(True, constant) when `name` denotes an interpreted constant function, else (False, None)."""
    if isinstance(name, str):
        for suf, c in CONST_SUFFIX.items():
            if name.endswith(suf):
                return True, c
    return False, None


def _const_call(j):
    """the constant a model value JSON denotes when it is a call (or a pick / proj of a call) of an interpreted function"""
    while isinstance(j, dict):
        if "f" in j and "k" in j:
            return const_of(j["f"])
        if "pick" in j:
            j = j["pick"][0]
        elif "proj" in j:
            j = j["proj"][0]
        else:
            break
    return False, None


def kind_of(v):
    """The CONTAINER KIND of a value as a function receives it: "tuple" / "list" / "nd<rank>" / "masked" / "-" (anything that is not a
    sequence).  `freeze` / `enc` deliberately read a tuple, a list and a 1-D ndarray of the same elements as the same value; this is the
    part of the value they drop.  A function called with `kinds=True` (see `make_func`) logs it per argument, so a harness can check that
    an argument that the denotation says IS an element (`x[i]` of a list of tuples) arrives as that element and not as a converted copy
    (seeded change C01-s5-A: mapped lists converted with `np.asarray(v, dtype=object)` turn equal-length tuples into ndarray rows)."""
    if isinstance(v, DBox):
        return kind_of(v.v)
    if v is np.ma.masked:
        return "masked"
    if isinstance(v, np.ndarray):
        return f"nd{v.ndim}"
    if isinstance(v, tuple):
        return "tuple"
    if isinstance(v, list):
        return "list"
    return "-"


def freeze(v):
    """A hashable stand-in for any value a function may receive."""
    if isinstance(v, DBox):
        return freeze(v.v)
    if getattr(v, "_pf_term", None) is not None:       # an instance of a `make_dataclass` callable: the term of its construction
        return v._pf_term
    if v is np.ma.masked:
        return Term("$masked", ())
    if isinstance(v, np.ma.MaskedArray):
        mask = np.ma.getmaskarray(v)
        return Term("$arr", (tuple(v.shape), tuple(Term("$masked", ()) if m else freeze(x) for x, m in zip(v.data.flat, mask.flat))))
    if isinstance(v, np.ndarray):
        return Term("$arr", (tuple(v.shape), tuple(freeze(x) for x in v.flat)))
    if isinstance(v, (list, tuple)):
        return Term("$arr", ((len(v),), tuple(freeze(x) for x in v)))
    if isinstance(v, dict):
        return Term("$dict", tuple(sorted((k, freeze(x)) for k, x in v.items())))
    if isinstance(v, (np.integer,)):
        return int(v)
    return v


def enc(v):
    """JSON encoding of a value (see module docstring)."""
    if isinstance(v, DBox):
        return enc(v.v)
    if getattr(v, "_pf_term", None) is not None:
        return enc(v._pf_term)
    if v is np.ma.masked:
        return "M"
    if isinstance(v, Term):
        if v.f == "$masked":
            return "M"
        if v.f == "$arr":
            return {"arr": [list(v.args[0]), [enc(x) for x in v.args[1]]]}
        if v.f == "$dict":
            return {"dict": [[k, enc(x)] for k, x in v.args]}
        if v.f == "pick":
            return {"pick": [enc(v.args[0]), v.args[1]]}
        if v.f == "proj":
            return {"proj": [enc(v.args[0]), list(v.args[1])]}
        return {"f": v.f, "k": [[k, enc(x)] for k, x in sorted(v.args, key=lambda kv: kv[0])]}
    if isinstance(v, np.ma.MaskedArray):
        mask = np.ma.getmaskarray(v)
        return {"arr": [list(v.shape), ["M" if m else enc(x) for x, m in zip(v.data.flat, mask.flat)]]}
    if isinstance(v, np.ndarray):
        return {"arr": [list(v.shape), [enc(x) for x in v.flat]]}
    if isinstance(v, (list, tuple)):
        return {"arr": [[len(v)], [enc(x) for x in v]]}
    if v is None:
        return None
    if isinstance(v, (bool, np.bool_)):
        return {"s": "$True" if v else "$False"}      # PF.Val has no booleans: a reserved string (see `dec`)
    if isinstance(v, (int, np.integer)):
        return int(v)
    if isinstance(v, str):
        return {"s": v}
    if isinstance(v, dict):
        return {"dict": [[str(k), enc(x)] for k, x in sorted(v.items(), key=lambda kv: str(kv[0]))]}
    return {"opaque": type(v).__name__}


def canon(j):
    """Normalise a value JSON coming from the Lean driver to the same canonical form `enc` produces."""
    if isinstance(j, dict):
        is_c, c = _const_call(j)
        if is_c:
            return enc(c)
        if _seq_call(j):
            base = _canon_plain(j)
            return {"arr": [[2], [{"proj": [base, [0]]}, {"proj": [base, [1]]}]]}
        if "f" in j:
            return {"f": j["f"], "k": sorted(([k, canon(x)] for k, x in j["k"]), key=lambda kv: kv[0])}
        if "t" in j:
            return {"arr": [[len(j["t"])], [canon(x) for x in j["t"]]]}
        if "arr" in j:
            return {"arr": [j["arr"][0], [canon(x) for x in j["arr"][1]]]}
        if "pick" in j:
            return {"pick": [canon(j["pick"][0]), j["pick"][1]]}
        if "proj" in j:
            # idempotent on already-canonical values: the base of a projection of a sequence call stays the plain call
            b = j["proj"][0]
            return {"proj": [_canon_plain(b) if _seq_call(b) else canon(b), j["proj"][1]]}
        return j
    return j


def _canon_plain(j):
    """`canon` of a call / pick of a call WITHOUT the sequence interpretation at the top (its arguments are canonicalised as usual)"""
    if "f" in j:
        return {"f": j["f"], "k": sorted(([k, canon(x)] for k, x in j["k"]), key=lambda kv: kv[0])}
    return {"pick": [_canon_plain(j["pick"][0]), j["pick"][1]]}


def dec(j):
    """JSON value → Python object handed to pipefunc (arrays become object ndarrays; calls become Terms)."""
    if j is None:
        return None
    if j == "M":
        return np.ma.masked
    if isinstance(j, int):
        return j
    if isinstance(j, dict):
        if "s" in j:
            return {"$True": True, "$False": False}.get(j["s"], j["s"])
        if "b" in j:
            return j["b"]
        if "f" in j:
            return Term(j["f"], sorted((k, freeze(dec(x))) for k, x in j["k"]))
        if "arr" in j:
            shape, elems = j["arr"]
            a = np.empty(len(elems), dtype=object)
            for i, e in enumerate(elems):
                a[i] = dec(e)
            return a.reshape(shape)
        if "list" in j:
            return [dec(x) for x in j["list"]]
        if "pick" in j:
            return Term("pick", (freeze(dec(j["pick"][0])), j["pick"][1]))
        if "proj" in j:
            return Term("proj", (freeze(dec(j["proj"][0])), tuple(j["proj"][1])))
    raise ValueError(f"cannot decode {j!r}")


# ------------------------------------------------------------------------------------------------ call log
class CallLog:
    """Append-only log of user-function invocations.  In-process list, plus (optionally) a file that child
    processes append to with O_APPEND single writes, so that the log survives process pools and crashes."""

    def __init__(self, path: str | None = None):
        self.path = path
        self.calls: list = []
        self.lock = threading.Lock()

    def __getstate__(self):
        # picklable for process pools: the lock is per process; a file-backed log is shared through the file
        return {"path": self.path, "calls": [] if self.path else list(self.calls)}

    def __setstate__(self, st):
        self.path, self.calls, self.lock = st["path"], st["calls"], threading.Lock()

    def add(self, name, kw_enc, phase="call"):
        rec = (name, kw_enc, phase, os.getpid())
        with self.lock:
            self.calls.append(rec)
        if self.path:
            import json
            line = (json.dumps([name, kw_enc, phase, os.getpid()], sort_keys=True) + "\n").encode()
            fd = os.open(self.path, os.O_WRONLY | os.O_APPEND | os.O_CREAT, 0o644)
            try:
                os.write(fd, line)
            finally:
                os.close(fd)

    def clear(self):
        with self.lock:
            self.calls.clear()
        if self.path and os.path.exists(self.path):
            os.unlink(self.path)

    def read(self):
        if self.path:
            import json
            if not os.path.exists(self.path):
                return []
            with open(self.path) as f:
                return [tuple(json.loads(l)) for l in f if l.strip()]
        with self.lock:
            return list(self.calls)

    def names(self):
        return [c[0] for c in self.read() if c[2] == "call"]


LOG = CallLog()


class Fail(Exception):
    """Default exception raised by a generated function told to fail."""


def make_func(name, params, outputs, defaults=None, internal_shape=None, log=None, fail=None, delay=None, kinds=False):
    """A real Python function `name(p1, p2=default, ...)` returning a term.

    params: the function's own parameter names; outputs: list of output names (len > 1 → returns a tuple of picks);
    defaults: {param: value}; internal_shape: tuple → each output is an object ndarray of `proj` terms;
    fail: callable(kwargs_enc, call_index) → exception to raise or None; delay: callable(kwargs_enc) → seconds.
    kinds: also log, per call, a record `(name, [kwargs_enc, [[param, kind_of(value)]]], "kinds", pid)` (off by default: the logs of the
    other harnesses hold "call" / "done" records only).
    """
    defaults = defaults or {}
    log = log if log is not None else LOG
    counter = itertools.count()

    is_const, const = const_of(name)
    seq_kind = seq_of(name) if internal_shape is None else None

    def _impl(kw):
        kw_frozen = sorted((k, freeze(v)) for k, v in kw.items())
        t = Term(name, kw_frozen)
        kw_enc = [[k, enc(v)] for k, v in kw_frozen]
        idx = next(counter)
        log.add(name, kw_enc, "call")
        if kinds:
            log.add(name, [kw_enc, [[k, kind_of(v)] for k, v in sorted(kw.items())]], "kinds")
        if delay is not None:
            import time
            d = delay(kw_enc)
            if d:
                time.sleep(d)
        if fail is not None:
            exc = fail(kw_enc, idx)
            if exc is not None:
                raise exc

        def shaped(base):
            if seq_kind is not None:
                pair = [Term("proj", (base, (0,))), Term("proj", (base, (1,)))]
                if seq_kind == "ndarray":
                    a = np.empty(2, dtype=object)
                    a[0], a[1] = pair
                    return a
                return tuple(pair) if seq_kind == "tuple" else pair
            if internal_shape is None:
                return const if is_const else base
            arr = np.empty(internal_shape, dtype=object)
            for ix in itertools.product(*map(range, internal_shape)):
                arr[ix] = const if is_const else Term("proj", (base, tuple(ix)))
            return arr

        if len(outputs) == 1:
            r = shaped(t)
        else:
            r = tuple(shaped(Term("pick", (t, o))) for o in outputs)
        log.add(name, kw_enc, "done")
        return r

    ns = {"_impl": _impl, "_defaults": defaults}
    sig = ", ".join(f"{p}=_defaults[{p!r}]" if p in defaults else p for p in params)
    src = f"def {name}({sig}):\n    return _impl(dict({', '.join(f'{p}={p}' for p in params)}))\n"
    exec(src, ns)  # noqa: S102
    fn = ns[name]
    fn.__module__ = "__main__"
    return fn


def make_dataclass(name, params, defaults=None, log=None):
    """A DATACLASS `name(p1, p2=default, ...)` used AS the user function (pipefunc accepts dataclasses and pydantic models as callables and
    reads parameters and defaults from the FIELDS: `PipeFunc.defaults` has a branch of its own for them).  The instance is the value of
    the output; `__post_init__` is the user code (it logs the call like `make_func`); `freeze` / `enc` read an instance as the term
    `name(**fields)`, i.e. exactly what the plain function of the same name would have returned.  Fields are keyword-only (no ordering
    constraint between defaulted and required ones); a default that `dataclasses` refuses as mutable goes through `default_factory`."""
    import dataclasses
    defaults = defaults or {}
    log = log if log is not None else LOG

    def __post_init__(self):
        kw_frozen = sorted((p, freeze(getattr(self, p))) for p in params)
        kw_enc = [[k, enc(v)] for k, v in kw_frozen]
        log.add(name, kw_enc, "call")
        self._pf_term = Term(name, kw_frozen)
        log.add(name, kw_enc, "done")

    fields = []
    for p in params:
        if p not in defaults:
            fields.append((p, object))
        elif getattr(type(defaults[p]), "__hash__", None) is None:
            fields.append((p, object, dataclasses.field(default_factory=lambda v=defaults[p]: v)))
        else:
            fields.append((p, object, dataclasses.field(default=defaults[p])))
    cls = dataclasses.make_dataclass(name, fields, kw_only=True, eq=False, namespace={"__post_init__": __post_init__})
    cls.__module__ = "__main__"
    return cls
