import PfModel.Lemmas.MapOrder
/-!
C01, clause "a valid request is never refused".  `Conforms` (defined in `Lemmas/MapTotal.lean`) is the executable description
of a valid map request; `C01_never_refused` shows that the model of `Pipeline.map` answers every such request.
-/
namespace PF.C01
open PF PF.Map

/-- **A valid request is never refused.**  For every function list, inputs and internal shapes — no size bound — if the
    request conforms, the model of `Pipeline.map` returns a result (by `C01_map_eq_denotation` that result is the
    denotation). -/
theorem C01_never_refused (fs : List MFunc) (inputs : List (String × Val)) (ui : List (String × List Nat))
    (h : Conforms fs inputs ui = true) : ∃ r, runMap fs inputs ui = .ok r :=
  never_refused_with opArray fs inputs ui h

/-- the specification is defined on the same requests -/
theorem C01_never_refused_spec (fs : List MFunc) (inputs : List (String × Val)) (ui : List (String × List Nat))
    (h : Conforms fs inputs ui = true) : ∃ r, specMap fs inputs ui = .ok r :=
  never_refused_with denoteArray fs inputs ui h

/-! ### non-vacuity: two conforming requests, and every single fault is caught -/

section Examples

private def ints (n : Nat) : List Val := (List.range n).map fun i => .int (Int.ofNat i)
private def mf (name : String) (params outputs : List String) (ms : Option MSpec) (ret internal : Option (List Nat) := none) : MFunc :=
  { name := name, params := params.map fun p => (p, p), outputs := outputs, mapspec := ms, ret := ret, internal := internal,
    defaults := [], bound := [] }

/-- `x[i], u[i], w[j] -> y[j, k, i]` (zip over `i`, outer product with `j`, internal axis `k` in the middle) -/
private def fY (internal : Option (List Nat)) : MFunc :=
  mf "f" ["x", "u", "w"] ["y"]
    (some ⟨[⟨"x", [some "i"]⟩, ⟨"u", [some "i"]⟩, ⟨"w", [some "j"]⟩], [⟨"y", [some "j", some "k", some "i"]⟩]⟩) (some [2]) internal
/-- `y[j, :, :] -> z[j]` (a `:` reduction) -/
private def fZ : MFunc := mf "g" ["y"] ["z"] (some ⟨[⟨"y", [some "j", none, none]⟩], [⟨"z", [some "j"]⟩]⟩)
/-- `z -> s` (a full reduction) -/
private def fS : MFunc := mf "h" ["z"] ["s"] none

private def p1 : List MFunc := [fS, fY (some [2]), fZ]
private def in1 : List (String × Val) := [("x", .arr [3] (ints 3)), ("u", .arr [3] (ints 3)), ("w", .arr [2] (ints 2))]

/-- `c -> v[j]` (a generator: `... -> v[j]`) -/
private def fV : MFunc := mf "gen" ["c"] ["v"] (some ⟨[], [⟨"v", [some "j"]⟩]⟩) (some [2]) none
/-- `v[j], x[i] -> a[j, i], b[j, i]` (a tuple output) -/
private def fAB : MFunc :=
  mf "t" ["v", "x"] ["a", "b"] (some ⟨[⟨"v", [some "j"]⟩, ⟨"x", [some "i"]⟩], [⟨"a", [some "j", some "i"]⟩, ⟨"b", [some "j", some "i"]⟩]⟩)
private def p2 : List MFunc := [fAB, fV]
private def in2 : List (String × Val) := [("c", .int 7), ("x", .arr [3] (ints 3))]

example : Conforms p1 in1 [] = true := by decide
example : Conforms p2 in2 [("v", [2])] = true := by decide
/-- the declared table of the first request: `y` has shape `[2, 2, 3]` with the internal axis in the middle -/
example : declTbl p1 in1 [] =
    [("x", ([3], [true])), ("u", ([3], [true])), ("w", ([2], [true])), ("y", ([2, 2, 3], [true, false, true])), ("z", ([2], [true]))] := by
  decide
/-- and the theorem applies: the run succeeds -/
example : ∃ r, runMap p1 in1 [] = .ok r := C01_never_refused p1 in1 [] (by decide)
example : ∃ r, runMap p2 in2 [("v", [2])] = .ok r := C01_never_refused p2 in2 [("v", [2])] (by decide)

/-- missing input -/
example : Conforms p1 [("x", .arr [3] (ints 3)), ("u", .arr [3] (ints 3))] [] = false := by decide
/-- surplus input -/
example : Conforms p1 (in1 ++ [("q", .int 0)]) [] = false := by decide
/-- rank mismatch: `x[i]` given a 2-d array -/
example : Conforms p1 [("x", .arr [3, 1] (ints 3)), ("u", .arr [3] (ints 3)), ("w", .arr [2] (ints 2))] [] = false := by decide
/-- zipped-size mismatch: `x[i]` and `u[i]` of different lengths -/
example : Conforms p1 [("x", .arr [3] (ints 3)), ("u", .arr [2] (ints 2)), ("w", .arr [2] (ints 2))] [] = false := by decide
/-- missing internal shape -/
example : Conforms [fS, fY none, fZ] in1 [] = false := by decide
example : Conforms p2 in2 [] = false := by decide
/-- … which the user's `internal_shapes` repairs -/
example : Conforms [fS, fY none, fZ] in1 [("y", [2])] = true := by decide
/-- a cycle -/
example : Conforms [mf "h" ["z", "t"] ["s"] none, mf "q" ["s"] ["t"] none, fY (some [2]), fZ] in1 [] = false := by decide
/-- a generator that returns arrays of another shape than declared -/
example : Conforms [fAB, mf "gen" ["c"] ["v"] (some ⟨[], [⟨"v", [some "j"]⟩]⟩) (some [3]) none] in2 [("v", [2])] = false := by decide
/-- a producer without a (generated) MapSpec consumed through a MapSpec has no declared shape -/
example : Conforms [fAB, mf "gen" ["c"] ["v"] none (some [2]) none] in2 [] = false := by decide
/-- each refusal is real: the model refuses these requests -/
example : (runMap p1 [("x", .arr [3] (ints 3)), ("u", .arr [2] (ints 2)), ("w", .arr [2] (ints 2))] []).toOption.isNone = true := by decide

/-- **Dependencies first.**  Whenever `runMap` answers: (1) its call list consists of consecutive blocks, one per generation
    (`Blocks`): every call of a function of generation `g+1` comes after all calls of generation `g`; (2) the generations are
    a layering of the dependency graph (`Ordered`): every producer of a non-bound parameter of a function lies in a strictly
    earlier generation.  No hypothesis on the request. -/
theorem C01_generation_order (fs : List MFunc) (inputs : List (String × Val)) (ui : List (String × List Nat)) (r : MapResult)
    (h : runMap fs inputs ui = .ok r) : Blocks r.gens r.calls ∧ Ordered fs [] (generations fs) := by
  refine ⟨?_, layers_ordered fs _ [] fs⟩
  unfold runMap runMapWith at h
  simp only [bind, Except.bind] at h
  split at h
  · cases h
  · split at h
    · cases h
    · split at h
      · cases h
      · split at h
        · cases h
        · next res hres =>
          simp only [pure, Except.pure] at h
          cases h
          exact runGens_blocks _ (fun env f r hr => runFunc_calls opArray fs _ _ env f r hr) _ _ res hres

/-- non-vacuity of `C01_generation_order`, and what `Blocks`/`Ordered` say on the first example: generations `[f], [g], [h]` -/
example : (runMap p1 in1 []).toOption.map (·.gens) = some [["f"], ["g"], ["h"]] := by decide
example : (runMap p1 in1 []).toOption.map (fun r => r.calls.map (·.name)) = some ["f", "f", "f", "f", "f", "f", "g", "g", "h"] := by decide

end Examples

end PF.C01
