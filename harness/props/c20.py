"""C20 — Resource specifications combine monotonically and without side effects.

Correspondence: `pipefunc.resources.Resources` (constructor, combine_max, with_defaults, update, dict/from_dict,
to_slurm_options) against `PF.Res` (lean/PfModel/Model/Resources.lean) on generated operations; plus the property's own
predicates evaluated directly on the implementation's answers (exact decimal sizes, durations in seconds).
"""
from __future__ import annotations

import copy
import re
from fractions import Fraction

import pfimport  # noqa: F401
from pfimport import exc_enum
from pipefunc.resources import Resources

import c20_heap
import c20_pipe

PID = "C20"
PROPS = ["PfModel.Props.C20", "PfModel.Props.C20Src", "PfModel.Props.C20Heap", "PfModel.Props.C20HeapSrc", "PfModel.Props.C20Slurm", "PfModel.Props.C20Pipe", "PfModel.Props.C20User"]
GENERATED = True          # Props/C20Src.lean and Props/C20HeapSrc.lean are proved against lean/PfModel/Generated/C20*Facts.lean, regenerated from /repo on every run
DRIVER = "C20"
RULE = ("operations drawn from one seeded PRNG over Resources built from small integers (incl. 0 and negatives), memory strings "
        "across B..PB with fractions and malformed variants, wall-time strings across MM:SS / H:MM:SS / HH:MM:SS / D:HH:MM:SS with "
        "varying digit counts and malformed variants, partitions and integer extra_args; a case is non-trivial when at least one "
        "operand sets a quantity the operation reads; distinct by the operation's JSON. Heap cases (harness/c20_heap.py): 1-3 dict "
        "objects (30% empty), 1-4 instances holding them BY REFERENCE (shared whenever indices collide), one combinator call on "
        "indices (repeats allowed), then one in-place write into the result's or an operand's dict; observed by `is` and by content. "
        "Pipeline cases (harness/c20_pipe.py): NestedPipeFunc over a chain of 2-4 PipeFuncs and Pipeline(default_resources=...) over 1-3 "
        "functions, resources given as None / instance / dict / callable (returning an instance or a dict)")
ASSUMPTIONS = ["memory sizes are exact rationals in the model and floats in the code: operand pairs closer than 1e-9 relative (but not "
               "identical strings) are skipped and counted", "ASCII strings only", "extra_args values are integers"]

UNITS = {"B": Fraction(1, 10**9), "KB": Fraction(1, 10**6), "MB": Fraction(1, 1000), "GB": Fraction(1), "TB": Fraction(1000), "PB": Fraction(10**6)}
FIELDS = ["cpus", "cpus_per_node", "nodes", "memory", "gpus", "time", "partition"]


def mem(s):
    m = re.match(r"^(\d+(?:\.\d+)?)([KMGTP]?B)$", s.upper())
    return Fraction(m.group(1)) * UNITS[m.group(2)] if m else None


def dur(s):
    if not re.match(r"^(\d+:)?(\d{2}:)?\d{2}:\d{2}$", s):
        return None
    parts = [int(x) for x in s.strip().split(":")]
    return sum(v * w for v, w in zip(reversed(parts), [1, 60, 3600, 86400]))


# ------------------------------------------------------------------------------------------------ generators
def gen_memory(rng, malformed=0.12):
    if rng.random() < malformed:
        return rng.choice(["", "GB", "1.GB", ".5GB", "1,5GB", "1 GB", "1G", "1GiB", "-1GB", "1.5.2MB", "1e3MB", "12", "1KBB", "1gb\n", "1GB ", "0x1GB", "1.0"])
    unit = rng.choice(["B", "KB", "MB", "GB", "TB", "PB"])
    if rng.random() < 0.5:
        unit = unit.lower() if rng.random() < 0.5 else unit.capitalize()
    whole = rng.choice(["0", "1", "2", "3", "10", "500", "999", "1000", "1024", "2048", "999999", "1000000", "007"])
    if rng.random() < 0.35:
        whole += "." + rng.choice(["0", "5", "25", "001", "999", "50"])
    return whole + unit


def gen_time(rng, malformed=0.12):
    if rng.random() < malformed:
        return rng.choice(["", "5", "1:0:00", "1:00:0", "0:0", "1:2:00:00", "1:00:00:00:00", "00:00:", ":00:00", "a0:00", "00.00", "1-00:00:00", "00:00\n", " 00:10", "1::00:00", "100", "1:00"])
    d2 = lambda: rng.choice(["00", "01", "10", "30", "59", "60", "99"])  # noqa: E731
    form = rng.randrange(4)
    if form == 0:
        return f"{d2()}:{d2()}"
    if form == 1:
        return f"{rng.choice(['0', '1', '2', '9', '10', '23', '24', '48', '100', '02'])}:{d2()}:{d2()}"
    if form == 2:
        return f"{d2()}:{d2()}:{d2()}"
    return f"{rng.choice(['0', '1', '2', '10', '365'])}:{d2()}:{d2()}:{d2()}"


def gen_kwargs(rng, valid_bias=0.85):
    kw = {}
    lo = 1 if rng.random() < valid_bias else -1
    r = rng.random()
    if r < 0.45:
        kw["cpus"] = rng.randint(lo, 4)
    elif r < 0.70:
        kw["nodes"] = rng.randint(lo, 3)
        if rng.random() < 0.8:
            kw["cpus_per_node"] = rng.randint(lo, 3)
    elif r < 0.76:
        kw["cpus_per_node"] = rng.randint(1, 2)                    # without nodes: rejected
    elif r < 0.80:
        kw["cpus"] = rng.randint(1, 2); kw["nodes"] = rng.randint(1, 2)   # exclusive: rejected
        if rng.random() < 0.5:
            kw["cpus_per_node"] = rng.randint(1, 2)                   # all three at once: still exclusive (seeded C20-s5-A regrouped the checks)
    if rng.random() < 0.5:
        kw["gpus"] = rng.randint(0 if rng.random() < valid_bias else -1, 3)
    if rng.random() < 0.6:
        kw["memory"] = gen_memory(rng, 1 - valid_bias)
    if rng.random() < 0.6:
        kw["time"] = gen_time(rng, 1 - valid_bias)
    if rng.random() < 0.3:
        kw["partition"] = rng.choice(["a", "b", ""])
    if rng.random() < 0.4:
        kw["extra_args"] = {k: rng.randint(0, 2) for k in rng.sample(["x", "y", "z", "qos", "mem", "time", "gres", "nodes", "cpus-per-task", "partition"], rng.randint(1, 3))}   # incl. keys that ARE the option names of quantities (seeded C20-s4-B)
    if rng.random() < 0.1:
        kw["parallelization_mode"] = "internal"
    return kw


def gen_valid(rng):
    for _ in range(50):
        kw = gen_kwargs(rng, 1.0)
        if (kw.get("nodes") and kw.get("cpus")) or (kw.get("cpus_per_node") and not kw.get("nodes")):
            continue          # exclusive by the property's own rule: never an operand, whatever the constructor under test says
        try:
            Resources(**kw)
            return kw
        except ValueError:
            continue
    return {"cpus": 1}


def to_json(kw):
    j = {k: v for k, v in kw.items() if k != "extra_args"}
    if "extra_args" in kw:
        j["extra_args"] = [[k, v] for k, v in kw["extra_args"].items()]
    return j


def obs(r: Resources):
    return {"cpus": r.cpus, "cpus_per_node": r.cpus_per_node, "nodes": r.nodes, "memory": r.memory, "gpus": r.gpus, "time": r.time,
            "partition": r.partition, "extra_args": [[k, v] for k, v in r.extra_args.items()], "parallelization_mode": r.parallelization_mode}


def attempt(fn):
    try:
        return {"ok": obs(fn())}
    except ValueError as e:
        return {"err": exc_enum(e)}
    except Exception as e:  # noqa: BLE001
        return {"err": exc_enum(e)}


def near_tie(ops):
    ms = [(o["memory"], mem(o["memory"])) for o in ops if o.get("memory")]
    for i, (s1, a) in enumerate(ms):
        for s2, b in ms[i + 1:]:
            if s1 != s2 and a is not None and b is not None and abs(a - b) <= Fraction(1, 10**9) * max(a, b):
                return True
    return False


def combine_clauses(before, r):
    """combine_max returns a specification at least as large as every operand in each quantity"""
    bad = []
    for o in before:
        if o["cpus"] is not None and not (r["cpus"] is not None and r["cpus"] >= o["cpus"]):
            bad.append(f"combine_max cpus {r['cpus']} < operand {o['cpus']}")
        if o["gpus"] is not None and not (r["gpus"] is not None and r["gpus"] >= o["gpus"]):
            bad.append(f"combine_max gpus {r['gpus']} < operand {o['gpus']}")
        if o["memory"] is not None and not (r["memory"] is not None and mem(r["memory"]) is not None
                                           and mem(r["memory"]) >= mem(o["memory"]) * (1 - Fraction(1, 10**9))):
            bad.append(f"combine_max memory {r['memory']} smaller than operand {o['memory']}")
        if o["time"] is not None and not (r["time"] is not None and dur(r["time"]) is not None and dur(r["time"]) >= dur(o["time"])):
            bad.append(f"combine_max time {r['time']} shorter than operand {o['time']}")
    return bad


def defaults_clauses(sv, dv, r):
    """with_defaults keeps every quantity set on the receiver and fills only unset ones"""
    bad = []
    for f in FIELDS:
        want = sv[f] if sv[f] is not None else (dv[f] if dv else None)
        if r[f] != want:
            bad.append(f"with_defaults {f}: {r[f]!r} instead of {want!r}")
    return bad


def heap_value_clauses(a, o):
    """the value clauses of the property on a heap case (the identity clauses are evaluated in c20_heap.run_heap)"""
    op, res = a["op"], o.get("res")
    if not isinstance(res, dict) or "new" not in res:
        if op["k"] == "combine_max" and isinstance(res, dict) and "err" in res:
            return ["combine_max raised on valid operands"]
        return []
    r, views = res["new"], [x["view"] for x in o["objs"]]
    if op["k"] == "combine_max":
        return combine_clauses([views[i] for i in op["l"]], r)
    if op["k"] == "with_defaults" or (op["k"] == "maybe_with_defaults" and op.get("r") is not None and op.get("default") is not None):
        return defaults_clauses(views[op["self"] if op["k"] == "with_defaults" else op["r"]], views[op["default"]], r)
    if op["k"] == "dict_roundtrip" and r != views[op["self"]]:
        return ["from_dict(r.dict()) != r"]
    return []


# ------------------------------------------------------------------------------------------------ one case
def make_case(rng):
    kind = rng.choices(["make", "combine_max", "with_defaults", "update", "dict_roundtrip", "slurm", "mem", "time", "heap", "nested", "pipeline_add"],
                       [3, 5, 3, 3, 1, 2, 2, 2, 9, 1, 1])[0]
    if kind == "nested":
        return c20_pipe.gen_nested_case(rng, gen_valid, to_json, gen_kwargs)
    if kind == "pipeline_add":
        return c20_pipe.gen_pipeline_case(rng, gen_valid, to_json)
    if kind == "heap":
        return c20_heap.gen_heap_case(rng, gen_valid, to_json, gen_memory, gen_time)
    if kind == "make":
        return {"m": "make", "a": to_json(gen_kwargs(rng, 0.7))}
    if kind == "mem":
        return {"m": "mem", "a": gen_memory(rng, 0.4)}
    if kind == "time":
        return {"m": "time", "a": gen_time(rng, 0.4)}
    if kind == "combine_max":
        return {"m": "combine_max", "a": [to_json(gen_valid(rng)) for _ in range(rng.randint(1, 4))]}
    if kind == "with_defaults":
        a = {"self": to_json(gen_valid(rng))}
        if rng.random() < 0.9:
            a["default"] = to_json(gen_valid(rng))
        return {"m": "with_defaults", "a": a}
    if kind == "update":
        kw = []
        for _ in range(rng.randint(1, 3)):
            k = rng.choice(["cpus", "nodes", "cpus_per_node", "gpus", "memory", "time", "partition", "extra_args", "foo", "bar", "x"])
            if k in ("cpus", "nodes", "cpus_per_node", "gpus"):
                v = None if rng.random() < 0.3 else rng.randint(0, 3)
            elif k == "memory":
                v = None if rng.random() < 0.2 else gen_memory(rng)
            elif k == "time":
                v = None if rng.random() < 0.2 else gen_time(rng)
            elif k == "partition":
                v = None if rng.random() < 0.2 else rng.choice(["p", "q"])
            elif k == "extra_args":
                v = [[kk, rng.randint(0, 3)] for kk in rng.sample(["x", "y", "w"], rng.randint(0, 2))]
            else:
                v = rng.randint(0, 5)
            if k not in [p[0] for p in kw]:
                kw.append([k, v])
        return {"m": "update", "a": {"self": to_json(gen_valid(rng)), "kw": kw}}
    if kind == "dict_roundtrip":
        return {"m": "dict_roundtrip", "a": to_json(gen_valid(rng))}
    return {"m": "slurm", "a": to_json(gen_valid(rng))}


def from_json(j):
    kw = dict(j)
    if "extra_args" in kw:
        kw["extra_args"] = dict(kw["extra_args"])
    return kw


def run_impl(case):
    """Returns (observation comparable with the model, list of property clauses that fail on the implementation)."""
    m, a = case["m"], case["a"]
    bad = []
    if m == "heap":
        o, bad = c20_heap.run_heap(a, from_json)
        return o, bad + heap_value_clauses(a, o)
    if m == "nested":
        return c20_pipe.run_nested(a, from_json, obs, combine_clauses)
    if m == "pipeline_add":
        return c20_pipe.run_pipeline(a, from_json, obs, defaults_clauses)
    if m == "make":
        res = attempt(lambda: Resources(**from_json(a)))
        if "ok" in res:
            # the property's own clause: malformed memory / time strings and exclusive combinations are rejected at construction
            if a.get("memory") is not None and mem(a["memory"][:-1] if a["memory"].endswith("\n") else a["memory"]) is None:
                bad.append(f"malformed memory string {a['memory']!r} accepted at construction")
            if a.get("time") is not None and dur(a["time"]) is None:
                bad.append(f"malformed wall-time string {a['time']!r} accepted at construction")
            if a.get("nodes") and a.get("cpus"):
                bad.append("nodes and cpus accepted together")
            if a.get("cpus_per_node") and not a.get("nodes"):
                bad.append("cpus_per_node accepted without nodes")
        return res, bad
    if m == "mem":
        try:
            f = Resources._convert_to_gb(a)
        except ValueError:
            return None, bad
        q = mem(a[:-1] if a.endswith("\n") else a)
        if q is None:
            return "impl-accepts-unparsed", bad
        if abs(Fraction(f) - q) > Fraction(1, 10**9) * max(q, Fraction(1, 10**30)):
            bad.append(f"_convert_to_gb({a!r}) = {f} is not the size {q} GB")
        return [q.numerator, q.denominator], bad
    if m == "time":
        ok = Resources._is_valid_wall_time(a)
        return (dur(a) if ok else None), bad
    if m == "combine_max":
        ops = [Resources(**from_json(x)) for x in a]
        before = copy.deepcopy([obs(o) for o in ops])
        res = attempt(lambda: Resources.combine_max(ops))
        if [obs(o) for o in ops] != before:
            bad.append("combine_max changed an operand")
        if "ok" in res:
            bad += combine_clauses(before, res["ok"])
        else:
            bad.append("combine_max raised on valid operands")
        return (res["ok"] if "ok" in res else res), bad
    if m == "with_defaults":
        s = Resources(**from_json(a["self"]))
        d = Resources(**from_json(a["default"])) if "default" in a else None
        before = copy.deepcopy((obs(s), obs(d) if d else None))
        res = attempt(lambda: s.with_defaults(d))
        if (obs(s), obs(d) if d else None) != before:
            bad.append("with_defaults changed an operand")
        if "ok" in res:
            bad += defaults_clauses(before[0], before[1] if d else None, res["ok"])
        return res, bad
    if m == "update":
        s = Resources(**from_json(a["self"]))
        before = copy.deepcopy(obs(s))
        kw = {k: (dict(v) if k == "extra_args" else v) for k, v in a["kw"]}
        res = attempt(lambda: s.update(**kw))
        after = obs(s)
        if after != before:
            bad.append("update changed its receiver")
        return {"result": res, "receiver_after": after}, bad
    if m == "dict_roundtrip":
        r = Resources(**from_json(a))
        res = attempt(lambda: Resources.from_dict(r.dict()))
        if "ok" not in res or Resources.from_dict(r.dict()) != r:
            bad.append("from_dict(r.dict()) != r")
        return res, bad
    if m == "slurm":
        r = Resources(**from_json(a))
        s = r.to_slurm_options()
        for f, flag in (("cpus", "--cpus-per-task="), ("gpus", "--gres=gpu:"), ("nodes", "--nodes="), ("cpus_per_node", "--cpus-per-node="),
                        ("memory", "--mem="), ("time", "--time="), ("partition", "--partition=")):
            v = getattr(r, f)
            if v and f"{flag}{v}" not in s.split(" "):
                bad.append(f"to_slurm_options does not mention {f}={v!r}")
        return s, bad
    raise AssertionError(m)


def nontrivial(case):
    m, a = case["m"], case["a"]
    if m == "heap":
        return c20_heap.nontrivial(a)
    if m == "nested":
        return any(c is not None for c in a["children"])
    if m == "pipeline_add":
        return a.get("default") is not None and any(f["res"] is not None for f in a["funcs"])
    if m == "combine_max":
        return any(any(x.get(f) is not None for f in ("cpus", "gpus", "memory", "time")) for x in a)
    if m in ("mem", "time"):
        return bool(a)
    if m == "update":
        return bool(a["kw"])
    if m == "with_defaults":
        return "default" in a
    return bool(a)


CORPUS = [
    {"m": "combine_max", "a": [{"time": "2:00:00"}, {"time": "10:00:00"}]},                       # DF-04
    {"m": "combine_max", "a": [{"time": "10:00:00"}, {"time": "2:00:00"}]},
    {"m": "combine_max", "a": [{"time": "59:59"}, {"time": "1:00:00"}]},
    {"m": "combine_max", "a": [{"time": "1:00:00:00"}, {"time": "23:59:59"}]},
    {"m": "combine_max", "a": [{"memory": "0GB"}]},                                                # DF-35
    {"m": "combine_max", "a": [{"memory": "0B"}, {"memory": "0KB", "cpus": 1}]},
    {"m": "update", "a": {"self": {"cpus": 1}, "kw": [["foo", 3]]}},                               # DF-05
    {"m": "update", "a": {"self": {"cpus": 1, "extra_args": [["x", 1]]}, "kw": [["x", 2], ["extra_args", [["w", 1]]]]}},
    {"m": "slurm", "a": {"gpus": 0, "cpus": 2}},                                                   # DF-21 reading
    {"m": "with_defaults", "a": {"self": {"cpus": 2}, "default": {"nodes": 1, "cpus_per_node": 2}}},
    # heap cases: two operands sharing one dict object, a new key arriving late (the shape of seeded change C20-s2-A)
    {"m": "heap", "a": {"dicts": [[["x", 1]], [["y", 2], ["x", 5]]],
                        "recs": [{"f": {"cpus": 1}, "ex": 0}, {"f": {"gpus": 2, "time": "10:00"}, "ex": 0}, {"f": {"cpus": 3}, "ex": 1}],
                        "op": {"k": "combine_max", "l": [0, 1, 2]}, "mut": {"on": "result", "k": "m", "v": 9}}},
    {"m": "heap", "a": {"dicts": [[], [["late", 1]]], "recs": [{"f": {"cpus": 1}, "ex": 0}, {"f": {"cpus": 2}, "ex": 1}],
                        "op": {"k": "combine_max", "l": [0, 1]}, "mut": {"on": "dict", "ref": 1, "k": "m", "v": 9}}},
    {"m": "heap", "a": {"dicts": [[["x", 1]]], "recs": [{"f": {"cpus": 1}, "ex": 0}],
                        "op": {"k": "update", "self": 0, "kw": [["extra_args", {"ref": 0}], ["z", 7], ["cpus", 2]]},
                        "mut": {"on": "dict", "ref": 0, "k": "m", "v": 9}}},
    {"m": "heap", "a": {"dicts": [[["x", 1]]], "recs": [{"f": {"cpus": 1}, "ex": 0}, {"f": {"gpus": 1}, "ex": 0}],
                        "op": {"k": "with_defaults", "self": 0, "default": 1}, "mut": {"on": "result", "k": "x", "v": 9}}},
    {"m": "heap", "a": {"dicts": [[["x", 1]]], "recs": [{"f": {"cpus": 1}, "ex": 0}],
                        "op": {"k": "with_defaults", "self": 0, "default": None}, "mut": {"on": "result", "k": "m", "v": 9}}},
    {"m": "heap", "a": {"dicts": [[["x", 1]]], "recs": [{"f": {"cpus": 1}, "ex": 0}],
                        "op": {"k": "from_dict", "f": {"cpus": 2}, "ex": 0}, "mut": {"on": "result", "k": "m", "v": 9}}},
    {"m": "heap", "a": {"dicts": [[["x", 1]]], "recs": [{"f": {"cpus": 1}, "ex": 0}],
                        "op": {"k": "dict", "self": 0}, "mut": {"on": "result", "k": "m", "v": 9}}},
    {"m": "heap", "a": {"dicts": [[["x", 1]]], "recs": [{"f": {"cpus": 1}, "ex": 0}],
                        "op": {"k": "dict_roundtrip", "self": 0}, "mut": {"on": "dict", "ref": 0, "k": "x", "v": 9}}},
    # resources of nested functions and pipeline defaults
    {"m": "nested", "a": {"given": None, "children": [{"inst": {"cpus": 1, "time": "10:00:00"}}, None, {"dict": {"cpus": 4, "time": "2:00:00"}}]}},
    {"m": "nested", "a": {"given": None, "children": [{"inst": {"cpus": 1}}, {"callable": {"cpus": 2}, "as": "inst"}]}},
    {"m": "nested", "a": {"given": {"callable": {"cpus": 2}, "as": "inst"}, "children": [{"inst": {"cpus": 1}}, None]}},
    {"m": "nested", "a": {"given": None, "children": [{"inst": {"nodes": 1, "cpus_per_node": 2}}, None]}},
    {"m": "nested", "a": {"given": None, "children": [None, None]}},
    {"m": "pipeline_add", "a": {"default": {"dict": {"cpus": 8, "memory": "1GB"}},
                                "funcs": [{"plain": False, "res": {"callable": {"cpus": 2}, "as": "dict"}}, {"plain": True, "res": None},
                                          {"plain": False, "res": {"inst": {"gpus": 1}}}, {"plain": False, "res": {"callable": {"nodes": 2}, "as": "inst"}}]}},
    {"m": "pipeline_add", "a": {"default": {"inst": {"cpus": 8}}, "funcs": [{"plain": False, "res": {"inst": {"nodes": 1}}}]}},
    {"m": "pipeline_add", "a": {"default": None, "funcs": [{"plain": False, "res": {"dict": {"cpus": 2}}}, {"plain": False, "res": None}]}},
]


def exclusive_objects(o):
    """The property's own clause on whatever the implementation hands back: every Resources object an operation returned was constructed, so none
    may carry a mutually exclusive combination (cpus with nodes; cpus_per_node without nodes) - whichever operation built it (constructor,
    from_dict, update, with_defaults, combine_max, nesting, pipeline defaults).  Observations are the `obs` dictionaries, at any depth."""
    out, todo = [], [o]
    while todo:
        x = todo.pop()
        if isinstance(x, dict):
            if {"cpus", "nodes", "cpus_per_node"} <= set(x):
                if x["nodes"] and x["cpus"]:
                    out.append(f"an operation returned a Resources object with nodes={x['nodes']} and cpus={x['cpus']} together (mutually exclusive)")
                if x["cpus_per_node"] and not x["nodes"]:
                    out.append(f"an operation returned a Resources object with cpus_per_node={x['cpus_per_node']} and no nodes")
            todo += list(x.values())
        elif isinstance(x, (list, tuple)):
            todo += list(x)
    return out[:2]


def check_cases(ctx, cases):
    reqs, impls = [], []
    for case in cases:
        if case["m"] == "combine_max" and near_tie(case["a"]):
            ctx.skip("mem-near-tie")
            continue
        if case["m"] == "nested" and near_tie(c20_pipe.operands_of(case)):
            ctx.skip("mem-near-tie")
            continue
        if case["m"] == "heap" and near_tie(c20_heap.operands_of(case["a"])):
            ctx.skip("mem-near-tie")
            continue
        if not all(ord(ch) < 128 for ch in str(case)):
            ctx.skip("non-ascii")
            continue
        try:
            o, bad = run_impl(case)
        except Exception as e:  # noqa: BLE001  the implementation raised where the harness expected it not to
            o, bad = {"err": exc_enum(e)}, [f"unexpected {type(e).__name__}: {e}"]
        bad = list(bad) + exclusive_objects(o)
        reqs.append({"m": case["m"], "a": case["a"]})
        impls.append((case, o, bad))
    outs = ctx.lean(reqs)
    for (case, o, bad), resp in zip(impls, outs):
        model = resp.get("r")
        ctx.count(f"op:{case['m']}")
        if case["m"] == "heap":
            c20_heap.counters(ctx, case["a"], o)
        if case["m"] in ("nested", "pipeline_add"):
            c20_pipe.counters(ctx, case, o)
        if isinstance(o, dict) and "err" in o:
            ctx.count(f"err:{case['m']}")
        ctx.record(case, nontrivial(case))
        if bad:
            ctx.violation(case, f"{bad[0]}", impl=o, model=model)
        elif o != model:
            ctx.violation(case, f"implementation and model disagree on {case['m']} (property clauses hold on this input)",
                          found_input=False, item=f"correspondence:{case['m']}", impl=o, model=model)


def pre_build(ctx):
    """Translator (secondary tie): regenerate the Lean facts from pipefunc/resources.py."""
    import c20_extract
    try:
        exps, mem_re, time_re = c20_extract.write()
        ctx.extra["translated_from_source"] = {"units": exps, "memory_regex": mem_re, "wall_time_regex": time_re}
    except Exception as e:  # noqa: BLE001   the source no longer has the shape the translator understands: a broken tie
        ctx.notes.append(f"translator failed: {type(e).__name__}: {e}")
        c20_extract.OUT.write_text("/- GENERATED stub: harness/c20_extract.py could not translate pipefunc/resources.py -/\n"
                                   "namespace PF.Generated.C20\ndef units : List (String × Int) := []\ndef memoryRegex : String := \"\"\n"
                                   "def wallTimeRegex : String := \"\"\nend PF.Generated.C20\n")


    import c20_heap_extract
    try:
        events, frozen, factory = c20_heap_extract.write()
        ctx.extra["translated_dict_object_events"] = {**events, "frozen_dataclass": frozen, "extra_args_default_factory_dict": factory}
    except Exception as e:  # noqa: BLE001   a broken tie, as above
        ctx.notes.append(f"heap-event translator failed: {type(e).__name__}: {e}")
        c20_heap_extract.write_stub()


def run(ctx):
    check_cases(ctx, [copy.deepcopy(c) for c in CORPUS])
    n = ctx.n(6000, 200000)
    batch = [make_case(ctx.rng) for _ in range(n)]
    check_cases(ctx, batch)


def replay(ctx, case):
    o, bad = run_impl(case)
    print("implementation:", o, "| failed clauses:", bad)
    print("model:", ctx.lean([{"m": case["m"], "a": case["a"]}])[0].get("r"))
