import PfModel.Props.C05Hist
import PfModel.Lemmas.ResumeParFail
/-!
C05 for pool runs in which a USER CALL RAISES: `PF.ResumeFS.runOnPF cfg sched fsched`.  In a pool the bodies submitted next to
the raising one still run, so a LATER element is stored while an earlier one failed — the stored set the run leaves is not a
prefix of the elements (the sequential runner stops at the raising call: `C05_raise`).  The theorems below say that whatever
subset of the other bodies ran, in whatever order, and wherever the process additionally died: the folder keeps the invariant,
nothing stored is lost, and the resumed run completes with the uninterrupted result calling ONLY the elements that are not
stored — every stored element is kept, in any pattern of stored / missing.
-/
namespace PF.C05
open PF PF.Map PF.ResumeFS

/-- **A pool run whose user call raises keeps the folder good and loses nothing** (repaired protocol, every storage mix, the
    call with any global submission index `cfg.failAt` raising, or none): for every scheduler `sched` of the generations before
    the failing one that runs the bodies in any order (`PermSched`) and every `fsched` that lets ANY selection of the bodies
    submitted next to the raising one run, in any order (`SubSched`: the raising body is cut down to its call, the parent dumps
    the single outputs of the functions in front of the failing one), from every folder satisfying the invariant:
    1. after every prefix of the events — the process additionally dying anywhere — the folder satisfies the invariant and
       every non-temporary file of the starting folder still exists;
    2. every SUBMITTED body is for an element that was not completely stored in the folder the run started on;
    3. the run returns the uninterrupted outputs (no call raised: the index is beyond the last call) or stops with the
       exception of the user function. -/
theorem C05_par_raise_keeps (cfg : Cfg) (hl : cfg.legacy = false) (sched fsched : Sched) (hsched : PermSched sched) (hfs : SubSched fsched)
    (fsd : List MFunc) (inputs : List (String × Val)) (ui : List (String × List Nat)) (r0 : MapResult)
    (h0 : runMap fsd inputs ui = .ok r0) (hnd : ((freshSlots fsd inputs ui).map (·.1)).Nodup)
    (fs : FS) (hg : Good fsd inputs ui fs) :
    (∀ k, Good fsd inputs ui (crashAt fs (runOnPF cfg sched fsched fs fsd inputs ui).evs k) ∧
          Mono fs (crashAt fs (runOnPF cfg sched fsched fs fsd inputs ui).evs k)) ∧
    (∀ c ∈ (runOnPF cfg sched fsched fs fsd inputs ui).calls, ∃ f ∈ (generations fsd).flatten, c.fn = f.name ∧ doneInC cfg fs f c.li = false) ∧
    ((∃ x, (runOnPF cfg sched fsched fs fsd inputs ui).res = .ok x ∧ x.outputs = r0.outputs) ∨
     (cfg.failAt ≠ none ∧ ∃ fn, (runOnPF cfg sched fsched fs fsd inputs ui).res = .error (.raised fn))) := by
  cases hfa : cfg.failAt with
  | none =>
    have e : runOnPF cfg sched fsched fs fsd inputs ui = runOnP cfg sched fs fsd inputs ui := by simp [runOnPF, hfa]
    rw [e]
    have := C05_par_resume_keeps cfg hl sched hsched fsd inputs ui r0 h0 hnd fs hg
    rw [hfa] at this
    exact this
  | some j =>
    obtain ⟨shapes, masks, rs, envF, hpre, hloop, hout⟩ := runMap_unfold fsd inputs ui r0 h0
    have hfresh : freshSlots fsd inputs ui = rs.flatMap (·.slots) := by simp [freshSlots, pfLoop, hpre, hloop]
    unfold Good at hg ⊢
    rw [hfresh] at hnd hg ⊢
    have hI : I (rightW (rs.flatMap (·.slots))) (akeys inputs) fs fs := I.start hg.1 hg.2
    have hW : ∀ p v, (∀ o li, p ≠ .cell o li) → (∀ o, p ≠ .single o) → (∀ o, p ≠ .dictArr o) → p.isTmp = false →
        rightW (rs.flatMap (·.slots)) p v := by
      intro p v h1 h2 h3 h4
      cases p with
      | cell o li => exact absurd rfl (h1 o li)
      | single o => exact absurd rfl (h2 o)
      | dictArr o => exact absurd rfl (h3 o)
      | tmp q => simp [Path.isTmp] at h4
      | _ => trivial
    have hcomp := compare_ok _ fs fs inputs hI
    have hdump := dumpAll_safe _ fs inputs hW fs hI
    have hIdump : I (rightW (rs.flatMap (·.slots))) (akeys inputs) fs (applyAll fs (dumpAllEvs false inputs)) := by
      have := hdump (dumpAllEvs false inputs).length
      rwa [crashAt_all _ _ _ (Nat.le_refl _)] at this
    obtain ⟨mem, hinit, hMem, hPlanMem, hinitS⟩ := initStore_spec (rightW (rs.flatMap (·.slots)))
      (I (rightW (rs.flatMap (·.slots))) (akeys inputs) fs) (fun d => safe_mkdirp _ _ _ d)
      (applyAll fs (dumpAllEvs false inputs)) hIdump.inv (storePlan cfg fsd)
    -- the plan of every generation is that of the configuration without a raising call
    have hl0 : ({ cfg with failAt := none } : Cfg).legacy = false := hl
    have hstep : ∀ env f r, f ∈ (generations fsd).flatten → runFuncWith opArray fsd shapes masks env f = .ok r →
        SlotsRight (rightW (rs.flatMap (·.slots))) r.slots →
        ∀ fs', I (rightW (rs.flatMap (·.slots))) (akeys inputs) fs fs' → ∀ nc,
          StepOk (rightW (rs.flatMap (·.slots))) (akeys inputs) fs { cfg with failAt := none } f r
            (stepFunc { cfg with failAt := none } fsd shapes masks mem env fs' nc f) := by
      intro env f r hf h1 h2 fs' h3 nc
      refine stepFunc_spec _ _ fs { cfg with failAt := none } hl0 fsd shapes masks mem env f r h1 h2 _ hIdump.mono hMem ?_ fs' h3 nc
      intro hm hdct o ho
      apply hPlanMem
      exact List.mem_flatMap.mpr ⟨f, List.mem_filter.mpr ⟨hf, hm⟩, List.mem_map.mpr ⟨o, ho, by
        have : isDictF cfg f = isDictF { cfg with failAt := none } f := rfl
        rw [this, hdct]⟩⟩
    have hSR : ∀ r ∈ rs, SlotsRight (rightW (rs.flatMap (·.slots))) r.slots := fun r hr =>
      slotsRight_of_nodup _ _ hnd fun e he => List.mem_flatMap.mpr ⟨r, hr, he⟩
    obtain ⟨L1, L2, L3⟩ := runGensPF_spec _ _ fs { cfg with failAt := none } rfl _ _ sched fsched hsched hfs j
      (fun f => f ∈ (generations fsd).flatten) hstep (generations fsd) 0
      { inputs := inputs, store := [] } rs envF
      (applyAll (applyAll fs (dumpAllEvs false inputs)) (initStore false (applyAll fs (dumpAllEvs false inputs)) (storePlan cfg fsd)).evs) 0
      (fun f hf => hf) hloop hSR (hinitS.final _ hIdump)
    obtain ⟨_, hwk, hstore⟩ := runGensWith_slots _ (fun env f r h => runFuncWith_slots fsd shapes masks env f r h) _ _ rs envF hloop
    have hpersist : Safe (I (rightW (rs.flatMap (·.slots))) (akeys inputs) fs) (persistEvs false envF.store (storePlan cfg fsd)) := by
      apply persist_safe
      intro o sh mk cells hlk
      rw [hstore] at hlk
      have hm : (o, Slot.array sh mk cells) ∈ rs.flatMap (·.slots) := alookup_some_mem _ _ _ (by simpa using hlk)
      exact ⟨_, hm, rfl, hwk o sh mk cells hm⟩
    have L2 := (fun (X : LOut) (h : ∀ c ∈ X.calls, ∃ f ∈ (generations fsd).flatten, c.fn = f.name ∧
        doneInC { cfg with failAt := none } fs f c.li = false) =>
      (h : ∀ c ∈ X.calls, ∃ f ∈ (generations fsd).flatten, c.fn = f.name ∧ doneInC cfg fs f c.li = false)) _ L2
    simp only [hl] at L1 L2 L3
    have hev := prefix_then_safe (prefix_then_safe hdump hinitS) L1
    simp only [runOnPF, hfa, hpre, hl, hcomp, List.nil_append, hinit]
    rcases L3 with ⟨rs', hres, ho⟩ | ⟨fn, hres⟩
    · simp only [hres]
      have hev2 := prefix_then_safe hev hpersist
      exact ⟨fun k => ⟨⟨(hev2 k).inv, (hev2 k).metaOk⟩, (hev2 k).mono⟩, L2, Or.inl ⟨_, rfl, by rw [hout, ← ho]⟩⟩
    · simp only [hres]
      exact ⟨fun k => ⟨⟨(hev k).inv, (hev k).metaOk⟩, (hev k).mono⟩, L2, Or.inr ⟨by simp, fn, rfl⟩⟩

/-- **A user call raises in a pool run (and the process may additionally die anywhere), then resume** — the folder left after
    `k` events of `runOnPF` (all of them: the folder the failing run leaves behind, with later elements stored next to the
    failed one) resumes, under any storage configuration of the repaired protocol, to exactly the uninterrupted outputs, and
    the resumed run calls a user function only for elements that are not completely stored in that folder — every stored
    element is kept, whatever the pattern of stored and missing elements is. -/
theorem C05_par_raise_then_resume (cfg cfg' : Cfg) (hl : cfg.legacy = false) (hl' : cfg'.legacy = false) (hf : cfg'.failAt = none)
    (sched fsched : Sched) (hsched : PermSched sched) (hfs : SubSched fsched)
    (fsd : List MFunc) (inputs : List (String × Val)) (ui : List (String × List Nat)) (r0 : MapResult)
    (h0 : runMap fsd inputs ui = .ok r0) (hnd : ((freshSlots fsd inputs ui).map (·.1)).Nodup)
    (fs : FS) (hg : Good fsd inputs ui fs) (k : Nat) :
    (∃ x, (runOn cfg' (crashAt fs (runOnPF cfg sched fsched fs fsd inputs ui).evs k) fsd inputs ui).res = .ok x ∧ x.outputs = r0.outputs) ∧
    (∀ c ∈ (runOn cfg' (crashAt fs (runOnPF cfg sched fsched fs fsd inputs ui).evs k) fsd inputs ui).calls,
      ∃ f ∈ (generations fsd).flatten, c.fn = f.name ∧
        doneInC cfg' (crashAt fs (runOnPF cfg sched fsched fs fsd inputs ui).evs k) f c.li = false ∧ doneInC cfg' fs f c.li = false) := by
  obtain ⟨a, _, _⟩ := C05_par_raise_keeps cfg hl sched fsched hsched hfs fsd inputs ui r0 h0 hnd fs hg
  obtain ⟨hg', hm⟩ := a k
  obtain ⟨_, b, c⟩ := C05_resume cfg' hl' fsd inputs ui r0 h0 hnd _ hg'
  refine ⟨?_, fun x hx => ?_⟩
  · rcases c with c | ⟨hne, _⟩
    · exact c
    · exact absurd hf hne
  · obtain ⟨f, hf', hn, hd⟩ := b x hx
    exact ⟨f, hf', hn, hd, doneInC_mono cfg' fs _ f x.li hm hd⟩

/-- the same over any further history of interrupted runs (sequential or pool, `Later`): what the failing pool run left stored
    — in particular the later elements stored next to the failed one — is not recomputed by any run any number of
    interruptions later, and that run completes with the uninterrupted outputs -/
theorem C05_par_raise_history (cfg cfg' : Cfg) (hl : cfg.legacy = false) (hl' : cfg'.legacy = false)
    (sched fsched : Sched) (hsched : PermSched sched) (hfs : SubSched fsched)
    (fsd : List MFunc) (inputs : List (String × Val)) (ui : List (String × List Nat)) (r0 : MapResult)
    (h0 : runMap fsd inputs ui = .ok r0) (hnd : ((freshSlots fsd inputs ui).map (·.1)).Nodup)
    (fs : FS) (hg : Good fsd inputs ui fs) (k : Nat) (fs' : FS)
    (hlater : Later fsd inputs ui (crashAt fs (runOnPF cfg sched fsched fs fsd inputs ui).evs k) fs') :
    (∀ c ∈ (runOn cfg' fs' fsd inputs ui).calls, ∃ f ∈ (generations fsd).flatten, c.fn = f.name ∧
      doneInC cfg' (crashAt fs (runOnPF cfg sched fsched fs fsd inputs ui).evs k) f c.li = false) ∧
    (cfg'.failAt = none → ∃ x, (runOn cfg' fs' fsd inputs ui).res = .ok x ∧ x.outputs = r0.outputs) := by
  obtain ⟨a, _, _⟩ := C05_par_raise_keeps cfg hl sched fsched hsched hfs fsd inputs ui r0 h0 hnd fs hg
  exact C05_history_no_recompute cfg' hl' fsd inputs ui r0 h0 hnd _ fs' (a k).1 hlater

/-! ### non-vacuity -/

/-- three elements -/
def inp3 : List (String × Val) := [("x", .arr [3] [.int 1, .int 2, .int 3])]

/-- the schedulers of the driver satisfy the hypotheses; all bodies in submission order does too -/
example (orders : List (List Nat)) : SubSched (pickSched orders) := pickSched_sub orders
example : SubSched seqSched := fun _ bs _ => ⟨bs, fun _ h => h, rfl⟩

/-- `x[i] -> y[i]` on three elements + reduction, pool run, the call for element 0 raises while the bodies of elements 2 and 1
    run (in that order): the run stops with the exception of `f`; elements 1 and 2 are stored, element 0 is not — the stored
    set {1, 2} is not a prefix; the resumed run calls `f` for element 0 only, then `g`, and completes -/
example : resErr (runOnPF { failAt := some 0 } seqSched (pickSched [[2, 0, 1]]) FS.empty [fY, gZ] inp3 []) = some (.raised "f") ∧
    (let left := applyAll FS.empty (runOnPF { failAt := some 0 } seqSched (pickSched [[2, 0, 1]]) FS.empty [fY, gZ] inp3 []).evs
     (doneInC {} left fY 0, doneInC {} left fY 1, doneInC {} left fY 2) = (false, true, true) ∧
     ((runOn {} left [fY, gZ] inp3 []).calls.map fun c => (c.fn, c.li)) = [("f", 0), ("g", 0)] ∧
     resErr (runOn {} left [fY, gZ] inp3 []) = none) := by decide

/-- the hypotheses of the theorems hold for that pipeline -/
example : (runMap [fY, gZ] inp3 []).toOption.isSome = true ∧ ((freshSlots [fY, gZ] inp3 []).map (·.1)).Nodup := by decide

/-- a pool that cancels what had not started (only body 2 ran next to the raising body 1): element 2 stored, 0 and 1 not -/
example : (let left := applyAll FS.empty (runOnPF { failAt := some 1 } seqSched (pickSched [[2, 1]]) FS.empty [fY, gZ] inp3 []).evs
     ((runOn {} left [fY, gZ] inp3 []).calls.map fun c => (c.fn, c.li)) = [("f", 0), ("f", 1), ("g", 0)]) := by decide

end PF.C05
